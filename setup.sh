#!/bin/bash
# Builds the whole Coq development once (offline) so that the per-property checks start warm.
# Every ./check regenerates Gen/ from /repo's working tree and rebuilds what changed anyway.
cd "$(dirname "$0")"
export PYTHONPATH=/repo PYTHONHASHSEED=0 PYTHONDONTWRITEBYTECODE=1
mkdir -p coq/Gen evidence
/opt/veriftools/pyvenv/bin/python - <<'PY'
import sys
sys.path.insert(0, "tools")
import vlib
try:
    with vlib.Lock():
        vlib.regen()
        rc, out = vlib.sh("make -k -j16", cwd=vlib.COQ, timeout=3400)
        print(out[-1500:])
        print("setup: make exit", rc)
except vlib.Broken as b:
    print("setup: model not built:", b, b.detail[:1000])
PY
exit 0
