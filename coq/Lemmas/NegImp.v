(* NegImp.v — negate is the exact complement (C04); implies is sound (C05a), complete on the
   listed atom pairs over the dense order Q (C05b), and recognises the three fixed patterns (C05c).
   All statements are about the GENERATED Gen/Negate.v and Gen/Implies.v. *)
From Coq Require Import QArith Lqa Bool List Arith String Lia.
From PP Require Import Prelude.Base Prelude.Val Prelude.Pred Prelude.Sem Gen.Negate Gen.Implies Lemmas.PeqFacts.
Import ListNotations.

Ltac sc x := destruct x; cbn in *; try discriminate; try reflexivity; qreflect.

Lemma negate_defined W p x : defined W (negate p) x = defined W p x.
Proof. destruct p; reflexivity. Qed.

Lemma negate_sound W p x : defined W p x = true -> beval W (negate p) x = negb (beval W p x).
Proof.
  destruct p; cbn; intros H; try reflexivity; try (now rewrite negb_involutive).
  all: try (destruct (items_of x); reflexivity).
  all: sc x.
Qed.

Theorem negate_complement W p x :
  defined W p x = true -> defined W (negate p) x = true /\ beval W (negate p) x = negb (beval W p x).
Proof. intros H. split; [rewrite negate_defined; exact H|apply negate_sound; exact H]. Qed.

(* Python's own evaluation: negate(p)(x) returns `not p(x)` and does not raise *)
Corollary negate_complement_ev W p x :
  defined W p x = true -> ev W (negate p) x = option_map negb (ev W p x).
Proof.
  intros H. rewrite (ev_defined W p x H). rewrite (ev_defined W (negate p) x); [|rewrite negate_defined; exact H].
  cbn. f_equal. apply negate_sound; exact H.
Qed.

(* applying negate twice gives back the meaning of p (not necessarily the same object: negate(negate(is_int_p)) is ~~is_int_p unwrapped) *)
Corollary negate_negate W p x :
  defined W p x = true ->
  defined W (negate (negate p)) x = true /\ beval W (negate (negate p)) x = beval W p x.
Proof.
  intros H. destruct (negate_complement W p x H) as [H1 H2].
  destruct (negate_complement W (negate p) x H1) as [H3 H4].
  split; [exact H3|]. rewrite H4, H2. apply negb_involutive.
Qed.

(* p and negate(p) are never both true and never both false: they partition the domain of p *)
Corollary negate_partition W p x :
  defined W p x = true -> xorb (beval W p x) (beval W (negate p) x) = true.
Proof.
  intros H. destruct (negate_complement W p x H) as [_ H2]. rewrite H2. destruct (beval W p x); reflexivity.
Qed.

(* negate never returns a double negation it could have unwrapped, and is an involution up to == on duals *)
Lemma negate_not p : negate (PNot p) = p. Proof. reflexivity. Qed.

(* ---------------- implies ---------------- *)
Ltac inv_all :=
  repeat first
  [ inv_proj1
  | match goal with
    | H : Some _ = Some _ |- _ => injection H as H; subst
    | H : None = Some _ |- _ => discriminate H
    | H : Some _ = None |- _ => discriminate H
    | p : (_ * _)%type |- _ => destruct p
    end ]; subst.

Theorem implies_sound W p q :
  implies p q = true -> forall x, defined W p x = true -> defined W q x = true ->
  beval W p x = true -> beval W q x = true.
Proof.
  unfold implies. intros H x Dp Dq Hp.
  repeat match type of H with
  | match ?m with _ => _ end = true => destruct m eqn:?; inv_all
  end; try discriminate H; cbn in Hp |- *; try discriminate Hp.
  all: first
    [ solve [ rewrite (peq_beval W q PTrue x H); reflexivity ]
    | solve [ apply andb_true_iff in Hp as [H1 H2]; apply orb_true_iff in H as [H|H];
              rewrite (peq_beval W _ _ x H); assumption ]
    | solve [ apply andb_true_iff in Hp as [H1 _]; rewrite <- (vsubset_set_eq _ _ _ H); exact H1 ]
    | solve [ apply andb_true_iff in Hp as [H1 _]; rewrite <- (vsuperset_set_eq _ _ _ H); exact H1 ]
    | solve [ destruct x; cbn in *; try discriminate; rewrite (mem_eqb _ _ _ Hp); exact H ]
    | solve [ destruct x; cbn in *; try discriminate; apply (subseteq_mem _ _ _ H Hp) ]
    | solve [ sc x ] ].
Qed.

(* C05c: the three patterns it always recognises *)
Lemma implies_false q : implies PFalse q = true. Proof. reflexivity. Qed.
Lemma implies_and_left l r : implies (PAnd l r) l = true.
Proof. unfold implies. cbn. now rewrite peq_refl. Qed.
Lemma implies_and_right l r : implies (PAnd l r) r = true.
Proof. unfold implies. cbn. now rewrite peq_refl, orb_true_r. Qed.
Lemma implies_real_subset s : implies (PRealSubset s) (PSubset s) = true.
Proof. unfold implies. cbn. apply set_eq_refl. Qed.
Lemma implies_real_superset s : implies (PRealSuperset s) (PSuperset s) = true.
Proof. unfold implies. cbn. apply set_eq_refl. Qed.

(* C05b: completeness on the pairs it understands, for x ranging over the dense unbounded order Q *)
Definition entails W (a b : pred) := forall q k t, beval W a (VQ k q t) = true -> beval W b (VQ k q t) = true.

Ltac use H q0 := specialize (H q0 KInt true); cbn in H.

Lemma complete_ge_ge W a b : entails W (PGe a) (PGe b) -> implies (PGe a) (PGe b) = true.
Proof. intros H. unfold implies; cbn. use H a. qreflect. Qed.
Lemma complete_ge_gt W a b : entails W (PGe a) (PGt b) -> implies (PGe a) (PGt b) = true.
Proof. intros H. unfold implies; cbn. use H a. qreflect. Qed.
Lemma complete_gt_gt W a b : entails W (PGt a) (PGt b) -> implies (PGt a) (PGt b) = true.
Proof.
  intros H. unfold implies; cbn. destruct (Qle_bool_reflect b a); [reflexivity|]. exfalso.
  use H ((a + b) / 2).
  assert (a < (a + b) / 2) by (apply Qlt_shift_div_l; lra).
  assert ((a + b) / 2 < b) by (apply Qlt_shift_div_r; lra).
  qreflect.
Qed.
Lemma complete_gt_ge W a b : entails W (PGt a) (PGe b) -> implies (PGt a) (PGe b) = true.
Proof.
  intros H. unfold implies; cbn. destruct (Qle_bool_reflect b a); [reflexivity|]. exfalso.
  use H ((a + b) / 2).
  assert (a < (a + b) / 2) by (apply Qlt_shift_div_l; lra).
  assert ((a + b) / 2 < b) by (apply Qlt_shift_div_r; lra).
  qreflect.
Qed.
Lemma complete_eq_eq W a b : entails W (PEq a) (PEq b) -> implies (PEq a) (PEq b) = true.
Proof. intros H. unfold implies; cbn. use H a. rewrite Qeq_bool_refl' in H. auto. Qed.
Lemma complete_eq_ne W a b : entails W (PEq a) (PNe b) -> implies (PEq a) (PNe b) = true.
Proof. intros H. unfold implies; cbn. use H a. rewrite Qeq_bool_refl' in H. auto. Qed.
Lemma complete_eq_ge W a b : entails W (PEq a) (PGe b) -> implies (PEq a) (PGe b) = true.
Proof. intros H. unfold implies; cbn. use H a. rewrite Qeq_bool_refl' in H. auto. Qed.
Lemma complete_eq_gt W a b : entails W (PEq a) (PGt b) -> implies (PEq a) (PGt b) = true.
Proof. intros H. unfold implies; cbn. use H a. rewrite Qeq_bool_refl' in H. auto. Qed.
Lemma complete_eq_in W a s : entails W (PEq a) (PIn s) -> implies (PEq a) (PIn s) = true.
Proof. intros H. unfold implies; cbn. use H a. rewrite Qeq_bool_refl' in H. auto. Qed.
Lemma complete_eq_notin W a s : entails W (PEq a) (PNotIn s) -> implies (PEq a) (PNotIn s) = true.
Proof. intros H. unfold implies; cbn. use H a. rewrite Qeq_bool_refl' in H. auto. Qed.
Lemma complete_in_in W s t : entails W (PIn s) (PIn t) -> implies (PIn s) (PIn t) = true.
Proof.
  intros H. unfold implies; cbn. apply subseteq_spec. intros x Hx. use H x. auto.
Qed.

(* non-vacuity: the entailment premises are satisfiable and implies does say False when it should *)
Example implies_nonvacuous :
  implies (PGe 3) (PGt 2) = true /\ implies (PGe 2) (PGt 2) = false /\ implies (PGt 2) (PGe 3) = false
  /\ implies (PIn [1; 2]) (PIn [2; 1; 5]) = true /\ implies (PIn [1; 7]) (PIn [2; 1; 5]) = false.
Proof. vm_compute. repeat split. Qed.
