(* TermMain.v — termination of every optimizer entry point, by induction on the budget. *)
From Coq Require Import QArith Bool List Arith String Lia.
From PP Require Import Prelude.Base Prelude.Val Prelude.Pred Prelude.Sem Gen.Negate Gen.Implies Gen.Optimize Lemmas.OptBase Lemmas.Term.
Import ListNotations.
Close Scope Q_scope.
Open Scope nat_scope.

Lemma t_optimize W fuel : IHt W fuel -> forall p, R_o p <= S fuel -> ok (Post p) (optimize W (S fuel) p).
Proof. intros IHs p HR. cbn [optimize]. twalk IHs. all: post. Qed.
Lemma t_all W fuel : IHt W fuel -> forall p, is_All p = true -> R_u p <= S fuel -> ok (Post p) (optimize_all_predicate W (S fuel) p).
Proof. intros IHs p Hc HR. destruct p; try discriminate Hc. cbn [optimize_all_predicate as_All]. twalk IHs. all: post. Qed.
Lemma t_any W fuel : IHt W fuel -> forall p, is_Any p = true -> R_u p <= S fuel -> ok (Post p) (optimize_any_predicate W (S fuel) p).
Proof. intros IHs p Hc HR. destruct p; try discriminate Hc. cbn [optimize_any_predicate as_Any]. twalk IHs. all: post. Qed.
Lemma t_not W fuel : IHt W fuel -> forall p, is_Not p = true -> R_u p <= S fuel -> ok (Post p) (optimize_not_predicate W (S fuel) p).
Proof. intros IHs p Hc HR. destruct p; try discriminate Hc. cbn [optimize_not_predicate as_Not]. twalk IHs. all: post. Qed.
Lemma t_and W fuel : IHt W fuel -> forall p, is_And p = true -> R_a p <= S fuel -> ok (Post p) (optimize_and_predicate W (S fuel) p).
Proof. intros IHs p Hc HR. destruct p; try discriminate Hc. cbn [optimize_and_predicate as_And]. twalk IHs. all: post. Qed.
Lemma t_or W fuel : IHt W fuel -> forall p, is_Or p = true -> R_u p <= S fuel -> ok (Post p) (optimize_or_predicate W (S fuel) p).
Proof. intros IHs p Hc HR. destruct p; try discriminate Hc. cbn [optimize_or_predicate as_Or]. twalk IHs. all: post. Qed.
Lemma t_xor W fuel : IHt W fuel -> forall p, is_Xor p = true -> R_x p <= S fuel -> ok (Post p) (optimize_xor_predicate W (S fuel) p).
Proof. intros IHs p Hc HR. destruct p; try discriminate Hc. cbn [optimize_xor_predicate as_Xor]. twalk IHs. all: post. Qed.

Theorem optimize_total_all W : forall fuel, IHt W fuel.
Proof.
  induction fuel as [|fuel IHf].
  - unfold IHt; repeat match goal with |- _ /\ _ => split end; intros p; intros; exfalso;
      pose proof (w_pos p); unfold R_o, R_u, R_a, R_x, bonus_a, bonus_x in *;
      repeat match goal with H : context [match ?x with _ => _ end] |- _ => destruct x end; lia.
  - unfold IHt; repeat match goal with |- _ /\ _ => split end.
    + apply t_optimize; exact IHf.
    + apply t_all; exact IHf.
    + apply t_any; exact IHf.
    + apply t_not; exact IHf.
    + apply t_and; exact IHf.
    + apply t_or; exact IHf.
    + apply t_xor; exact IHf.
Qed.

(* optimize returns a predicate (no exception, no unbounded recursion) within a recursion budget that is
   linear in the size of the tree, and the result is no heavier than the input *)
Corollary optimize_terminates W p :
  exists q tr, optimize W (4 * w p + 3) p = Ok q tr /\ w q <= w p.
Proof.
  destruct (proj1 (optimize_total_all W (4 * w p + 3)) p) as (q & tr & E & H & _); [unfold R_o; lia|]. eauto.
Qed.


(* a concrete world for the non-vacuity example *)
Definition W_ex_t : world := {|
  env := fun _ => false; isinst := fun _ _ => false; fn_sem := fun _ _ => Some true; comp_sem := fun _ x => Some x;
  regex_sem := fun _ _ _ => None; lazy_sem := fun _ _ => None; self_sem := fun _ _ => None |}.
