(* ToJson.v — HAND-WRITTEN model of predicate/formatter/format_json.py (`to_json`) and the proofs of C18.

   The code is one `match` on the node's class inside `to_value`, returning a (key, value) pair, and
   `to_json(p) = dict([to_value(p)])`.  The model follows it line by line:

     to_value fname cj p : string * json        (one branch per `case`, same order; `case _` = last branch)
     to_json_with fname cj p = JObj [to_value fname cj p]

   * `fname : nat -> string` is an ordinary ARGUMENT: the name of function number f, i.e. what
     `getattr(fn, "__name__", type(fn).__name__)` returns.  Every theorem holds for every naming.
   * `cj : Q -> json` is an ordinary ARGUMENT too: how the raw constant of ne_p sits inside the dictionary
     (the code stores the constant itself: `{"v": v}`).  `to_json fname = to_json_with fname JNum` is the
     instance for numeric constants; "serialisable whenever the constants are" is proved for every `cj`.
   * `JOpaque n` stands for a Python object json.dumps refuses (a function, a set, a predicate ...): the model of
     "not serialisable".  to_json itself never produces one.

   The tie to /repo is checked on every run by tools/props/c18.py: source fingerprint of format_json.py (and the
   field order of the 14 matched classes) + execution of this model next to the real to_json. *)
From Coq Require Import QArith Bool List String Arith Lia.
From PP Require Import Prelude.Base Prelude.Pred.
Import ListNotations.
Close Scope Q_scope.
Open Scope string_scope.

(* ------------------------------------------------------------------------------------------------ *)
(* JSON values (Python: None, bool, str, number, dict with string keys in insertion order, other)   *)
(* ------------------------------------------------------------------------------------------------ *)
Inductive json : Type :=
| JNull
| JBool (b : bool)
| JStr (s : string)
| JNum (q : Q)
| JObj (members : list (string * json))
| JOpaque (n : nat).

(* induction principle that reaches the members of an object *)
Fixpoint json_ind' (P : json -> Prop)
    (Hnull : P JNull) (Hbool : forall b, P (JBool b)) (Hstr : forall s, P (JStr s))
    (Hnum : forall q, P (JNum q)) (Hopq : forall n, P (JOpaque n))
    (Hobj : forall ms, Forall (fun kv => P (snd kv)) ms -> P (JObj ms))
    (j : json) {struct j} : P j :=
  match j with
  | JNull => Hnull
  | JBool b => Hbool b
  | JStr s => Hstr s
  | JNum q => Hnum q
  | JOpaque n => Hopq n
  | JObj ms =>
      Hobj ms ((fix go (l : list (string * json)) : Forall (fun kv => P (snd kv)) l :=
                  match l with
                  | [] => Forall_nil _
                  | kv :: r =>
                      Forall_cons kv
                        (match kv as kv0 return P (snd kv0) with
                         | (k, v) => json_ind' P Hnull Hbool Hstr Hnum Hopq Hobj v
                         end)
                        (go r)
                  end) ms)
  end.

(* structural (not Qeq) equality of constants: the harness writes the same numeral on both sides *)
Definition qeqb (a b : Q) : bool := Z.eqb (Qnum a) (Qnum b) && Pos.eqb (Qden a) (Qden b).
Lemma qeqb_eq a b : qeqb a b = true <-> a = b.
Proof.
  destruct a as [an ad], b as [bn bd]; unfold qeqb; cbn.
  rewrite andb_true_iff, Z.eqb_eq, Pos.eqb_eq. split.
  - intros [-> ->]; reflexivity.
  - intros H; injection H; auto.
Qed.

Definition members_eqb (eqv : json -> json -> bool) : list (string * json) -> list (string * json) -> bool :=
  fix go (xs ys : list (string * json)) {struct xs} : bool :=
    match xs, ys with
    | [], [] => true
    | (k, v) :: xs', (k', v') :: ys' => String.eqb k k' && eqv v v' && go xs' ys'
    | _, _ => false
    end.

(* decidable equality of JSON values, ORDER of the members included (Python dicts keep insertion order) *)
Fixpoint json_eqb (a b : json) {struct a} : bool :=
  match a, b with
  | JNull, JNull => true
  | JBool x, JBool y => Bool.eqb x y
  | JStr x, JStr y => String.eqb x y
  | JNum x, JNum y => qeqb x y
  | JOpaque x, JOpaque y => Nat.eqb x y
  | JObj xs, JObj ys => members_eqb json_eqb xs ys
  | _, _ => false
  end.

Lemma json_eqb_eq : forall a b, json_eqb a b = true <-> a = b.
Proof.
  induction a using json_ind'; intros j; destruct j; cbn [json_eqb]; try (split; [discriminate | congruence]).
  - split; reflexivity.
  - rewrite Bool.eqb_true_iff. split; congruence.
  - rewrite String.eqb_eq. split; congruence.
  - rewrite qeqb_eq. split; congruence.
  - rewrite Nat.eqb_eq. split; congruence.
  - rename members into ys. revert ys.
    induction H as [|[k v] xs Hv _ IH]; intros [|[k' v'] ys]; cbn [members_eqb]; try (split; [discriminate | congruence]).
    + split; reflexivity.
    + cbn [snd] in Hv. rewrite !andb_true_iff, String.eqb_eq, Hv, IH. split.
      * intros [[-> ->] E]. injection E as ->. reflexivity.
      * intros E. injection E as -> -> ->. auto.
Qed.

Lemma json_eqb_refl a : json_eqb a a = true.
Proof. apply json_eqb_eq. reflexivity. Qed.

(* json.dumps accepts the value: no opaque object anywhere (keys are strings by construction) *)
Fixpoint serialisable (j : json) : bool :=
  match j with
  | JOpaque _ => false
  | JObj ms => forallb (fun kv => serialisable (snd kv)) ms
  | _ => true
  end.

(* ------------------------------------------------------------------------------------------------ *)
(* The model of format_json.py                                                                      *)
(* ------------------------------------------------------------------------------------------------ *)
Fixpoint to_value (fname : nat -> string) (cj : Q -> json) (p : pred) {struct p} : string * json :=
  match p with
  | PAll q => ("all", JObj [("predicate", JObj [to_value fname cj q])])
  | PFalse => ("false", JBool false)
  | PTrue => ("true", JBool true)
  | PAnd l r => ("and", JObj [("left", JObj [to_value fname cj l]); ("right", JObj [to_value fname cj r])])
  | PAny q => ("any", JObj [("predicate", JObj [to_value fname cj q])])
  | PFn f => ("fn", JObj [("name", JStr (fname f))])
  | PIsFalsy => ("is_falsy", JNull)
  | PNamed n => ("variable", JStr n)
  | PIsTruthy => ("is_truthy", JNull)
  | PNe c => ("ne", JObj [("v", cj c)])
  | PNot q => ("not", JObj [("predicate", JObj [to_value fname cj q])])
  | POr l r => ("or", JObj [("left", JObj [to_value fname cj l]); ("right", JObj [to_value fname cj r])])
  | PTee _ => ("tee", JNull)
  | PXor l r => ("xor", JObj [("left", JObj [to_value fname cj l]); ("right", JObj [to_value fname cj r])])
  | _ => ("unknown", JObj [])
  end.

Definition to_json_with (fname : nat -> string) (cj : Q -> json) (p : pred) : json := JObj [to_value fname cj p].
Definition to_json (fname : nat -> string) (p : pred) : json := to_json_with fname JNum p.

(* ------------------------------------------------------------------------------------------------ *)
(* Specification side: the name of a node's kind, the keys that exist, the connective skeleton      *)
(* ------------------------------------------------------------------------------------------------ *)
Definition kind_key (p : pred) : string :=
  match p with
  | PTrue => "true" | PFalse => "false" | PNamed _ => "variable" | PFn _ => "fn"
  | PAnd _ _ => "and" | POr _ _ => "or" | PXor _ _ => "xor" | PNot _ => "not"
  | PNe _ => "ne" | PIsFalsy => "is_falsy" | PIsTruthy => "is_truthy"
  | PAll _ => "all" | PAny _ => "any" | PTee _ => "tee"
  | _ => "unknown"
  end.

Definition known_keys : list string :=
  ["all"; "false"; "true"; "and"; "any"; "fn"; "is_falsy"; "variable"; "is_truthy"; "ne"; "not"; "or"; "tee"; "xor"; "unknown"].

(* what is left of a predicate when everything but the connective structure, the operand order and the
   kinds of the leaves is forgotten.  A node of a kind without rendering is a leaf "unknown". *)
Inductive skel : Type :=
| SLeaf (k : string)
| SUn (k : string) (s : skel)
| SBin (k : string) (l r : skel).

Fixpoint skeleton (p : pred) : skel :=
  match p with
  | PAnd l r => SBin "and" (skeleton l) (skeleton r)
  | POr l r => SBin "or" (skeleton l) (skeleton r)
  | PXor l r => SBin "xor" (skeleton l) (skeleton r)
  | PNot q => SUn "not" (skeleton q)
  | PAll q => SUn "all" (skeleton q)
  | PAny q => SUn "any" (skeleton q)
  | _ => SLeaf (kind_key p)
  end.

(* nesting depth of a predicate over the rendered connectives *)
Fixpoint pdepth (p : pred) : nat :=
  match p with
  | PAnd l r | POr l r | PXor l r => S (Nat.max (pdepth l) (pdepth r))
  | PNot q | PAll q | PAny q => S (pdepth q)
  | _ => 1
  end.

Definition is_bin_key (k : string) : bool := String.eqb k "and" || String.eqb k "or" || String.eqb k "xor".
Definition is_un_key (k : string) : bool := String.eqb k "not" || String.eqb k "all" || String.eqb k "any".
Definition is_leaf_key (k : string) : bool :=
  existsb (String.eqb k) ["false"; "true"; "fn"; "is_falsy"; "variable"; "is_truthy"; "ne"; "tee"; "unknown"].

(* DECODER, defined on JSON values alone: reads the connective structure back from a dictionary.
   None when the value is not of the documented form (several keys, unknown key, missing/misordered
   "left"/"right"/"predicate" entries, a non-dictionary). *)
Fixpoint shape (j : json) {struct j} : option skel :=
  match j with
  | JObj [(k, v)] =>
      if is_bin_key k then
        match v with
        | JObj [(kl, a); (kr, b)] =>
            if String.eqb kl "left" && String.eqb kr "right" then
              match shape a, shape b with
              | Some x, Some y => Some (SBin k x y)
              | _, _ => None
              end
            else None
        | _ => None
        end
      else if is_un_key k then
        match v with
        | JObj [(kp, a)] =>
            if String.eqb kp "predicate" then
              match shape a with Some x => Some (SUn k x) | None => None end
            else None
        | _ => None
        end
      else if is_leaf_key k then Some (SLeaf k)
      else None
  | _ => None
  end.

Fixpoint sdepth (s : skel) : nat :=
  match s with
  | SLeaf _ => 1
  | SUn _ x => S (sdepth x)
  | SBin _ x y => S (Nat.max (sdepth x) (sdepth y))
  end.

(* nesting depth read off a dictionary (0 when it is not of the documented form) *)
Definition jnest (j : json) : nat := match shape j with Some s => sdepth s | None => 0 end.

(* ------------------------------------------------------------------------------------------------ *)
(* (1) totality + exactly one key, which names the root's kind                                      *)
(* ------------------------------------------------------------------------------------------------ *)
Lemma to_value_key fname cj p : fst (to_value fname cj p) = kind_key p.
Proof. destruct p; reflexivity. Qed.

Theorem to_json_single_key : forall fname cj p,
  exists k v, to_json_with fname cj p = JObj [(k, v)] /\ k = kind_key p.
Proof.
  intros fname cj p. exists (fst (to_value fname cj p)), (snd (to_value fname cj p)).
  split; [unfold to_json_with; destruct (to_value fname cj p); reflexivity | apply to_value_key].
Qed.

Example to_json_single_key_ex :
  to_json (fun _ => "f") (PAnd (PNot (PNamed "x")) (PGe (3#1)))
  = JObj [("and", JObj [("left", JObj [("not", JObj [("predicate", JObj [("variable", JStr "x")])])]);
                        ("right", JObj [("unknown", JObj [])])])].
Proof. vm_compute. reflexivity. Qed.

(* ------------------------------------------------------------------------------------------------ *)
(* (2) structural mirror                                                                            *)
(* ------------------------------------------------------------------------------------------------ *)
Definition mirror_statement : Prop :=
  forall (fname : nat -> string) (cj : Q -> json),
  let J := to_json_with fname cj in
  (forall l r, J (PAnd l r) = JObj [("and", JObj [("left", J l); ("right", J r)])]) /\
  (forall l r, J (POr l r)  = JObj [("or",  JObj [("left", J l); ("right", J r)])]) /\
  (forall l r, J (PXor l r) = JObj [("xor", JObj [("left", J l); ("right", J r)])]) /\
  (forall q, J (PNot q) = JObj [("not", JObj [("predicate", J q)])]) /\
  (forall q, J (PAll q) = JObj [("all", JObj [("predicate", J q)])]) /\
  (forall q, J (PAny q) = JObj [("any", JObj [("predicate", J q)])]) /\
  (forall n, J (PNamed n) = JObj [("variable", JStr n)]) /\
  (forall c, J (PNe c) = JObj [("ne", JObj [("v", cj c)])]) /\
  (forall f, J (PFn f) = JObj [("fn", JObj [("name", JStr (fname f))])]) /\
  J PTrue = JObj [("true", JBool true)] /\ J PFalse = JObj [("false", JBool false)] /\
  J PIsFalsy = JObj [("is_falsy", JNull)] /\ J PIsTruthy = JObj [("is_truthy", JNull)] /\
  (forall f, J (PTee f) = JObj [("tee", JNull)]) /\
  (forall p, kind_key p = "unknown" -> J p = JObj [("unknown", JObj [])]).

Theorem to_json_mirror : mirror_statement.
Proof.
  intros fname cj J. unfold J, to_json_with.
  repeat split; try reflexivity.
  intros p H. destruct p; try reflexivity; discriminate H.
Qed.

(* numeric constants: the instance the correspondence run executes *)
Corollary to_json_ne fname c : to_json fname (PNe c) = JObj [("ne", JObj [("v", JNum c)])].
Proof. reflexivity. Qed.

(* operand order is kept: swapping the operands changes the rendering unless they render alike *)
Theorem to_json_operand_order : forall fname cj l r,
  to_json_with fname cj (PAnd l r) = to_json_with fname cj (PAnd r l) ->
  to_json_with fname cj l = to_json_with fname cj r.
Proof. unfold to_json_with. cbn [to_value]. intros fname cj l r H. injection H as H _. rewrite H. reflexivity. Qed.

Example to_json_operand_order_ex :
  json_eqb (to_json (fun _ => "f") (POr (PNamed "a") (PNamed "b"))) (to_json (fun _ => "f") (POr (PNamed "b") (PNamed "a"))) = false.
Proof. vm_compute. reflexivity. Qed.

(* ------------------------------------------------------------------------------------------------ *)
(* (3) the nesting of the JSON equals the nesting of the predicate                                  *)
(* ------------------------------------------------------------------------------------------------ *)
Lemma shape_bin k a b : is_bin_key k = true ->
  shape (JObj [(k, JObj [("left", a); ("right", b)])])
  = match shape a, shape b with Some x, Some y => Some (SBin k x y) | _, _ => None end.
Proof. intros H. cbn [shape]. rewrite H. reflexivity. Qed.

Lemma shape_un k a : is_bin_key k = false -> is_un_key k = true ->
  shape (JObj [(k, JObj [("predicate", a)])]) = match shape a with Some x => Some (SUn k x) | None => None end.
Proof. intros H1 H2. cbn [shape]. rewrite H1, H2. reflexivity. Qed.

Theorem shape_to_json : forall fname cj p, shape (to_json_with fname cj p) = Some (skeleton p).
Proof.
  intros fname cj. unfold to_json_with.
  induction p; try reflexivity; cbn [to_value skeleton];
    first [ rewrite shape_bin by reflexivity; rewrite IHp1, IHp2; reflexivity
          | rewrite shape_un by reflexivity; rewrite IHp; reflexivity ].
Qed.

Lemma sdepth_skeleton p : sdepth (skeleton p) = pdepth p.
Proof. induction p; cbn [skeleton sdepth pdepth]; try reflexivity; congruence. Qed.

Theorem jnest_to_json : forall fname cj p, jnest (to_json_with fname cj p) = pdepth p.
Proof. intros. unfold jnest. rewrite shape_to_json. apply sdepth_skeleton. Qed.

(* predicates whose connective structure differs have different renderings *)
Corollary to_json_separates_structure : forall fname cj p q,
  to_json_with fname cj p = to_json_with fname cj q -> skeleton p = skeleton q.
Proof.
  intros fname cj p q H. pose proof (shape_to_json fname cj p) as Hp. rewrite H, shape_to_json in Hp. congruence.
Qed.

Example shape_to_json_ex :
  shape (to_json (fun _ => "f") (PXor (PAll (PNe (1#2))) (PNot (POr (PFn 3) (PComp 0 (PNot PTrue))))))
  = Some (SBin "xor" (SUn "all" (SLeaf "ne")) (SUn "not" (SBin "or" (SLeaf "fn") (SLeaf "unknown"))))
  /\ jnest (to_json (fun _ => "f") (PXor (PAll (PNe (1#2))) (PNot (POr (PFn 3) (PComp 0 (PNot PTrue)))))) = 4%nat.
Proof. vm_compute. split; reflexivity. Qed.

(* the decoder is not the constant function: ill-formed dictionaries are rejected *)
Example shape_rejects_ex :
  shape (JObj [("and", JObj [("right", JObj [("true", JBool true)]); ("left", JObj [("true", JBool true)])])]) = None
  /\ shape (JObj [("true", JBool true); ("false", JBool false)]) = None
  /\ shape (JObj [("nand", JNull)]) = None.
Proof. vm_compute. repeat split; reflexivity. Qed.

(* ------------------------------------------------------------------------------------------------ *)
(* (4) never "raises": every constructor is covered and the key is one of the 15 known ones        *)
(* ------------------------------------------------------------------------------------------------ *)
Theorem to_json_total_known_key : forall fname cj p,
  exists k v, to_json_with fname cj p = JObj [(k, v)] /\ In k known_keys.
Proof.
  intros fname cj p. destruct (to_json_single_key fname cj p) as (k & v & E & K).
  exists k, v. split; [exact E|]. subst k. destruct p; cbn; tauto.
Qed.

(* function atoms are rendered by the function's name, whatever the naming *)
Theorem to_json_fn_by_name : forall fname cj f,
  to_json_with fname cj (PFn f) = JObj [("fn", JObj [("name", JStr (fname f))])].
Proof. reflexivity. Qed.

Example to_json_total_ex :
  map (fun p => fst (to_value (fun _ => "f") JNum p))
      [PEq 1; PGe 1; PGeLe 1 2; PIn [1%Q]; PIsInstance [0%nat]; PIsNone; PIsEmpty; PSubset []; PHasKey 1; PHasLength 1;
       PRegex 0 0; PProperty 0; PComp 0 PTrue; PSetOf PTrue; PLazy "r"; PThis 0; PRoot 0]
  = repeat "unknown" 17.
Proof. vm_compute. reflexivity. Qed.

(* ------------------------------------------------------------------------------------------------ *)
(* (5) serialisable whenever the constants are                                                      *)
(* ------------------------------------------------------------------------------------------------ *)
Theorem to_json_serialisable_with : forall fname cj,
  (forall c, serialisable (cj c) = true) -> forall p, serialisable (to_json_with fname cj p) = true.
Proof.
  intros fname cj Hc. unfold to_json_with.
  induction p; try reflexivity; cbn [to_value] in *; cbn in *;
    repeat match goal with
    | H : (serialisable _ && true) = true |- _ => rewrite andb_true_r in H
    end; rewrite ?andb_true_r;
    try (rewrite IHp1, IHp2; reflexivity); try (rewrite IHp; reflexivity).
  apply Hc.
Qed.

Theorem to_json_serialisable : forall fname p, serialisable (to_json fname p) = true.
Proof. intros. apply to_json_serialisable_with. reflexivity. Qed.

(* ... and the condition on the constants is needed: an unserialisable constant stays unserialisable *)
Example to_json_serialisable_ex :
  serialisable (to_json (fun _ => "f") (PAnd (PAll (PNe (7#2))) (PFn 1))) = true
  /\ serialisable (to_json_with (fun _ => "f") (fun _ => JOpaque 0) (PAnd (PAll (PNe (7#2))) (PFn 1))) = false.
Proof. vm_compute. split; reflexivity. Qed.
