(* GenYield.v — "a satisfiable request yields at least one value": `Yields g` = the first event of g that is not a tick
   is a YIELD (not the end of the stream, not a return), for every oracle.  Defined on the syntax; preserved by ticks;
   with a productivity bound `G a b g` it gives: within `a` steps the first value arrives. *)
From Coq Require Import QArith ZArith Bool List Arith Lia.
From PP Require Import Prelude.Base Prelude.Val Lemmas.GenDSL.
Import ListNotations.
Close Scope Q_scope.
Open Scope nat_scope.

Inductive Yields : gp -> Prop :=
| Y_yield v k : Yields (GYield v k)
| Y_tick k : Yields k -> Yields (GTick k)
| Y_int lo hi k : (forall z, (lo <= z <= hi)%Z \/ (hi < lo)%Z -> Yields (k z)) -> Yields (GInt lo hi k)
| Y_real lo hi k : (forall q, ((lo <= q)%Q /\ (q <= hi)%Q) \/ (hi < lo)%Q -> Yields (k q)) -> Yields (GReal lo hi k)
| Y_val ok d k : (forall v, ok v = true \/ v = d -> Yields (k v)) -> Yields (GVal ok d k)
| Y_seq g k : Yields g -> Yields (GSeq g k)
| Y_loop body cur : Yields cur -> Yields (GLoop body cur)
| Y_fun g : Yields g -> Yields (GFun g)
| Y_map f g k : Yields g -> Yields (GMap f g k)
| Y_take_acc n g acc k :    (* something is already collected: take(n, g) delivers a non-empty list *)
    acc <> [] -> (forall vs, vs <> [] -> Yields (k vs)) -> Yields (GTake n g acc k)
| Y_take_g n g acc k :      (* g yields first and at least one value is asked for *)
    1 <= n -> Yields g -> (forall vs, vs <> [] -> Yields (k vs)) -> Yields (GTake n g acc k)
| Y_take_any n g acc k : (forall vs, Yields (k vs)) -> Yields (GTake n g acc k)
| Y_round_pull n gs i buf emit k :
    i < n -> List.length buf = i -> (forall j, i <= j -> Yields (gs j)) ->
    (forall vs, List.length vs = n -> emit vs <> []) -> Yields (GRound n gs i buf emit k)
| Y_round_emit n gs buf emit k :
    1 <= n -> List.length buf = n -> (forall vs, List.length vs = n -> emit vs <> []) -> Yields (GRound n gs n buf emit k).

Lemma rev_nonnil (A : Type) (l : list A) : l <> [] -> rev l <> [].
Proof. destruct l as [|x r]; [congruence|]. intros _ E. apply (f_equal (@List.length A)) in E. rewrite rev_length in E. discriminate. Qed.

Definition after (e : event) (g' : gp) : Prop :=
  match e with EYield _ => True | ETick => Yields g' | EStop | EAbort => False end.

(* a program that yields first neither stops nor returns as its next step, and a tick keeps the property *)
Lemma Yields_step g : Yields g -> forall o c e g' c', step g o c = (e, g', c') -> after e g'.
Proof.
  induction 1; intros o c e g' c' E; cbn in E; unfold after.
  - injection E as <- <- <-. exact I.
  - injection E as <- <- <-. assumption.
  - injection E as <- <- <-. apply H. apply clampZ_range.
  - injection E as <- <- <-. apply H. apply clampQ_range.
  - injection E as <- <- <-. apply H. destruct (ok (ov o c)) eqn:Eo; auto.
  - (* seq *) destruct (step g o c) as [[e1 g1] c1] eqn:E1. specialize (IHYields _ _ _ _ _ E1). unfold after in IHYields.
    destruct e1; try contradiction; injection E as <- <- <-; [exact I|constructor; assumption].
  - (* loop *) destruct (step cur o c) as [[e1 g1] c1] eqn:E1. specialize (IHYields _ _ _ _ _ E1). unfold after in IHYields.
    destruct e1; try contradiction; injection E as <- <- <-; [exact I|constructor; assumption].
  - (* fun *) destruct (step g o c) as [[e1 g1] c1] eqn:E1. specialize (IHYields _ _ _ _ _ E1). unfold after in IHYields.
    destruct e1; try contradiction; injection E as <- <- <-; [exact I|constructor; assumption].
  - (* map *) destruct (step g o c) as [[e1 g1] c1] eqn:E1. specialize (IHYields _ _ _ _ _ E1). unfold after in IHYields.
    destruct e1; try contradiction; injection E as <- <- <-; [exact I|constructor; assumption].
  - (* take, acc non-empty *)
    destruct n as [|n'].
    + injection E as <- <- <-. apply H0. apply rev_nonnil. exact H.
    + destruct (step g o c) as [[e1 g1] c1] eqn:E1.
      destruct e1 as [v| | |]; injection E as <- <- <-.
      * apply Y_take_acc; [discriminate|assumption].
      * apply Y_take_acc; assumption.
      * apply H0. apply rev_nonnil. exact H.
      * apply H0. apply rev_nonnil. exact H.
  - (* take, g yields first *)
    destruct n as [|n']; [lia|].
    destruct (step g o c) as [[e1 g1] c1] eqn:E1. specialize (IHYields _ _ _ _ _ E1). unfold after in IHYields.
    destruct e1 as [v| | |]; try contradiction; injection E as <- <- <-.
    + apply Y_take_acc; [discriminate|assumption].
    + apply Y_take_g; [lia|assumption|assumption].
  - (* take, any list will do *)
    destruct n as [|n'].
    + injection E as <- <- <-. apply H.
    + destruct (step g o c) as [[e1 g1] c1] eqn:E1.
      destruct e1 as [v| | |]; injection E as <- <- <-; try apply H; apply Y_take_any; assumption.
  - (* round, pulling from generator i *)
    destruct (Nat.eqb_spec n 0) as [Hn0|Hn0]; [lia|]. destruct (Nat.leb_spec n i) as [Hle|Hlt]; [lia|].
    destruct (step (gs i) o c) as [[e1 g1] c1] eqn:E1.
    assert (Hi : after e1 g1).
    { match goal with IHgs : forall j, i <= j -> forall o c e g' c', step (gs j) o c = _ -> _ |- _ => exact (IHgs i (Nat.le_refl i) _ _ _ _ _ E1) end. }
    unfold after in Hi.
    assert (Hgs : forall g1' j, S i <= j -> Yields (if Nat.eqb j i then g1' else gs j)).
    { intros g1' j Hj. destruct (Nat.eqb_spec j i); [lia|].
      match goal with Hy : forall j, i <= j -> Yields (gs j) |- _ => apply Hy; lia end. }
    destruct e1 as [v| | |]; try contradiction; injection E as <- <- <-.
    + (* delivered: next generator, or the round is complete *)
      destruct (Nat.eq_dec (S i) n) as [Hlast|Hmore].
      * subst n. apply Y_round_emit; [lia|cbn; lia|assumption].
      * apply Y_round_pull; [lia|cbn; lia| |assumption]. intros j Hj. apply Hgs. exact Hj.
    + apply Y_round_pull; [assumption|assumption| |assumption].
      intros j Hj. destruct (Nat.eqb_spec j i) as [->|Hne]; [exact Hi|].
      match goal with Hy : forall j, i <= j -> Yields (gs j) |- _ => apply Hy; exact Hj end.
  - (* round, emitting *)
    destruct (Nat.eqb_spec n 0) as [Hn0|Hn0]; [lia|]. destruct (Nat.leb_spec n n) as [Hle|Hlt]; [|lia].
    injection E as <- <- <-.
    assert (Hne : emit (rev buf) <> []).
    { match goal with He : forall vs, List.length vs = n -> emit vs <> [] |- _ => apply He end. rewrite rev_length; assumption. }
    destruct (emit (rev buf)) as [|v r]; [contradiction|]. cbn. constructor.
Qed.

(* with a productivity bound: the first value arrives within `a` steps, whatever the oracle says *)
Theorem first_value_arrives a b g : G a b g -> Yields g -> forall o c,
  exists v g' c', next_event a g o c = Some (EYield v, g', c').
Proof.
  revert g. induction a as [|a IH]; intros g H Hy o c; [pose proof (G_pos _ _ _ H); lia|].
  cbn. destruct (step g o c) as [[e g'] c'] eqn:E. pose proof (G_step _ _ _ H _ _ _ _ _ E) as Hs.
  pose proof (Yields_step g Hy _ _ _ _ _ E) as Ha. unfold after in Ha.
  destruct e as [v| | |]; try contradiction.
  - eauto.
  - destruct Hs as (a1 & [= ->] & Hg). apply IH; assumption.
Qed.

Lemma Yields_emit_all vs k : vs <> [] -> Yields (emit_all vs k).
Proof. destruct vs; [congruence|]. intros _. cbn. constructor. Qed.
