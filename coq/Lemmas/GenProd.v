(* GenProd.v — productivity (C11): for the generator kinds without rejection sampling, asking for the next value always
   completes within a number of steps that depends on the predicate's structure only - not on the magnitude of its
   bounds, not on the random draws. *)
From Coq Require Import QArith Qround ZArith Bool List Arith Lia.
From PP Require Import Prelude.Base Prelude.Val Prelude.Pred Prelude.Sem Gen.Negate Gen.Implies Gen.Optimize
  Lemmas.Term Lemmas.GenDSL Lemmas.GenModel.
Import ListNotations.
Close Scope Q_scope.
Open Scope nat_scope.

Lemma G_up a b a' b' g : G a b g -> a <= a' -> b <= b' -> G a' b' g.
Proof. intros. eapply G_mono; eauto. Qed.

(* ---- helpers ---- *)
Lemma draw_ints_G n lo hi b k : 2 <= b -> G b b k -> G b b (draw_ints n lo hi k).
Proof.
  intros Hb Hk. induction n as [|n IH]; cbn; [exact Hk|].
  eapply G_up; [apply (G_int 1 b); intros z _; constructor; [lia|exact IH]|lia|lia].
Qed.
Lemma draw_ints_MY n lo hi k : MustYield k \/ 1 <= n -> MustYield (draw_ints n lo hi k).
Proof. intros H. destruct n as [|n]; cbn; [destruct H; [assumption|lia]|]. constructor. intros z. constructor. Qed.

Lemma between_G lo hi origin limit count b k : 2 <= b -> G b b k -> G b b (between lo hi origin limit count k).
Proof. intros Hb Hk. unfold between. destruct (_ <=? _)%Z; [apply draw_ints_G; assumption|exact Hk]. Qed.

(* when lo <= hi every window around the origin is non-empty *)
Lemma between_nonempty lo hi limit count k :
  (lo <= hi)%Z -> (0 <= limit)%Z ->
  between lo hi (Z.min (Z.max 0 lo) hi) limit count k = draw_ints count (Z.max (Z.min (Z.max 0 lo) hi - limit) lo) (Z.min (Z.min (Z.max 0 lo) hi + limit) hi) k.
Proof. intros H1 H2. unfold between. destruct (Z.leb_spec (Z.max (Z.min (Z.max 0 lo) hi - limit) lo) (Z.min (Z.min (Z.max 0 lo) hi + limit) hi)); [reflexivity|lia]. Qed.

Theorem random_ints_productive lo hi : G 4 4 (random_ints lo hi).
Proof.
  unfold random_ints. destruct (Z.ltb_spec hi lo) as [Hl|Hl]; [constructor; lia|].
  set (o := Z.min (Z.max 0 lo) hi).
  set (body := between lo hi o 1 1 (between lo hi o 10 10 (between lo hi o 100 100 (between lo hi o MAXS 10 GStop)))).
  assert (Hb : G 2 2 body).
  { unfold body. repeat apply between_G; try lia. constructor. lia. }
  assert (Hm : MustYield body).
  { unfold body, o. rewrite between_nonempty; [|lia|lia]. apply draw_ints_MY. right. lia. }
  constructor. eapply G_up; [eapply (G_loop2 2 2 2 2 4); eauto|lia|lia].
Qed.

Theorem random_floats_productive lo hi : G 4 4 (random_floats lo hi).
Proof.
  unfold random_floats.
  set (body := if Qle_bool hi lo then GYield (vfloat lo) GStop else GReal lo hi (fun q => GYield (vfloat q) GStop)).
  assert (Hb : G 2 2 body).
  { unfold body. destruct (Qle_bool hi lo); [constructor; [lia|]; constructor; lia|].
    apply (G_real 1 2). intros q. constructor; [lia|]. constructor. lia. }
  assert (Hm : MustYield body). { unfold body. destruct (Qle_bool hi lo); [constructor|]. constructor. intros q. constructor. }
  constructor. constructor; [lia|]. constructor; [lia|]. eapply G_up; [eapply (G_loop2 2 2 2 2 4); eauto|lia|lia].
Qed.

Theorem random_strings_productive : G 6 6 random_strings.
Proof.
  unfold random_strings.
  set (body := GInt 0 10 (fun _ => GVal (is_kind KStr) str_dflt (fun s => GYield s GStop))).
  assert (Hb : G 3 3 body).
  { unfold body. apply (G_int 2 3). intros z _. apply (G_val 1 3). intros v. constructor; [lia|]. constructor. lia. }
  assert (Hm : MustYield body). { unfold body. constructor. intros z. constructor. intros v. constructor. }
  constructor. eapply G_up; [eapply (G_loop2 3 3 3 3 6); eauto; lia|lia|lia].
Qed.
Theorem random_uuids_productive : G 4 4 random_uuids.
Proof.
  unfold random_uuids. set (body := GVal (is_kind KUuid) uuid_dflt (fun u => GYield u GStop)).
  assert (Hb : G 2 2 body). { unfold body. apply (G_val 1 2). intros v. constructor; [lia|]. constructor. lia. }
  assert (Hm : MustYield body). { unfold body. constructor. intros v. constructor. }
  constructor. eapply G_up; [eapply (G_loop2 2 2 2 2 4); eauto; lia|lia|lia].
Qed.
Theorem random_datetimes_productive : G 2 2 random_datetimes.
Proof. unfold random_datetimes. constructor. apply (G_val 1 2). intros v. constructor; [lia|]. constructor. lia. Qed.
Theorem random_complex_productive : G 1 1 random_complex.
Proof. unfold random_complex. constructor. constructor; [lia|]. constructor. lia. Qed.

Theorem random_anys_productive : G 21 21 random_anys.
Proof.
  unfold random_anys. constructor.
  eapply G_up; [eapply (G_round_pull 6 6 1 1 21 3 _ 0 [] (fun vs => vs) GStop); try lia; try reflexivity|cbn; lia|lia].
  - intros [|[|j]] _; [eapply G_up; [apply random_ints_productive|lia|lia]|apply random_strings_productive|
                       eapply G_up; [apply random_floats_productive|lia|lia]].
  - eapply G_up; [apply random_ints_productive|lia|lia].
  - intros vs Hl. destruct vs; [discriminate|discriminate].
  - constructor. lia.
Qed.

Lemma take_G cc a' b' n g k : G cc cc g -> (forall vs, G a' b' (k vs)) -> G (cc + n * cc + 1 + a') b' (GTake n g [] k).
Proof. intros Hg Hk. eapply G_take; eauto. Qed.

Theorem random_dicts_productive : G 166 166 random_dicts.
Proof.
  unfold random_dicts.
  set (body := GTake 5 random_strings [] (fun keys => GTake 5 random_anys [] (fun vals =>
                GYield (VColl KDict (firstn (List.length vals) keys)) GStop))).
  assert (Hb : G 165 1 body).
  { unfold body. eapply G_up; [apply (take_G 6 128 1 5); [apply random_strings_productive|]|cbn; lia|lia].
    intros keys. eapply G_up; [apply (take_G 21 1 1 5); [apply random_anys_productive|]|cbn; lia|lia].
    intros vals. constructor; [lia|]. constructor. lia. }
  assert (Hm : MustYield body). { unfold body. constructor. intros keys. constructor. intros vals. constructor. }
  constructor. constructor; [lia|]. eapply G_up; [eapply (G_loop2 165 1 165 1 166); eauto; lia|lia|lia].
Qed.

Theorem random_sets_productive : G 470 470 random_sets.
Proof.
  unfold random_sets.
  set (body := GInt 0 10 (fun n => GTake (Z.to_nat n) random_anys [] (fun vs => GYield (VColl KSet vs) GStop))).
  assert (Hb : G 234 1 body).
  { unfold body. apply (G_int 233 1). intros z [Hz|Hz]; [|lia].
    eapply G_up; [apply (take_G 21 1 1 (Z.to_nat z)); [apply random_anys_productive|]|nia|lia].
    intros vs. constructor; [lia|]. constructor. lia. }
  assert (Hm : MustYield body). { unfold body. constructor. intros z. constructor. intros vs. constructor. }
  constructor. constructor; [lia|]. eapply G_up; [eapply (G_loop2 234 1 234 1 235); eauto; lia|lia|lia].
Qed.

(* ---- random_combination_with_replacement ---- *)
Lemma draw_idx_G r n acc k a b : (forall idx, G a b (k idx)) -> G (r + a) b (draw_idx r n acc k).
Proof.
  revert acc. induction r as [|r IH]; intros acc H; cbn; [apply H|].
  apply (G_int (r + a) b). intros z _. apply IH. exact H.
Qed.
Lemma rcwr_G pool r k a b : 1 <= a -> (forall sel, G a b (k sel)) -> G (r + a) b (rcwr pool r k).
Proof.
  intros Ha H. unfold rcwr. destruct pool; [constructor; lia|]. apply draw_idx_G. intros idx. apply H.
Qed.
Lemma draw_idx_MY r n acc k : (forall idx, MustYield (k idx)) -> MustYield (draw_idx r n acc k).
Proof. revert acc. induction r as [|r IH]; intros acc H; cbn; [apply H|]. constructor. intros z. apply IH. exact H. Qed.
Lemma rcwr_MY pool r k : (forall sel, MustYield (k sel)) -> MustYield (rcwr pool r k).
Proof. intros H. unfold rcwr. destruct pool; [constructor|]. apply draw_idx_MY. intros idx. apply H. Qed.

(* ---- which kinds have a deterministic bound, and the bound ---- *)
Fixpoint prod_true (ck : kind) (p : pred) : bool :=
  match p with
  | PTrue | PFalse | PEq _ | PNe _ | PIn _ | PIsNone | PIsFalsy | PIsTruthy | PIsEmpty | PIsInstance _ | PHasKey _ => true
  | PSubset _ | PRealSubset _ => true
  | PGe _ | PGt _ | PLe _ | PLt _ => match ck with KInt | KFloat | KDatetime => true | _ => false end
  | PAll q | PAny q => prod_true ck q
  | POr l r => prod_true ck l && prod_true ck r
  | _ => false          (* and: filter; not_in / is_not_none / set-of / str and uuid bounds: rejection sampling *)
  end.
Fixpoint Bt (p : pred) : nat :=
  match p with
  | PAll q | PAny q => 40 * Bt q + 100
  | POr l r => 3 * (Bt l + Bt r) + 10
  | PIsInstance _ | PHasKey _ => 1000
  | _ => 10
  end.
Lemma Bt_pos p : 10 <= Bt p.
Proof. induction p; cbn; lia. Qed.

Lemma emit_all_G vs : G 1 1 (emit_all vs GStop).
Proof. induction vs as [|v r IH]; cbn; [constructor; lia|constructor; [lia|exact IH]]. Qed.
Lemma offsets_G v sign from n : G 1 1 (offsets v sign from n GStop).
Proof. revert from. induction n as [|n IH]; intros from; cbn; [constructor; lia|constructor; [lia|apply IH]]. Qed.

Lemma by_sort_true_G W ck p dt fl it b :
  match ck with KInt | KFloat | KDatetime => true | _ => false end = true ->
  G b b dt -> G b b fl -> G b b it -> G b b (GFun (by_sort_true W ck p dt fl it)).
Proof. intros Hck Hd Hf Hi. constructor. unfold by_sort_true. destruct ck; try discriminate; assumption. Qed.

Lemma all_body_G (g : gp) c : 1 <= c -> G c c g ->
  let body := GInt 1 10 (fun z => let n := Z.to_nat z in
        GTake n g [] (fun vs => match vs with [] => GAbort | _ =>
          rcwr vs n (fun c1 => GYield (VColl KTuple c1)
            (GTake n g [] (fun vs2 => rcwr vs2 n (fun c2 =>
              (fun k => if all_hashable c2 then GYield (VColl KSet c2) k else k)
                (GTake n g [] (fun vs3 => rcwr vs3 n (fun c3 => GYield (VColl KList c3) GStop))))))) end)) in
  G (33 * c + 36) (33 * c + 36) (GFun (GYield (VColl KList []) (GLoop body body))).
Proof.
  intros Hc Hg. cbv zeta.
  set (S3 := fun n => GTake n g [] (fun vs3 => rcwr vs3 n (fun c3 => GYield (VColl KList c3) GStop))).
  assert (H3 : forall n, n <= 10 -> G (11 * c + 12) (11 * c + 12) (S3 n)).
  { intros n Hn. unfold S3. eapply G_up; [apply (take_G c (n + 1) 1 n); [exact Hg|]|nia|lia].
    intros vs3. apply rcwr_G; [lia|]. intros sel. constructor; [lia|]. constructor. lia. }
  set (S2 := fun n => GTake n g [] (fun vs2 => rcwr vs2 n (fun c2 =>
              (fun k => if all_hashable c2 then GYield (VColl KSet c2) k else k) (S3 n)))).
  assert (H2 : forall n, n <= 10 -> G (22 * c + 23) (22 * c + 23) (S2 n)).
  { intros n Hn. unfold S2. eapply G_up; [apply (take_G c (n + (11 * c + 12)) (11 * c + 12) n); [exact Hg|]|nia|lia].
    intros vs2. apply rcwr_G; [lia|]. intros sel. cbv beta.
    destruct (all_hashable sel); [constructor; [lia|apply H3; exact Hn]|apply H3; exact Hn]. }
  set (body := GInt 1 10 (fun z => GTake (Z.to_nat z) g [] (fun vs => match vs with [] => GAbort | _ =>
          rcwr vs (Z.to_nat z) (fun c1 => GYield (VColl KTuple c1) (S2 (Z.to_nat z))) end))).
  assert (Hb : G (11 * c + 13) (22 * c + 23) body).
  { unfold body. eapply G_up; [apply (G_int (11 * c + 12) (22 * c + 23))|lia|lia]. intros z [Hz|Hz]; [|lia]. assert (Hn : Z.to_nat z <= 10) by lia.
    eapply G_up; [apply (take_G c (Z.to_nat z + 1) (22 * c + 23) (Z.to_nat z)); [exact Hg|]|nia|lia].
    intros vs. destruct vs as [|v0 vs']; [constructor; lia|]. apply rcwr_G; [lia|]. intros sel.
    constructor; [lia|]. apply H2. exact Hn. }
  assert (Hm : MustYield body).
  { unfold body. constructor. intros z. constructor. intros vs. destruct vs; [constructor|]. apply rcwr_MY. intros sel. constructor. }
  constructor. constructor; [lia|].
  eapply G_up; [eapply (G_loop2 (11 * c + 13) (22 * c + 23) (11 * c + 13) (22 * c + 23) (33 * c + 36)); eauto; lia|lia|lia].
Qed.

Theorem gen_true_productive fe W ck : forall p, prod_true ck p = true -> G (Bt p) (Bt p) (gen_true fe W ck p).
Proof.
  induction p; intros Hp; cbn [prod_true] in Hp; try discriminate Hp; cbn [gen_true Bt].
  - (* True *) constructor. constructor; [lia|]. constructor. lia.
  - (* False *) constructor. constructor. lia.
  - (* Or *) apply andb_true_iff in Hp as [H1 H2]. specialize (IHp1 H1). specialize (IHp2 H2).
    pose proof (Bt_pos p1). pose proof (Bt_pos p2). constructor.
    eapply G_up; [eapply (G_round_pull (Bt p1 + Bt p2) (Bt p1 + Bt p2) 1 1 (3 * (Bt p1 + Bt p2) + 10) 2 _ 0 [] (fun vs => vs) GStop);
                  try lia; try reflexivity|cbn; lia|lia].
    + intros [|j] _; [eapply G_up; [exact IHp1|lia|lia]|eapply G_up; [exact IHp2|lia|lia]].
    + eapply G_up; [exact IHp1|lia|lia].
    + intros vs Hl. destruct vs; discriminate.
    + constructor. lia.
  - (* Eq *) set (body := GYield (cv ck f_v) GStop). constructor.
    assert (Hb : G 1 1 body) by (constructor; [lia|constructor; lia]).
    eapply G_up; [eapply (G_loop2 1 1 1 1 2 body body); eauto; try lia; constructor|lia|lia].
  - (* Ne *) constructor. constructor; [lia|]. constructor. lia.
  - (* Ge *) apply by_sort_true_G; auto; [eapply G_up; [apply offsets_G|lia|lia]|eapply G_up; [apply random_floats_productive|lia|lia]|
                                            eapply G_up; [unfold ints_from, ints_upto; apply random_ints_productive|lia|lia]].
  - (* Gt *) apply by_sort_true_G; auto; [eapply G_up; [apply offsets_G|lia|lia]|eapply G_up; [apply random_floats_productive|lia|lia]|
                                            eapply G_up; [unfold ints_from, ints_upto; apply random_ints_productive|lia|lia]].
  - (* Le *) apply by_sort_true_G; auto; [eapply G_up; [apply offsets_G|lia|lia]|eapply G_up; [apply random_floats_productive|lia|lia]|
                                            eapply G_up; [unfold ints_from, ints_upto; apply random_ints_productive|lia|lia]].
  - (* Lt *) apply by_sort_true_G; auto; [eapply G_up; [apply offsets_G|lia|lia]|eapply G_up; [apply random_floats_productive|lia|lia]|
                                            eapply G_up; [unfold ints_from, ints_upto; apply random_ints_productive|lia|lia]].
  - (* In *) constructor. eapply G_up; [apply emit_all_G|lia|lia].
  - (* IsInstance *) destruct f_klass as [|c ks]; [constructor; constructor; lia|].
    repeat match goal with |- context [Nat.eqb c ?n] => destruct (Nat.eqb c n) end.
    + eapply G_up; [apply random_strings_productive|lia|lia].
    + set (body := GYield (vbool false) (GYield (vbool true) GStop)). constructor.
      assert (Hb : G 1 1 body) by (constructor; [lia|constructor; [lia|constructor; lia]]).
      eapply G_up; [eapply (G_loop2 1 1 1 1 2 body body); eauto; try lia; constructor|lia|lia].
    + eapply G_up; [apply random_complex_productive|lia|lia].
    + eapply G_up; [apply random_datetimes_productive|lia|lia].
    + eapply G_up; [apply random_dicts_productive|lia|lia].
    + eapply G_up; [apply random_floats_productive|lia|lia].
    + eapply G_up; [apply random_uuids_productive|lia|lia].
    + eapply G_up; [apply random_ints_productive|lia|lia].
    + eapply G_up; [apply random_sets_productive|lia|lia].
    + constructor. constructor. lia.
  - (* IsNone *) constructor. constructor; [lia|]. constructor. lia.
  - (* IsFalsy *) constructor. eapply G_up; [apply emit_all_G|lia|lia].
  - (* IsTruthy *) constructor. eapply G_up; [apply emit_all_G|lia|lia].
  - (* IsEmpty *) constructor. eapply G_up; [apply emit_all_G|lia|lia].
  - (* All *) specialize (IHp Hp). pose proof (Bt_pos p).
    eapply G_up; [apply (all_body_G (gen_true fe W ck p) (Bt p)); [lia|exact IHp]|lia|lia].
  - (* Any *) specialize (IHp Hp). pose proof (Bt_pos p). constructor.
    eapply G_up; [apply (take_G (Bt p) 6 6 10); [exact IHp|]|lia|lia].
    intros vs. destruct vs as [|v0 vs']; [constructor; lia|]. eapply G_up; [apply (rcwr_G _ 5 _ 1 6); [lia|]|lia|lia].
    intros sel. constructor; [lia|]. eapply G_up; [apply (rcwr_G _ 5 _ 1 1); [lia|]|lia|lia].
    intros sel2. destruct (all_hashable sel2); [constructor; [lia|constructor; lia]|constructor; lia].
  - (* Subset *) constructor. eapply G_up; [apply emit_all_G|lia|lia].
  - (* RealSubset *) constructor. eapply G_up; [apply emit_all_G|lia|lia].
  - (* HasKey *) constructor.
    eapply G_up; [eapply (G_round_pull 166 166 1 1 400 2 _ 0 [] _ GStop); try lia; try reflexivity|cbn; lia|lia].
    + intros [|j] _; [apply random_dicts_productive|eapply G_up; [apply random_anys_productive|lia|lia]].
    + apply random_dicts_productive.
    + intros vs _. discriminate.
    + constructor. lia.
Qed.

(* ---- generate_false ---- *)
Fixpoint prod_false (ck : kind) (p : pred) : bool :=
  match p with
  | PTrue | PFalse | PNe _ | PIsNotNone | PIsTruthy | PIsEmpty => true
  | PGe _ | PGt _ => match ck with KInt | KFloat | KDatetime => true | _ => false end
  | PAll q => prod_false ck q
  | PAnd l r => prod_false ck l && prod_false ck r
  | _ => false          (* eq / in / none / falsy / type tests / or / set-of: rejection sampling through a filter *)
  end.
Fixpoint Bf (p : pred) : nat :=
  match p with
  | PAll q => 40 * Bf q + 100
  | PAnd l r => Bf l + Bf r + 10
  | _ => 30
  end.
Lemma Bf_pos p : 30 <= Bf p.
Proof. induction p; cbn; lia. Qed.

Lemma by_sort_false_G W ck p dt fl it b :
  match ck with KInt | KFloat | KDatetime => true | _ => false end = true ->
  G b b dt -> G b b fl -> G b b it -> G b b (GFun (by_sort_false W ck p dt fl it)).
Proof. intros Hck Hd Hf Hi. constructor. unfold by_sort_false. destruct ck; try discriminate; assumption. Qed.

Theorem gen_false_productive fe W ck : forall p, prod_false ck p = true -> G (Bf p) (Bf p) (gen_false fe W ck p).
Proof.
  induction p; intros Hp; cbn [prod_false] in Hp; try discriminate Hp; cbn [gen_false Bf].
  - (* True *) constructor. constructor. lia.
  - (* False *) eapply G_up; [apply random_anys_productive|lia|lia].
  - (* And *) apply andb_true_iff in Hp as [H1 H2]. specialize (IHp1 H1). specialize (IHp2 H2).
    assert (Hmain : G (Bf p1 + Bf p2 + 10) (Bf p1 + Bf p2 + 10) (GFun (GSeq (gen_false fe W ck p1) (gen_false fe W ck p2)))).
    { constructor. eapply G_up; [eapply (G_seq (Bf p1) (Bf p1) (Bf p2) (Bf p2) (Bf p1 + Bf p2)); eauto; lia|lia|lia]. }
    destruct (optimize W (4 * w (PAnd p1 p2) + 3) (PAnd p1 p2)) as [q tr| |]; try exact Hmain.
    destruct q; try exact Hmain. constructor. constructor. pose proof (Bf_pos p1). lia.
  - (* Ne *) constructor. constructor; [lia|]. constructor. lia.
  - (* Ge *) apply by_sort_false_G; auto; [eapply G_up; [apply offsets_G|lia|lia]|eapply G_up; [apply random_floats_productive|lia|lia]|
                                             eapply G_up; [unfold ints_from, ints_upto; apply random_ints_productive|lia|lia]].
  - (* Gt *) apply by_sort_false_G; auto; [eapply G_up; [apply offsets_G|lia|lia]|eapply G_up; [apply random_floats_productive|lia|lia]|
                                             eapply G_up; [unfold ints_from, ints_upto; apply random_ints_productive|lia|lia]].
  - (* IsNotNone *) constructor. constructor; [lia|]. constructor. lia.
  - (* IsTruthy *) constructor. eapply G_up; [apply emit_all_G|lia|lia].
  - (* IsEmpty *) constructor. eapply G_up; [apply emit_all_G|lia|lia].
  - (* All *) specialize (IHp Hp). pose proof (Bf_pos p).
    set (c := Bf p) in *.
    set (body := GInt 1 10 (fun z => GTake (Z.to_nat z) (gen_false fe W ck p) [] (fun vs =>
              match vs with [] => GAbort | _ => rcwr vs (Z.to_nat z) (fun c1 => GYield (VColl KTuple c1) GStop) end))).
    assert (Hb : G (11 * c + 13) 1 body).
    { unfold body. eapply G_up; [apply (G_int (11 * c + 12) 1)|lia|lia]. intros z [Hz|Hz]; [|lia].
      eapply G_up; [apply (take_G c (Z.to_nat z + 1) 1 (Z.to_nat z)); [exact IHp|]|nia|lia].
      intros vs. destruct vs as [|v0 vs']; [constructor; lia|]. apply rcwr_G; [lia|]. intros sel.
      constructor; [lia|]. constructor. lia. }
    assert (Hm : MustYield body).
    { unfold body. constructor. intros z. constructor. intros vs. destruct vs; [constructor|]. apply rcwr_MY. intros sel. constructor. }
    constructor. eapply G_up; [eapply (G_loop2 (11 * c + 13) 1 (11 * c + 13) 1 (11 * c + 14)); eauto; lia|lia|lia].
Qed.

(* ---- unsatisfiable requests give an empty stream (they end at once, whatever the oracle says) ---- *)
Lemma empty_streams fe W ck o :
  run 50 (gen_true fe W ck PFalse) o 0 = ([], Stopped) /\
  run 50 (gen_false fe W ck PTrue) o 0 = ([], Stopped) /\
  run 50 (gen_true fe W ck (PAny PFalse)) o 0 = ([], Stopped) /\
  run 50 (gen_false fe W ck (PSetOf PTrue)) o 0 = ([], Stopped).
Proof. repeat split; reflexivity. Qed.

