(* DotOpt.v — C17, part 3: the show_optimized theorem instantiated with the optimizer that is regenerated from
   /repo (Gen/Optimize.v): whenever optimize(p) returns q, to_dot draws p and q as two clusters with disjoint ids,
   or reports the kind of q it does not know.  (supported p does NOT imply supported (optimize p):
   optimize(~is_none_p) = is_not_none_p, a kind to_dot does not know — see ex_optimized_unsupported.) *)
From Coq Require Import QArith Bool List Arith String Lia.
From PP Require Import Prelude.Base Prelude.Val Prelude.Pred Prelude.Sem Gen.Negate Gen.Implies Gen.Optimize
  Lemmas.DotGraph Lemmas.DotTree.
Import ListNotations.
Local Close Scope Q_scope.
Local Open Scope nat_scope.

(* a supported tree never contains an is_instance node without a class *)
Lemma supported_inst_nonempty p : supported p = true -> inst_nonempty p = true.
Proof.
  induction p; cbn [supported known label_of inst_nonempty]; intros Hp; try reflexivity; try discriminate Hp;
    try (apply supported_bin_inv in Hp; destruct Hp as [H1 H2]; rewrite (IHp1 H1), (IHp2 H2); reflexivity);
    try (apply supported_un_inv in Hp; exact (IHp Hp)).
  destruct f_klass; [discriminate Hp|reflexivity].
Qed.

Theorem to_dot_with_optimize :
  forall (W : world) (fuel : nat) (p q : pred) (tr : list site),
    optimize W fuel p = Ok q tr -> supported p = true ->
    (supported q = true ->
       exists g1 g2, to_dot p (Some q) = Ret (g1, Some g2)
         /\ decode g1 = Some (label_tree p) /\ decode g2 = Some (label_tree q)
         /\ map node_id (nodes g1) = List.seq 0 (size p)
         /\ map node_id (nodes g2) = List.seq (size p) (size q)
         /\ NoDup (map node_id (nodes g1) ++ map node_id (nodes g2)))
    /\ (supported q = false ->
       exists e, to_dot p (Some q) = Raise e /\ (inst_nonempty q = true -> e = ValueError)).
Proof.
  intros W fuel p q tr _ Hp. split.
  - intros Hq. destruct (to_dot_two_clusters p q Hp Hq) as [g1 [g2 [E [D1 [D2 [I1 [I2 [_ N]]]]]]]].
    exists g1, g2. repeat split; assumption.
  - intros Hq. destruct (to_dot_unsupported p (Some q) (or_intror (ex_intro _ q (conj eq_refl Hq)))) as [e [E Hn]].
    exists e. split; [exact E|]. intros Hi. apply Hn.
    + apply supported_inst_nonempty, Hp.
    + intros q' [= <-]. exact Hi.
Qed.

Definition W_empty : world := {|
  env := fun _ => false; isinst := fun _ _ => false; fn_sem := fun _ _ => None; comp_sem := fun _ _ => None;
  regex_sem := fun _ _ _ => None; lazy_sem := fun _ _ => None; self_sem := fun _ _ => None |}.

(* non-vacuity with the generated optimizer: ge_p(1) & ge_p(3) | ~in_p(1,2)  -->  two clusters, ids 0..5 and 6..8 *)
Example ex_optimized_two_clusters :
  match optimize W_empty 50 (POr (PAnd (PGe (1#1)%Q) (PGe (3#1)%Q)) (PNot (PIn [(1#1)%Q; (2#1)%Q]))) with
  | Ok q _ =>
      match to_dot (POr (PAnd (PGe (1#1)%Q) (PGe (3#1)%Q)) (PNot (PIn [(1#1)%Q; (2#1)%Q]))) (Some q) with
      | Ret (g1, Some g2) => map node_id (nodes g1) = [0; 1; 2; 3; 4; 5] /\ map node_id (nodes g2) = [6; 7; 8]
                             /\ decode g2 = Some (label_tree q)
      | _ => False
      end
  | _ => False
  end.
Proof. vm_compute. repeat split; reflexivity. Qed.

(* supported p, yet optimize(p) is of a kind to_dot does not know: ValueError *)
Example ex_optimized_unsupported :
  supported (PNot PIsNone) = true /\
  match optimize W_empty 50 (PNot PIsNone) with
  | Ok q _ => to_dot (PNot PIsNone) (Some q) = Raise ValueError
  | _ => False
  end.
Proof. vm_compute. split; reflexivity. Qed.
