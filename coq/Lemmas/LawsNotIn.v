From Coq Require Import QArith Bool List Arith String Lia.
From PP Require Import Prelude.Base Prelude.Val Prelude.Pred Prelude.Sem Gen.Negate Gen.Implies Gen.Optimize
  Lemmas.PeqFacts Lemmas.Laws Lemmas.LawsSets.
Import ListNotations.
#[local] Arguments optimize : simpl never.
#[local] Arguments optimize_all_predicate : simpl never.
#[local] Arguments optimize_any_predicate : simpl never.
#[local] Arguments optimize_not_predicate : simpl never.
#[local] Arguments optimize_and_predicate : simpl never.
#[local] Arguments optimize_or_predicate : simpl never.
#[local] Arguments optimize_xor_predicate : simpl never.
#[local] Arguments optimize_in_predicate : simpl never.
#[local] Arguments optimize_not_in_predicate : simpl never.
Lemma law_notin W n s : law_statement W n (PNotIn s).
Proof. law_set s. Qed.
