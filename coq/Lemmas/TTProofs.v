(* TTProofs.v — proofs about the model of truth_table (Lemmas/TTModel.v), property C15.
   Everything is by induction over arbitrary trees / lists / schedules; nothing is bounded. *)
From Coq Require Import String Ascii Bool NArith Arith Lia Sorted Permutation List.
From PP Require Import Lemmas.TTModel.
Import ListNotations.

(* ================================================================== *)
(* A. the order on names: String.compare is a strict total order      *)
(* ================================================================== *)
Definition slt (a b : name) : Prop := String.compare a b = Lt.

Lemma ascii_compare_refl a : Ascii.compare a a = Eq.
Proof. unfold Ascii.compare. apply N.compare_refl. Qed.

Lemma scompare_refl s : String.compare s s = Eq.
Proof. induction s as [|a s IH]; cbn; [reflexivity|]. now rewrite ascii_compare_refl. Qed.

Lemma scompare_eq s1 s2 : String.compare s1 s2 = Eq -> s1 = s2.
Proof. apply String.compare_eq_iff. Qed.

Lemma scompare_lt_trans : forall s1 s2 s3,
  String.compare s1 s2 = Lt -> String.compare s2 s3 = Lt -> String.compare s1 s3 = Lt.
Proof.
  induction s1 as [|a s1 IH]; destruct s2 as [|b s2], s3 as [|c s3]; cbn; try discriminate; auto.
  destruct (Ascii.compare a b) eqn:E1; try discriminate;
  destruct (Ascii.compare b c) eqn:E2; try discriminate; intros H1 H2.
  - apply Ascii.compare_eq_iff in E1, E2. subst. rewrite ascii_compare_refl. eauto.
  - apply Ascii.compare_eq_iff in E1. subst. now rewrite E2.
  - apply Ascii.compare_eq_iff in E2. subst. now rewrite E1.
  - unfold Ascii.compare in *. rewrite N.compare_lt_iff in E1, E2.
    assert (E : (N_of_ascii a ?= N_of_ascii c)%N = Lt) by (apply N.compare_lt_iff; lia).
    now rewrite E.
Qed.

Lemma slt_irrefl a : ~ slt a a.
Proof. unfold slt. rewrite scompare_refl. discriminate. Qed.
Lemma slt_trans a b c : slt a b -> slt b c -> slt a c.
Proof. apply scompare_lt_trans. Qed.
Lemma scompare_gt_lt a b : String.compare a b = Gt -> slt b a.
Proof. unfold slt. rewrite (String.compare_antisym b a). intros ->. reflexivity. Qed.
Lemma leb_cases a b : String.leb a b = true -> a = b \/ slt a b.
Proof.
  unfold String.leb, slt. destruct (String.compare a b) eqn:E; try discriminate; auto.
  left. now apply scompare_eq.
Qed.
Lemma leb_false_lt a b : String.leb a b = false -> slt b a.
Proof.
  unfold String.leb. destruct (String.compare a b) eqn:E; try discriminate. intros _. now apply scompare_gt_lt.
Qed.
Lemma slt_ltb a b : slt a b <-> String.ltb a b = true.
Proof. unfold slt, String.ltb. destruct (String.compare a b); split; intros; congruence. Qed.

(* ================================================================== *)
(* B. sorted(set(xs))                                                  *)
(* ================================================================== *)
Lemma insert_In x a l : In x (insert a l) <-> x = a \/ In x l.
Proof.
  induction l as [|y r IH]; cbn.
  - intuition.
  - destruct (String.leb a y); cbn; [intuition|]. rewrite IH. intuition.
Qed.

Lemma insert_sorted a l : StronglySorted slt l -> ~ In a l -> StronglySorted slt (insert a l).
Proof.
  induction l as [|y r IH]; cbn; intros Hs Hn.
  - constructor; constructor.
  - apply StronglySorted_inv in Hs as [Hr Hy].
    destruct (String.leb a y) eqn:E.
    + constructor; [constructor; assumption|].
      assert (Hay : slt a y) by (destruct (leb_cases _ _ E) as [->|]; [exfalso; apply Hn; now left|assumption]).
      constructor; [assumption|].
      rewrite Forall_forall in *. intros z Hz. eapply slt_trans; eauto.
    + apply leb_false_lt in E. constructor.
      * apply IH; [assumption|]. intros H; apply Hn; now right.
      * rewrite Forall_forall in *. intros z Hz. apply insert_In in Hz as [->|Hz]; auto.
Qed.

Lemma isort_In x l : In x (isort l) <-> In x l.
Proof. induction l as [|a r IH]; cbn; [tauto|]. rewrite insert_In, IH. intuition. Qed.

Lemma isort_sorted l : NoDup l -> StronglySorted slt (isort l).
Proof.
  induction 1 as [|a r Hn Hd IH]; cbn; [constructor|].
  apply insert_sorted; [assumption|]. now rewrite isort_In.
Qed.

Lemma sorted_set_In x l : In x (sorted_set l) <-> In x l.
Proof. unfold sorted_set. rewrite isort_In. apply nodup_In. Qed.
Lemma sorted_set_sorted l : StronglySorted slt (sorted_set l).
Proof. apply isort_sorted. apply NoDup_nodup. Qed.

Lemma strict_sorted_NoDup l : StronglySorted slt l -> NoDup l.
Proof.
  induction 1 as [|a r Hs IH Hf]; constructor; [|assumption].
  intros Hin. rewrite Forall_forall in Hf. exact (slt_irrefl a (Hf a Hin)).
Qed.

(* a strictly ascending list is determined by its set of members *)
Lemma strict_sorted_unique : forall l1 l2,
  StronglySorted slt l1 -> StronglySorted slt l2 -> (forall x, In x l1 <-> In x l2) -> l1 = l2.
Proof.
  induction l1 as [|a r IH]; intros [|b q] H1 H2 Hm.
  - reflexivity.
  - exfalso. apply (proj2 (Hm b)). now left.
  - exfalso. apply (proj1 (Hm a)). now left.
  - apply StronglySorted_inv in H1 as [H1 F1]. apply StronglySorted_inv in H2 as [H2 F2].
    rewrite Forall_forall in F1, F2.
    assert (E : a = b).
    { destruct (proj1 (Hm a) (or_introl eq_refl)) as [E|Ha]; [now symmetry|].
      destruct (proj2 (Hm b) (or_introl eq_refl)) as [E|Hb]; [assumption|].
      exfalso. apply (slt_irrefl a). eapply slt_trans; [apply F1, Hb | apply F2, Ha]. }
    subst b. f_equal. apply IH; try assumption.
    intros x; split; intros Hx.
    + destruct (proj1 (Hm x) (or_intror Hx)) as [E|]; [|assumption].
      subst x. exfalso. exact (slt_irrefl a (F1 a Hx)).
    + destruct (proj2 (Hm x) (or_intror Hx)) as [E|]; [|assumption].
      subst x. exfalso. exact (slt_irrefl a (F2 a Hx)).
Qed.

Lemma sorted_set_same l1 l2 : (forall x, In x l1 <-> In x l2) -> sorted_set l1 = sorted_set l2.
Proof.
  intros H. apply strict_sorted_unique; try apply sorted_set_sorted.
  intros x. rewrite !sorted_set_In. apply H.
Qed.
Lemma sorted_set_idem l : sorted_set (sorted_set l) = sorted_set l.
Proof. apply sorted_set_same. intros x. apply sorted_set_In. Qed.
Lemma sorted_set_app l1 l2 : sorted_set (sorted_set l1 ++ sorted_set l2) = sorted_set (l1 ++ l2).
Proof. apply sorted_set_same. intros x. rewrite !in_app_iff, !sorted_set_In. tauto. Qed.

(* ================================================================== *)
(* C. all_rows                                                         *)
(* ================================================================== *)
Lemma all_rows_length n : length (all_rows n) = 2 ^ n.
Proof. induction n as [|k IH]; cbn [all_rows]; [reflexivity|]. rewrite app_length, !map_length, IH. cbn. lia. Qed.

Lemma all_rows_In n r : In r (all_rows n) <-> length r = n.
Proof.
  revert r. induction n as [|k IH]; intros r; cbn [all_rows].
  - cbn. split; [intros [<-|[]]; reflexivity|]. destruct r; [auto|discriminate].
  - rewrite in_app_iff, !in_map_iff. split.
    + intros [[x [<- Hx]]|[x [<- Hx]]]; cbn; f_equal; now apply IH.
    + destruct r as [|[|] r]; cbn; [discriminate| |]; intros H; injection H as H; apply IH in H; eauto.
Qed.

Lemma all_rows_row_length n : Forall (fun r => length r = n) (all_rows n).
Proof. apply Forall_forall. intros r. apply all_rows_In. Qed.

Lemma bits_fold r : forall acc,
  fold_left (fun acc (b : bool) => 2 * acc + (if b then 1 else 0)) r acc
  = acc * 2 ^ length r + fold_left (fun acc (b : bool) => 2 * acc + (if b then 1 else 0)) r 0.
Proof.
  induction r as [|b r IH]; intros acc; cbn [fold_left length].
  - cbn. lia.
  - rewrite (IH (2 * acc + _)), (IH (2 * 0 + _)). rewrite Nat.pow_succ_r'. destruct b; lia.
Qed.
Lemma bits_val_cons b r : bits_val (b :: r) = (if b then 2 ^ length r else 0) + bits_val r.
Proof. unfold bits_val. cbn [fold_left]. rewrite bits_fold. destruct b; cbn; lia. Qed.

Lemma map_add_seq m : forall len st, map (fun x => m + x) (seq st len) = seq (m + st) len.
Proof. induction len as [|len IH]; intros st; cbn; [reflexivity|]. rewrite IH. f_equal. f_equal. lia. Qed.

(* the rows, read as binary numbers, are 0, 1, 2, ..., 2^n - 1 in this order *)
Lemma all_rows_ascending n : map bits_val (all_rows n) = seq 0 (2 ^ n).
Proof.
  induction n as [|k IH]; [reflexivity|].
  cbn [all_rows]. rewrite map_app, !map_map.
  replace (2 ^ S k) with (2 ^ k + 2 ^ k) by (cbn; lia). rewrite seq_app. f_equal.
  - rewrite <- IH. apply map_ext. intros r. now rewrite bits_val_cons.
  - transitivity (map (fun x => 2 ^ k + x) (map bits_val (all_rows k))).
    + rewrite map_map. apply map_ext_in. intros r Hr. apply all_rows_In in Hr. rewrite bits_val_cons, Hr. reflexivity.
    + rewrite IH, map_add_seq. f_equal. lia.
Qed.

Lemma all_rows_NoDup n : NoDup (all_rows n).
Proof. apply (NoDup_map_inv bits_val). rewrite all_rows_ascending. apply seq_NoDup. Qed.

(* ================================================================== *)
(* D. dict(zip(names, row))[name] is the assignment                    *)
(* ================================================================== *)
Lemma dict_get_notin : forall ns c k, ~ In k ns -> dict_get (combine ns c) k = None.
Proof.
  induction ns as [|n ns IH]; intros [|b c] k Hn; cbn; try reflexivity.
  rewrite IH by (intros H; apply Hn; now right).
  destruct (String.eqb_spec k n); [exfalso; apply Hn; now left|reflexivity].
Qed.

Lemma dict_get_assign : forall ns c k, NoDup ns -> length c = length ns -> In k ns ->
  dict_get (combine ns c) k = Some (assign ns c k).
Proof.
  induction ns as [|n ns IH]; intros [|b c] k Hd Hl Hin; cbn in *; try contradiction; try discriminate.
  apply NoDup_cons_iff in Hd as [Hn Hd]. injection Hl as Hl.
  destruct (String.eqb_spec k n) as [->|Hne].
  - now rewrite dict_get_notin.
  - destruct Hin as [E|Hin]; [congruence|]. now rewrite IH.
Qed.

(* ================================================================== *)
(* E. get_named_predicates                                             *)
(* ================================================================== *)
Lemma gnp_ok nm t : prop_tree t = true -> get_named_predicates nm t = Ok (names nm t).
Proof.
  unfold names. induction t; cbn; intros H; try discriminate; try reflexivity;
    try (apply andb_true_iff in H as [Ha Hb]; rewrite IHt1, IHt2 by assumption; now rewrite sorted_set_app).
  rewrite IHt by assumption. now rewrite sorted_set_idem.
Qed.

Lemma gnp_err nm t : prop_tree t = false -> get_named_predicates nm t = Raise ValueError.
Proof.
  induction t; cbn; intros H; try discriminate; try reflexivity;
    try (apply andb_false_iff in H;
         destruct (prop_tree t1) eqn:E1;
         [ rewrite (gnp_ok nm t1 E1); destruct H as [H|H]; [discriminate|]; now rewrite IHt2
         | now rewrite IHt1 ]).
  now rewrite IHt.
Qed.

Lemma gnp_inv nm t ns : get_named_predicates nm t = Ok ns -> prop_tree t = true /\ ns = names nm t.
Proof.
  destruct (prop_tree t) eqn:E.
  - rewrite gnp_ok by assumption. intros H; injection H as <-. auto.
  - rewrite gnp_err by assumption. discriminate.
Qed.

Lemma names_sorted nm t : StronglySorted slt (names nm t).
Proof. apply sorted_set_sorted. Qed.
Lemma names_NoDup nm t : NoDup (names nm t).
Proof. apply strict_sorted_NoDup, names_sorted. Qed.
Lemma names_In nm t x : In x (names nm t) <-> In x (raw_names nm t).
Proof. apply sorted_set_In. Qed.

(* ================================================================== *)
(* F. set_named_values / call / execute_predicate                      *)
(* ================================================================== *)
(* the variable OBJECTS at the leaves *)
Fixpoint locs (t : ptree) : list loc :=
  match t with
  | TVar l => [l]
  | TAnd a b | TOr a b | TXor a b => locs a ++ locs b
  | TNot a => locs a
  | _ => []
  end.
Definition inb (l : loc) (ls : list loc) : bool := existsb (Nat.eqb l) ls.
Lemma inb_In l ls : inb l ls = true <-> In l ls.
Proof.
  unfold inb. rewrite existsb_exists. split.
  - intros [x [Hx E]]. apply Nat.eqb_eq in E. now subst.
  - intros H. exists l. split; [assumption|apply Nat.eqb_refl].
Qed.
Lemma inb_app l a b : inb l (a ++ b) = inb l a || inb l b.
Proof. apply existsb_app. Qed.
Lemma raw_names_locs nm t : raw_names nm t = map nm (locs t).
Proof. induction t; cbn; try reflexivity; try (now rewrite map_app, IHt1, IHt2). assumption. Qed.

Definition dval (d : list (name * bool)) (k : name) : bool :=
  match dict_get d k with Some v => v | None => false end.

(* with a dict that has every name of the tree, set_named_values raises nothing and the store it leaves
   holds the dict's value at every variable object of the tree and is untouched elsewhere *)
Lemma snv_ok nm d : forall t s,
  prop_tree t = true ->
  (forall l, In l (locs t) -> dict_get d (nm l) <> None) ->
  exists s', set_named_values nm t d s = (s', None) /\
             forall l, s' l = if inb l (locs t) then dval d (nm l) else s l.
Proof.
  induction t; intros s Hp Hd; cbn in Hp; try discriminate;
    try (apply andb_true_iff in Hp as [Hp1 Hp2];
         destruct (IHt1 s Hp1) as [s1 [E1 V1]]; [intros l Hl; apply Hd; cbn; apply in_app_iff; now left|];
         destruct (IHt2 s1 Hp2) as [s2 [E2 V2]]; [intros l Hl; apply Hd; cbn; apply in_app_iff; now right|];
         exists s2; split; [cbn; rewrite E1, E2; reflexivity|];
         intros l; rewrite V2, V1; cbn [locs]; rewrite inb_app;
         destruct (inb l (locs t1)), (inb l (locs t2)); reflexivity).
  - cbn. specialize (Hd l (or_introl eq_refl)). unfold dval.
    destruct (dict_get d (nm l)) as [v|] eqn:E; [|congruence].
    exists (upd s l v). split; [reflexivity|]. intros l'. unfold upd, inb. cbn. rewrite orb_false_r.
    destruct (Nat.eqb_spec l' l); [subst; now rewrite E|reflexivity].
  - exists s. split; reflexivity.
  - exists s. split; reflexivity.
  - apply IHt; assumption.
Qed.

(* evaluation READS THE STORE; if the store agrees with an assignment of names at every object of the tree,
   the answer is the propositional value under that assignment *)
Lemma call_psem nm env : forall t s,
  prop_tree t = true -> (forall l, In l (locs t) -> s l = env (nm l)) ->
  call t s = Some (psem env nm t).
Proof.
  induction t; intros s Hp Hs; cbn in Hp; try discriminate; cbn;
    try (apply andb_true_iff in Hp as [Hp1 Hp2];
         rewrite IHt1, IHt2 by (try assumption; intros l Hl; apply Hs; cbn; apply in_app_iff; auto);
         destruct (psem env nm t1), (psem env nm t2); reflexivity).
  - rewrite Hs by (now left). reflexivity.
  - reflexivity.
  - reflexivity.
  - rewrite IHt by assumption. reflexivity.
Qed.

(* one row: from ANY store, writing the row and evaluating gives the propositional value of the row *)
Lemma execute_ok nm t c s :
  prop_tree t = true -> length c = length (names nm t) ->
  exists s', execute_predicate nm t (combine (names nm t) c) s = (s', Ok (psem (assign (names nm t) c) nm t)) /\
             forall l, s' l = if inb l (locs t) then assign (names nm t) c (nm l) else s l.
Proof.
  intros Hp Hl. unfold execute_predicate.
  assert (Hd : forall l, In l (locs t) ->
             dict_get (combine (names nm t) c) (nm l) = Some (assign (names nm t) c (nm l))).
  { intros l Hin. apply dict_get_assign; [apply names_NoDup|assumption|].
    apply names_In. rewrite raw_names_locs. now apply in_map. }
  destruct (snv_ok nm (combine (names nm t) c) t s Hp) as [s' [E V]].
  { intros l Hin. rewrite Hd by assumption. discriminate. }
  rewrite E. exists s'. split.
  - rewrite (call_psem nm (assign (names nm t) c)); [reflexivity|assumption|].
    intros l Hin. rewrite V. apply inb_In in Hin. rewrite Hin. unfold dval. now rewrite Hd by (now apply inb_In).
  - intros l. rewrite V. destruct (inb l (locs t)) eqn:Ein; [|reflexivity].
    unfold dval. rewrite Hd by (now apply inb_In). reflexivity.
Qed.

(* ================================================================== *)
(* G. the whole table                                                  *)
(* ================================================================== *)
Definition spec_row (nm : loc -> name) (t : ptree) (a : list bool) : row := (a, psem (assign (names nm t) a) nm t).

Lemma drain_run_ok nm t : prop_tree t = true -> forall rest s,
  Forall (fun c => length c = length (names nm t)) rest ->
  exists s', drain_run nm t (names nm t) rest s = (map (spec_row nm t) rest, None, s').
Proof.
  intros Hp. induction rest as [|c rest IH]; intros s Hf.
  - exists s. reflexivity.
  - apply Forall_cons_iff in Hf as [Hc Hf]. cbn [drain_run].
    destruct (execute_ok nm t c s Hp Hc) as [s1 [E _]]. rewrite E.
    destruct (IH s1 Hf) as [s2 E2]. rewrite E2. exists s2. reflexivity.
Qed.

(* MAIN THEOREM.  For every tree built from variables, constants and connectives (any size, any sharing of
   variable objects, any repetition of names over distinct objects: `nm` is arbitrary) and EVERY initial store,
   list(truth_table(t)) raises nothing and is exactly the specification table. *)
Theorem truth_table_correct : forall (nm : loc -> name) (t : ptree) (s0 : store),
  prop_tree t = true ->
  exists s1, truth_table_list nm t s0 = (spec_table nm t, None, s1).
Proof.
  intros nm t s0 Hp. unfold truth_table_list, drain. rewrite gnp_ok by assumption.
  apply (drain_run_ok nm t Hp). apply all_rows_row_length.
Qed.

(* history independence, said directly: two runs from two different stores give the same list *)
Corollary truth_table_history_independent : forall nm t s0 s0',
  prop_tree t = true ->
  fst (fst (truth_table_list nm t s0)) = fst (fst (truth_table_list nm t s0')) /\
  snd (fst (truth_table_list nm t s0)) = None.
Proof.
  intros nm t s0 s0' Hp.
  destruct (truth_table_correct nm t s0 Hp) as [s1 E1]. destruct (truth_table_correct nm t s0' Hp) as [s2 E2].
  rewrite E1, E2. auto.
Qed.

(* shape of the specification table: names strictly ascending and duplicate-free and exactly the names at the
   leaves; 2^n rows; the assignments are all the n-bit rows, each once, in ascending binary order *)
Theorem spec_table_shape : forall nm t,
  StronglySorted slt (names nm t) /\ NoDup (names nm t) /\
  (forall x, In x (names nm t) <-> exists l, In l (locs t) /\ nm l = x) /\
  length (spec_table nm t) = 2 ^ length (names nm t) /\
  map fst (spec_table nm t) = all_rows (length (names nm t)) /\
  map bits_val (map fst (spec_table nm t)) = seq 0 (2 ^ length (names nm t)) /\
  NoDup (map fst (spec_table nm t)) /\
  (forall a, In a (map fst (spec_table nm t)) <-> length a = length (names nm t)).
Proof.
  intros nm t.
  assert (Hf : map fst (spec_table nm t) = all_rows (length (names nm t))).
  { unfold spec_table. rewrite map_map. cbn. apply map_id. }
  repeat split; try (rewrite Hf).
  - apply names_sorted.
  - apply names_NoDup.
  - rewrite names_In, raw_names_locs, in_map_iff. intros [l [E H]]. eauto.
  - rewrite names_In, raw_names_locs, in_map_iff. intros [l [H E]]. eauto.
  - unfold spec_table. rewrite map_length. apply all_rows_length.
  - reflexivity.
  - apply all_rows_ascending.
  - apply all_rows_NoDup.
  - apply all_rows_In.
  - apply all_rows_In.
Qed.

(* anything other than variables, constants, connectives: ValueError at the first pull, before any row, and
   no variable has been written *)
Theorem truth_table_rejects : forall nm t s0,
  prop_tree t = false ->
  truth_table_list nm t s0 = ([], Some ValueError, s0) /\
  next nm t GStart s0 = (Throw ValueError, GDone, s0).
Proof.
  intros nm t s0 Hp. unfold truth_table_list, drain, next. rewrite gnp_err by assumption. auto.
Qed.

(* ================================================================== *)
(* H. the generator, pull by pull, under interference                  *)
(* ================================================================== *)
(* list(g) is "pull until it stops": drain unfolds along next *)
Lemma drain_unfold nm t st s :
  drain nm t st s =
  match next nm t st s with
  | (Yield r, st', s') => let '(rows, e, s'') := drain nm t st' s' in (r :: rows, e, s'')
  | (Stop, _, s') => ([], None, s')
  | (Throw e, _, s') => ([], Some e, s')
  end.
Proof.
  assert (R : forall ns rest,
    drain_run nm t ns rest s =
    match next_run nm t ns rest s with
    | (Yield r, st', s') => let '(rows, e, s'') := drain nm t st' s' in (r :: rows, e, s'')
    | (Stop, _, s') => ([], None, s')
    | (Throw e, _, s') => ([], Some e, s')
    end).
  { intros ns [|c rest]; cbn; [reflexivity|].
    destruct (execute_predicate nm t (combine ns c) s) as [s1 [b|e]]; reflexivity. }
  destruct st as [|ns rest|]; cbn [drain next].
  - destruct (get_named_predicates nm t); [apply R|reflexivity].
  - apply R.
  - reflexivity.
Qed.

(* the store-free specification of the generator *)
Definition pure_run (nm : loc -> name) (t : ptree) (ns : list name) (rest : list (list bool)) : pulled * gstate :=
  match rest with
  | [] => (Stop, GDone)
  | c :: rest' => (Yield (c, psem (assign ns c) nm t), GRun ns rest')
  end.
Definition pure_next (nm : loc -> name) (t : ptree) (st : gstate) : pulled * gstate :=
  match st with
  | GStart => if prop_tree t then pure_run nm t (names nm t) (all_rows (length (names nm t)))
              else (Throw ValueError, GDone)
  | GRun ns rest => pure_run nm t ns rest
  | GDone => (Stop, GDone)
  end.
(* states a generator over t can be in *)
Definition wf (nm : loc -> name) (t : ptree) (st : gstate) : Prop :=
  match st with
  | GRun ns rest => prop_tree t = true /\ ns = names nm t /\ Forall (fun c => length c = length ns) rest
  | _ => True
  end.

(* STEP-WISE THEOREM: whatever the store holds when next() is called (left by earlier rows, by other
   generators over the same variable objects, or by any other code), the pull returns what the store-free
   specification says, and the generator stays in a good state. *)
Theorem next_pure : forall nm t st (s : store),
  wf nm t st ->
  exists s', next nm t st s = (fst (pure_next nm t st), snd (pure_next nm t st), s') /\
             wf nm t (snd (pure_next nm t st)).
Proof.
  assert (R : forall nm t rest s, prop_tree t = true ->
            Forall (fun c => length c = length (names nm t)) rest ->
            exists s', next_run nm t (names nm t) rest s
                       = (fst (pure_run nm t (names nm t) rest), snd (pure_run nm t (names nm t) rest), s')
                       /\ wf nm t (snd (pure_run nm t (names nm t) rest))).
  { intros nm t [|c rest] s Hp Hf; cbn.
    - exists s. auto.
    - apply Forall_cons_iff in Hf as [Hc Hf].
      destruct (execute_ok nm t c s Hp Hc) as [s1 [E _]]. rewrite E. exists s1. auto. }
  intros nm t [|ns rest|] s Hw; cbn [next pure_next].
  - destruct (prop_tree t) eqn:Hp.
    + rewrite gnp_ok by assumption. apply R; [assumption|apply all_rows_row_length].
    + rewrite gnp_err by assumption. exists s. cbn. auto.
  - destruct Hw as [Hp [-> Hf]]. apply R; assumption.
  - exists s. cbn. auto.
Qed.

(* the form asked for in the property: after ANY prefix of the rows has been produced and the store has been
   arbitrarily modified, the next row is still the right one *)
Corollary next_row_after_interference : forall nm t done c rest (s : store),
  prop_tree t = true ->
  all_rows (length (names nm t)) = done ++ c :: rest ->
  exists s', next nm t (GRun (names nm t) (c :: rest)) s
             = (Yield (c, psem (assign (names nm t) c) nm t), GRun (names nm t) rest, s').
Proof.
  intros nm t done c rest s Hp Hr.
  destruct (next_pure nm t (GRun (names nm t) (c :: rest)) s) as [s' [E _]].
  - cbn. repeat split; try assumption.
    pose proof (all_rows_row_length (length (names nm t))) as Hf. rewrite Hr in Hf.
    apply Forall_app in Hf as [_ Hf]. assumption.
  - exists s'. exact E.
Qed.

(* ---- any number of generators over one heap, pulled in any order, with arbitrary writes in between ---- *)
Inductive event :=
| EPull (i : nat)                       (* next() on generator number i *)
| EMutate (f : store -> store).         (* any other code changing the .v fields in any way *)
Definition pool := nat -> ptree * gstate.
Definition pool_set (gs : pool) (i : nat) (g : ptree * gstate) : pool := fun j => if Nat.eqb j i then g else gs j.

Fixpoint run_sched (nm : loc -> name) (gs : pool) (s : store) (ev : list event) : list (nat * pulled) :=
  match ev with
  | [] => []
  | EMutate f :: r => run_sched nm gs (f s) r
  | EPull i :: r =>
      let '(p, st', s') := next nm (fst (gs i)) (snd (gs i)) s in
      (i, p) :: run_sched nm (pool_set gs i (fst (gs i), st')) s' r
  end.
Fixpoint pulls_of (i : nat) (ev : list event) : nat :=
  match ev with
  | [] => 0
  | EPull j :: r => (if Nat.eqb j i then 1 else 0) + pulls_of i r
  | EMutate _ :: r => pulls_of i r
  end.
(* what a generator produces on its own, by the store-free specification *)
Fixpoint pure_trace (nm : loc -> name) (t : ptree) (st : gstate) (k : nat) : list pulled :=
  match k with
  | O => []
  | S k' => fst (pure_next nm t st) :: pure_trace nm t (snd (pure_next nm t st)) k'
  end.

Theorem interleaving_pure : forall nm ev (gs : pool) (s : store),
  (forall i, wf nm (fst (gs i)) (snd (gs i))) ->
  forall i, map snd (filter (fun e => Nat.eqb (fst e) i) (run_sched nm gs s ev))
            = pure_trace nm (fst (gs i)) (snd (gs i)) (pulls_of i ev).
Proof.
  intros nm. induction ev as [|[j|f] ev IH]; intros gs s Hw i; cbn [run_sched pulls_of].
  - reflexivity.
  - destruct (next_pure nm (fst (gs j)) (snd (gs j)) s (Hw j)) as [s' [E Hw']]. rewrite E.
    set (gs' := pool_set gs j (fst (gs j), snd (pure_next nm (fst (gs j)) (snd (gs j))))).
    assert (Hws : forall k, wf nm (fst (gs' k)) (snd (gs' k))).
    { intros k. unfold gs', pool_set. destruct (Nat.eqb k j); [exact Hw'|apply Hw]. }
    specialize (IH gs' s' Hws i). cbn [filter fst].
    destruct (Nat.eqb_spec j i) as [->|Hne].
    + cbn [map snd plus pure_trace]. rewrite IH. unfold gs', pool_set. rewrite Nat.eqb_refl. reflexivity.
    + rewrite IH. unfold gs', pool_set. destruct (Nat.eqb_spec i j); [congruence|]. reflexivity.
  - apply IH. assumption.
Qed.

(* what the j-th pull (j = 0, 1, ...) of a fresh generator must return *)
Definition expected (nm : loc -> name) (t : ptree) (j : nat) : pulled :=
  if prop_tree t then match nth_error (spec_table nm t) j with Some r => Yield r | None => Stop end
  else match j with O => Throw ValueError | _ => Stop end.

Lemma pure_trace_done nm t k : pure_trace nm t GDone k = map (fun _ => Stop) (seq 0 k).
Proof.
  generalize 0. induction k as [|k IH]; intros st; cbn; [reflexivity|]. now rewrite (IH (S st)).
Qed.
Lemma nth_error_map' {A B} (f : A -> B) l j : nth_error (map f l) j = option_map f (nth_error l j).
Proof. revert j. induction l; destruct j; cbn; auto. Qed.
Lemma pure_trace_run nm t ns : forall k rest,
  pure_trace nm t (GRun ns rest) k
  = map (fun j => match nth_error rest j with Some c => Yield (c, psem (assign ns c) nm t) | None => Stop end) (seq 0 k).
Proof.
  induction k as [|k IH]; intros rest; [reflexivity|].
  cbn [pure_trace pure_next seq map]. destruct rest as [|c rest]; cbn [pure_run fst snd nth_error].
  - f_equal. rewrite pure_trace_done, <- seq_shift, map_map. apply map_ext. intros j. reflexivity.
  - f_equal. rewrite IH, <- seq_shift, map_map. reflexivity.
Qed.
Lemma pure_trace_start nm t k : pure_trace nm t GStart k = map (expected nm t) (seq 0 k).
Proof.
  destruct k as [|k]; [reflexivity|]. unfold expected.
  cbn [pure_trace pure_next]. destruct (prop_tree t) eqn:Hp.
  - change (pure_run nm t (names nm t) (all_rows (length (names nm t))))
      with (pure_next nm t (GRun (names nm t) (all_rows (length (names nm t))))).
    change (?a :: pure_trace nm t (snd (pure_next nm t ?st)) k) with (pure_trace nm t st (S k)).
    rewrite pure_trace_run. apply map_ext. intros j. unfold spec_table. rewrite nth_error_map'.
    destruct (nth_error _ j); reflexivity.
  - cbn [fst snd seq map]. f_equal. rewrite pure_trace_done, <- seq_shift, map_map. reflexivity.
Qed.

(* INTERLEAVING THEOREM.  Any number of fresh truth_table generators over trees that may share variable
   objects and names, one heap in any initial state, any schedule of next() calls and arbitrary writes to the
   heap in between: the results obtained from generator i are, in order, the rows of the specification table
   of its own tree followed by StopIteration (or ValueError then StopIteration for a rejected tree). *)
Theorem interleaved_truth_tables : forall nm (trees : nat -> ptree) (s0 : store) (ev : list event) (i : nat),
  map snd (filter (fun e => Nat.eqb (fst e) i) (run_sched nm (fun k => (trees k, GStart)) s0 ev))
  = map (expected nm (trees i)) (seq 0 (pulls_of i ev)).
Proof.
  intros. rewrite (interleaving_pure nm ev (fun k => (trees k, GStart)) s0); [|intros k; exact I].
  cbn [fst snd]. apply pure_trace_start.
Qed.

(* ================================================================== *)
(* I. non-vacuity: concrete instances, by computation                  *)
(* ================================================================== *)
Open Scope string_scope.
(* objects 1 and 2 are DIFFERENT NamedPredicate objects both named "p"; object 0 ("q") sits at two leaves *)
Definition ex_nm (l : loc) : name := match l with 0 => "q" | 1 => "p" | 2 => "p" | 3 => "r" | _ => "z" end.
(* (q & p) ^ ((p' & ~q) | r) *)
Definition ex_tree := TXor (TAnd (TVar 0) (TVar 1)) (TOr (TAnd (TVar 2) (TNot (TVar 0))) (TVar 3)).
Definition ex_tree2 := TOr (TVar 1) (TVar 0).
Definition ex_dirty : store := fun l => Nat.even l.

Example truth_table_correct_nonvacuous :
  prop_tree ex_tree = true /\ names ex_nm ex_tree = ["p"; "q"; "r"] /\
  fst (truth_table_list ex_nm ex_tree ex_dirty) =
    ([([false; false; false], false); ([false; false; true], true);
      ([false; true; false], false); ([false; true; true], true);
      ([true; false; false], true); ([true; false; true], true);
      ([true; true; false], true); ([true; true; true], false)], None) /\
  fst (truth_table_list ex_nm ex_tree ex_dirty) = (spec_table ex_nm ex_tree, None) /\
  fst (truth_table_list ex_nm ex_tree (fun _ => true)) = (spec_table ex_nm ex_tree, None).
Proof. vm_compute. repeat split. Qed.

(* the sort is a real sort: names given in descending order with a prefix pair and a repetition *)
Example sorted_set_nonvacuous : sorted_set ["q"; "pq"; "p"; "q"; "B"; "a1"] = ["B"; "a1"; "p"; "pq"; "q"].
Proof. vm_compute. reflexivity. Qed.

Example all_rows_nonvacuous :
  all_rows 2 = [[false; false]; [false; true]; [true; false]; [true; true]] /\ map bits_val (all_rows 3) = [0; 1; 2; 3; 4; 5; 6; 7].
Proof. vm_compute. split; reflexivity. Qed.

Example truth_table_rejects_nonvacuous :
  fst (truth_table_list ex_nm (TAnd (TVar 0) TOther) ex_dirty) = ([], Some ValueError) /\
  fst (truth_table_list ex_nm (TAnd TOther (TVar 0)) ex_dirty) = ([], Some ValueError).
Proof. vm_compute. split; reflexivity. Qed.

(* the hypothesis of the store lemma can hold and its conclusion says something: one row written over a dirty store *)
Example execute_nonvacuous :
  let '(s', r) := execute_predicate ex_nm ex_tree (combine ["p"; "q"; "r"] [true; false; false]) ex_dirty in
  r = Ok true /\ map s' [0; 1; 2; 3; 4; 5] = [false; true; true; false; true; false].
Proof. vm_compute. split; reflexivity. Qed.

(* two generators over trees sharing the objects 0 and 1, pulled alternately, with a write of True into every
   variable in between: each still produces its own table *)
Example interleaving_nonvacuous :
  run_sched ex_nm (fun k => match k with 0 => (ex_tree, GStart) | _ => (ex_tree2, GStart) end) ex_dirty
    [EPull 0; EPull 1; EMutate (fun _ _ => true); EPull 0; EPull 1; EPull 1; EPull 0; EPull 1; EPull 1; EPull 1]
  = [(0, Yield ([false; false; false], false)); (1, Yield ([false; false], false));
     (0, Yield ([false; false; true], true)); (1, Yield ([false; true], true)); (1, Yield ([true; false], true));
     (0, Yield ([false; true; false], false)); (1, Yield ([true; true], true)); (1, Stop); (1, Stop)].
Proof. vm_compute. reflexivity. Qed.

Example next_row_after_interference_nonvacuous :
  fst (next ex_nm ex_tree (GRun ["p"; "q"; "r"] [[true; true; false]; [true; true; true]]) (fun _ => false))
  = (Yield ([true; true; false], true), GRun ["p"; "q"; "r"] [[true; true; true]]).
Proof. vm_compute. reflexivity. Qed.
