(* GenZip.v — zip of n generator programs, generically: `GFun (GRound n gs 0 [] emit GStop)` pulls one value from each
   gs j in turn (their draws interleave), hands the n values IN ORDER to `emit` and yields what it returns; it ends when
   one component ends.  If every value of component j satisfies Q j, every completed round is a list of exactly n values
   whose m-th element satisfies Q m; whatever `emit` makes of such a round is what the stream yields.
   (GenDSL's rule S_round forgets the positions; this is the positional statement tuple_of / dict_of need.) *)
From Coq Require Import QArith Bool List Arith Lia.
From PP Require Import Prelude.Base Prelude.Val Lemmas.GenDSL.
Import ListNotations.
Close Scope Q_scope.
Open Scope nat_scope.

Definition EmitOk (Q : nat -> val -> Prop) (P : val -> Prop) (n : nat) (emit : list val -> list val) : Prop :=
  forall vs, List.length vs = n -> Positional Q vs -> Forall P (emit vs).

Inductive RoundOk (Q : nat -> val -> Prop) (P : val -> Prop) (n : nat) (emit : list val -> list val) : gp -> Prop :=
| RO_round gs i buf :
    (forall j, Safe (Q j) (gs j)) -> List.length buf = i -> i <= n -> Positional Q (rev buf) ->
    RoundOk Q P n emit (GRound n gs i buf emit GStop)
| RO_emit v k : P v -> RoundOk Q P n emit k -> RoundOk Q P n emit (GYield v k)
| RO_stop : RoundOk Q P n emit GStop.

Lemma RoundOk_emit_all Q P n emit vs k : Forall P vs -> RoundOk Q P n emit k -> RoundOk Q P n emit (emit_all vs k).
Proof. induction 1; cbn; [auto|]. intros Hk. constructor; auto. Qed.

Lemma round_step Q P n emit (emit_ok : EmitOk Q P n emit) g : RoundOk Q P n emit g -> forall o c e g' c', step g o c = (e, g', c') ->
  (forall v, e = EYield v -> P v) /\ RoundOk Q P n emit g'.
Proof.
  induction 1 as [gs i buf Hgs Hlen Hle Hpos|v k Hv Hk _|]; intros o c e g' c' E; cbn in E.
  - destruct (Nat.eqb n 0) eqn:E0; [injection E as <- <- <-; split; [discriminate|constructor]|].
    destruct (Nat.leb n i) eqn:El.
    + injection E as <- <- <-. split; [discriminate|]. apply Nat.leb_le in El.
      apply RoundOk_emit_all.
      * apply emit_ok; [rewrite rev_length; lia|exact Hpos].
      * constructor; auto using Positional_nil. lia.
    + apply Nat.leb_gt in El.
      destruct (step (gs i) o c) as [[e1 g1] c1] eqn:E1.
      destruct (step_safe _ _ (Hgs i) _ _ _ _ _ E1) as [Hv Hs].
      assert (Hgs' : forall j, Safe (Q j) (if Nat.eqb j i then g1 else gs j)).
      { intros j. destruct (Nat.eqb_spec j i); [subst j; exact Hs|apply Hgs]. }
      destruct e1 as [v| | |]; injection E as <- <- <-; (split; [discriminate|]).
      * constructor; [exact Hgs'|cbn; congruence|lia|].
        cbn [rev]. apply Positional_snoc; [exact Hpos|]. rewrite rev_length, Hlen. apply Hv; reflexivity.
      * constructor; assumption.
      * constructor.
      * constructor.
  - injection E as <- <- <-. split; [intros ? [= <-]; exact Hv|exact Hk].
  - injection E as <- <- <-. split; [discriminate|constructor].
Qed.

(* GFun only forwards events (and turns the end of its body into the end of the stream) *)
Inductive FunOk (Q : nat -> val -> Prop) (P : val -> Prop) (n : nat) (emit : list val -> list val) : gp -> Prop :=
| FO_fun g : RoundOk Q P n emit g -> FunOk Q P n emit (GFun g)
| FO_stop : FunOk Q P n emit GStop.

Lemma fun_step Q P n emit (emit_ok : EmitOk Q P n emit) g : FunOk Q P n emit g -> forall o c e g' c', step g o c = (e, g', c') ->
  (forall v, e = EYield v -> P v) /\ FunOk Q P n emit g'.
Proof.
  intros [g0 H|] o c e g' c' E; cbn in E.
  - destruct (step g0 o c) as [[e1 g1] c1] eqn:E1. destruct (round_step Q P n emit emit_ok g0 H _ _ _ _ _ E1) as [Hv Hs].
    destruct e1 as [v| | |]; injection E as <- <- <-.
    + split; [intros ? [= <-]; apply Hv; reflexivity|constructor; exact Hs].
    + split; [discriminate|constructor; exact Hs].
    + split; [discriminate|constructor].
    + split; [discriminate|constructor].
  - injection E as <- <- <-. split; [discriminate|constructor].
Qed.

Lemma fun_run Q P n emit (emit_ok : EmitOk Q P n emit) : forall fuel g o c, FunOk Q P n emit g -> Forall P (fst (run fuel g o c)).
Proof.
  induction fuel as [|f IH]; intros g o c H; cbn; [constructor|].
  destruct (step g o c) as [[e g'] c'] eqn:E. destruct (fun_step Q P n emit emit_ok g H o c e g' c' E) as [Hv Hs].
  destruct e as [v| | |]; cbn.
  - specialize (IH g' o c' Hs). destruct (run f g' o c'). cbn in *. constructor; [apply Hv; reflexivity|exact IH].
  - apply IH; exact Hs.
  - constructor.
  - constructor.
Qed.

Theorem zip_run_safe Q P n emit gs : EmitOk Q P n emit -> (forall j, Safe (Q j) (gs j)) ->
  forall fuel o c, Forall P (fst (run fuel (GFun (GRound n gs 0 [] emit GStop)) o c)).
Proof.
  intros emit_ok Hgs fuel o c. apply (fun_run Q P n emit emit_ok). constructor. constructor; auto using Positional_nil. lia.
Qed.
