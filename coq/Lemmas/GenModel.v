(* GenModel.v — the value generators of predicate/generator/{helpers,generate_true,generate_false}.py as programs of
   the generator language (Lemmas/GenDSL.v).  HAND-WRITTEN from the source (tie: source fingerprint of the three files +
   the draw-replay correspondence of C09/C10/C11, which feeds the implementation's recorded random draws to these very
   programs and compares the streams).  Kinds not modelled yield nothing here and are covered by the search only:
   regex_p (exrex), subset/real-subset (powerset), tuple_of / dict_of (not in `pred`). *)
From Coq Require Import QArith Qround ZArith Bool List Arith Lia.
From PP Require Import Prelude.Base Prelude.Val Prelude.Pred Prelude.Sem Gen.Negate Gen.Implies Gen.Optimize
  Lemmas.Term Lemmas.GenDSL.
Import ListNotations.
Close Scope Q_scope.
Open Scope nat_scope.

(* the float environment: what the model needs to know about IEEE doubles, supplied by the harness for replay and
   constrained by `fenv_ok` in the theorems *)
Record fenv := {
  nup : Q -> Q;        (* math.nextafter(v, +inf) *)
  ndown : Q -> Q;      (* math.nextafter(v, -inf) *)
  dlo : Q -> Q;        (* the lower bound random_floats derives from a given upper bound *)
  dhi : Q -> Q;        (* the upper bound random_floats derives from a given lower bound *)
}.
Definition fenv_ok (fe : fenv) : Prop :=
  (forall v, (v < nup fe v)%Q) /\ (forall v, (ndown fe v < v)%Q) /\ (forall u, (dlo fe u <= u)%Q) /\ (forall l, (l <= dhi fe l)%Q).

Definition MAXS : Z := 9223372036854775807%Z.
Definition vint (z : Z) : val := VQ KInt (inject_Z z) (negb (Z.eqb z 0)).
Definition vfloat (q : Q) : val := VQ KFloat q (negb (Qeq_bool q 0)).
Definition vbool (b : bool) : val := VQ KBool (if b then 1%Q else 0%Q) b.
Definition cv (ck : kind) (v : Q) : val := VQ ck v (negb (Qeq_bool v 0)).
Definition is_kind (k : kind) (v : val) : bool := kind_eqb (type_of v) k.

(* ---------------- helpers.py ---------------- *)
Fixpoint draw_ints (n : nat) (lo hi : Z) (k : gp) : gp :=
  match n with O => k | S m => GInt lo hi (fun z => GYield (vint z) (draw_ints m lo hi k)) end.

Definition between (lo hi origin limit : Z) (count : nat) (k : gp) : gp :=
  let low := Z.max (origin - limit) lo in
  let high := Z.min (origin + limit) hi in
  if (low <=? high)%Z then draw_ints count low high k else k.

Definition random_ints (lo hi : Z) : gp :=
  let origin := Z.min (Z.max 0 lo) hi in
  let body := between lo hi origin 1 1 (between lo hi origin 10 10 (between lo hi origin 100 100
                (between lo hi origin MAXS 10 GStop))) in
  if (hi <? lo)%Z then GStop else GFun (GLoop body body).

(* one-sided calls: the bound that is not given is derived from the given one *)
Definition ints_from (lo : Z) : gp := random_ints lo (Z.max MAXS (lo + MAXS)).
Definition ints_upto (hi : Z) : gp := random_ints (Z.min (- MAXS) (hi - MAXS)) hi.

Definition random_floats (lo hi : Q) : gp :=
  let body := if Qle_bool hi lo then GYield (vfloat lo) GStop          (* `... if lower < upper else lower` *)
              else GReal lo hi (fun q => GYield (vfloat q) GStop) in
  GFun (GYield (vfloat lo) (GYield (vfloat hi) (GLoop body body))).
Definition default_floats : gp := random_floats (-(1000000#1))%Q (1000000#1)%Q.

Definition str_dflt : val := VColl KStr [].
Definition random_strings : gp :=
  let body := GInt 0 10 (fun _ => GVal (is_kind KStr) str_dflt (fun s => GYield s GStop)) in
  GFun (GLoop body body).
Definition uuid_dflt : val := VOther KUuid 0 true.
Definition random_uuids : gp :=
  let body := GVal (is_kind KUuid) uuid_dflt (fun u => GYield u GStop) in GFun (GLoop body body).
Definition dt_dflt : val := VOther KDatetime 0 true.
Definition random_datetimes : gp := GFun (GVal (is_kind KDatetime) dt_dflt (fun d => GYield d GStop)).
Definition random_complex : gp := GFun (GYield (VOther KComplex 0 true) GStop).

Definition random_anys : gp :=
  GFun (GRound 3 (fun j => match j with O => random_ints (- MAXS) MAXS | S O => random_strings | _ => default_floats end)
               0 [] (fun vs => vs) GStop).
Definition random_dicts : gp :=
  let body := GTake 5 random_strings [] (fun keys => GTake 5 random_anys [] (fun vals =>
                GYield (VColl KDict (firstn (List.length vals) keys)) GStop)) in
  GFun (GYield (VColl KDict []) (GLoop body body)).
Definition random_sets : gp :=
  let body := GInt 0 10 (fun n => GTake (Z.to_nat n) random_anys [] (fun vs => GYield (VColl KSet vs) GStop)) in
  GFun (GYield (VColl KSet []) (GLoop body body)).

Definition passes (W : world) (p : pred) (v : val) : bool := ob (ev W p v).
Definition generate_strings W p := GFun (GFilter (passes W p) random_strings GStop).
Definition generate_ints W p := GFun (GFilter (passes W p) (random_ints (- MAXS) MAXS) GStop).
Definition generate_uuids W p := GFun (GFilter (passes W p) random_uuids GStop).
Definition generate_anys W p := GFun (GFilter (passes W p) random_anys GStop).

(* random_combination_with_replacement(values, r): r draws of an index, sorted, selected *)
Fixpoint draw_idx (r : nat) (n : Z) (acc : list Z) (k : list Z -> gp) : gp :=
  match r with O => k (rev acc) | S m => GInt 0 (n - 1) (fun z => draw_idx m n (z :: acc) k) end.
Fixpoint insertZ (z : Z) (l : list Z) : list Z :=
  match l with [] => [z] | x :: r => if (z <=? x)%Z then z :: l else x :: insertZ z r end.
Definition sortZ (l : list Z) : list Z := fold_right insertZ [] l.
Definition select (pool : list val) (idx : list Z) : list val :=
  map (fun z => nth (Z.to_nat z) pool (hd VNone pool)) (sortZ idx).
Definition rcwr (pool : list val) (r : nat) (k : list val -> gp) : gp :=
  match pool with
  | [] => GAbort        (* randrange(0): ValueError in CPython; unreachable where the callers guard `if not values` *)
  | _ => draw_idx r (Z.of_nat (List.length pool)) [] (fun idx => k (select pool idx))
  end.
(* hash(x) works (needed to put x INTO a set): unlike `x in s` (Val.hashable), a set is not accepted *)
Fixpoint py_hashable (x : val) : bool :=
  match x with
  | VColl KTuple items => forallb py_hashable items
  | VColl KRange _ | VColl KStr _ => true
  | VColl _ _ => false
  | _ => true
  end.
Definition all_hashable (vs : list val) : bool := forallb py_hashable vs.

(* python equality between generated values (numbers compare across bool/int/float) *)
Fixpoint pyeq (a b : val) {struct a} : bool :=
  match a, b with
  | VQ _ q _, VQ _ q' _ => Qeq_bool q q'
  | VNone, VNone => true
  | VOther k i _, VOther k' i' _ => kind_eqb k k' && Nat.eqb i i'
  | VColl k l, VColl k' l' =>
      kind_eqb k k' && (fix go (l l' : list val) {struct l} := match l, l' with
                         | [], [] => true | x :: r, y :: r' => pyeq x y && go r r' | _, _ => false end) l l'
  | _, _ => false
  end.
Fixpoint dedupv (vs : list val) : list val :=
  match vs with [] => [] | v :: r => if existsb (pyeq v) r then dedupv r else v :: dedupv r end.

(* ---------------- generate_true.py ---------------- *)
(* parameters: fe = float environment, W = world, ck = the Python type of the tree's constants (KInt, KFloat, KStr, KDatetime, KUuid) *)
Definition zfloor (v : Q) : Z := Qfloor v.
Fixpoint offsets (v : Q) (sign : Z) (from : Z) (n : nat) (k : gp) : gp :=
  match n with O => k | S m => GYield (cv KDatetime (v + inject_Z (sign * from))%Q) (offsets v sign (from + 1) m k) end.

Definition by_sort_true (W : world) (ck : kind) (p : pred) (dt : gp) (fl : gp) (it : gp) : gp :=
  match ck with
  | KDatetime => dt | KFloat => fl | KInt => it
  | KStr => generate_strings W p | KUuid => generate_uuids W p
  | _ => GStop
  end.

Definition fixed (vs : list val) : gp := emit_all vs GStop.
Definition empties : list val := [VColl KList []; VColl KDict []; VColl KTuple []; VColl KStr []; VColl KSet []].
Definition falsies : list val := [vbool false; vint 0; VColl KTuple []; VColl KStr []; VColl KDict []].
Definition truthies : list val :=
  [vbool true; vint 1; VColl KStr [VOther KStr 0 true]; VColl KSet [vint 1]; vfloat (7070651414971679#2251799813685248)%Q].   (* the double 3.14 *)
Definition non_empties : list val :=
  [VColl KList [vint 1]; VColl KSet [vint 1; vint 2; vint 3]; VColl KTuple [vint 1]; VColl KStr [VOther KStr 0 true]].

(* more_itertools.powerset_of_sets: by size, each size in the order of itertools.combinations over the set's elements *)
Fixpoint combs (r : nat) (l : list Q) : list (list Q) :=
  match r, l with
  | O, _ => [[]]
  | S _, [] => []
  | S r', x :: t => (map (cons x) (combs r' t) ++ combs r t)%list
  end.
Definition powerset (l : list Q) : list (list Q) := flat_map (fun r => combs r l) (List.seq 0 (S (List.length l))).
Definition vset (ck : kind) (sub : list Q) : val := VColl KSet (map (cv ck) sub).

Fixpoint gen_true (fe : fenv) (W : world) (ck : kind) (p : pred) {struct p} : gp :=
  match p with
  | PAll q =>
      let body := GInt 1 10 (fun z => let n := Z.to_nat z in
        GTake n (gen_true fe W ck q) [] (fun vs => match vs with [] => GAbort | _ =>
          rcwr vs n (fun c1 => GYield (VColl KTuple c1)
            (GTake n (gen_true fe W ck q) [] (fun vs2 => rcwr vs2 n (fun c2 =>
              (fun k => if all_hashable c2 then GYield (VColl KSet c2) k else k)
                (GTake n (gen_true fe W ck q) [] (fun vs3 => rcwr vs3 n (fun c3 => GYield (VColl KList c3) GStop))))))) end)) in
      GFun (GYield (VColl KList []) (GLoop body body))
  | PTrue => GFun (GYield (vbool true) GStop)
  | PAnd l r =>
      match optimize W (4 * w p + 3) p with
      | Ok PFalse _ => GFun GStop
      | _ => GFun (GSeq (GFilter (passes W r) (gen_true fe W ck l) GStop) (GFilter (passes W l) (gen_true fe W ck r) GStop))
      end
  | PEq v => let body := GYield (cv ck v) GStop in GFun (GLoop body body)
  | PFalse => GFun GStop
  | PGe v => GFun (by_sort_true W ck p (offsets v 1 0 5 GStop) (random_floats v (dhi fe v)) (ints_from (zfloor v)))
  | PGt v => GFun (by_sort_true W ck p (offsets v 1 1 5 GStop) (random_floats (nup fe v) (dhi fe (nup fe v))) (ints_from (zfloor v + 1)))
  | PLe v => GFun (by_sort_true W ck p (offsets v (-1) 0 5 GStop) (random_floats (dlo fe v) v) (ints_upto (zfloor v)))
  | PLt v => GFun (by_sort_true W ck p (offsets v (-1) 1 5 GStop) (random_floats (dlo fe (ndown fe v)) (ndown fe v)) (ints_upto (zfloor v - 1)))
  | PIn s => GFun (fixed (map (cv ck) s))
  | PIsEmpty => GFun (fixed empties)
  | PNe v => GFun (GYield (vbool (Qeq_bool v 0)) GStop)
  | PIsNone => GFun (GYield VNone GStop)
  | PNotIn s =>
      match s with
      | [] => GFun GStop
      | _ => match ck with KInt | KBool => generate_ints W p | KStr => generate_strings W p | _ => GFun GStop end
      end
  | PIsNotNone => generate_anys W p
  | POr l r => GFun (GRound 2 (fun j => match j with O => gen_true fe W ck l | _ => gen_true fe W ck r end) 0 [] (fun vs => vs) GStop)
  | PIsFalsy => GFun (fixed falsies)
  | PIsTruthy => GFun (fixed truthies)
  | PIsInstance ks =>
      match ks with
      | c :: _ =>
          if Nat.eqb c 4 then random_strings
          else if Nat.eqb c 0 then (let body := GYield (vbool false) (GYield (vbool true) GStop) in GFun (GLoop body body))
          else if Nat.eqb c 3 then random_complex
          else if Nat.eqb c 10 then random_datetimes
          else if Nat.eqb c 9 then random_dicts
          else if Nat.eqb c 2 then default_floats
          else if Nat.eqb c 11 then random_uuids
          else if Nat.eqb c 1 then random_ints (- MAXS) MAXS
          else if Nat.eqb c 8 then random_sets
          else GFun GStop
      | [] => GFun GAbort
      end
  | PAny q =>
      GFun (GTake 10 (gen_true fe W ck q) [] (fun vs => match vs with [] => GAbort | _ =>
        rcwr vs 5 (fun c1 => GYield (VColl KTuple c1)
          (rcwr vs 5 (fun c2 => if all_hashable c2 then GYield (VColl KSet c2) GStop else GStop))) end))
  | PSetOf q =>
      let body := GInt 0 10 (fun z => let n := Z.to_nat z in
        GTake n (gen_true fe W ck q) [] (fun vs =>
          if all_hashable vs && Nat.eqb (List.length (dedupv vs)) n then GYield (VColl KTuple (dedupv vs)) GStop else GStop)) in
      GFun (GLoop body body)
  | PHasKey key =>
      GFun (GRound 2 (fun j => match j with O => random_dicts | _ => random_anys end) 0 []
                   (fun vs => [VColl KDict (items_of (hd VNone vs) ++ [cv ck key])]) GStop)
  | PSubset s => GFun (fixed (map (vset ck) (powerset s)))                                   (* yield from powerset_of_sets(v) *)
  | PRealSubset s =>                                                                          (* ... if v != predicate.v *)
      GFun (fixed (filter (fun v => negb (vsuperset (items_of v) s)) (map (vset ck) (powerset s))))
  | _ => GFun GStop           (* unsupported here: the implementation raises ValueError or is not modelled (see header) *)
  end.

(* ---------------- generate_false.py ---------------- *)
Definition by_sort_false (W : world) (ck : kind) (p : pred) (dt : gp) (fl : gp) (it : gp) : gp :=
  match ck with
  | KDatetime => dt | KFloat => fl | KInt => it
  | KStr => generate_strings W (PNot p) | KUuid => generate_uuids W (PNot p)
  | _ => GStop
  end.

Fixpoint gen_false (fe : fenv) (W : world) (ck : kind) (p : pred) {struct p} : gp :=
  match p with
  | PAll q =>
      let body := GInt 1 10 (fun z => let n := Z.to_nat z in
        GTake n (gen_false fe W ck q) [] (fun vs => match vs with [] => GAbort | _ =>
          rcwr vs n (fun c1 => GYield (VColl KTuple c1) GStop) end)) in
      GFun (GLoop body body)
  | PAnd l r =>
      match optimize W (4 * w p + 3) p with
      | Ok PTrue _ => GFun GStop
      | _ => GFun (GSeq (gen_false fe W ck l) (gen_false fe W ck r))
      end
  | PTrue => GFun GStop
  | PEq v => generate_anys W (PNot p)
  | PFalse => random_anys
  | PGe v => GFun (by_sort_false W ck p (offsets v (-1) 1 5 GStop) (random_floats (dlo fe (ndown fe v)) (ndown fe v)) (ints_upto (zfloor v - 1)))
  | PGt v => GFun (by_sort_false W ck p (offsets v (-1) 0 5 GStop) (random_floats (dlo fe v) v) (ints_upto (zfloor v)))
  | PIsFalsy => generate_anys W PIsTruthy
  | PIn s =>
      match s with
      | [] => GFun GStop
      | _ => match ck with KInt | KBool => generate_ints W (PNot p) | KStr => generate_strings W (PNot p) | _ => GFun GStop end
      end
  | PIsEmpty => GFun (fixed non_empties)
  | PNe v => GFun (GYield (cv ck v) GStop)
  | PIsNone => generate_anys W PIsNotNone
  | PIsNotNone => GFun (GYield VNone GStop)
  | PIsTruthy => GFun (fixed falsies)
  | PIsInstance _ => generate_anys W (PNot p)
  | POr l r => GFun (GSeq (GFilter (fun v => negb (passes W r v)) (gen_false fe W ck l) GStop)
                          (GFilter (fun v => negb (passes W l v)) (gen_false fe W ck r) GStop))
  | PSetOf q =>
      GFun (GTake 10 (gen_false fe W ck q) [] (fun vs => match vs with [] => GAbort | _ =>
        rcwr vs 5 (fun c1 => GYield (VColl KSet c1) GStop) end))
  | _ => GFun GStop
  end.
