(* ParserGroups.v — C14, part 2 (unbounded, every derivation):
   - every parenthesised group OF THE TEXT is a grouped_expression node of the derivation, hence a sub-tree
     of the returned predicate whose in-order reading is the text between the parentheses;
   - fully parenthesised text has exactly one reading: whatever derivation Lark picks for `show p`, the
     transformer returns p. *)
From Coq Require Import Bool List String Arith ZArith Lia.
From PP Require Import Prelude.Base Prelude.Val Prelude.Pred Prelude.Sem Lemmas.Fragments Lemmas.ParserLang.
Import ListNotations.
Close Scope Q_scope.
Open Scope list_scope.

Lemma snoc_cases {A} (l : list A) : l = [] \/ exists l' x, l = l' ++ [x].
Proof. destruct l using rev_ind; [left; reflexivity|right; eauto]. Qed.

Lemma tok_of_not_lparen o : tok_of o <> TLParen. Proof. destruct o; discriminate. Qed.
Lemma tok_of_not_rparen o : tok_of o <> TRParen. Proof. destruct o; discriminate. Qed.
Lemma tok_of_not_not o : tok_of o <> TNot. Proof. destruct o; discriminate. Qed.
Lemma tok_of_inj o o' : tok_of o = tok_of o' -> o = o'. Proof. destruct o, o'; cbn; congruence. Qed.

Open Scope Z_scope.

(* ------------------------------------------------------------------------------------------- *)
(** * Parenthesised groups of the text are sub-trees *)

(* the text is  a ( m ) b  with m balanced: then some grouped_expression node of the derivation derives
   exactly m *)
Theorem text_group_is_subtree : forall t a m b,
  yield t = a ++ TLParen :: m ++ TRParen :: b -> balanced m ->
  exists g, subtree (TGroup g) t /\ yield g = m.
Proof.
  induction t; intros a m b E [Dm Pm]; cbn in E.
  1-3: destruct a as [|x a]; cbn in E; inversion E; destruct a; discriminate.
  - (* grouped_expression *)
    destruct (yield_balanced t) as [D P].
    destruct a as [|x a]; cbn in E.
    + injection E as E'. destruct (snoc_cases b) as [->|[b' [y ->]]].
      * apply app_inj_tail in E' as [E' _]. exists t. split; [apply st_refl|exact E'].
      * change (m ++ TRParen :: b' ++ [y]) with (m ++ (TRParen :: b') ++ [y]) in E'.
        rewrite app_assoc in E'. apply app_inj_tail in E' as [E' _].
        exfalso. specialize (P (m ++ [TRParen]) b'). rewrite <- app_assoc in P. specialize (P E').
        rewrite dep_app in P. cbn [dep dtok] in P. lia.
    + injection E as Ex E'. subst x. destruct (snoc_cases b) as [->|[b' [y ->]]].
      * change (a ++ TLParen :: m ++ [TRParen]) with (a ++ (TLParen :: m) ++ [TRParen]) in E'.
        rewrite app_assoc in E'. apply app_inj_tail in E' as [E' _].
        exfalso. pose proof (P a (TLParen :: m) E') as Pa. rewrite E', dep_app in D. cbn [dep dtok] in D. lia.
      * replace (a ++ TLParen :: m ++ TRParen :: b' ++ [y]) with ((a ++ TLParen :: m ++ TRParen :: b') ++ [y]) in E'
          by (rewrite <- app_assoc; cbn; rewrite <- app_assoc; reflexivity).
        apply app_inj_tail in E' as [E' _].
        destruct (IHt a m b' E' (conj Dm Pm)) as [g [Hg Yg]]. exists g. split; [apply st_group, Hg|exact Yg].
  - (* binary rules *)
    destruct (yield_balanced t1) as [D1 P1].
    apply app_eq_app in E as [k [[E1 E2]|[E1 E2]]].
    + (* the group starts inside the left operand *)
      destruct k as [|x k]; cbn in E2; injection E2 as Ex E2'.
      { exfalso. symmetry in Ex. exact (tok_of_not_lparen _ Ex). }
      subst x.
      apply app_eq_app in E2' as [j [[F1 F2]|[F1 F2]]].
      * destruct j as [|y j]; cbn in F2; injection F2 as Ey F2'.
        { exfalso. exact (tok_of_not_rparen _ Ey). }
        (* the operator would be inside the group: impossible, the left operand is balanced *)
        exfalso. rewrite E1 in D1. rewrite dep_app in D1. cbn [dep dtok] in D1.
        pose proof (P1 a (TLParen :: k) E1) as Pa.
        pose proof (Pm k (y :: j) F1) as Pk. lia.
      * destruct j as [|y j]; cbn in F2; injection F2 as Ey F2'.
        { exfalso. symmetry in Ey. exact (tok_of_not_rparen _ Ey). }
        subst y k.
        destruct (IHt1 a m j E1 (conj Dm Pm)) as [g [Hg Yg]]. exists g. split; [apply st_binl, Hg|exact Yg].
    + destruct k as [|x k]; cbn in E2; injection E2 as Ex E2'.
      { exfalso. exact (tok_of_not_lparen _ Ex). }
      destruct (IHt2 k m b E2' (conj Dm Pm)) as [g [Hg Yg]]. exists g. split; [apply st_binr, Hg|exact Yg].
  - (* not_expression *)
    destruct a as [|x a]; cbn in E; [discriminate|]. injection E as Ex E'.
    destruct (IHt a m b E' (conj Dm Pm)) as [g [Hg Yg]]. exists g. split; [apply st_neg, Hg|exact Yg].
Qed.

(* ... and therefore a sub-term of the result whose reading is the text inside the parentheses *)
Corollary text_group_is_subterm : forall t a m b,
  yield t = a ++ TLParen :: m ++ TRParen :: b -> balanced m ->
  exists q, subterm q (transform t) /\ inorder q = strip_parens m /\ pnames q = tnames m.
Proof.
  intros t a m b E B. destruct (text_group_is_subtree t a m b E B) as [g [Hg Yg]].
  exists (transform g). split.
  - apply (subtree_subterm _ _ Hg).
  - rewrite <- Yg. split; [apply faithful_order|apply names_preserved].
Qed.

(* ------------------------------------------------------------------------------------------- *)
(** * Fully parenthesised text has one reading *)

(* a string none of whose proper non-empty prefixes returns to depth 0 *)
Definition solid (s : list token) : Prop :=
  dep s = 0 /\ forall a b, s = a ++ b -> a <> [] -> b <> [] -> 1 <= dep a.

Lemma solid_group m : balanced m -> solid (TLParen :: m ++ [TRParen]).
Proof.
  intros [D P]. split.
  - cbn [dep dtok]. rewrite dep_app, D. cbn [dep dtok]. lia.
  - intros a b E Ha Hb. destruct a as [|x a]; [congruence|]. cbn in E. inversion E as [[Ex E']]; clear E.
    destruct (snoc_cases b) as [->|[b' [y ->]]]; [congruence|].
    rewrite app_assoc in E'. apply app_inj_tail in E' as [E' _].
    specialize (P a b' E'). cbn [dep dtok]. lia.
Qed.

Lemma solid_single x : dtok x = 0 -> solid [x].
Proof.
  intros Hx. split; [cbn; lia|]. intros a b E Ha Hb.
  destruct a as [|y a]; [congruence|]. cbn in E. inversion E. destruct a; [|discriminate]. cbn in *. subst. congruence.
Qed.

(* a solid string followed by an operator and another solid string splits in one way only into two
   balanced non-empty halves around an operator *)
Lemma split_unique s1 s2 y1 y2 o o' :
  solid s1 -> solid s2 -> dep y1 = 0 -> dep y2 = 0 -> y1 <> [] -> y2 <> [] ->
  s1 ++ tok_of o :: s2 = y1 ++ tok_of o' :: y2 -> s1 = y1 /\ o = o' /\ s2 = y2.
Proof.
  intros [D1 S1] [D2 S2] Dy1 Dy2 N1 N2 E.
  apply app_eq_app in E as [k [[E1 E2]|[E1 E2]]].
  - destruct k as [|x k]; cbn in E2; inversion E2 as [[Ex E2']]; clear E2.
    + rewrite app_nil_r in E1. split; [exact E1|]. split; [symmetry; apply tok_of_inj, Ex|reflexivity].
    + exfalso. specialize (S1 y1 (x :: k) E1 N1). assert (x :: k <> []) as Hk by discriminate. specialize (S1 Hk). lia.
  - destruct k as [|x k]; cbn in E2; inversion E2 as [[Ex E2']]; clear E2.
    + rewrite app_nil_r in E1. split; [symmetry; exact E1|]. split; [apply tok_of_inj, Ex|reflexivity].
    + exfalso. subst x.
      assert (E3 : s2 = (k ++ [tok_of o']) ++ y2) by (rewrite <- app_assoc; exact E2').
      assert (k ++ [tok_of o'] <> []) as Hk by (destruct k; discriminate).
      specialize (S2 _ _ E3 Hk N2). rewrite E3, !dep_app in D2. rewrite dep_app in S2. cbn in *.
      rewrite dep_tok_of in *. lia.
Qed.

Close Scope Z_scope.

(* the canonical derivation: every ~ and every binary operator in its own parentheses *)
Fixpoint canon (p : pred) : ptree :=
  match p with
  | PNamed s => TVar s
  | PTrue => TTru
  | PFalse => TFal
  | PNot q => TGroup (TNeg (canon q))
  | PAnd l r => TGroup (TBin BAnd (canon l) (canon r))
  | POr l r => TGroup (TBin BOr (canon l) (canon r))
  | PXor l r => TGroup (TBin BXor (canon l) (canon r))
  | _ => TFal
  end.

(* the fully parenthesised rendering, e.g. ((~p) & (q | true)) *)
Definition show (p : pred) : list token := yield (canon p).

Lemma transform_canon p : Fprop p = true -> transform (canon p) = p.
Proof.
  induction p; cbn; intros H; try discriminate; try reflexivity.
  1-3: apply andb_true_iff in H as [H1 H2]; rewrite IHp1, IHp2; auto.
  rewrite IHp; auto.
Qed.

Lemma show_solid p : Fprop p = true -> solid (show p).
Proof.
  unfold show. destruct p; cbn; intros H; try discriminate.
  - apply solid_single; reflexivity.
  - apply solid_single; reflexivity.
  - apply solid_single; reflexivity.
  - apply (solid_group (yield (TBin BAnd (canon p1) (canon p2)))), yield_balanced.
  - apply (solid_group (yield (TBin BOr (canon p1) (canon p2)))), yield_balanced.
  - apply (solid_group (yield (TBin BXor (canon p1) (canon p2)))), yield_balanced.
  - apply (solid_group (yield (TNeg (canon p)))), yield_balanced.
Qed.

(* first token of a rendering: an atom or "(" *)
Definition opens (x : token) : bool :=
  match x with TName _ | TTrue | TFalse | TLParen => true | _ => false end.
Lemma show_head p : Fprop p = true -> exists x r, show p = x :: r /\ opens x = true.
Proof. unfold show. destruct p; cbn; intros H; try discriminate; eexists; eexists; split; reflexivity. Qed.

Lemma yield_single t x : yield t = [x] -> opens x = true /\ x <> TLParen.
Proof.
  destruct t; cbn; intros E.
  1-3: inversion E; split; [reflexivity|discriminate].
  - inversion E. destruct (yield t); discriminate.
  - exfalso. pose proof (yield_nonempty t1) as N1. pose proof (yield_nonempty t2) as N2.
    destruct (yield t1) as [|a [|b l]]; [congruence| |]; cbn in E; injection E as E1 E2; try congruence.
  - injection E as E1 E2. exfalso. exact (yield_nonempty t E2).
Qed.

(* a solid string is not the yield of a binary rule *)
Lemma solid_not_bin s o l r : solid s -> yield (TBin o l r) = s -> False.
Proof.
  intros [D S] E. cbn in E. symmetry in E.
  specialize (S _ _ E (yield_nonempty l)). assert (tok_of o :: yield r <> []) as N by discriminate.
  specialize (S N). destruct (yield_balanced l) as [Dl _]. lia.
Qed.

Lemma dep_yield t : dep (yield t) = 0%Z.
Proof. apply yield_balanced. Qed.

(* derivations of  x op y  with x, y solid: the top rule is that operator, splitting exactly there *)
Lemma bin_inversion t s1 s2 o :
  solid s1 -> solid s2 -> s1 <> [] -> (exists x r, s1 = x :: r /\ opens x = true) ->
  yield t = s1 ++ tok_of o :: s2 ->
  exists l r, t = TBin o l r /\ yield l = s1 /\ yield r = s2.
Proof.
  intros So1 So2 N1 [x [r1 [Hd Ho]]] E.
  destruct t; cbn in E.
  1-3: exfalso; destruct s1 as [|a [|b s1]]; cbn in E; inversion E; try congruence; destruct s1; discriminate.
  - (* a group cannot have a proper prefix returning to depth 0 *)
    exfalso. pose proof (solid_group (yield t) (yield_balanced t)) as [_ S].
    assert (tok_of o :: s2 <> []) as N by discriminate.
    specialize (S _ _ E N1 N). destruct So1 as [D1 _]. lia.
  - destruct (split_unique s1 s2 (yield t1) (yield t2) o o0) as [A [B C]]; auto.
    + apply dep_yield.
    + apply dep_yield.
    + apply yield_nonempty.
    + apply yield_nonempty.
    + subst o0. exists t1, t2. auto.
  - exfalso. rewrite Hd in E. cbn in E. inversion E as [[Ex E']]. subst x. discriminate.
Qed.

(* (c) fully parenthesised text: EVERY derivation of show p is transformed to p *)
Theorem fully_parenthesised_unique :
  forall p, Fprop p = true -> forall t, yield t = show p -> transform t = p.
Proof.
  assert (BIN : forall o p1 p2,
            (Fprop p1 = true -> forall t, yield t = show p1 -> transform t = p1) ->
            (Fprop p2 = true -> forall t, yield t = show p2 -> transform t = p2) ->
            Fprop p1 = true -> Fprop p2 = true ->
            forall t, yield t = TLParen :: (show p1 ++ tok_of o :: show p2) ++ [TRParen] ->
                      transform t = mk_bin o p1 p2).
  { intros o p1 p2 IH1 IH2 H1 H2 t E.
    assert (SO : solid (TLParen :: (show p1 ++ tok_of o :: show p2) ++ [TRParen])).
    { apply (solid_group (yield (TBin o (canon p1) (canon p2)))), yield_balanced. }
    destruct t as [s| | |g|o' l' r'|n]; cbn in E; try discriminate.
    - injection E as E'. apply app_inj_tail in E' as [E' _]. cbn.
      destruct (bin_inversion g (show p1) (show p2) o) as [l [r [-> [Yl Yr]]]]; auto using show_solid.
      + destruct (show_head p1 H1) as [x [r [-> _]]]. discriminate.
      + apply show_head, H1.
      + cbn. rewrite (IH1 H1 l Yl), (IH2 H2 r Yr). reflexivity.
    - exfalso. eapply solid_not_bin; [exact SO|exact E]. }
  assert (LEAF : forall x (t : ptree), dtok x = 0%Z -> yield t = [x] ->
                 (forall g, t <> TGroup g) /\ (forall o l r, t <> TBin o l r)).
  { intros x t Hx E. split.
    - intros g ->. cbn in E. injection E as E1 E2. destruct (yield g); discriminate.
    - intros o l r ->. eapply (solid_not_bin [x]); [apply solid_single, Hx|exact E]. }
  induction p; intros H t E; cbn in H; try discriminate.
  - (* true *) destruct (LEAF TTrue t eq_refl E) as [NG NB].
    destruct t as [s| | |g|o' l' r'|n]; cbn in E; try discriminate; try reflexivity.
    exfalso. exact (NB _ _ _ eq_refl).
  - (* false *) destruct (LEAF TFalse t eq_refl E) as [NG NB].
    destruct t as [s| | |g|o' l' r'|n]; cbn in E; try discriminate; try reflexivity.
    exfalso. exact (NB _ _ _ eq_refl).
  - (* a name *) destruct (LEAF (TName f_name) t eq_refl E) as [NG NB].
    destruct t as [s| | |g|o' l' r'|n]; cbn in E; try discriminate.
    + injection E as ->. reflexivity.
    + exfalso. exact (NB _ _ _ eq_refl).
  - apply andb_true_iff in H as [H1 H2]. apply (BIN BAnd p1 p2 IHp1 IHp2 H1 H2 t E).
  - apply andb_true_iff in H as [H1 H2]. apply (BIN BOr p1 p2 IHp1 IHp2 H1 H2 t E).
  - apply andb_true_iff in H as [H1 H2]. apply (BIN BXor p1 p2 IHp1 IHp2 H1 H2 t E).
  - (* ( ~ q ) *)
    assert (SO : solid (show (PNot p))) by (apply show_solid; exact H).
    unfold show in E, SO. cbn in E, SO.
    destruct t as [s| | |g|o' l' r'|n]; cbn in E; try discriminate.
    + injection E as E'. change (TNot :: yield (canon p) ++ [TRParen]) with ((TNot :: yield (canon p)) ++ [TRParen]) in E'.
      apply app_inj_tail in E' as [E' _]. cbn.
      destruct g as [s| | |g|o' l' r'|n]; cbn in E'; try discriminate.
      * (* a binary rule under the group: its left operand would be "~" followed by a balanced proper prefix *)
        exfalso. destruct (show_solid p H) as [Dp Sp]. fold (show p) in E'.
        destruct (yield l') as [|x y1] eqn:Y1; [exact (yield_nonempty _ Y1)|].
        cbn in E'. injection E' as Ex E''. subst x.
        destruct y1 as [|z y1].
        -- destruct (yield_single _ _ Y1) as [O _]. discriminate.
        -- assert (N1 : z :: y1 <> []) by discriminate.
           assert (N2 : tok_of o' :: yield r' <> []) by discriminate.
           symmetry in E''. specialize (Sp _ _ E'' N1 N2).
           pose proof (dep_yield l') as D1. rewrite Y1 in D1. cbn [dep dtok] in D1. cbn [dep dtok] in Sp. lia.
      * injection E' as E''. cbn. rewrite (IHp H n E''). reflexivity.
    + exfalso. eapply solid_not_bin; [exact SO|exact E].
Qed.

(* there is such a derivation (the statement above is not vacuous) *)
Theorem show_has_reading : forall p, Fprop p = true -> exists t, yield t = show p /\ transform t = p.
Proof. intros p H. exists (canon p). split; [reflexivity|apply transform_canon, H]. Qed.

(* without the parentheses around ~ the text would be ambiguous: the grammar derives  ( ~ p & q )  both as
   ((~p) & q) and as (~(p & q)), which differ at p = true, q = false *)
Example not_scope_is_ambiguous_in_the_grammar :
  let t1 := TBin BAnd (TNeg (TVar "p")) (TVar "q") in
  let t2 := TNeg (TBin BAnd (TVar "p") (TVar "q")) in
  yield t1 = yield t2 /\
  psem (fun s => String.eqb s "p") (transform t1) <> psem (fun s => String.eqb s "p") (transform t2).
Proof. cbv zeta. split; [reflexivity|vm_compute; discriminate]. Qed.

(* likewise  p | q & r  is derived both as p | (q & r) and as (p | q) & r, which differ at p = true, r = false *)
Example precedence_is_ambiguous_in_the_grammar :
  let t1 := TBin BOr (TVar "p") (TBin BAnd (TVar "q") (TVar "r")) in
  let t2 := TBin BAnd (TBin BOr (TVar "p") (TVar "q")) (TVar "r") in
  yield t1 = yield t2 /\
  psem (fun s => String.eqb s "p") (transform t1) <> psem (fun s => String.eqb s "p") (transform t2).
Proof. cbv zeta. split; [reflexivity|vm_compute; discriminate]. Qed.
