(* OptSound.v — soundness of the translated optimizer for every fuel, by induction on fuel. *)
From Coq Require Import QArith Bool List Arith String Lia.
From PP Require Import Prelude.Base Prelude.Val Prelude.Pred Prelude.Sem Gen.Negate Gen.Implies Gen.Optimize
  Lemmas.PeqFacts Lemmas.NegImp Lemmas.OptBase Lemmas.OptWalk
  Lemmas.OptAll Lemmas.OptNot Lemmas.OptAnd Lemmas.OptOr Lemmas.OptXor Lemmas.OptDispatch.
Import ListNotations.

Theorem optimize_sound_all W : forall fuel, IH W fuel.
Proof.
  induction fuel as [|fuel IHf].
  - unfold IH; repeat match goal with |- _ /\ _ => split end; intros p0 q0 E0; discriminate E0.
  - unfold IH; repeat match goal with |- _ /\ _ => split end.
    + apply optimize_step; exact IHf.
    + apply all_step; exact IHf.
    + apply any_step; exact IHf.
    + apply not_step; exact IHf.
    + apply and_step; exact IHf.
    + apply or_step; exact IHf.
    + apply xor_step; exact IHf.
Qed.

(* Whenever the model of optimize returns q for p without passing through a known-finding rule
   (empty trace), q is defined wherever every atom of p is, and answers exactly like p. *)
Corollary optimize_sound W fuel p q :
  optimize W fuel p = Ok q [] ->
  forall x, defined W p x = true -> defined W q x = true /\ beval W q x = beval W p x.
Proof. intros E. exact (proj1 (optimize_sound_all W fuel) p q E). Qed.

(* ... and Python's own evaluation of q(x) (short-circuit, exceptions) returns p(x)'s answer *)
Corollary optimize_sound_ev W fuel p q :
  optimize W fuel p = Ok q [] ->
  forall x, defined W p x = true -> ev W q x = ev W p x.
Proof.
  intros E x D. destruct (optimize_sound W fuel p q E x D) as [Dq B].
  rewrite (ev_defined W q x Dq), (ev_defined W p x D), B. reflexivity.
Qed.
