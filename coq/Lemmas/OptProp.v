(* OptProp.v — C01 from the general soundness theorem: on propositional trees every atom is defined,
   so `agree` is plain equality of truth values.  Closure of the fragment (the result is again
   propositional) is proved with the same walker, with `Fprop` as the invariant. *)
From Coq Require Import QArith Bool List Arith String Lia.
From PP Require Import Prelude.Base Prelude.Val Prelude.Pred Prelude.Sem Gen.Negate Gen.Implies Gen.Optimize
  Lemmas.PeqFacts Lemmas.NegImp Lemmas.OptBase Lemmas.OptWalk Lemmas.OptSound Lemmas.Fragments.
Import ListNotations.

Lemma negate_Fprop p : Fprop p = true -> Fprop (negate p) = true.
Proof. destruct p; cbn; auto; discriminate. Qed.

(* closure: results of the optimizer on propositional input are propositional *)
Definition closed_res (p : pred) (m : res pred) : Prop := Fprop p = true -> forall q tr, m = Ok q tr -> Fprop q = true.
Definition closed_blk (p : pred) (m : res (option pred)) : Prop := Fprop p = true -> forall q tr, m = Ok (Some q) tr -> Fprop q = true.

Lemma cl_ret_some p q : (Fprop p = true -> Fprop q = true) -> closed_blk p (ret (Some q)).
Proof. intros H Hp q' tr E. injection E as <- _. auto. Qed.
Lemma cl_ret_none p : closed_blk p (ret None).
Proof. intros _ q tr E. discriminate. Qed.
Lemma cl_taint p s m : closed_blk p m -> closed_blk p (taint s m).
Proof. intros H Hp q tr E. destruct m as [a t| |]; try discriminate. injection E as -> _. eapply H; eauto. Qed.
Lemma cl_crash p : closed_res p Crash.
Proof. intros _ q tr E. discriminate. Qed.
Lemma cl_seq p s1 s2 : closed_blk p s1 -> closed_blk p s2 -> closed_blk p (seq s1 s2).
Proof.
  intros H1 H2 Hp q tr E. unfold seq, bind in E.
  destruct s1 as [[v|] t1| |]; try discriminate.
  - cbn in E. injection E as <- _. eapply H1; eauto.
  - destruct s2 as [[v|] t2| |]; try discriminate. injection E as <- _. eapply H2; eauto.
Qed.
Lemma cl_bind p (m : res pred) (f : pred -> res (option pred)) (P : pred -> Prop) :
  (Fprop p = true -> forall y t, m = Ok y t -> P y) -> (forall y, P y -> closed_blk p (f y)) -> closed_blk p (bind m f).
Proof.
  intros Hm Hf Hp q tr E. unfold bind in E. destruct m as [y t1| |]; try discriminate.
  destruct (f y) as [b t2| |] eqn:Ef; try discriminate. injection E as -> _.
  eapply (Hf y); eauto.
Qed.
Lemma cl_finish p m : closed_blk p m -> closed_res p (finish m).
Proof.
  intros H Hp q tr E. unfold finish, bind in E. destruct m as [[v|] t1| |]; try discriminate.
  cbn in E. injection E as <- _. eapply H; eauto.
Qed.

Definition IHc (W : world) (fuel : nat) : Prop :=
  (forall p, closed_res p (optimize W fuel p)) /\
  (forall p, closed_res p (optimize_all_predicate W fuel p)) /\
  (forall p, closed_res p (optimize_any_predicate W fuel p)) /\
  (forall p, closed_res p (optimize_not_predicate W fuel p)) /\
  (forall p, closed_res p (optimize_and_predicate W fuel p)) /\
  (forall p, closed_res p (optimize_or_predicate W fuel p)) /\
  (forall p, closed_res p (optimize_xor_predicate W fuel p)).

Ltac cl_ih IHf x :=
  eapply (cl_bind _ _ _ (fun y => Fprop x = true -> Fprop y = true));
  [ intros ? ? ? Hy ?; eapply IHf; eauto | intros ? ? ].

Ltac cwalk IHs :=
  let IHo := fresh "IHo" in let IHall := fresh "IHall" in let IHany := fresh "IHany" in let IHnot := fresh "IHnot" in
  let IHand := fresh "IHand" in let IHor := fresh "IHor" in let IHxor := fresh "IHxor" in
  destruct IHs as (IHo & IHall & IHany & IHnot & IHand & IHor & IHxor);
  cbv zeta;
  repeat first
  [ match goal with
    | |- closed_blk _ (ret None) => apply cl_ret_none
    | |- closed_blk _ (taint _ _) => apply cl_taint
    | |- closed_res _ Crash => apply cl_crash
    | |- closed_res _ (finish _) => apply cl_finish
    | |- closed_blk _ (seq _ _) => apply cl_seq
    | |- closed_blk _ (ret (Some _)) => apply cl_ret_some
    | |- closed_res _ (match ?m with _ => _ end) => destruct m eqn:?; inv; subst; cbv zeta
    | |- closed_blk _ (match ?m with _ => _ end) => destruct m eqn:?; inv; subst; cbv zeta
    | |- closed_blk _ (if ?c then _ else _) => destruct c eqn:?; cbv zeta
    | |- closed_blk _ (bind (optimize _ _ ?x) _) => cl_ih IHo x
    | |- closed_blk _ (bind (optimize_all_predicate _ _ ?x) _) => cl_ih IHall x
    | |- closed_blk _ (bind (optimize_any_predicate _ _ ?x) _) => cl_ih IHany x
    | |- closed_blk _ (bind (optimize_not_predicate _ _ ?x) _) => cl_ih IHnot x
    | |- closed_blk _ (bind (optimize_and_predicate _ _ ?x) _) => cl_ih IHand x
    | |- closed_blk _ (bind (optimize_or_predicate _ _ ?x) _) => cl_ih IHor x
    | |- closed_blk _ (bind (optimize_xor_predicate _ _ ?x) _) => cl_ih IHxor x
    end ].

(* leaf: the returned term is built from propositional pieces (or the case cannot fire on propositional input) *)
Ltac cleaf :=
  unfold_helpers;
  intros;
  cbn [Fprop] in *;
  repeat match goal with
  | H : _ && _ = true |- _ => apply andb_true_iff in H; destruct H
  | H : ?P -> _ = true |- _ =>
      let T := fresh in assert (T : P) by (cbn [Fprop]; rewrite ?andb_true_iff; auto); specialize (H T); clear T
  end;
  cbn [Fprop] in *;
  repeat match goal with H : _ && _ = true |- _ => apply andb_true_iff in H; destruct H end;
  try discriminate;
  rewrite ?andb_true_iff; repeat split; auto using negate_Fprop;
  try (apply negate_Fprop; cbn [Fprop]; rewrite ?andb_true_iff; auto).

Lemma closed_all W : forall fuel, IHc W fuel.
Proof.
  induction fuel as [|fuel IHf].
  - unfold IHc; repeat match goal with |- _ /\ _ => split end; intros p0 _ q0 tr0 E0; discriminate E0.
  - unfold IHc; repeat match goal with |- _ /\ _ => split end; intros p.
    + cbn [optimize]. cwalk IHf. all: cleaf.
    + cbn [optimize_all_predicate]. cwalk IHf. all: cleaf.
    + cbn [optimize_any_predicate]. cwalk IHf. all: cleaf.
    + cbn [optimize_not_predicate]. cwalk IHf. all: cleaf.
    + cbn [optimize_and_predicate]. cwalk IHf. all: cleaf.
    + cbn [optimize_or_predicate]. cwalk IHf. all: cleaf.
    + cbn [optimize_xor_predicate]. cwalk IHf. all: cleaf.
Qed.

Theorem optimize_sound_prop W fuel p q :
  Fprop p = true -> optimize W fuel p = Ok q [] ->
  Fprop q = true /\ forall x, beval W q x = beval W p x.
Proof.
  intros Hp E. split.
  - exact (proj1 (closed_all W fuel) p Hp q [] E).
  - intros x. apply (optimize_sound W fuel p q E x). apply Fprop_defined; exact Hp.
Qed.
