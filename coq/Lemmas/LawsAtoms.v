(* LawsAtoms.v — C13 for every atom class other than the membership atoms (those are in LawsIn/LawsNotIn). *)
From Coq Require Import QArith Bool List Arith String Lia.
From PP Require Import Prelude.Base Prelude.Val Prelude.Pred Prelude.Sem Gen.Negate Gen.Implies Gen.Optimize
  Lemmas.PeqFacts Lemmas.Laws Lemmas.LawsSets.
Import ListNotations.
#[local] Arguments optimize : simpl never.
#[local] Arguments optimize_all_predicate : simpl never.
#[local] Arguments optimize_any_predicate : simpl never.
#[local] Arguments optimize_not_predicate : simpl never.
#[local] Arguments optimize_and_predicate : simpl never.
#[local] Arguments optimize_or_predicate : simpl never.
#[local] Arguments optimize_xor_predicate : simpl never.
#[local] Arguments optimize_in_predicate : simpl never.
#[local] Arguments optimize_not_in_predicate : simpl never.

(* the one exception, recorded as known finding 9: is_subset_p(set()) & is_subset_p(set()) goes through the
   tainted "empty intersection" rule *)
Definition law_atom_ok (p : pred) : bool :=
  atomic p && match p with PSubset s => nonempty s | _ => true end.

Lemma law_subset W n s : nonempty s = true -> law_statement W n (PSubset s).
Proof. intros H. law_exec. Qed.

Lemma laws_other W n p :
  law_atom_ok p = true -> is_In p = false -> is_NotIn p = false -> is_Subset p = false -> law_statement W n p.
Proof.
  intros H H1 H2 H3. destruct p; try discriminate H; try discriminate H1; try discriminate H2; try discriminate H3.
  all: law_exec.
Qed.
