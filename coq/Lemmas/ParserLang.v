(* ParserLang.v — C14, part 1: the grammar of predicate/parser.py as parse trees, the tree transformer,
   the expression language, and the theorems that hold for EVERY derivation the grammar admits.

   HAND-WRITTEN MODEL (tied to /repo by tools/props/c14.py: source fingerprint of the `grammar = Lark(...)`
   statement, of `_PredicateTransformer` and of `parse_expression`, plus the correspondence run):

     predicate: expression | variable                 -> the wrapper rule; its callback returns item[0]
     variable: WORD                                   -> TVar s         (callback: NamedPredicate(name=str(item[0])))
     ?expression: grouped_expression | or_expression | and_expression | xor_expression | not_expression | false | true
     false: "false"                                   -> TFal           (callback: always_false_p)
     true: "true"                                     -> TTru           (callback: always_true_p)
     grouped_expression: "(" predicate ")"            -> TGroup t       (callback: item[0])
     or_expression: predicate "|" predicate           -> TBin BOr l r   (callback: OrPredicate(left, right))
     and_expression: predicate "&" predicate          -> TBin BAnd l r  (callback: AndPredicate(left, right))
     xor_expression: predicate "^" predicate          -> TBin BXor l r  (callback: XorPredicate(left, right))
     not_expression: "~" predicate                    -> TNeg t         (callback: NotPredicate(predicate))

   The input domain of the model is TOKEN lists.  Lexing (WORD = [A-Za-z]+, spaces ignored, the keywords
   "true"/"false" win over WORD, "truex" is a name) is NOT modelled here: the harness tokenises, and lexing is
   covered by the correspondence run and the search only (NOTES_c14.md). *)
From Coq Require Import Bool List String Arith ZArith Lia.
From PP Require Import Prelude.Base Prelude.Val Prelude.Pred Prelude.Sem Lemmas.Fragments.
Import ListNotations.
Close Scope Q_scope.
Open Scope list_scope.

(* ------------------------------------------------------------------------------------------- *)
(** * Tokens, parse trees, yield, transformer *)

Inductive token : Type :=
| TName (s : string) | TTrue | TFalse | TNot | TAnd | TOr | TXor | TLParen | TRParen.

Inductive binop : Type := BOr | BAnd | BXor.

Definition tok_of (o : binop) : token :=
  match o with BOr => TOr | BAnd => TAnd | BXor => TXor end.

Definition binop_of (x : token) : option binop :=
  match x with TOr => Some BOr | TAnd => Some BAnd | TXor => Some BXor | _ => None end.

Lemma binop_of_tok o : binop_of (tok_of o) = Some o.
Proof. destruct o; reflexivity. Qed.
Lemma binop_of_inv x o : binop_of x = Some o -> x = tok_of o.
Proof. destruct x; cbn; intros H; inversion H; reflexivity. Qed.

(* one constructor per grammar rule (the three binary rules share TBin) *)
Inductive ptree : Type :=
| TVar (s : string)
| TTru
| TFal
| TGroup (t : ptree)
| TBin (o : binop) (l r : ptree)
| TNeg (t : ptree).

(* the text a derivation derives *)
Fixpoint yield (t : ptree) : list token :=
  match t with
  | TVar s => [TName s]
  | TTru => [TTrue]
  | TFal => [TFalse]
  | TGroup t => TLParen :: yield t ++ [TRParen]
  | TBin o l r => yield l ++ tok_of o :: yield r
  | TNeg t => TNot :: yield t
  end.

Definition mk_bin (o : binop) (l r : pred) : pred :=
  match o with BOr => POr l r | BAnd => PAnd l r | BXor => PXor l r end.

(* _PredicateTransformer, bottom-up *)
Fixpoint transform (t : ptree) : pred :=
  match t with
  | TVar s => PNamed s
  | TTru => PTrue
  | TFal => PFalse
  | TGroup t => transform t
  | TBin o l r => mk_bin o (transform l) (transform r)
  | TNeg t => PNot (transform t)
  end.

Lemma transform_prop t : Fprop (transform t) = true.
Proof. induction t; cbn; auto. destruct o; cbn; rewrite IHt1, IHt2; reflexivity. Qed.

(* propositional semantics under an assignment of the variables *)
Fixpoint psem (e : string -> bool) (p : pred) : bool :=
  match p with
  | PTrue => true
  | PFalse => false
  | PNamed n => e n
  | PAnd l r => psem e l && psem e r
  | POr l r => psem e l || psem e r
  | PXor l r => xorb (psem e l) (psem e r)
  | PNot q => negb (psem e q)
  | _ => false
  end.

(* it is the evaluator every other property uses, on the propositional fragment *)
Lemma psem_beval W p x : Fprop p = true -> psem (env W) p = beval W p x.
Proof.
  induction p; cbn; intros H; try discriminate; try reflexivity.
  all: try (apply andb_true_iff in H as [H1 H2]; rewrite IHp1, IHp2; auto).
  rewrite IHp; auto.
Qed.

(* ------------------------------------------------------------------------------------------- *)
(** * The expression language, as an unambiguous description:
      an expression is one or more operands separated by binary operators;
      an operand is a name, true, false, a parenthesised expression, or ~ followed by an operand. *)

Inductive Operand : list token -> Prop :=
| op_name s : Operand [TName s]
| op_true : Operand [TTrue]
| op_false : Operand [TFalse]
| op_group ts : Expr ts -> Operand (TLParen :: ts ++ [TRParen])
| op_not ts : Operand ts -> Operand (TNot :: ts)
with Expr : list token -> Prop :=
| ex_one ts : Operand ts -> Expr ts
| ex_bin a o b : Expr a -> Operand b -> Expr (a ++ tok_of o :: b).

Scheme Operand_mut := Induction for Operand Sort Prop
  with Expr_mut := Induction for Expr Sort Prop.
Combined Scheme lang_mutind from Operand_mut, Expr_mut.

Definition Lang (ts : list token) : Prop := Expr ts.

Lemma Expr_not ts : Expr ts -> Expr (TNot :: ts).
Proof.
  induction 1 as [ts H | a o b Ha IH Hb].
  - apply ex_one, op_not, H.
  - change (TNot :: a ++ tok_of o :: b) with ((TNot :: a) ++ tok_of o :: b). apply ex_bin; assumption.
Qed.

Lemma Expr_bin a o b : Expr a -> Expr b -> Expr (a ++ tok_of o :: b).
Proof.
  intros Ha Hb. revert a o Ha. induction Hb as [b Hb | b1 o' b2 Hb1 IH Hb2]; intros a o Ha.
  - apply ex_bin; assumption.
  - replace (a ++ tok_of o :: b1 ++ tok_of o' :: b2) with ((a ++ tok_of o :: b1) ++ tok_of o' :: b2)
      by (rewrite <- app_assoc; reflexivity).
    apply ex_bin; [apply IH, Ha|assumption].
Qed.

(* (a, first half) every derivation of the grammar derives a string of the language *)
Theorem grammar_sound : forall t, Lang (yield t).
Proof.
  unfold Lang. induction t; cbn.
  - apply ex_one, op_name.
  - apply ex_one, op_true.
  - apply ex_one, op_false.
  - apply ex_one, op_group, IHt.
  - apply Expr_bin; assumption.
  - apply Expr_not, IHt.
Qed.

(* (a, second half) every string of the language has at least one derivation *)
Theorem grammar_complete : forall ts, Lang ts -> exists t, yield t = ts.
Proof.
  unfold Lang.
  enough (H : (forall ts, Operand ts -> exists t, yield t = ts) /\ (forall ts, Expr ts -> exists t, yield t = ts))
    by apply H.
  apply lang_mutind.
  - intros s. exists (TVar s). reflexivity.
  - exists TTru. reflexivity.
  - exists TFal. reflexivity.
  - intros ts _ [t Ht]. exists (TGroup t). cbn. rewrite Ht. reflexivity.
  - intros ts _ [t Ht]. exists (TNeg t). cbn. rewrite Ht. reflexivity.
  - intros ts _ H. exact H.
  - intros a o b _ [ta Ha] _ [tb Hb]. exists (TBin o ta tb). cbn. rewrite Ha, Hb. reflexivity.
Qed.

Theorem grammar_is_language : forall ts, (exists t, yield t = ts) <-> Lang ts.
Proof.
  intros ts. split.
  - intros [t <-]. apply grammar_sound.
  - apply grammar_complete.
Qed.

(* the empty string is not in the language; nor is anything starting with a binary operator or ")" *)
Lemma yield_nonempty t : yield t <> [].
Proof. destruct t; cbn; try discriminate. destruct (yield t1); discriminate. Qed.

(* ------------------------------------------------------------------------------------------- *)
(** * (b) Faithful reading, for EVERY derivation *)

(* leaves and operators of a predicate, left to right, no parentheses *)
Fixpoint inorder (p : pred) : list token :=
  match p with
  | PNamed s => [TName s]
  | PTrue => [TTrue]
  | PFalse => [TFalse]
  | PAnd l r => inorder l ++ TAnd :: inorder r
  | POr l r => inorder l ++ TOr :: inorder r
  | PXor l r => inorder l ++ TXor :: inorder r
  | PNot q => TNot :: inorder q
  | _ => []
  end.

Definition is_paren (x : token) : bool := match x with TLParen | TRParen => true | _ => false end.
Definition strip_parens (ts : list token) : list token := filter (fun x => negb (is_paren x)) ts.

Lemma strip_app a b : strip_parens (a ++ b) = strip_parens a ++ strip_parens b.
Proof. apply filter_app. Qed.

Lemma inorder_mk_bin o l r : inorder (mk_bin o l r) = inorder l ++ tok_of o :: inorder r.
Proof. destruct o; reflexivity. Qed.

(* variables, constants and operators occur in the result in the order of the text *)
Theorem faithful_order : forall t, inorder (transform t) = strip_parens (yield t).
Proof.
  induction t; cbn; try reflexivity.
  - fold (strip_parens (yield t ++ [TRParen])). rewrite strip_app. cbn. rewrite app_nil_r. exact IHt.
  - rewrite inorder_mk_bin. fold (strip_parens (yield t1 ++ tok_of o :: yield t2)).
    rewrite strip_app. cbn. destruct o; cbn; rewrite IHt1, IHt2; reflexivity.
  - fold (strip_parens (yield t)). rewrite IHt. reflexivity.
Qed.

(* every variable keeps its exact name (and multiplicity, and position among the variables) *)
Fixpoint pnames (p : pred) : list string :=
  match p with
  | PNamed s => [s]
  | PAnd l r | POr l r | PXor l r => pnames l ++ pnames r
  | PNot q => pnames q
  | _ => []
  end.

Fixpoint tnames (ts : list token) : list string :=
  match ts with [] => [] | TName s :: r => s :: tnames r | _ :: r => tnames r end.

Lemma tnames_app a b : tnames (a ++ b) = tnames a ++ tnames b.
Proof. induction a as [|x a IH]; cbn; [reflexivity|]. destruct x; cbn; rewrite IH; reflexivity. Qed.

Theorem names_preserved : forall t, pnames (transform t) = tnames (yield t).
Proof.
  induction t; cbn; try reflexivity.
  - rewrite tnames_app. cbn. rewrite app_nil_r. exact IHt.
  - rewrite tnames_app. destruct o; cbn; rewrite IHt1, IHt2; reflexivity.
  - exact IHt.
Qed.

(* sub-derivations and sub-terms *)
Inductive subtree (s : ptree) : ptree -> Prop :=
| st_refl : subtree s s
| st_group t : subtree s t -> subtree s (TGroup t)
| st_binl o l r : subtree s l -> subtree s (TBin o l r)
| st_binr o l r : subtree s r -> subtree s (TBin o l r)
| st_neg t : subtree s t -> subtree s (TNeg t).

Inductive subterm (s : pred) : pred -> Prop :=
| sb_refl : subterm s s
| sb_andl l r : subterm s l -> subterm s (PAnd l r)
| sb_andr l r : subterm s r -> subterm s (PAnd l r)
| sb_orl l r : subterm s l -> subterm s (POr l r)
| sb_orr l r : subterm s r -> subterm s (POr l r)
| sb_xorl l r : subterm s l -> subterm s (PXor l r)
| sb_xorr l r : subterm s r -> subterm s (PXor l r)
| sb_not q : subterm s q -> subterm s (PNot q).

Lemma subterm_mk_bin_l s o l r : subterm s l -> subterm s (mk_bin o l r).
Proof. destruct o; cbn; intros; [apply sb_orl|apply sb_andl|apply sb_xorl]; assumption. Qed.
Lemma subterm_mk_bin_r s o l r : subterm s r -> subterm s (mk_bin o l r).
Proof. destruct o; cbn; intros; [apply sb_orr|apply sb_andr|apply sb_xorr]; assumption. Qed.

(* the transformer maps sub-derivations to sub-terms: nothing is dropped, merged or re-associated *)
Theorem subtree_subterm : forall s t, subtree s t -> subterm (transform s) (transform t).
Proof.
  induction 1; cbn.
  - apply sb_refl.
  - assumption.
  - apply subterm_mk_bin_l; assumption.
  - apply subterm_mk_bin_r; assumption.
  - apply sb_not; assumption.
Qed.

(* "~ applies to exactly the sub-tree whose yield follows it": wherever a derivation uses the rule
   not_expression on a sub-derivation s, the text there is "~" followed by the text of s, and the result
   contains NotPredicate of exactly the reading of s *)
Theorem not_applies_to_what_follows : forall s t, subtree (TNeg s) t ->
  yield (TNeg s) = TNot :: yield s /\ subterm (PNot (transform s)) (transform t).
Proof. intros s t H. split; [reflexivity|]. apply (subtree_subterm _ _ H). Qed.

(* ------------------------------------------------------------------------------------------- *)
(** * Parenthesis depth: every derived text is balanced *)

Open Scope Z_scope.

Definition dtok (x : token) : Z := match x with TLParen => 1 | TRParen => -1 | _ => 0 end.
Fixpoint dep (ts : list token) : Z := match ts with [] => 0 | x :: r => dtok x + dep r end.

Lemma dep_app a b : dep (a ++ b) = dep a + dep b.
Proof. induction a as [|x a IH]; cbn; [reflexivity|]. rewrite IH. lia. Qed.

(* every prefix has depth >= k *)
Definition pre_ge (k : Z) (ts : list token) : Prop := forall a b, ts = a ++ b -> k <= dep a.
Definition balanced (ts : list token) : Prop := dep ts = 0 /\ pre_ge 0 ts.

Lemma pre_ge_app k a b : pre_ge k a -> pre_ge (k - dep a) b -> pre_ge k (a ++ b).
Proof.
  intros Ha Hb x y E. apply app_eq_app in E as [m [[E1 E2]|[E1 E2]]].
  - (* a = x ++ m *) apply (Ha x m E1).
  - (* x = a ++ m, b = m ++ y *) subst x. rewrite dep_app. specialize (Hb m y E2). lia.
Qed.

Lemma pre_ge_app_inv_l k a b : pre_ge k (a ++ b) -> pre_ge k a.
Proof. intros H x y E. apply (H x (y ++ b)). rewrite E, app_assoc. reflexivity. Qed.

Lemma pre_ge_app_inv_r k a b : pre_ge k (a ++ b) -> pre_ge (k - dep a) b.
Proof. intros H x y E. specialize (H (a ++ x) y). rewrite dep_app in H. subst b. rewrite app_assoc in H. specialize (H eq_refl). lia. Qed.

Lemma pre_ge_nil k : k <= 0 -> pre_ge k [].
Proof. intros Hk a b E. symmetry in E. apply app_eq_nil in E as [-> _]. cbn. lia. Qed.

Lemma pre_ge_cons k x r : k <= 0 -> pre_ge (k - dtok x) r -> pre_ge k (x :: r).
Proof.
  intros Hk Hr a b E. destruct a as [|y a]; cbn; [lia|].
  cbn in E. inversion E; subst. specialize (Hr a b eq_refl). lia.
Qed.

Lemma pre_ge_cons_inv k x r : pre_ge k (x :: r) -> pre_ge (k - dtok x) r.
Proof. intros H a b E. specialize (H (x :: a) b). cbn in H. subst r. specialize (H eq_refl). lia. Qed.

Lemma pre_ge_weaken k k' ts : k' <= k -> pre_ge k ts -> pre_ge k' ts.
Proof. intros Hk H a b E. specialize (H a b E). lia. Qed.

Lemma pre_ge_whole k ts : pre_ge k ts -> k <= dep ts.
Proof. intros H. apply (H ts []). rewrite app_nil_r. reflexivity. Qed.

Lemma dep_tok_of o : dtok (tok_of o) = 0.
Proof. destruct o; reflexivity. Qed.

Theorem yield_balanced : forall t, balanced (yield t).
Proof.
  unfold balanced. induction t; cbn.
  1-3: split; [reflexivity|]; apply pre_ge_cons; [lia|]; apply pre_ge_nil; cbn; lia.
  - destruct IHt as [D P]. split.
    + rewrite dep_app, D. cbn. lia.
    + apply pre_ge_cons; [lia|]. cbn. apply pre_ge_app.
      * eapply pre_ge_weaken; [|exact P]. lia.
      * rewrite D. apply pre_ge_cons; [lia|]. apply pre_ge_nil. cbn. lia.
  - destruct IHt1 as [D1 P1], IHt2 as [D2 P2]. split.
    + rewrite dep_app. cbn. rewrite dep_tok_of, D1, D2. reflexivity.
    + apply pre_ge_app; [exact P1|]. rewrite D1. apply pre_ge_cons; [lia|].
      rewrite dep_tok_of. eapply pre_ge_weaken; [|exact P2]. lia.
  - destruct IHt as [D P]. split; [exact D|]. apply pre_ge_cons; [lia|]. cbn.
    eapply pre_ge_weaken; [|exact P]. lia.
Qed.

Close Scope Z_scope.
