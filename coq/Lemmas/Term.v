(* Term.v — the translated optimizer terminates: with a recursion budget linear in the weighted size
   of the tree every entry point returns `Ok` (never OutOfFuel, never Crash), and the result is no heavier
   than the input (C12).  Same walker idea as the soundness proof, in "exists a result" mode. *)
From Coq Require Import QArith Bool List Arith String Lia.
From PP Require Import Prelude.Base Prelude.Val Prelude.Pred Prelude.Sem Gen.Negate Gen.Implies Gen.Optimize Lemmas.OptBase.
Import ListNotations.
Close Scope Q_scope.
Open Scope nat_scope.

(* weighted size: every node 1, except the three atoms that some rule rewrites to a negated quantifier/atom *)
Fixpoint w (p : pred) : nat :=
  match p with
  | PAnd l r | POr l r | PXor l r => 1 + w l + w r
  | PNot q | PAll q | PAny q | PSetOf q | PComp _ q => 1 + w q
  | PNe _ | PNotIn _ | PIsNotNone => 2
  | _ => 1
  end.

Lemma w_pos p : 1 <= w p. Proof. destruct p; cbn; lia. Qed.
Lemma w_negate p : w (negate p) <= 1 + w p. Proof. destruct p; cbn; lia. Qed.

Definition isAnd p := match as_And p with Some _ => true | None => false end.
Definition isOr p := match as_Or p with Some _ => true | None => false end.
Arguments isAnd : simpl nomatch.
Arguments isOr : simpl nomatch.
Lemma isAnd_None x : as_And x = None -> isAnd x = false. Proof. unfold isAnd. now intros ->. Qed.
Lemma isOr_None x : as_Or x = None -> isOr x = false. Proof. unfold isOr. now intros ->. Qed.
Lemma w_negate_and x : isAnd (negate x) = true -> w (negate x) < w x.
Proof. destruct x; cbn; try discriminate. intros _. lia. Qed.

Lemma w_opt_in s : w (optimize_in_predicate (PIn s)) <= 1.
Proof. unfold optimize_in_predicate. cbv zeta. destruct (Nat.eqb (card s) 0); [cbn; lia|]. destruct (Nat.eqb (card s) 1); cbn; lia. Qed.
Lemma w_opt_notin s : w (optimize_not_in_predicate (PNotIn s)) <= 2.
Proof. unfold optimize_not_in_predicate. cbv zeta. destruct (Nat.eqb (card s) 0); [cbn; lia|]. destruct (Nat.eqb (card s) 1); cbn; lia. Qed.
Lemma isAnd_opt_in s : isAnd (optimize_in_predicate (PIn s)) = false.
Proof. unfold optimize_in_predicate. cbv zeta. destruct (Nat.eqb (card s) 0); [reflexivity|]. destruct (Nat.eqb (card s) 1); reflexivity. Qed.
Lemma isAnd_opt_notin s : isAnd (optimize_not_in_predicate (PNotIn s)) = false.
Proof. unfold optimize_not_in_predicate. cbv zeta. destruct (Nat.eqb (card s) 0); [reflexivity|]. destruct (Nat.eqb (card s) 1); reflexivity. Qed.

(* the result is no heavier, and changing between "is an And" and "is not an And" costs weight *)
Definition Post (p q : pred) : Prop := w q <= w p /\ (isAnd q <> isAnd p -> w q < w p).

(* recursion budget needed by each entry point *)
Definition bonus_a p := match p with PAnd l r => if (isOr l || negb (isOr r))%bool then 1 else 0 | _ => 1 end.
Definition bonus_x p := match p with PXor l r => if (negb (isAnd l) || isAnd r)%bool then 1 else 0 | _ => 1 end.
Definition R_o p := 4 * w p + 3.
Definition R_u p := 4 * w p + 2.                   (* all / any / not / or *)
Definition R_a p := 4 * w p + 2 - bonus_a p.
Definition R_x p := 4 * w p + 2 - bonus_x p.

(* "returns a predicate satisfying Post" *)
Definition ok (P : pred -> Prop) (m : res pred) : Prop := exists q tr, m = Ok q tr /\ P q.
(* a block that certainly returns / a block that may fall through *)
Definition okr (P : pred -> Prop) (m : res (option pred)) : Prop := exists q tr, m = Ok (Some q) tr /\ P q.
Definition okb (P : pred -> Prop) (m : res (option pred)) : Prop :=
  exists r tr, m = Ok r tr /\ match r with Some q => P q | None => True end.

Lemma okr_okb (P : pred -> Prop) m : okr P m -> okb P m.
Proof. intros (q & tr & -> & H). exists (Some q), tr. auto. Qed.
Lemma okr_ret (P : pred -> Prop) q : P q -> okr P (ret (Some q)).
Proof. intros H. exists q, []. auto. Qed.
Lemma okb_ret_none (P : pred -> Prop) : okb P (ret None).
Proof. exists None, []. auto. Qed.
Lemma okr_taint (P : pred -> Prop) s m : okr P m -> okr P (taint s m).
Proof. intros (q & tr & -> & H). exists q, (s :: tr). auto. Qed.
Lemma okb_taint (P : pred -> Prop) s m : okb P m -> okb P (taint s m).
Proof. intros (r & tr & -> & H). exists r, (s :: tr). auto. Qed.
Lemma okr_seq (P : pred -> Prop) s1 s2 : okb P s1 -> okr P s2 -> okr P (seq s1 s2).
Proof.
  intros (r & t1 & -> & H1) (q & t2 & -> & H2). destruct r as [v|].
  - exists v, (t1 ++ []). cbn. auto.
  - exists q, (t1 ++ t2). cbn. auto.
Qed.
Lemma okb_seq (P : pred -> Prop) s1 s2 : okb P s1 -> okb P s2 -> okb P (seq s1 s2).
Proof.
  intros (r & t1 & -> & H1) (r2 & t2 & -> & H2). destruct r as [v|].
  - exists (Some v), (t1 ++ []). cbn. auto.
  - exists r2, (t1 ++ t2). cbn. auto.
Qed.
Lemma okr_bind (P Q : pred -> Prop) (m : res pred) f : ok Q m -> (forall y, Q y -> okr P (f y)) -> okr P (bind m f).
Proof.
  intros (y & t1 & -> & Hy) Hf. destruct (Hf y Hy) as (q & t2 & E & Hq).
  exists q, (t1 ++ t2). unfold bind. rewrite E. auto.
Qed.
Lemma okb_bind (P Q : pred -> Prop) (m : res pred) f : ok Q m -> (forall y, Q y -> okb P (f y)) -> okb P (bind m f).
Proof.
  intros (y & t1 & -> & Hy) Hf. destruct (Hf y Hy) as (r & t2 & E & Hq).
  exists r, (t1 ++ t2). unfold bind. rewrite E. auto.
Qed.
Lemma ok_finish (P : pred -> Prop) m : okr P m -> ok P (finish m).
Proof. intros (q & tr & -> & H). exists q, (tr ++ []). cbn. auto. Qed.
Lemma ok_weaken (P Q : pred -> Prop) m : ok P m -> (forall q, P q -> Q q) -> ok Q m.
Proof. intros (q & tr & E & H) HI. exists q, tr. auto. Qed.

(* inversion that keeps the "is not an And / not an Or" facts *)
Ltac tinv :=
  repeat first
  [ inv_proj1
  | match goal with
    | H : Some _ = Some _ |- _ => injection H as H; subst
    | H : None = Some _ |- _ => discriminate H
    | H : Some _ = None |- _ => discriminate H
    | H : (_, _) = (_, _) |- _ => injection H as H; subst
    | p : (_ * _)%type |- _ => destruct p
    | u : unit |- _ => destruct u
    | H : match ?m with _ => _ end = Some _ |- _ => destruct m eqn:?; try discriminate H
    | H : (if ?c then _ else _) = Some _ |- _ => destruct c eqn:?; try discriminate H
    | H : as_And ?x = None |- _ => apply isAnd_None in H
    | H : as_Or ?x = None |- _ => apply isOr_None in H
    | H : _ = None |- _ => clear H
    | H : _ = true |- _ => clear H
    | H : _ = false |- _ => lazymatch type of H with isAnd _ = _ => fail | isOr _ = _ => fail | _ => clear H end
    end ]; subst.

Ltac posfacts :=
  repeat match goal with
  | x : pred |- _ => lazymatch goal with H : 1 <= w x |- _ => fail | _ => pose proof (w_pos x) end
  end.
Ltac negfacts :=
  repeat match goal with
  | |- context [negate ?x] => lazymatch goal with H : w (negate x) <= 1 + w x |- _ => fail | _ => pose proof (w_negate x); pose proof (w_negate_and x) end
  | H : context [negate ?x] |- _ => lazymatch goal with H2 : w (negate x) <= 1 + w x |- _ => fail | _ => pose proof (w_negate x); pose proof (w_negate_and x) end
  end.
Ltac infacts :=
  repeat match goal with
  | |- context [optimize_in_predicate (PIn ?s)] =>
      lazymatch goal with H : w (optimize_in_predicate (PIn s)) <= 1 |- _ => fail
      | _ => pose proof (w_opt_in s); pose proof (isAnd_opt_in s) end
  | |- context [optimize_not_in_predicate (PNotIn ?s)] =>
      lazymatch goal with H : w (optimize_not_in_predicate (PNotIn s)) <= 2 |- _ => fail
      | _ => pose proof (w_opt_notin s); pose proof (isAnd_opt_notin s) end
  end.

(* arithmetic side conditions: unfold Post / R_*, split on the few isAnd/isOr flags, lia *)
Ltac post :=
  unfold_helpers_t;
  infacts; negfacts; posfacts;
  unfold Post, R_o, R_u, R_a, R_x, bonus_a, bonus_x in *;
  cbn [w isAnd isOr as_And as_Or negb orb andb] in *;
  repeat match goal with
  | H : _ /\ _ |- _ => destruct H
  | H : isAnd ?x = _ |- _ => rewrite H in *; clear H
  | H : isOr ?x = _ |- _ => rewrite H in *; clear H
  end;
  cbn [negb orb andb] in *;
  repeat match goal with
  | |- _ /\ _ => split
  | |- context [isAnd ?x] => destruct (isAnd x); cbn [negb orb andb] in *
  | H : context [isAnd ?x] |- _ => destruct (isAnd x); cbn [negb orb andb] in *
  | |- context [isOr ?x] => destruct (isOr x); cbn [negb orb andb] in *
  | H : context [isOr ?x] |- _ => destruct (isOr x); cbn [negb orb andb] in *
  | |- context [if ?c then _ else _] => destruct c; cbn [w isAnd isOr as_And as_Or] in *
  end;
  repeat match goal with
  | H : true = true -> _ |- _ => specialize (H eq_refl)
  | H : false = true -> _ |- _ => clear H
  | H : true = false -> _ |- _ => clear H
  end;
  try discriminate; try congruence; try lia;
  try (intros; exfalso; congruence); try (intros; lia)
with unfold_helpers_t :=
  repeat match goal with
  | H : optimize_xor_not _ _ = Some _ |- _ => unfold optimize_xor_not in H; tinv
  | H : optimize_or_not _ _ = Some _ |- _ => unfold optimize_or_not in H; tinv
  end.

Definition IHt (W : world) (fuel : nat) : Prop :=
  (forall p, R_o p <= fuel -> ok (Post p) (optimize W fuel p)) /\
  (forall p, is_All p = true -> R_u p <= fuel -> ok (Post p) (optimize_all_predicate W fuel p)) /\
  (forall p, is_Any p = true -> R_u p <= fuel -> ok (Post p) (optimize_any_predicate W fuel p)) /\
  (forall p, is_Not p = true -> R_u p <= fuel -> ok (Post p) (optimize_not_predicate W fuel p)) /\
  (forall p, is_And p = true -> R_a p <= fuel -> ok (Post p) (optimize_and_predicate W fuel p)) /\
  (forall p, is_Or p = true -> R_u p <= fuel -> ok (Post p) (optimize_or_predicate W fuel p)) /\
  (forall p, is_Xor p = true -> R_x p <= fuel -> ok (Post p) (optimize_xor_predicate W fuel p)).

Ltac call_r IHf x := eapply (okr_bind _ (Post x)); [apply IHf; [try reflexivity|post..] | intros ? ?].
Ltac call_b IHf x := eapply (okb_bind _ (Post x)); [apply IHf; [try reflexivity|post..] | intros ? ?].

Ltac twalk IHs :=
  let IHo := fresh "IHo" in let IHall := fresh "IHall" in let IHany := fresh "IHany" in let IHnot := fresh "IHnot" in
  let IHand := fresh "IHand" in let IHor := fresh "IHor" in let IHxor := fresh "IHxor" in
  destruct IHs as (IHo & IHall & IHany & IHnot & IHand & IHor & IHxor);
  cbv zeta;
  repeat first
  [ match goal with
    | |- ok _ (finish _) => apply ok_finish
    | |- okb _ (ret None) => apply okb_ret_none
    | |- okr _ (ret (Some _)) => apply okr_ret
    | |- okb _ (ret (Some _)) => apply okr_okb; apply okr_ret
    | |- okr _ (taint _ _) => apply okr_taint
    | |- okb _ (taint _ _) => apply okb_taint
    | |- okr _ (seq _ _) => apply okr_seq
    | |- okb _ (seq _ _) => apply okb_seq
    | |- ok _ (match ?m with _ => _ end) => destruct m eqn:?; tinv; subst; cbv zeta
    | |- okr _ (match ?m with _ => _ end) => destruct m eqn:?; tinv; subst; cbv zeta
    | |- okb _ (match ?m with _ => _ end) => destruct m eqn:?; tinv; subst; cbv zeta
    | |- okr _ (if ?c then _ else _) => destruct c eqn:?; cbv zeta
    | |- okb _ (if ?c then _ else _) => destruct c eqn:?; cbv zeta
    | |- okr _ (bind (optimize _ _ ?x) _) => call_r IHo x
    | |- okr _ (bind (optimize_all_predicate _ _ ?x) _) => call_r IHall x
    | |- okr _ (bind (optimize_any_predicate _ _ ?x) _) => call_r IHany x
    | |- okr _ (bind (optimize_not_predicate _ _ ?x) _) => call_r IHnot x
    | |- okr _ (bind (optimize_and_predicate _ _ ?x) _) => call_r IHand x
    | |- okr _ (bind (optimize_or_predicate _ _ ?x) _) => call_r IHor x
    | |- okr _ (bind (optimize_xor_predicate _ _ ?x) _) => call_r IHxor x
    | |- okb _ (bind (optimize _ _ ?x) _) => call_b IHo x
    | |- okb _ (bind (optimize_all_predicate _ _ ?x) _) => call_b IHall x
    | |- okb _ (bind (optimize_any_predicate _ _ ?x) _) => call_b IHany x
    | |- okb _ (bind (optimize_not_predicate _ _ ?x) _) => call_b IHnot x
    | |- okb _ (bind (optimize_and_predicate _ _ ?x) _) => call_b IHand x
    | |- okb _ (bind (optimize_or_predicate _ _ ?x) _) => call_b IHor x
    | |- okb _ (bind (optimize_xor_predicate _ _ ?x) _) => call_b IHxor x
    end ].
