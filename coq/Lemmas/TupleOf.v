(* TupleOf.v — HAND-WRITTEN model of predicate/tuple_of_predicate.py (TupleOfPredicate is not a constructor of `pred`:
   its field is a LIST of predicates):
       def __call__(self, x): return ilen(x) == len(self.predicates) and all(p(v) for p, v in zip(self.predicates, x, strict=False))
   tie: fingerprint of the class + differential run (tools/props/c08.py). *)
From Coq Require Import QArith Bool List Arith Lia.
From PP Require Import Prelude.Base Prelude.Val Prelude.Pred Prelude.Sem.
Import ListNotations.
Close Scope Q_scope.
Open Scope nat_scope.

(* all(p(v) for p, v in zip(ps, vs)): left to right, stops at the first False, an exception propagates *)
Fixpoint zip_all (W : world) (ps : list pred) (vs : list val) : option bool :=
  match ps, vs with
  | p :: ps', v :: vs' => match ev W p v with Some true => zip_all W ps' vs' | o => o end
  | _, _ => Some true
  end.

(* ilen(x) raises TypeError when x is not iterable; a str/dict/set/list/tuple/range is *)
Definition tuple_of_call (W : world) (ps : list pred) (x : val) : option bool :=
  match x with
  | VColl _ items => if Nat.eqb (List.length items) (List.length ps) then zip_all W ps items else Some false
  | _ => None
  end.

(* the plain definition: same length and every predicate holds of its own element *)
Lemma zip_all_true W : forall ps vs, List.length vs = List.length ps ->
  (zip_all W ps vs = Some true <-> Forall2 (fun p v => ev W p v = Some true) ps vs).
Proof.
  induction ps as [|p ps IH]; intros vs Hl; destruct vs as [|v vs]; cbn in *; try discriminate.
  - split; [constructor|reflexivity].
  - injection Hl as Hl. destruct (ev W p v) as [[|]|] eqn:E.
    + rewrite (IH vs Hl). split; [intros H; constructor; assumption|intros H; inversion H; assumption].
    + split; [discriminate|intros H; inversion H; congruence].
    + split; [discriminate|intros H; inversion H; congruence].
Qed.

Theorem tuple_of_spec W ps k items :
  (tuple_of_call W ps (VColl k items) = Some true <->
     List.length items = List.length ps /\ Forall2 (fun p v => ev W p v = Some true) ps items) /\
  (List.length items <> List.length ps -> tuple_of_call W ps (VColl k items) = Some false).
Proof.
  unfold tuple_of_call. destruct (Nat.eqb_spec (List.length items) (List.length ps)) as [E|E]; split.
  - rewrite (zip_all_true W ps items E). tauto.
  - contradiction.
  - split; [discriminate|intros [H _]; contradiction].
  - reflexivity.
Qed.

(* False exactly when some element fails and no earlier one raised; an exception only from an element predicate *)
Theorem tuple_of_false_or_raises W : forall ps vs, List.length vs = List.length ps ->
  (zip_all W ps vs = Some false <->
     exists i p v, nth_error ps i = Some p /\ nth_error vs i = Some v /\ ev W p v = Some false /\
                   forall j q u, j < i -> nth_error ps j = Some q -> nth_error vs j = Some u -> ev W q u = Some true).
Proof.
  induction ps as [|p ps IH]; intros vs Hl; destruct vs as [|v vs]; cbn in *; try discriminate.
  - split; [discriminate|]. intros (i & q & u & H & _). destruct i; discriminate.
  - injection Hl as Hl. destruct (ev W p v) as [[|]|] eqn:E.
    + rewrite (IH vs Hl). split.
      * intros (i & q & u & H1 & H2 & H3 & H4). exists (S i), q, u. repeat split; auto.
        intros j q' u' Hj Hq Hu. destruct j; cbn in *; [congruence|]. eapply H4; eauto. lia.
      * intros (i & q & u & H1 & H2 & H3 & H4). destruct i; cbn in *; [congruence|].
        exists i, q, u. repeat split; auto. intros j q' u' Hj Hq Hu. apply (H4 (S j) q' u'); [lia|exact Hq|exact Hu].
    + split; [|reflexivity]. intros _. exists 0, p, v. repeat split; auto. intros j q u Hj. lia.
    + split; [discriminate|]. intros (i & q & u & H1 & H2 & H3 & H4). destruct i; cbn in *; [congruence|].
      specialize (H4 0 p v (Nat.lt_0_succ i) eq_refl eq_refl). congruence.
Qed.

Theorem tuple_of_not_iterable W ps x : (forall k items, x <> VColl k items) -> tuple_of_call W ps x = None.
Proof. intros H. destruct x; try reflexivity. exfalso. eapply H. reflexivity. Qed.
