(* Scope.v — C16, part 1: the resolver of self-referential predicates over a MODEL of the interpreter's
   call stack.

   Hand-written from predicate/this_predicate.py (find_this_predicate, predicate_in_predicate_tree),
   predicate/root_predicate.py (find_root_predicate, get_frames) and predicate/lazy_predicate.py
   (find_predicate_by_ref, as repaired by D10b).  Tie: source fingerprints (tools/props/fingerprints/c16.json) + the frame-dump
   correspondence of tools/props/c16.py, which runs these very definitions (vm_compute) on the frame chains
   CPython really had at every resolution and compares the chosen binding.

   What is MODELLED (not verified): CPython's frame chain.  A stack is a list of frames, innermost first
   (frame, frame.f_back, ...); a frame is the ordered list frame.f_locals.items(); a local is a predicate
   (with the identities of its this_p/root_p nodes), a PredicateFactory (the objects `this_p`/`root_p`
   themselves, e.g. as globals of a module that star-imported the library) or any other object. *)
From Coq Require Import QArith Bool List Arith String Lia.
From PP Require Import Prelude.Base Prelude.Val Prelude.Pred Prelude.Sem.
Import ListNotations.
Close Scope Q_scope.
Open Scope string_scope.
Open Scope list_scope.
Open Scope nat_scope.

(* ---------- scope stacks ---------- *)
Inductive obj :=
| OPred (p : pred)          (* isinstance(value, Predicate), a tree of the modelled classes *)
| OFactory                  (* a PredicateFactory object (this_p / root_p) *)
| OData (truthy : bool).    (* anything else; truthy = bool(value) *)

Definition binding := (string * obj)%type.
Definition frame := list binding.      (* frame.f_locals.items(), in order *)
Definition stack := list frame.        (* innermost first: frame, frame.f_back, ... *)

(* ---------- predicate_in_predicate_tree ----------
   descends through All / And / Comp / Or only; anything else is compared with == (peq is the model of
   __eq__: identity on reference nodes since the D9 fix).  A PredicateFactory met in the tree compares a
   FRESH node with the reference, which identity equality makes False; factories are not representable
   inside `pred`, the harness refuses such trees. *)
Fixpoint in_tree (t node : pred) {struct t} : bool :=
  match t with
  | PAll q => in_tree q node
  | PAnd l r => in_tree l node || in_tree r node
  | PComp _ q => in_tree q node
  | POr l r => in_tree l node || in_tree r node
  | _ => peq t node
  end.

(* the test applied to one local:  isinstance(value, Predicate) and value != predicate and key != "self"
   and predicate_in_predicate_tree(value, predicate) *)
Definition candidate (node : pred) (b : binding) : option pred :=
  match b with
  | (key, OPred v) =>
      if negb (peq v node) && negb (String.eqb key "self") && in_tree v node then Some v else None
  | (_, OFactory) => None      (* factory.predicate == node compares a fresh node: never equal *)
  | (_, OData _) => None
  end.

Fixpoint first_some {A B} (f : A -> option B) (l : list A) : option B :=
  match l with
  | [] => None
  | a :: r => match f a with Some b => Some b | None => first_some f r end
  end.

(* find_this_predicate: locals of the current frame in order, then f_back *)
Fixpoint find_this (stk : stack) (node : pred) : option pred :=
  match stk with
  | [] => None
  | fr :: rest => match first_some (candidate node) fr with
                  | Some v => Some v
                  | None => find_this rest node
                  end
  end.

(* find_root_predicate: every frame innermost first, locals in REVERSED order *)
Fixpoint find_root (stk : stack) (node : pred) : option pred :=
  match stk with
  | [] => None
  | fr :: rest => match first_some (candidate node) (rev fr) with
                  | Some v => Some v
                  | None => find_root rest node
                  end
  end.

(* find_predicate_by_ref: first local called `ref` that is not `self` and is bound to a Predicate
   (key == ref and key != "self" and isinstance(value, Predicate)) *)
Definition is_predicate (o : obj) : bool := match o with OPred _ | OFactory => true | OData _ => false end.
Definition named (ref : string) (b : binding) : option obj :=
  if String.eqb (fst b) ref && negb (String.eqb (fst b) "self") && is_predicate (snd b) then Some (snd b) else None.
Fixpoint find_by_ref (stk : stack) (ref : string) : option obj :=
  match stk with
  | [] => None
  | fr :: rest => match first_some (named ref) fr with
                  | Some v => Some v
                  | None => find_by_ref rest ref
                  end
  end.

(* ---------- generic facts ---------- *)
Lemma first_some_app {A B} (f : A -> option B) l1 l2 :
  first_some f (l1 ++ l2) = match first_some f l1 with Some b => Some b | None => first_some f l2 end.
Proof. induction l1 as [|a l1 IH]; cbn; [reflexivity|]. destruct (f a); [reflexivity|exact IH]. Qed.

Lemma first_some_none {A B} (f : A -> option B) l :
  first_some f l = None <-> (forall a, In a l -> f a = None).
Proof.
  induction l as [|a l IH]; cbn.
  - split; [intros _ ? []|reflexivity].
  - destruct (f a) eqn:E.
    + split; [discriminate|]. intros H. rewrite (H a (or_introl eq_refl)) in E. discriminate.
    + rewrite IH. split; [intros H b [<-|Hb]; auto|intros H b Hb; apply H; right; exact Hb].
Qed.

(* first element satisfying: everything before is None or yields the same answer *)
Lemma first_some_hit {A B} (f : A -> option B) l1 a l2 v :
  f a = Some v -> (forall b, In b l1 -> f b = None \/ f b = Some v) ->
  first_some f (l1 ++ a :: l2) = Some v.
Proof.
  intros Ha. induction l1 as [|b l1 IH]; cbn; intros H.
  - rewrite Ha. reflexivity.
  - destruct (H b (or_introl eq_refl)) as [E|E]; rewrite E; [|reflexivity].
    apply IH. intros c Hc. apply H. right. exact Hc.
Qed.

Lemma find_this_flat stk node : find_this stk node = first_some (candidate node) (List.concat stk).
Proof. induction stk as [|fr stk IH]; cbn; [reflexivity|]. rewrite first_some_app, IH. reflexivity. Qed.
Lemma find_root_flat stk node : find_root stk node = first_some (candidate node) (List.concat (map (@rev binding) stk)).
Proof. induction stk as [|fr stk IH]; cbn; [reflexivity|]. rewrite first_some_app, IH. reflexivity. Qed.
Lemma find_by_ref_flat stk ref : find_by_ref stk ref = first_some (named ref) (List.concat stk).
Proof. induction stk as [|fr stk IH]; cbn; [reflexivity|]. rewrite first_some_app, IH. reflexivity. Qed.

Lemma peq_This_inv t n : peq t (PThis n) = true -> t = PThis n.
Proof. destruct t; cbn; try discriminate. intros H. apply Nat.eqb_eq in H. now subst. Qed.
Lemma peq_Root_inv t n : peq t (PRoot n) = true -> t = PRoot n.
Proof. destruct t; cbn; try discriminate. intros H. apply Nat.eqb_eq in H. now subst. Qed.

(* what a candidate is, in words *)
Lemma candidate_spec node key v :
  candidate node (key, OPred v) = Some v <->
  (peq v node = false /\ key <> "self" /\ in_tree v node = true).
Proof.
  cbn. destruct (peq v node); cbn; [split; [discriminate|intros [H _]; discriminate]|].
  destruct (String.eqb_spec key "self") as [->|Hk]; cbn.
  - split; [discriminate|intros (_ & H & _); contradiction].
  - destruct (in_tree v node); split; try discriminate; auto. intros (_ & _ & H). discriminate.
Qed.
Lemma candidate_some node b v : candidate node b = Some v -> snd b = OPred v.
Proof.
  destruct b as [k [q| |t]]; cbn; try discriminate.
  destruct (negb (peq q node) && negb (String.eqb k "self") && in_tree q node); [|discriminate]. congruence.
Qed.

(* a structural "mentions": node occurs anywhere in the term.  in_tree finds only what is mentioned, so a
   predicate that does not mention the node (an unrelated sibling, ANOTHER self-referential predicate with
   its own node) is never a candidate. *)
Fixpoint mentions (t node : pred) {struct t} : bool :=
  peq t node ||
  match t with
  | PAnd l r | POr l r | PXor l r => mentions l node || mentions r node
  | PNot q | PAll q | PAny q | PSetOf q | PComp _ q => mentions q node
  | _ => false
  end.
Lemma in_tree_mentions t node : in_tree t node = true -> mentions t node = true.
Proof.
  induction t; cbn [in_tree mentions]; intros H;
    try (rewrite H; reflexivity);
    try (apply orb_true_iff in H as [H|H]; [rewrite (IHt1 H)|rewrite (IHt2 H)]; rewrite ?orb_true_r; reflexivity);
    try (rewrite (IHt H); rewrite ?orb_true_r; reflexivity).
Qed.
Lemma unrelated_never_candidate node key v : mentions v node = false -> candidate node (key, OPred v) = None.
Proof.
  intros H. cbn. destruct (in_tree v node) eqn:E; [|now rewrite andb_false_r].
  apply in_tree_mentions in E. congruence.
Qed.

(* ---------- (a) RESOLUTION ---------- *)
Definition harmless (node : pred) (P : pred) (b : binding) : Prop :=
  candidate node b = None \/ candidate node b = Some P.

(* this_p: the defining frame binds `name` to P; P's tree reaches the node through All/And/Comp/Or; every local
   searched EARLIER (nearer frames, and the locals before `name` in the defining frame) is not a candidate, or is
   bound to P itself (a helper's parameter).  Nothing is asked of later locals, of outer frames, or of predicates
   that do not contain this node. *)
Theorem find_this_resolves :
  forall (pre post : stack) (l1 l2 : frame) (name : string) (P node : pred),
    name <> "self" -> peq P node = false -> in_tree P node = true ->
    (forall b, In b (List.concat pre ++ l1) -> harmless node P b) ->
    find_this (pre ++ (l1 ++ (name, OPred P) :: l2) :: post) node = Some P.
Proof.
  intros pre post l1 l2 name P node Hn Hp Ht H.
  rewrite find_this_flat, concat_app. cbn [List.concat]. rewrite <- !app_assoc, app_assoc.
  rewrite <- app_comm_cons. apply first_some_hit; [|exact H].
  apply candidate_spec. auto.
Qed.

(* corollary in the property's words: other predicates in scope do not mention this node *)
Corollary find_this_resolves_among_unrelated :
  forall (pre post : stack) (l1 l2 : frame) (name : string) (P node : pred),
    name <> "self" -> peq P node = false -> in_tree P node = true ->
    (forall k v, In (k, OPred v) (List.concat pre ++ l1) -> mentions v node = false \/ v = P) ->
    find_this (pre ++ (l1 ++ (name, OPred P) :: l2) :: post) node = Some P.
Proof.
  intros pre post l1 l2 name P node Hn Hp Ht H. apply find_this_resolves; auto.
  intros [k [v| |t]] Hb; [|left; reflexivity|left; reflexivity].
  destruct (H k v Hb) as [E| ->].
  - left. apply unrelated_never_candidate. exact E.
  - unfold harmless. destruct (candidate node (k, OPred P)) eqn:E; [|left; reflexivity].
    right. apply candidate_some in E. cbn in E. congruence.
Qed.

(* root_p: reversed iteration makes the LAST candidate of the innermost frame that has one win.  So P is found iff
   no nearer frame has a candidate and no local bound AFTER P in the defining frame is one ("P is not part of a
   larger predicate in scope" precisely means: not part of one bound later in the same frame or anywhere in a
   nearer frame; locals bound before P and outer frames do not matter). *)
Theorem find_root_resolves :
  forall (pre post : stack) (l1 l2 : frame) (name : string) (P node : pred),
    name <> "self" -> peq P node = false -> in_tree P node = true ->
    (forall b, In b (List.concat pre) -> harmless node P b) ->
    (forall b, In b l2 -> harmless node P b) ->
    find_root (pre ++ (l1 ++ (name, OPred P) :: l2) :: post) node = Some P.
Proof.
  intros pre post l1 l2 name P node Hn Hp Ht Hpre Hl2.
  rewrite find_root_flat, map_app, concat_app. cbn [map List.concat].
  rewrite rev_app_distr. cbn [rev]. rewrite <- !app_assoc. cbn [app].
  rewrite app_assoc. apply first_some_hit; [apply candidate_spec; auto|].
  intros b Hb. apply in_app_or in Hb as [Hb|Hb].
  - apply Hpre. clear - Hb. induction pre as [|fr pre IH]; cbn in *; [exact Hb|].
    apply in_app_or in Hb as [Hb|Hb]; apply in_or_app; [left; apply in_rev; exact Hb|right; apply IH; exact Hb].
  - apply Hl2. apply in_rev. exact Hb.
Qed.

(* the other half of "which binding wins": a larger predicate Q bound later in the same frame IS what root_p
   denotes (and P is then not), which is the reading test_root_predicate_with_different_root pins *)
Theorem find_root_prefers_later_binding :
  forall (pre post : stack) (l1 l2 l3 : frame) (nameP nameQ : string) (P Q node : pred),
    nameQ <> "self" -> peq Q node = false -> in_tree Q node = true ->
    (forall b, In b (List.concat pre) -> harmless node Q b) ->
    (forall b, In b l3 -> harmless node Q b) ->
    find_root (pre ++ (l1 ++ (nameP, OPred P) :: l2 ++ (nameQ, OPred Q) :: l3) :: post) node = Some Q.
Proof.
  intros. replace (l1 ++ (nameP, OPred P) :: l2 ++ (nameQ, OPred Q) :: l3)
    with ((l1 ++ (nameP, OPred P) :: l2) ++ (nameQ, OPred Q) :: l3) by (rewrite <- app_assoc; reflexivity).
  apply find_root_resolves; auto.
Qed.

(* lazy_p(name): the nearest PREDICATE-valued binding of the name (name <> self); nearer locals of that name that
   are not predicates (the data the library's own frames call x / iterable, a helper's unrelated variable) are skipped *)
Theorem find_by_ref_resolves :
  forall (pre post : stack) (l1 l2 : frame) (name : string) (o : obj),
    name <> "self" -> is_predicate o = true ->
    (forall b, In b (List.concat pre ++ l1) -> fst b <> name \/ is_predicate (snd b) = false) ->
    find_by_ref (pre ++ (l1 ++ (name, o) :: l2) :: post) name = Some o.
Proof.
  intros pre post l1 l2 name o Hn Ho H.
  rewrite find_by_ref_flat, concat_app. cbn [List.concat]. rewrite <- !app_assoc, app_assoc.
  rewrite <- app_comm_cons. apply first_some_hit.
  - unfold named. cbn. rewrite String.eqb_refl, Ho. destruct (String.eqb_spec name "self"); [contradiction|reflexivity].
  - intros b Hb. left. unfold named. destruct (H b Hb) as [E|E].
    + destruct (String.eqb_spec (fst b) name); [contradiction|reflexivity].
    + rewrite E. now rewrite andb_false_r.
Qed.

(* completeness: no answer exactly when nothing in the whole chain qualifies *)
Theorem find_this_none stk node : find_this stk node = None <-> (forall b, In b (List.concat stk) -> candidate node b = None).
Proof. rewrite find_this_flat. apply first_some_none. Qed.
Theorem find_root_none stk node : find_root stk node = None <-> (forall b, In b (List.concat stk) -> candidate node b = None).
Proof.
  rewrite find_root_flat, first_some_none. split; intros H b Hb; apply H.
  - clear - Hb. induction stk as [|fr stk IH]; cbn in *; [exact Hb|].
    apply in_app_or in Hb as [Hb|Hb]; apply in_or_app; [left; apply -> in_rev; exact Hb|right; apply IH; exact Hb].
  - clear - Hb. induction stk as [|fr stk IH]; cbn in *; [exact Hb|].
    apply in_app_or in Hb as [Hb|Hb]; apply in_or_app; [left; apply in_rev; exact Hb|right; apply IH; exact Hb].
Qed.
Theorem find_by_ref_none stk ref :
  find_by_ref stk ref = None <->
  (forall b, In b (List.concat stk) -> fst b <> ref \/ ref = "self" \/ is_predicate (snd b) = false).
Proof.
  rewrite find_by_ref_flat, first_some_none. unfold named. split; intros H b Hb; specialize (H b Hb).
  - destruct (String.eqb_spec (fst b) ref) as [E|E]; [|left; exact E]. right. cbn in H.
    destruct (String.eqb_spec (fst b) "self") as [E2|E2]; [left; congruence|]. right.
    destruct (is_predicate (snd b)); [discriminate|reflexivity].
  - destruct H as [E|[E|E]].
    + destruct (String.eqb_spec (fst b) ref); [contradiction|reflexivity].
    + destruct (String.eqb_spec (fst b) ref) as [E2|E2]; [|reflexivity]. cbn.
      destruct (String.eqb_spec (fst b) "self"); [reflexivity|congruence].
    + rewrite E. now rewrite andb_false_r.
Qed.

(* ---------- the frames the library itself pushes ----------
   Or/And/Not/Comp/This/Root/Lazy.__call__(self, x);  All.__call__(self, iterable) and its generator expression
   (.0, x, self).  Their locals are `self` (skipped by name by this/root) and data. *)
Definition is_data (o : obj) : bool := match o with OData _ => true | _ => false end.
Definition lib_binding (b : binding) : bool := String.eqb (fst b) "self" || is_data (snd b).
Definition lib_frame (fr : frame) : bool := forallb lib_binding fr.

Lemma lib_binding_no_candidate node b : lib_binding b = true -> candidate node b = None.
Proof.
  destruct b as [k [v| |t]]; cbn; try reflexivity.
  unfold lib_binding. cbn. rewrite orb_false_r. intros H.
  rewrite H. cbn. now rewrite andb_false_r.
Qed.
Lemma lib_frame_no_candidate node fr : lib_frame fr = true -> first_some (candidate node) fr = None.
Proof.
  intros H. apply first_some_none. intros b Hb. apply lib_binding_no_candidate.
  unfold lib_frame in H. rewrite forallb_forall in H. auto.
Qed.
Lemma lib_frame_no_candidate_rev node fr : lib_frame fr = true -> first_some (candidate node) (rev fr) = None.
Proof.
  intros H. apply first_some_none. intros b Hb. apply lib_binding_no_candidate.
  unfold lib_frame in H. rewrite forallb_forall in H. apply H. apply in_rev. exact Hb.
Qed.

(* this_p / root_p do not see the library's frames: however many calls deep below the user's scope *)
Theorem lib_frame_transparent_this fr stk node : lib_frame fr = true -> find_this (fr :: stk) node = find_this stk node.
Proof. intros H. cbn. now rewrite lib_frame_no_candidate. Qed.
Theorem lib_frame_transparent_root fr stk node : lib_frame fr = true -> find_root (fr :: stk) node = find_root stk node.
Proof. intros H. cbn. now rewrite lib_frame_no_candidate_rev. Qed.
(* since the D10b repair lazy_p(name) does not see them either, whatever the name: their only predicate-valued
   local is `self`, which is skipped by name, and everything else they hold is data *)
Theorem lib_frame_transparent_lazy fr stk ref :
  lib_frame fr = true -> find_by_ref (fr :: stk) ref = find_by_ref stk ref.
Proof.
  intros H. cbn. replace (first_some (named ref) fr) with (@None obj); [reflexivity|].
  symmetry. apply first_some_none. intros b Hb. unfold named.
  unfold lib_frame in H. rewrite forallb_forall in H. specialize (H b Hb).
  unfold lib_binding in H. apply orb_true_iff in H as [H|H].
  - rewrite H. cbn. now rewrite andb_false_r.
  - destruct (snd b); try discriminate H. cbn. now rewrite andb_false_r.
Qed.
(* the capture of a predicate the user called `x` by the library's own local `x` (D10b) can no longer happen *)
Example lazy_no_longer_captured_by_library_local :
  forall P d, find_by_ref ([("self", OPred (PLazy "x")); ("x", OData d)] :: [[("x", OPred P)]]) "x" = Some (OPred P).
Proof. reflexivity. Qed.

(* ---------- non-vacuity: concrete stacks ---------- *)
Definition is_str : pred := PIsInstance [4].
Definition is_int : pred := PIsInstance [1].
Definition is_list : pred := PIsInstance [6].
Definition recp (base node : pred) : pred := POr base (PAnd is_list (PAll node)).

(* two self-referential predicates A (node 0) and P (node 1) and a larger Q = P | is_int in one function, P called
   through a helper two frames below, from inside the library's own frames *)
Definition ex_stack : stack :=
  [ [("self", OPred (PThis 1)); ("x", OData true)];
    [(".0", OData true); ("x", OData true); ("self", OPred (PAll (PThis 1)))];
    [("self", OPred (PAll (PThis 1))); ("iterable", OData true)];
    [("self", OPred (PAnd is_list (PAll (PThis 1)))); ("x", OData true)];
    [("self", OPred (recp is_str (PThis 1))); ("x", OData true)];
    [("p", OPred (recp is_str (PThis 1))); ("v", OData true)];
    [("A", OPred (recp is_int (PThis 0))); ("P", OPred (recp is_str (PThis 1)));
     ("Q", OPred (POr (recp is_str (PThis 1)) is_int)); ("helper", OData true)];
    [("this_p", OFactory); ("root_p", OFactory); ("is_str_p", OPred is_str)] ].

Example find_this_nonvacuous :
  find_this ex_stack (PThis 1) = Some (recp is_str (PThis 1)) /\
  find_this ex_stack (PThis 0) = Some (recp is_int (PThis 0)) /\
  find_this ex_stack (PThis 2) = None.
Proof. vm_compute. auto. Qed.
(* root_p in the same frames: the helper's parameter (bound to P itself) is nearer, so P; without the helper the
   later, larger Q wins *)
Example find_root_nonvacuous :
  find_root ex_stack (PThis 1) = Some (recp is_str (PThis 1)) /\
  find_root (skipn 6 ex_stack) (PThis 1) = Some (POr (recp is_str (PThis 1)) is_int) /\
  find_this (skipn 6 ex_stack) (PThis 1) = Some (recp is_str (PThis 1)).
Proof. vm_compute. auto. Qed.
Example find_by_ref_nonvacuous :
  find_by_ref ex_stack "P" = Some (OPred (recp is_str (PThis 1))) /\
  find_by_ref ex_stack "x" = None /\ find_by_ref ex_stack "self" = None /\
  find_by_ref ex_stack "this_p" = Some OFactory /\ find_by_ref ex_stack "nope" = None.
Proof. vm_compute. auto. Qed.
(* before the D9 fix all this_p nodes compared equal: with one shared identity the FIRST recursive predicate of the
   function captures the reference of the second (the defect the identity equality repaired) *)
Example shared_identity_is_captured :
  find_this [[("A", OPred (recp is_int (PThis 0))); ("P", OPred (recp is_str (PThis 0)))]] (PThis 0)
  = Some (recp is_int (PThis 0)).
Proof. reflexivity. Qed.

(* ---------- since the D27 repair: the library's own frames are skipped, whatever they hold ----------
   find_this_predicate / find_root_predicate / find_predicate_by_ref now begin with
       if is_library_frame(frame): (go on with frame.f_back)          [frame.f_globals['__name__'] starts with "predicate."]
   so the stack the three finders search is the real frame chain WITHOUT the library's frames.  A real chain is a list of
   (runs library code?, f_locals); the finders of the code are the finders above applied to `user_frames`.
   (Before the repair a frame of TupleOfPredicate / DictOfPredicate, whose loop variables p, key_p, value_p are
   predicate-valued, captured the reference: the frames listed under lib_frame above were only the harmless ones.) *)
Definition fstack := list (bool * frame).
Definition user_frames (fs : fstack) : stack := map snd (filter (fun bf => negb (fst bf)) fs).
Definition find_this_f (fs : fstack) (node : pred) : option pred := find_this (user_frames fs) node.
Definition find_root_f (fs : fstack) (node : pred) : option pred := find_root (user_frames fs) node.
Definition find_by_ref_f (fs : fstack) (ref : string) : option obj := find_by_ref (user_frames fs) ref.

Theorem library_frames_are_skipped (fr : frame) (fs : fstack) (node : pred) (ref : string) :
  find_this_f ((true, fr) :: fs) node = find_this_f fs node /\
  find_root_f ((true, fr) :: fs) node = find_root_f fs node /\
  find_by_ref_f ((true, fr) :: fs) ref = find_by_ref_f fs ref.
Proof. repeat split. Qed.

Theorem user_frames_are_searched (fr : frame) (fs : fstack) (node : pred) (ref : string) :
  find_this_f ((false, fr) :: fs) node = find_this (fr :: user_frames fs) node /\
  find_root_f ((false, fr) :: fs) node = find_root (fr :: user_frames fs) node /\
  find_by_ref_f ((false, fr) :: fs) ref = find_by_ref (fr :: user_frames fs) ref.
Proof. repeat split. Qed.

(* is_tuple_of_p(is_str_p, is_list_of_p(P)) called with P = is_int | is_list_of(this): the generator expression of
   TupleOfPredicate.__call__ holds p = is_list_of_p(P), which contains the reference.  Read as a user frame (the code
   before the repair) it captures this_p, root_p and lazy_p("p"); flagged as the library frame it is, it does not. *)
Definition tuple_of_genexpr (P : pred) : frame := [(".0", OData true); ("p", OPred (PAnd is_list (PAll P))); ("v", OData true)].
Example tuple_of_loop_variable_no_longer_captures :
  let P := recp is_int (PThis 1) in
  let user := [("P", OPred P)] in
  find_this (tuple_of_genexpr P :: [user]) (PThis 1) = Some (PAnd is_list (PAll P)) /\
  find_this_f [(true, tuple_of_genexpr P); (false, user)] (PThis 1) = Some P /\
  find_root_f [(true, tuple_of_genexpr P); (false, user)] (PThis 1) = Some P /\
  find_by_ref ([(".0", OData true); ("p", OPred (PAnd is_list (PAll (recp is_int (PLazy "p"))))); ("v", OData true)]
               :: [[("p", OPred (recp is_int (PLazy "p")))]]) "p" = Some (OPred (PAnd is_list (PAll (recp is_int (PLazy "p"))))) /\
  find_by_ref_f [(true, [(".0", OData true); ("p", OPred (PAnd is_list (PAll (recp is_int (PLazy "p"))))); ("v", OData true)]);
                 (false, [("p", OPred (recp is_int (PLazy "p")))])] "p" = Some (OPred (recp is_int (PLazy "p"))).
Proof. vm_compute. repeat split. Qed.
