(* LawsEq.v — one-step unfolding equations of the seven optimizer functions (the right-hand sides are computed
   from the generated definitions by cbn, not written by hand), used to execute the optimizer symbolically
   one call at a time. *)
From Coq Require Import QArith Bool List Arith String.
From PP Require Import Prelude.Base Prelude.Val Prelude.Pred Prelude.Sem Gen.Negate Gen.Implies Gen.Optimize.
Import ListNotations.

Lemma eq_optimize W f p : optimize W (S f) p = ltac:(let t := eval cbn [optimize] in (optimize W (S f) p) in exact t).
Proof. reflexivity. Qed.
Lemma eq_all W f p : optimize_all_predicate W (S f) p = ltac:(let t := eval cbn [optimize_all_predicate] in (optimize_all_predicate W (S f) p) in exact t).
Proof. reflexivity. Qed.
Lemma eq_any W f p : optimize_any_predicate W (S f) p = ltac:(let t := eval cbn [optimize_any_predicate] in (optimize_any_predicate W (S f) p) in exact t).
Proof. reflexivity. Qed.
Lemma eq_not W f p : optimize_not_predicate W (S f) p = ltac:(let t := eval cbn [optimize_not_predicate] in (optimize_not_predicate W (S f) p) in exact t).
Proof. reflexivity. Qed.
Lemma eq_and W f p : optimize_and_predicate W (S f) p = ltac:(let t := eval cbn [optimize_and_predicate] in (optimize_and_predicate W (S f) p) in exact t).
Proof. reflexivity. Qed.
Lemma eq_or W f p : optimize_or_predicate W (S f) p = ltac:(let t := eval cbn [optimize_or_predicate] in (optimize_or_predicate W (S f) p) in exact t).
Proof. reflexivity. Qed.
Lemma eq_xor W f p : optimize_xor_predicate W (S f) p = ltac:(let t := eval cbn [optimize_xor_predicate] in (optimize_xor_predicate W (S f) p) in exact t).
Proof. reflexivity. Qed.
