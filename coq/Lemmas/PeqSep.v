(* PeqSep.v — equality is commutative on & | ^, separates parameters, and characterises can_optimize (C06). *)
From Coq Require Import QArith Lqa Bool List Arith String Lia.
From PP Require Import Prelude.Base Prelude.Val Prelude.Pred Prelude.Sem Gen.Negate Gen.Implies Gen.Optimize Lemmas.PeqFacts.
Import ListNotations.

Lemma peq_comm l r : peq (PAnd l r) (PAnd r l) = true /\ peq (POr l r) (POr r l) = true /\ peq (PXor l r) (PXor r l) = true.
Proof. cbn. rewrite !peq_refl. cbn. rewrite !orb_true_r. auto. Qed.

(* two instances of a class that compare equal have equal parameters (modulo numeric == on constants and
   set equality on sets); instances of different classes are never equal *)
Definition separation_statement : Prop :=
  (forall a b, peq (PEq a) (PEq b) = true -> a == b) /\ (forall a b, peq (PNe a) (PNe b) = true -> a == b) /\
  (forall a b, peq (PGe a) (PGe b) = true -> a == b) /\ (forall a b, peq (PGt a) (PGt b) = true -> a == b) /\
  (forall a b, peq (PLe a) (PLe b) = true -> a == b) /\ (forall a b, peq (PLt a) (PLt b) = true -> a == b) /\
  (forall a b c d, peq (PGeLe a b) (PGeLe c d) = true -> a == c /\ b == d) /\
  (forall a b c d, peq (PGeLt a b) (PGeLt c d) = true -> a == c /\ b == d) /\
  (forall a b c d, peq (PGtLe a b) (PGtLe c d) = true -> a == c /\ b == d) /\
  (forall a b c d, peq (PGtLt a b) (PGtLt c d) = true -> a == c /\ b == d) /\
  (forall s t, peq (PIn s) (PIn t) = true -> forall x, mem x s = mem x t) /\
  (forall s t, peq (PNotIn s) (PNotIn t) = true -> forall x, mem x s = mem x t) /\
  (forall s t, peq (PSubset s) (PSubset t) = true -> forall x, mem x s = mem x t) /\
  (forall s t, peq (PRealSubset s) (PRealSubset t) = true -> forall x, mem x s = mem x t) /\
  (forall s t, peq (PSuperset s) (PSuperset t) = true -> forall x, mem x s = mem x t) /\
  (forall s t, peq (PRealSuperset s) (PRealSuperset t) = true -> forall x, mem x s = mem x t) /\
  (forall a b, peq (PIsInstance a) (PIsInstance b) = true -> a = b) /\
  (forall a b, peq (PHasKey a) (PHasKey b) = true -> a == b) /\
  (forall a b, peq (PHasLength a) (PHasLength b) = true -> a == b) /\
  (forall a b c d, peq (PRegex a b) (PRegex c d) = true -> a = c /\ b = d) /\
  (forall a b, peq (PFn a) (PFn b) = true -> a = b) /\ (forall a b, peq (PTee a) (PTee b) = true -> a = b) /\
  (forall a b, peq (PProperty a) (PProperty b) = true -> a = b) /\
  (forall f g p q, peq (PComp f p) (PComp g q) = true -> f = g /\ peq p q = true) /\
  (forall a b, peq (PNamed a) (PNamed b) = true -> a = b) /\ (forall a b, peq (PLazy a) (PLazy b) = true -> a = b) /\
  (forall a b, peq (PThis a) (PThis b) = true -> a = b) /\ (forall a b, peq (PRoot a) (PRoot b) = true -> a = b) /\
  (forall p q, peq (PNot p) (PNot q) = true -> peq p q = true) /\
  (forall p q, peq (PAll p) (PAll q) = true -> peq p q = true) /\
  (forall p q, peq (PAny p) (PAny q) = true -> peq p q = true) /\
  (forall p q, peq (PSetOf p) (PSetOf q) = true -> peq p q = true) /\
  (* different classes never compare equal (a few representative pairs; the general fact is peq's definition by projector) *)
  (forall p q, peq (PAll p) (PAny q) = false) /\ (forall a b, peq (PGe a) (PGt b) = false) /\
  (forall a b, peq (PEq a) (PNe b) = false) /\ (forall s t, peq (PIn s) (PNotIn t) = false) /\
  (forall s t, peq (PSubset s) (PRealSubset t) = false) /\ (forall l r l' r', peq (PAnd l r) (POr l' r') = false).

Lemma separation : separation_statement.
Proof.
  unfold separation_statement.
  repeat match goal with |- _ /\ _ => split end; cbn; intros;
    repeat match goal with
    | H : _ && _ = true |- _ => apply andb_true_iff in H; destruct H
    | H : Qeq_bool _ _ = true |- _ => apply Qeq_bool_iff in H
    | H : Nat.eqb _ _ = true |- _ => apply Nat.eqb_eq in H
    | H : String.eqb _ _ = true |- _ => apply String.eqb_eq in H
    | H : list_eqb Nat.eqb _ _ = true |- _ => apply list_eqb_nat_eq in H
    end; subst; auto.
  all: try (apply set_eq_mem; assumption).
Qed.

Lemma can_optimize_spec W fuel p q tr :
  optimize W fuel p = Ok q tr -> can_optimize W fuel p = Ok (negb (peq q p)) tr.
Proof. intros E. unfold can_optimize, bind, ret. rewrite E. now rewrite app_nil_r. Qed.
