(* TTSem.v — the propositional semantics used in C15 (`psem` over trees with variable OBJECTS) is the framework's
   semantics of predicates (`beval` of Prelude/Sem.v, where a variable is `PNamed name` read from the world's
   environment) once the object identities are forgotten.  This is the sense in which "p evaluated under that
   assignment" in C15 is the same notion as in C01/C20. *)
From Coq Require Import QArith Bool List String.
From PP Require Import Prelude.Base Prelude.Val Prelude.Pred Prelude.Sem Lemmas.TTModel.
Import ListNotations.

(* forget the objects: a leaf becomes the NamedPredicate term with its name *)
Fixpoint to_pred (nm : loc -> name) (t : ptree) : pred :=
  match t with
  | TVar l => PNamed (nm l)
  | TTrue => PTrue
  | TFalse => PFalse
  | TAnd a b => PAnd (to_pred nm a) (to_pred nm b)
  | TOr a b => POr (to_pred nm a) (to_pred nm b)
  | TXor a b => PXor (to_pred nm a) (to_pred nm b)
  | TNot a => PNot (to_pred nm a)
  | TOther => PIsNone
  end.

Lemma psem_beval : forall (W : world) (nm : loc -> name) (t : ptree) (x : val),
  prop_tree t = true -> beval W (to_pred nm t) x = psem (env W) nm t.
Proof.
  induction t; intros x H; cbn in *; try discriminate; try reflexivity;
    try (apply andb_true_iff in H as [H1 H2]; now rewrite IHt1, IHt2).
  now rewrite IHt.
Qed.

Open Scope string_scope.
Example psem_beval_nonvacuous :
  let W := {| env := fun n => String.eqb n "p"; isinst := fun _ _ => false; fn_sem := fun _ _ => None;
              comp_sem := fun _ _ => None; regex_sem := fun _ _ _ => None; lazy_sem := fun _ _ => None;
              self_sem := fun _ _ => None |} in
  beval W (to_pred (fun l => match l with O => "p" | _ => "q" end) (TXor (TVar 0%nat) (TAnd (TVar 1%nat) (TVar 0%nat)))) VNone = true.
Proof. vm_compute. reflexivity. Qed.
