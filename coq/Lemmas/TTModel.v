(* TTModel.v — hand-written executable model of predicate/truth_table.py and of the pieces of
   predicate/named_predicate.py and predicate/predicate.py it uses (C15).

   What is modelled, line by line (the source is fingerprinted in tools/props/fingerprints/c15.json and the
   definitions below are executed next to the implementation by tools/props/c15.py on every run):

     NamedPredicate            an OBJECT: a location `l : loc`; its immutable field `name` is `nm l`, its MUTABLE
                               field `v` is `s l` for the current store `s : store`.  One object may sit at several
                               leaves (same `l`), different objects may carry the same name (`nm l1 = nm l2`).
     NamedPredicate.__call__   reads the store                                   -> `call` (case TVar)
     And/Or/Xor/Not.__call__   `and` / `or` (short-circuit), `^`, `not`          -> `call`
     get_named_predicates      sorted(set(names)), recursively, ValueError else  -> `get_named_predicates`
     set_named_values          named.v = values[named.name], left to right       -> `set_named_values`
     execute_predicate         set_named_values, then predicate(False)           -> `execute_predicate`
     truth_table               a GENERATOR: nothing runs before the first next() -> `next` (one pull), `truth_table_list`
     sorted(gray_product( *repeat((False, True), n)))                             -> `all_rows n`
     dict(zip(names, combination))     keyed by NAME, later bindings win         -> `combine` + `dict_get`
     sorted / set on str               -> `sorted_set` (insertion sort by String.leb after removing duplicates;
                                          String.leb compares bytes, which is Python's code-point order on the
                                          ASCII names the harness uses, and on UTF-8 encodings in general)

   Anything that is not a variable, a constant or a connective is `TOther`. *)
From Coq Require Import Bool List Arith String Ascii.
Import ListNotations.

Definition loc := nat.
Definition name := string.
Definition store := loc -> bool.

Inductive ptree :=
| TVar (l : loc)
| TTrue
| TFalse
| TAnd (a b : ptree)
| TOr (a b : ptree)
| TXor (a b : ptree)
| TNot (a : ptree)
| TOther.

(* the exceptions that can leave the modelled code *)
Inductive exn := ValueError | KeyError | OtherError.
Inductive res (A : Type) := Ok (a : A) | Raise (e : exn).
Arguments Ok {A} a.
Arguments Raise {A} e.

Definition upd (s : store) (l : loc) (v : bool) : store := fun l' => if Nat.eqb l' l then v else s l'.

(* ---------- sorted(set(xs)) on strings ---------- *)
Fixpoint insert (x : name) (l : list name) : list name :=
  match l with
  | [] => [x]
  | y :: r => if String.leb x y then x :: y :: r else y :: insert x r
  end.
Fixpoint isort (l : list name) : list name :=
  match l with [] => [] | x :: r => insert x (isort r) end.
Definition sorted_set (l : list name) : list name := isort (nodup string_dec l).

(* ---------- sorted(gray_product( *repeat((False, True), n))): all bit rows, lexicographic, False < True ---------- *)
Fixpoint all_rows (n : nat) : list (list bool) :=
  match n with
  | O => [[]]
  | S k => map (cons false) (all_rows k) ++ map (cons true) (all_rows k)
  end.

(* ---------- dict(zip(keys, vals)) and values[key] ---------- *)
(* a dict built from a list of pairs: the LAST binding of a key wins; None = KeyError *)
Fixpoint dict_get (d : list (name * bool)) (k : name) : option bool :=
  match d with
  | [] => None
  | (k', v) :: r =>
      match dict_get r k with
      | Some v' => Some v'
      | None => if String.eqb k k' then Some v else None
      end
  end.

(* ---------- get_named_predicates ---------- *)
Fixpoint get_named_predicates (nm : loc -> name) (t : ptree) : res (list name) :=
  match t with
  | TAnd a b | TOr a b | TXor a b =>
      match get_named_predicates nm a with
      | Raise e => Raise e
      | Ok na =>
          match get_named_predicates nm b with
          | Raise e => Raise e
          | Ok nb => Ok (sorted_set (na ++ nb))
          end
      end
  | TNot a =>
      match get_named_predicates nm a with
      | Raise e => Raise e
      | Ok na => Ok (sorted_set na)
      end
  | TVar l => Ok (sorted_set [nm l])
  | TTrue | TFalse => Ok (sorted_set [])
  | TOther => Raise ValueError
  end.

(* ---------- set_named_values: returns the store reached and the exception, if any ---------- *)
Fixpoint set_named_values (nm : loc -> name) (t : ptree) (values : list (name * bool)) (s : store)
  : store * option exn :=
  match t with
  | TAnd a b | TOr a b | TXor a b =>
      match set_named_values nm a values s with
      | (s1, None) => set_named_values nm b values s1
      | (s1, Some e) => (s1, Some e)
      end
  | TNot a => set_named_values nm a values s
  | TVar l =>
      match dict_get values (nm l) with
      | Some v => (upd s l v, None)
      | None => (s, Some KeyError)
      end
  | TTrue | TFalse => (s, None)
  | TOther => (s, Some ValueError)
  end.

(* ---------- predicate(dummy): __call__ of the propositional classes; None = a node this model does not cover ---------- *)
Fixpoint call (t : ptree) (s : store) : option bool :=
  match t with
  | TVar l => Some (s l)
  | TTrue => Some true
  | TFalse => Some false
  | TAnd a b => match call a s with Some true => call b s | r => r end          (* left(x) and right(x) *)
  | TOr a b => match call a s with Some false => call b s | r => r end          (* left(x) or right(x) *)
  | TXor a b => match call a s, call b s with Some x, Some y => Some (xorb x y) | _, _ => None end
  | TNot a => match call a s with Some x => Some (negb x) | None => None end
  | TOther => None
  end.

Definition execute_predicate (nm : loc -> name) (t : ptree) (values : list (name * bool)) (s : store)
  : store * res bool :=
  match set_named_values nm t values s with
  | (s1, Some e) => (s1, Raise e)
  | (s1, None) => (s1, match call t s1 with Some b => Ok b | None => Raise OtherError end)
  end.

(* ---------- truth_table as a generator object ---------- *)
Definition row := (list bool * bool)%type.
Inductive gstate :=
| GStart                                                   (* created, body not entered yet *)
| GRun (names : list name) (rest : list (list bool))       (* suspended at `yield` inside the for loop *)
| GDone.                                                   (* returned or raised *)
Inductive pulled := Yield (r : row) | Stop | Throw (e : exn).

Definition next_run (nm : loc -> name) (t : ptree) (ns : list name) (rest : list (list bool)) (s : store)
  : pulled * gstate * store :=
  match rest with
  | [] => (Stop, GDone, s)
  | c :: rest' =>
      match execute_predicate nm t (combine ns c) s with
      | (s1, Ok b) => (Yield (c, b), GRun ns rest', s1)
      | (s1, Raise e) => (Throw e, GDone, s1)
      end
  end.

(* one `next(g)` on the generator g = truth_table(t) in state st, with the heap in state s *)
Definition next (nm : loc -> name) (t : ptree) (st : gstate) (s : store) : pulled * gstate * store :=
  match st with
  | GStart =>
      match get_named_predicates nm t with
      | Raise e => (Throw e, GDone, s)
      | Ok ns => next_run nm t ns (all_rows (List.length ns)) s
      end
  | GRun ns rest => next_run nm t ns rest s
  | GDone => (Stop, GDone, s)
  end.

(* list(g): pull until Stop or an exception; (rows produced, exception, final store) *)
Fixpoint drain_run (nm : loc -> name) (t : ptree) (ns : list name) (rest : list (list bool)) (s : store)
  : list row * option exn * store :=
  match rest with
  | [] => ([], None, s)
  | c :: rest' =>
      match execute_predicate nm t (combine ns c) s with
      | (s1, Ok b) => let '(rows, e, s2) := drain_run nm t ns rest' s1 in ((c, b) :: rows, e, s2)
      | (s1, Raise e) => ([], Some e, s1)
      end
  end.
Definition drain (nm : loc -> name) (t : ptree) (st : gstate) (s : store) : list row * option exn * store :=
  match st with
  | GStart =>
      match get_named_predicates nm t with
      | Raise e => ([], Some e, s)
      | Ok ns => drain_run nm t ns (all_rows (List.length ns)) s
      end
  | GRun ns rest => drain_run nm t ns rest s
  | GDone => ([], None, s)
  end.
(* list(truth_table(t)) started with the heap in state s *)
Definition truth_table_list (nm : loc -> name) (t : ptree) (s : store) := drain nm t GStart s.

(* ================= specification side ================= *)
(* is the tree built from variables, constants and connectives only? *)
Fixpoint prop_tree (t : ptree) : bool :=
  match t with
  | TVar _ | TTrue | TFalse => true
  | TAnd a b | TOr a b | TXor a b => prop_tree a && prop_tree b
  | TNot a => prop_tree a
  | TOther => false
  end.
(* names at the leaves, left to right, with repetitions *)
Fixpoint raw_names (nm : loc -> name) (t : ptree) : list name :=
  match t with
  | TVar l => [nm l]
  | TAnd a b | TOr a b | TXor a b => raw_names nm a ++ raw_names nm b
  | TNot a => raw_names nm a
  | _ => []
  end.
Definition names (nm : loc -> name) (t : ptree) : list name := sorted_set (raw_names nm t).

(* propositional semantics under an assignment of NAMES (no store, no objects) *)
Fixpoint psem (env : name -> bool) (nm : loc -> name) (t : ptree) : bool :=
  match t with
  | TVar l => env (nm l)
  | TTrue => true
  | TFalse => false
  | TAnd a b => psem env nm a && psem env nm b
  | TOr a b => psem env nm a || psem env nm b
  | TXor a b => xorb (psem env nm a) (psem env nm b)
  | TNot a => negb (psem env nm a)
  | TOther => false
  end.
(* the assignment "i-th name := i-th bit" (first match; names not listed are False) *)
Fixpoint assign (ns : list name) (a : list bool) (x : name) : bool :=
  match ns, a with
  | n :: ns', b :: a' => if String.eqb x n then b else assign ns' a' x
  | _, _ => false
  end.
Definition spec_table (nm : loc -> name) (t : ptree) : list row :=
  map (fun a => (a, psem (assign (names nm t) a) nm t)) (all_rows (List.length (names nm t))).

(* value of a bit row read as a binary number, most significant bit first *)
Definition bits_val (r : list bool) : nat := fold_left (fun acc (b : bool) => 2 * acc + (if b then 1 else 0)) r 0.
