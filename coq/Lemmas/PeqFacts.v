(* PeqFacts.v — predicate equality is reflexive, symmetric and a congruence for evaluation (C06). *)
From Coq Require Import QArith Lqa Bool List Arith String Lia.
From PP Require Import Prelude.Base Prelude.Val Prelude.Pred Prelude.Sem.
Import ListNotations.

Lemma list_eqb_nat_eq a b : list_eqb Nat.eqb a b = true -> a = b.
Proof.
  revert b; induction a as [|x a IH]; intros [|y b]; cbn; try discriminate; [reflexivity|].
  intros H. apply andb_true_iff in H as [H1 H2]. apply Nat.eqb_eq in H1. subst. f_equal. apply IH; exact H2.
Qed.
Lemma list_eqb_nat_refl a : list_eqb Nat.eqb a a = true.
Proof. induction a as [|x a IH]; cbn; [reflexivity|]. now rewrite Nat.eqb_refl, IH. Qed.
Lemma list_eqb_nat_sym a b : list_eqb Nat.eqb a b = list_eqb Nat.eqb b a.
Proof. revert b; induction a as [|x a IH]; intros [|y b]; cbn; try reflexivity. now rewrite Nat.eqb_sym, IH. Qed.

(* ---- constants that are Qeq give the same atom ---- *)
Lemma veq_eq x a b : Qeq_bool a b = true -> veq x a = veq x b.
Proof. intros H. destruct x; cbn; try reflexivity. symmetry. rewrite (Qeq_bool_sym' q b), (Qeq_bool_sym' q a).
  symmetry. apply Qeq_bool_trans'. rewrite Qeq_bool_sym'. exact H. Qed.
Lemma Qle_bool_eq_l a b q : Qeq_bool a b = true -> Qle_bool a q = Qle_bool b q.
Proof. intros H. apply Qeq_bool_iff in H. destruct (Qle_bool_reflect a q), (Qle_bool_reflect b q); try reflexivity; exfalso; lra. Qed.
Lemma Qle_bool_eq_r a b q : Qeq_bool a b = true -> Qle_bool q a = Qle_bool q b.
Proof. intros H. apply Qeq_bool_iff in H. destruct (Qle_bool_reflect q a), (Qle_bool_reflect q b); try reflexivity; exfalso; lra. Qed.
Lemma Qlt_bool_eq_l a b q : Qeq_bool a b = true -> Qlt_bool a q = Qlt_bool b q.
Proof. intros H. unfold Qlt_bool. f_equal. apply Qle_bool_eq_r; exact H. Qed.
Lemma Qlt_bool_eq_r a b q : Qeq_bool a b = true -> Qlt_bool q a = Qlt_bool q b.
Proof. intros H. unfold Qlt_bool. f_equal. apply Qle_bool_eq_l; exact H. Qed.
Lemma Qeq_bool_eq_r a b q : Qeq_bool a b = true -> Qeq_bool q a = Qeq_bool q b.
Proof. intros H. rewrite (Qeq_bool_sym' q a), (Qeq_bool_sym' q b). symmetry. rewrite Qeq_bool_sym' in H.
  rewrite (Qeq_bool_trans' b a q H). reflexivity. Qed.

Lemma scalar_cmp_ext x f g : (forall q, f q = g q) -> scalar_cmp x f = scalar_cmp x g.
Proof. intros H. destruct x; cbn; auto. Qed.

Lemma vmem_set_eq x s t : set_eq s t = true -> vmem x s = vmem x t.
Proof. intros H. destruct x; cbn; try reflexivity. apply set_eq_mem; exact H. Qed.
Lemma forallb_ext_in {A} (f g : A -> bool) l : (forall a, In a l -> f a = g a) -> forallb f l = forallb g l.
Proof. induction l as [|a l IH]; cbn; intros H; [reflexivity|]. rewrite H, IH; auto. Qed.
Lemma existsb_ext_in {A} (f g : A -> bool) l : (forall a, In a l -> f a = g a) -> existsb f l = existsb g l.
Proof. induction l as [|a l IH]; cbn; intros H; [reflexivity|]. rewrite H, IH; auto. Qed.

Lemma vsubset_set_eq items s t : set_eq s t = true -> vsubset items s = vsubset items t.
Proof. intros H. unfold vsubset. apply forallb_ext_in. intros a _. apply vmem_set_eq; exact H. Qed.

(* a Qeq-respecting test holds on all of s iff on all of t, when s and t have the same members *)
Lemma forallb_subseteq (f : Q -> bool) s t :
  (forall a b, a == b -> f a = f b) -> subseteq s t = true -> forallb f t = true -> forallb f s = true.
Proof.
  intros Hf Hs Ht. apply forallb_forall. intros a Ha.
  assert (Hm : mem a t = true).
  { apply (subseteq_mem s t a Hs). unfold mem. apply existsb_exists. exists a. split; [exact Ha|apply Qeq_bool_refl']. }
  unfold mem in Hm. apply existsb_exists in Hm as (b & Hb & E). apply Qeq_bool_iff in E.
  rewrite (Hf a b E). rewrite forallb_forall in Ht. apply Ht; exact Hb.
Qed.
Lemma forallb_set_eq (f : Q -> bool) s t :
  (forall a b, a == b -> f a = f b) -> set_eq s t = true -> forallb f s = forallb f t.
Proof.
  intros Hf H. unfold set_eq in H. apply andb_true_iff in H as [H1 H2].
  destruct (forallb f t) eqn:Et.
  - apply (forallb_subseteq f s t Hf H1 Et).
  - destruct (forallb f s) eqn:Es; [|reflexivity]. rewrite (forallb_subseteq f t s Hf H2 Es) in Et. discriminate.
Qed.
Lemma veq_resp i a b : a == b -> veq i a = veq i b.
Proof. intros E. apply veq_eq. apply Qeq_bool_iff; exact E. Qed.
Lemma vsuperset_set_eq items s t : set_eq s t = true -> vsuperset items s = vsuperset items t.
Proof.
  intros H. unfold vsuperset. apply forallb_set_eq; [|exact H].
  intros a b E. apply existsb_ext_in. intros i _. apply veq_resp; exact E.
Qed.

(* ---- reflexivity / symmetry ---- *)
Lemma peq_refl p : peq p p = true.
Proof.
  induction p; cbn; rewrite ?IHp, ?IHp1, ?IHp2, ?Qeq_bool_refl', ?set_eq_refl, ?Nat.eqb_refl, ?String.eqb_refl,
    ?list_eqb_nat_refl; reflexivity.
Qed.

Lemma peq_sym p : forall q, peq p q = peq q p.
Proof.
  induction p; intros q; destruct q; cbn; try reflexivity;
    rewrite ?IHp, ?IHp1, ?IHp2;
    rewrite ?(Qeq_bool_sym' f_v), ?(Qeq_bool_sym' f_lower), ?(Qeq_bool_sym' f_upper), ?(Qeq_bool_sym' f_key), ?(Qeq_bool_sym' f_length);
    rewrite ?(set_eq_sym f_v), ?(Nat.eqb_sym f_predicate_fn), ?(Nat.eqb_sym f_fn), ?(Nat.eqb_sym f_getter),
      ?(Nat.eqb_sym f_pattern), ?(Nat.eqb_sym f_flags), ?(Nat.eqb_sym f_ident), ?(String.eqb_sym f_name), ?(String.eqb_sym f_ref),
      ?(list_eqb_nat_sym f_klass);
    try reflexivity.
  all: destruct (peq q1 p1), (peq q2 p2), (peq q2 p1), (peq q1 p2); reflexivity.
Qed.

(* ---- congruence: equal predicates evaluate alike and are defined alike ---- *)
Ltac peq_inv :=
  repeat match goal with
  | H : _ && _ = true |- _ => apply andb_true_iff in H; destruct H
  | H : Nat.eqb _ _ = true |- _ => apply Nat.eqb_eq in H; subst
  | H : String.eqb _ _ = true |- _ => apply String.eqb_eq in H; subst
  | H : list_eqb Nat.eqb _ _ = true |- _ => apply list_eqb_nat_eq in H; subst
  end.

Lemma peq_sound W : forall p q, peq p q = true ->
  forall x, beval W p x = beval W q x /\ defined W p x = defined W q x.
Proof.
  induction p; intros q H; destruct q; cbn in H; try discriminate H; intros x; cbn [beval defined].
  all: peq_inv.
  all: try (split; reflexivity).
  all: try match goal with
    | H : _ || _ = true |- _ =>
        apply orb_true_iff in H as [H|H]; apply andb_true_iff in H as [H1 H2];
        destruct (IHp1 _ H1 x) as [-> ->], (IHp2 _ H2 x) as [-> ->];
        split; auto using andb_comm, orb_comm, xorb_comm
    end.
  all: try (destruct (IHp _ H x) as [-> ->]; split; reflexivity).
  all: try (rewrite (veq_eq x _ _ H); split; reflexivity).
  all: try (split; [|reflexivity]; apply scalar_cmp_ext; intros q0;
            rewrite ?(Qle_bool_eq_l _ _ q0 H), ?(Qle_bool_eq_r _ _ q0 H), ?(Qlt_bool_eq_l _ _ q0 H), ?(Qlt_bool_eq_r _ _ q0 H); reflexivity).
  all: try (split; [|reflexivity]; apply scalar_cmp_ext; intros q0;
            match goal with H1 : Qeq_bool _ _ = true, H2 : Qeq_bool _ _ = true |- _ =>
              rewrite ?(Qle_bool_eq_l _ _ q0 H1), ?(Qle_bool_eq_r _ _ q0 H2), ?(Qlt_bool_eq_l _ _ q0 H1), ?(Qlt_bool_eq_r _ _ q0 H2) end; reflexivity).
  all: try (rewrite (vmem_set_eq x _ _ H); split; reflexivity).
  all: try (rewrite ?(vsubset_set_eq _ _ _ H), ?(vsuperset_set_eq _ _ _ H); split; reflexivity).
  - (* All *) split.
    + apply forallb_ext_in. intros a _. apply (IHp _ H a).
    + f_equal. apply forallb_ext_in. intros a _. apply (IHp _ H a).
  - (* Any *) split.
    + apply existsb_ext_in. intros a _. apply (IHp _ H a).
    + f_equal. apply forallb_ext_in. intros a _. apply (IHp _ H a).
  - (* HasKey *) split; [|reflexivity]. apply existsb_ext_in. intros i _. apply veq_eq; exact H.
  - (* HasLength *) split; [|reflexivity]. apply Qeq_bool_eq_r; exact H.
  - (* Comp *) destruct (comp_sem W f_fn0 x) as [y|]; [|split; reflexivity]. apply (IHp _ H0 y).
  - (* SetOf *) split.
    + apply forallb_ext_in. intros a _. apply (IHp _ H a).
    + f_equal. apply forallb_ext_in. intros a _. apply (IHp _ H a).
Qed.

Lemma peq_beval W p q x : peq p q = true -> beval W p x = beval W q x.
Proof. intros H. apply (peq_sound W p q H x). Qed.
Lemma peq_defined W p q x : peq p q = true -> defined W p x = defined W q x.
Proof. intros H. apply (peq_sound W p q H x). Qed.

(* Python's evaluation (with exceptions) agrees with beval wherever every atom is defined *)
Lemma ev_all_forallb (f : val -> option bool) (g : val -> bool) items :
  (forall i, In i items -> f i = Some (g i)) -> ev_all f items = Some (forallb g items).
Proof.
  induction items as [|i r IH]; cbn; intros H; [reflexivity|].
  rewrite (H i (or_introl eq_refl)). destruct (g i); cbn; [apply IH; auto|reflexivity].
Qed.
Lemma ev_any_existsb (f : val -> option bool) (g : val -> bool) items :
  (forall i, In i items -> f i = Some (g i)) -> ev_any f items = Some (existsb g items).
Proof.
  induction items as [|i r IH]; cbn; intros H; [reflexivity|].
  rewrite (H i (or_introl eq_refl)). destruct (g i); cbn; [reflexivity|apply IH; auto].
Qed.

Lemma ev_defined W : forall p x, defined W p x = true -> ev W p x = Some (beval W p x).
Proof.
  induction p; intros x H; cbn in H |- *; try reflexivity.
  all: try (apply andb_true_iff in H as [H1 H2]; rewrite (IHp1 _ H1), (IHp2 _ H2);
            destruct (beval W p1 x), (beval W p2 x); reflexivity).
  all: try (destruct x; cbn in *; try discriminate; reflexivity).
  all: try (rewrite H; reflexivity).
  - destruct (fn_sem W f_predicate_fn x); [reflexivity|discriminate].
  - rewrite (IHp _ H). reflexivity.
  - destruct x; cbn in *; try discriminate. apply ev_all_forallb. intros i Hi. apply IHp.
    rewrite forallb_forall in H. apply H; exact Hi.
  - destruct x; cbn in *; try discriminate. apply ev_any_existsb. intros i Hi. apply IHp.
    rewrite forallb_forall in H. apply H; exact Hi.
  - destruct x as [| | |k items]; cbn in *; try discriminate. destruct k; try discriminate. reflexivity.
  - destruct x as [| | |k items]; cbn in *; try discriminate. destruct k; try discriminate. reflexivity.
  - destruct x as [| | |k items]; cbn in *; try discriminate. destruct k; try discriminate. reflexivity.
  - destruct x as [| | |k items]; cbn in *; try discriminate. destruct k; try discriminate. reflexivity.
  - destruct x as [| | |k items]; cbn in *; try discriminate. destruct k; try discriminate. reflexivity.
  - destruct (regex_sem W f_pattern f_flags x); [reflexivity|discriminate].
  - destruct (fn_sem W f_fn x); [reflexivity|discriminate].
  - destruct (fn_sem W f_getter x); [reflexivity|discriminate].
  - destruct (comp_sem W f_fn x); [apply IHp; exact H|discriminate].
  - destruct x; cbn in *; try discriminate. apply ev_all_forallb. intros i Hi. apply IHp.
    rewrite forallb_forall in H. apply H; exact Hi.
  - destruct (lazy_sem W f_ref x); [reflexivity|discriminate].
  - destruct (self_sem W f_ident x); [reflexivity|discriminate].
  - destruct (self_sem W f_ident x); [reflexivity|discriminate].
Qed.
