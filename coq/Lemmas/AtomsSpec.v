(* AtomsSpec.v — every built-in atom computes the relation it is named after (C08): the model's evaluation
   (Prelude/Sem.v `ev`, None = raises) against reference relations stated directly on model values, and the
   complementarity / nesting laws between atoms offered as opposites. *)
From Coq Require Import QArith Lqa Bool List Arith String.
From PP Require Import Prelude.Base Prelude.Val Prelude.Pred Prelude.Sem Lemmas.PeqFacts Lemmas.Std.
Import ListNotations.
Open Scope Q_scope.

(* --- reference relations (the "plain Python" meaning, on model values) --- *)
(* comparison of a value with a constant: defined exactly on values of the constants' sort *)
Definition cmp_spec (rel : Q -> Q -> bool) (x : val) (c : Q) : option bool :=
  match x with VQ _ q _ => Some (rel q c) | _ => None end.
Definition q_ge a b := Qle_bool b a.  Definition q_gt a b := Qlt_bool b a.
Definition q_le a b := Qle_bool a b.  Definition q_lt a b := Qlt_bool a b.

Theorem comparisons_spec W v x :
  ev W (ge_p v) x = cmp_spec q_ge x v /\ ev W (gt_p v) x = cmp_spec q_gt x v /\
  ev W (le_p v) x = cmp_spec q_le x v /\ ev W (lt_p v) x = cmp_spec q_lt x v /\
  ev W (eq_p v) x = Some (veq x v) /\ ev W (ne_p v) x = Some (negb (veq x v)).
Proof. repeat split; destruct x; reflexivity. Qed.

(* exactly at the bound: >= and <= include it, > and < exclude it, == holds, != does not *)
Theorem comparisons_at_the_bound W v k t :
  ev W (ge_p v) (VQ k v t) = Some true /\ ev W (le_p v) (VQ k v t) = Some true /\
  ev W (gt_p v) (VQ k v t) = Some false /\ ev W (lt_p v) (VQ k v t) = Some false /\
  ev W (eq_p v) (VQ k v t) = Some true /\ ev W (ne_p v) (VQ k v t) = Some false.
Proof.
  cbn. unfold Qlt_bool. rewrite Qeq_bool_refl'.
  assert (H : Qle_bool v v = true) by (apply Qle_bool_iff; apply Qle_refl). rewrite H. cbn. repeat split.
Qed.

(* the four two-sided ranges are the conjunction of the two one-sided forms with the strictness their names say *)
Theorem ranges_spec W lo hi x :
  ev W (ge_le_p lo hi) x = ev W (PAnd (ge_p lo) (le_p hi)) x /\
  ev W (ge_lt_p lo hi) x = ev W (PAnd (ge_p lo) (lt_p hi)) x /\
  ev W (gt_le_p lo hi) x = ev W (PAnd (gt_p lo) (le_p hi)) x /\
  ev W (gt_lt_p lo hi) x = ev W (PAnd (gt_p lo) (lt_p hi)) x.
Proof. repeat split; destruct x; cbn; try reflexivity; unfold Qlt_bool;
  repeat match goal with |- context [Qle_bool ?a ?b] => destruct (Qle_bool a b) end; reflexivity. Qed.

(* membership agrees with set membership (modulo ==), on every hashable value; TypeError otherwise *)
Theorem membership_spec W s x :
  ev W (in_p s) x = (if hashable x then Some (vmem x s) else None) /\
  ev W (not_in_p s) x = option_map negb (ev W (in_p s) x).
Proof. split; [reflexivity|]. cbn. destruct (hashable x); reflexivity. Qed.

(* opposites are complementary wherever defined *)
Theorem opposites W x v s :
  ev W (ne_p v) x = option_map negb (ev W (eq_p v) x) /\
  ev W (not_in_p s) x = option_map negb (ev W (in_p s) x) /\
  ev W is_not_none_p x = option_map negb (ev W is_none_p x) /\
  ev W is_not_empty_p x = option_map negb (ev W is_empty_p x) /\
  ev W is_truthy_p x = option_map negb (ev W is_falsy_p x).
Proof.
  repeat split; cbn; try reflexivity.
  - destruct (hashable x); reflexivity.
  - destruct x; reflexivity.
  - destruct x as [| | |k items]; cbn; try reflexivity. destruct items; reflexivity.
  - now rewrite negb_involutive.
Qed.

(* subset family: set ordering on set inputs; real-subset = subset and not equal; nested as the names say *)
Theorem subset_family_spec W s items :
  let x := VColl KSet items in
  ev W (is_subset_p s) x = Some (vsubset items s) /\
  ev W (is_superset_p s) x = Some (vsuperset items s) /\
  ev W (is_real_subset_p s) x = Some (vsubset items s && negb (vsuperset items s)) /\
  ev W (is_real_superset_p s) x = Some (vsuperset items s && negb (vsubset items s)) /\
  (beval W (is_real_subset_p s) x = true -> beval W (is_subset_p s) x = true) /\
  (beval W (is_real_superset_p s) x = true -> beval W (is_superset_p s) x = true) /\
  (* at equality (x and s have the same members): subset and superset hold, the real ones do not *)
  (vsubset items s = true -> vsuperset items s = true ->
     beval W (is_real_subset_p s) x = false /\ beval W (is_real_superset_p s) x = false).
Proof.
  cbn. repeat split; try reflexivity.
  all: try (intros H; apply andb_true_iff in H; tauto).
  all: unfold vsubset, vsuperset in *; repeat match goal with H : _ = true |- _ => rewrite H; clear H end; reflexivity.
Qed.

(* type tests are isinstance *)
Theorem type_tests_spec W x ks : ev W (is_instance_p ks) x = Some (existsb (isinst W (type_of x)) ks).
Proof. reflexivity. Qed.

(* none / truthy *)
Theorem none_truthy_spec W x :
  ev W is_none_p x = Some (match x with VNone => true | _ => false end) /\
  ev W is_truthy_p x = Some (truthy x) /\ ev W is_falsy_p x = Some (negb (truthy x)).
Proof. repeat split. Qed.

(* emptiness, length, keys: on collections; exceptions elsewhere *)
Theorem collections_spec W k items n key :
  ev W is_empty_p (VColl k items) = Some (match items with [] => true | _ => false end) /\
  ev W (has_length_p n) (VColl k items) = Some (Qeq_bool (inject_Z (Z.of_nat (List.length items))) n) /\
  ev W (has_key_p key) (VColl KDict items) = Some (existsb (fun i => veq i key) items) /\
  ev W is_empty_p VNone = None /\ ev W (has_key_p key) (VColl KList items) = None.
Proof. repeat split. Qed.

(* the 'of' forms *)
Theorem of_forms_spec W p x :
  ev W (is_list_of_p p) x = ev W (PAnd is_list_p (all_p p)) x /\
  ev W (is_iterable_of_p p) x = ev W (PAnd is_iterable_p (all_p p)) x /\
  ev W (is_single_or_list_of_p p) x = ev W (POr (PAnd is_list_p (all_p p)) p) x /\
  (forall k items, ev W (is_set_of_p p) (VColl k items) = ev_all (ev W p) items) /\
  (forall k items, ev W (all_p p) (VColl k items) = ev_all (ev W p) items) /\
  (forall k items, ev W (any_p p) (VColl k items) = ev_any (ev W p) items).
Proof. repeat split. Qed.

(* named constants *)
Theorem named_constants :
  neg_p = PLt 0 /\ zero_p = PEq 0 /\ pos_p = PGt 0 /\ eq_true_p = PEq 1 /\ eq_false_p = PEq 0 /\
  is_int_p = PIsInstance [1%nat] /\ is_bool_p = PIsInstance [0%nat] /\ is_str_p = PIsInstance [4%nat] /\
  is_list_p = PIsInstance [6%nat] /\ is_set_p = PIsInstance [8%nat] /\ is_dict_p = PIsInstance [9%nat].
Proof. repeat split. Qed.

Theorem sign_tests_spec W k q t :
  ev W neg_p (VQ k q t) = Some (Qlt_bool q 0) /\ ev W zero_p (VQ k q t) = Some (Qeq_bool q 0) /\
  ev W pos_p (VQ k q t) = Some (Qlt_bool 0 q).
Proof. repeat split. Qed.

(* wherever all atoms are defined, Python's evaluation is the total Boolean evaluation used by C02-C06 *)
Theorem ev_is_beval_where_defined W p x : defined W p x = true -> ev W p x = Some (beval W p x).
Proof. apply ev_defined. Qed.

Example atoms_nonvacuous :
  forall W, ev W (ge_le_p 1 5) (VQ KInt 5 true) = Some true /\ ev W (ge_lt_p 1 5) (VQ KInt 5 true) = Some false /\
            ev W (gt_le_p 1 5) (VQ KInt 1 true) = Some false /\ ev W (in_p [1; 2]) (VQ KFloat 2 true) = Some true /\
            ev W (ge_p 3) VNone = None.
Proof. intros. vm_compute. repeat split. Qed.
