(* Cli.v — main.py's `table` and `json` commands as the composition of the models of the earlier properties:
   parse (its result: a propositional term; the text -> tree step is C14's), the regenerated optimizer (Gen/Optimize.v),
   truth_table (Lemmas/TTModel.v, with the store of variable objects), to_json (Lemmas/ToJson.v), and the formatting
   helpers of main.py (HAND-WRITTEN here; tie: source fingerprint of main.py + the CLI correspondence run). *)
From Coq Require Import QArith Bool List Arith String Lia Sorting.Sorted.
From PP Require Import Prelude.Base Prelude.Val Prelude.Pred Prelude.Sem Gen.Negate Gen.Implies Gen.Optimize
  Lemmas.Fragments Lemmas.OptSound Lemmas.OptProp Lemmas.OptEnv Lemmas.Term Lemmas.TermMain Lemmas.TTModel Lemmas.TTProofs Lemmas.TTSem Lemmas.ToJson.
Import ListNotations.
Close Scope Q_scope.
Open Scope string_scope.

(* ---- the predicate the CLI works on, as a tree of variable OBJECTS: every leaf its own object (the parser creates a
        fresh NamedPredicate per occurrence; sharing after optimisation does not matter: C15 holds for any sharing) ---- *)
Fixpoint of_pred (p : pred) (k : nat) : ptree * list name :=
  match p with
  | PNamed n => (TVar k, [n])
  | PTrue => (TTrue, [])
  | PFalse => (TFalse, [])
  | PAnd l r => let '(a, na) := of_pred l k in let '(b, nb) := of_pred r (k + List.length na) in (TAnd a b, (na ++ nb)%list)
  | POr l r => let '(a, na) := of_pred l k in let '(b, nb) := of_pred r (k + List.length na) in (TOr a b, (na ++ nb)%list)
  | PXor l r => let '(a, na) := of_pred l k in let '(b, nb) := of_pred r (k + List.length na) in (TXor a b, (na ++ nb)%list)
  | PNot q => let '(a, na) := of_pred q k in (TNot a, na)
  | _ => (TOther, [])
  end.
Definition tree_of (p : pred) : ptree := fst (of_pred p 0).
Definition nm_of (p : pred) : loc -> name := fun l => nth l (snd (of_pred p 0)) "".

(* ---- main.py ---- *)
Definition as_bit (b : bool) : string := if b then "1" else "0".
Definition format_header (names : list name) : string := String.concat " " names.
Definition format_values (values : list bool) : string := String.concat " " (map as_bit values).
Definition row_line (r : row) : string := format_values (fst r) ++ ":   " ++ as_bit (snd r) ++ "
".
Definition header_line (names : list name) : string := format_header names ++ "
".

Inductive output :=
| Stdout (lines : list string)           (* what was written to sys.stdout, in order *)
| CouldNotParse                          (* the "Could not parse expression" message on stderr, nothing on stdout *)
| Error (e : exn).                       (* an exception left the command *)

(* expression_to_predicate: None stays None; with --optimize the optimizer's result (and the known-finding trace) *)
Inductive parsed_pred := RNone | RPred (p : pred) (tr : list site) | RCrash.
Definition expression_to_predicate (W : world) (parsed : option pred) (opt : bool) : parsed_pred :=
  match parsed with
  | None => RNone
  | Some p => if opt then match optimize W (4 * w p + 3) p with Sem.Ok q tr => RPred q tr | _ => RCrash end
              else RPred p []
  end.

(* the `table` command *)
Definition table_of (p : pred) (s0 : store) : output :=
  match get_named_predicates (nm_of p) (tree_of p) with
  | TTModel.Raise e => Error e
  | TTModel.Ok names =>
      match truth_table_list (nm_of p) (tree_of p) s0 with
      | (rows, None, _) => Stdout (header_line names :: map row_line rows)
      | (_, Some e, _) => Error e
      end
  end.
Definition cli_table (W : world) (parsed : option pred) (opt : bool) (s0 : store) : output :=
  match expression_to_predicate W parsed opt with
  | RNone => CouldNotParse
  | RCrash => Error OtherError
  | RPred p _ => table_of p s0
  end.

(* the `json` command: json.dumps(to_json(predicate)) - the dictionary is the output *)
Inductive json_output := JOut (j : json) | JCouldNotParse | JError.
Definition cli_json (W : world) (fname : nat -> string) (parsed : option pred) (opt : bool) : json_output :=
  match expression_to_predicate W parsed opt with
  | RNone => JCouldNotParse
  | RCrash => JError
  | RPred p _ => JOut (to_json fname p)
  end.

(* ---- of_pred is faithful: forgetting the objects gives the predicate back ---- *)
(* locations of the tree are k, k+1, ... and carry the names in order *)
Lemma of_pred_spec p : Fprop p = true -> forall k (nm : loc -> name),
  (forall i, i < List.length (snd (of_pred p k)) -> nm (k + i) = nth i (snd (of_pred p k)) "") ->
  to_pred nm (fst (of_pred p k)) = p /\ prop_tree (fst (of_pred p k)) = true.
Proof.
  induction p; intros Hp k nm Hnm; cbn in Hp; try discriminate; cbn [of_pred] in *.
  - cbn. auto.
  - cbn. auto.
  - cbn. split; [|reflexivity]. f_equal. specialize (Hnm 0). cbn in Hnm. rewrite Nat.add_0_r in Hnm. apply Hnm. lia.
  - apply andb_true_iff in Hp as [H1 H2].
    destruct (of_pred p1 k) as [a na] eqn:E1. rewrite ?E1 in Hnm. destruct (of_pred p2 (k + List.length na)) as [b nb] eqn:E2. rewrite ?E2 in Hnm. cbn [fst snd] in *.
    destruct (IHp1 H1 k nm) as [T1 P1].
    { rewrite E1. cbn. intros i Hi. rewrite Hnm by (rewrite app_length; lia). now rewrite app_nth1. }
    destruct (IHp2 H2 (k + List.length na) nm) as [T2 P2].
    { rewrite E2. cbn. intros i Hi. rewrite <- Nat.add_assoc. rewrite Hnm by (rewrite app_length; lia).
      rewrite app_nth2; [|lia]. f_equal. lia. }
    rewrite E1 in T1, P1. rewrite E2 in T2, P2. cbn [fst snd] in *. cbn [to_pred prop_tree]. rewrite T1, T2, P1, P2. auto.
  - apply andb_true_iff in Hp as [H1 H2].
    destruct (of_pred p1 k) as [a na] eqn:E1. rewrite ?E1 in Hnm. destruct (of_pred p2 (k + List.length na)) as [b nb] eqn:E2. rewrite ?E2 in Hnm. cbn [fst snd] in *.
    destruct (IHp1 H1 k nm) as [T1 P1].
    { rewrite E1. cbn. intros i Hi. rewrite Hnm by (rewrite app_length; lia). now rewrite app_nth1. }
    destruct (IHp2 H2 (k + List.length na) nm) as [T2 P2].
    { rewrite E2. cbn. intros i Hi. rewrite <- Nat.add_assoc. rewrite Hnm by (rewrite app_length; lia).
      rewrite app_nth2; [|lia]. f_equal. lia. }
    rewrite E1 in T1, P1. rewrite E2 in T2, P2. cbn [fst snd] in *. cbn [to_pred prop_tree]. rewrite T1, T2, P1, P2. auto.
  - apply andb_true_iff in Hp as [H1 H2].
    destruct (of_pred p1 k) as [a na] eqn:E1. rewrite ?E1 in Hnm. destruct (of_pred p2 (k + List.length na)) as [b nb] eqn:E2. rewrite ?E2 in Hnm. cbn [fst snd] in *.
    destruct (IHp1 H1 k nm) as [T1 P1].
    { rewrite E1. cbn. intros i Hi. rewrite Hnm by (rewrite app_length; lia). now rewrite app_nth1. }
    destruct (IHp2 H2 (k + List.length na) nm) as [T2 P2].
    { rewrite E2. cbn. intros i Hi. rewrite <- Nat.add_assoc. rewrite Hnm by (rewrite app_length; lia).
      rewrite app_nth2; [|lia]. f_equal. lia. }
    rewrite E1 in T1, P1. rewrite E2 in T2, P2. cbn [fst snd] in *. cbn [to_pred prop_tree]. rewrite T1, T2, P1, P2. auto.
  - destruct (of_pred p k) as [a na] eqn:E. rewrite ?E in Hnm. cbn in *. destruct (IHp Hp k nm) as [T P].
    { rewrite E. cbn. exact Hnm. }
    rewrite E in T, P. cbn in *. rewrite T, P. auto.
Qed.

Lemma tree_of_faithful p : Fprop p = true -> to_pred (nm_of p) (tree_of p) = p /\ prop_tree (tree_of p) = true.
Proof. intros Hp. unfold tree_of, nm_of. apply (of_pred_spec p Hp 0). intros i Hi. reflexivity. Qed.

(* ---- the table command prints the table of the expression ---- *)
Definition table_text (p : pred) : list string :=
  header_line (names (nm_of p) (tree_of p)) :: map row_line (spec_table (nm_of p) (tree_of p)).

Theorem table_of_prints_the_table p s0 : Fprop p = true -> table_of p s0 = Stdout (table_text p).
Proof.
  intros Hp. destruct (tree_of_faithful p Hp) as [_ Hprop]. unfold table_of, table_text.
  rewrite (gnp_ok _ _ Hprop). destruct (truth_table_correct (nm_of p) (tree_of p) s0 Hprop) as [s1 E]. rewrite E. reflexivity.
Qed.

(* the last column is the value of the predicate under the row's assignment, in the framework's semantics *)
Lemma spec_row_value (W : world) p a x : Fprop p = true ->
  psem (assign (names (nm_of p) (tree_of p)) a) (nm_of p) (tree_of p) =
  beval (with_env W (assign (names (nm_of p) (tree_of p)) a)) p x.
Proof.
  intros Hp. destruct (tree_of_faithful p Hp) as [Hto Hprop].
  pose proof (psem_beval (with_env W (assign (names (nm_of p) (tree_of p)) a)) (nm_of p) (tree_of p) x Hprop) as H.
  rewrite Hto in H. symmetry. exact H.
Qed.

(* names printed in the header: exactly the variable names occurring in the predicate *)
Fixpoint pnames (p : pred) : list name :=
  match p with
  | PNamed n => [n]
  | PAnd l r | POr l r | PXor l r => (pnames l ++ pnames r)%list
  | PNot q => pnames q
  | _ => []
  end.
Lemma of_pred_names p : Fprop p = true -> forall k, snd (of_pred p k) = pnames p.
Proof.
  induction p; intros Hp k; cbn in Hp; try discriminate; cbn [of_pred pnames]; try reflexivity.
  all: try (apply andb_true_iff in Hp as [H1 H2];
            destruct (of_pred p1 k) as [a na] eqn:E1; destruct (of_pred p2 (k + List.length na)) as [b nb] eqn:E2; cbn [snd];
            rewrite <- (IHp1 H1 k), <- (IHp2 H2 (k + List.length na)), E1, E2; reflexivity).
  destruct (of_pred p k) as [a na] eqn:E. cbn [snd]. rewrite <- (IHp Hp k), E. reflexivity.
Qed.
Lemma raw_names_of_pred p : Fprop p = true -> raw_names (nm_of p) (tree_of p) = pnames p.
Proof.
  intros Hp. destruct (tree_of_faithful p Hp) as [Hto _].
  assert (H : forall nm t, prop_tree t = true -> raw_names nm t = pnames (to_pred nm t)).
  { induction t; cbn; intros Ht; try discriminate; try reflexivity.
    all: try (apply andb_true_iff in Ht as [A B]; rewrite IHt1, IHt2; auto). auto. }
  rewrite H; [rewrite Hto; reflexivity|apply tree_of_faithful; exact Hp].
Qed.

(* the semantics of a propositional predicate only looks at the variables it mentions *)
Lemma psem_pred_ext W W' p x : Fprop p = true -> (forall n, In n (pnames p) -> env W n = env W' n) -> beval W p x = beval W' p x.
Proof.
  induction p; cbn; intros Hp He; try discriminate; try reflexivity.
  - apply He. left. reflexivity.
  - apply andb_true_iff in Hp as [H1 H2]. rewrite IHp1, IHp2; auto; intros n Hn; apply He; apply in_or_app; auto.
  - apply andb_true_iff in Hp as [H1 H2]. rewrite IHp1, IHp2; auto; intros n Hn; apply He; apply in_or_app; auto.
  - apply andb_true_iff in Hp as [H1 H2]. rewrite IHp1, IHp2; auto; intros n Hn; apply He; apply in_or_app; auto.
  - rewrite IHp; auto.
Qed.

(* ---- the composition theorems ---- *)
(* without --optimize: the table of the expression itself *)
Theorem cli_table_plain W p s0 : Fprop p = true ->
  cli_table W (Some p) false s0 = Stdout (table_text p).
Proof. intros Hp. unfold cli_table, expression_to_predicate. apply table_of_prints_the_table. exact Hp. Qed.

(* with --optimize: a table is printed; it is the table of the optimised predicate q; and when no known-finding rule
   fired, every printed value is the value of the ORIGINAL expression under every assignment that agrees with the row
   on the variables q still mentions (the removed variables may be set arbitrarily) *)
Theorem cli_table_optimized W p s0 : Fprop p = true ->
  exists q tr, optimize W (4 * w p + 3) p = Sem.Ok q tr /\
    (tr = [] -> Fprop q = true /\ cli_table W (Some p) true s0 = Stdout (table_text q) /\
       forall a e x, (forall n, In n (pnames q) -> e n = assign (names (nm_of q) (tree_of q)) a n) ->
          psem (assign (names (nm_of q) (tree_of q)) a) (nm_of q) (tree_of q) = beval (with_env W e) p x).
Proof.
  intros Hp. destruct (optimize_terminates W p) as (q & tr & E & _). exists q, tr. split; [exact E|].
  intros ->. destruct (optimize_sound_prop W _ p q Hp E) as [Hq _]. split; [exact Hq|]. split.
  - unfold cli_table, expression_to_predicate. rewrite E. apply table_of_prints_the_table. exact Hq.
  - intros a e x He.
    rewrite (spec_row_value W q a x Hq).
    rewrite (psem_pred_ext (with_env W (assign (names (nm_of q) (tree_of q)) a)) (with_env W e) q x Hq).
    + assert (Eopt : optimize (with_env W e) (4 * w p + 3) p = Sem.Ok q []) by (rewrite optimize_env_irrelevant; exact E).
      exact (proj2 (optimize_sound_prop (with_env W e) _ p q Hp Eopt) x).
    + intros n Hn. cbn. symmetry. apply He. exact Hn.
Qed.

(* the json command prints the rendering of the parsed tree (of the optimised tree with --optimize) *)
Theorem cli_json_plain W fname p : cli_json W fname (Some p) false = JOut (to_json fname p).
Proof. reflexivity. Qed.
Theorem cli_json_optimized W fname p : Fprop p = true ->
  exists q tr, optimize W (4 * w p + 3) p = Sem.Ok q tr /\ cli_json W fname (Some p) true = JOut (to_json fname q) /\
    (tr = [] -> Fprop q = true /\ forall e x, beval (with_env W e) q x = beval (with_env W e) p x).
Proof.
  intros Hp. destruct (optimize_terminates W p) as (q & tr & E & _). exists q, tr. split; [exact E|]. split.
  - unfold cli_json, expression_to_predicate. rewrite E. reflexivity.
  - intros ->. destruct (optimize_sound_prop W _ p q Hp E) as [Hq _]. split; [exact Hq|]. intros e x.
    assert (Eopt : optimize (with_env W e) (4 * w p + 3) p = Sem.Ok q []) by (rewrite optimize_env_irrelevant; exact E).
    exact (proj2 (optimize_sound_prop (with_env W e) _ p q Hp Eopt) x).
Qed.

(* text that is not in the language: no table, no JSON *)
Theorem cli_rejects W fname opt s0 : cli_table W None opt s0 = CouldNotParse /\ cli_json W fname None opt = JCouldNotParse.
Proof. split; reflexivity. Qed.

(* shape of the printed table: header = the sorted distinct names, then 2^n lines in ascending binary order *)
Theorem table_text_shape p : Fprop p = true ->
  let ns := names (nm_of p) (tree_of p) in
  table_text p = header_line ns :: map row_line (spec_table (nm_of p) (tree_of p)) /\
  StronglySorted slt ns /\ NoDup ns /\ (forall x, In x ns <-> In x (pnames p)) /\
  List.length (spec_table (nm_of p) (tree_of p)) = 2 ^ List.length ns /\
  map bits_val (map fst (spec_table (nm_of p) (tree_of p))) = List.seq 0 (2 ^ List.length ns).
Proof.
  intros Hp ns. destruct (spec_table_shape (nm_of p) (tree_of p)) as (H1 & H2 & _ & H4 & _ & H6 & _).
  repeat split; auto.
  - unfold ns. rewrite names_In, (raw_names_of_pred p Hp). auto.
  - unfold ns. rewrite names_In, (raw_names_of_pred p Hp). auto.
Qed.

Example cli_nonvacuous :
  cli_table (W_ex []) (Some (PAnd (PNamed "q") (POr (PNamed "p") (PNot (PNamed "q"))))) false (fun _ => true)
  = Stdout ["p q
"; "0 0:   0
"; "0 1:   0
"; "1 0:   0
"; "1 1:   1
"].
Proof. vm_compute. reflexivity. Qed.
