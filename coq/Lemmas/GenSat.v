(* GenSat.v — C11's clause "a satisfiable request yields at least one value", for the kinds with a deterministic bound:
   `sat_true ck p` / `sat_false ck p` are syntactic conditions under which generate_true(p) / generate_false(p) has a
   value to give; then the generator's first non-tick event is a yield (GenYield.Yields), for every oracle. *)
From Coq Require Import QArith ZArith Bool List Arith Lia.
From PP Require Import Prelude.Base Prelude.Val Prelude.Pred Prelude.Sem Lemmas.GenDSL Lemmas.GenYield Lemmas.GenModel Lemmas.GenProd.
Import ListNotations.
Close Scope Q_scope.
Open Scope nat_scope.

Definition supported_class (c : nat) : bool := existsb (Nat.eqb c) [4; 0; 3; 10; 9; 2; 11; 1; 8].
Definition sortable (ck : kind) : bool := match ck with KInt | KFloat | KDatetime => true | _ => false end.

Definition nonempty (s : list Q) : bool := match s with [] => false | _ => true end.
Definition supported_head (ks : list nat) : bool := match ks with c :: _ => supported_class c | [] => false end.

Fixpoint sat_true (ck : kind) (p : pred) : bool :=
  match p with
  | PTrue | PEq _ | PNe _ | PIsNone | PIsEmpty | PIsFalsy | PIsTruthy | PAll _ | PHasKey _ | PSubset _ => true
  | PRealSubset s => nonempty s
  | PIn s => nonempty s
  | PGe _ | PGt _ | PLe _ | PLt _ => sortable ck
  | PIsInstance ks => supported_head ks
  | PAny q => sat_true ck q
  | _ => false
  end.

Fixpoint sat_false (ck : kind) (p : pred) : bool :=
  match p with
  | PFalse | PNe _ | PIsNotNone | PIsEmpty | PIsTruthy => true
  | PGe _ | PGt _ => sortable ck
  | PAll q | PSetOf q => sat_false ck q
  | _ => false
  end.

(* ---- helpers ---- *)
Lemma draw_ints_Y n lo hi k : 1 <= n -> Yields (draw_ints n lo hi k).
Proof. destruct n; [lia|]. intros _. cbn. constructor. intros z _. constructor. Qed.

Lemma random_ints_Y lo hi : (lo <= hi)%Z -> Yields (random_ints lo hi).
Proof.
  intros H. unfold random_ints. destruct (Z.ltb_spec hi lo); [lia|].
  constructor. constructor. unfold between at 1.
  destruct (Z.leb_spec (Z.max (Z.min (Z.max 0 lo) hi - 1) lo) (Z.min (Z.min (Z.max 0 lo) hi + 1) hi)); [|lia].
  apply draw_ints_Y. lia.
Qed.
Lemma ints_from_Y lo : Yields (ints_from lo).
Proof. unfold ints_from. apply random_ints_Y. unfold MAXS. lia. Qed.
Lemma ints_upto_Y hi : Yields (ints_upto hi).
Proof. unfold ints_upto. apply random_ints_Y. unfold MAXS. lia. Qed.
Lemma random_floats_Y lo hi : Yields (random_floats lo hi).
Proof. unfold random_floats. constructor. constructor. Qed.
Lemma random_strings_Y : Yields random_strings.
Proof. unfold random_strings. constructor. constructor. constructor. intros z _. constructor. intros v _. constructor. Qed.
Lemma random_uuids_Y : Yields random_uuids.
Proof. unfold random_uuids. constructor. constructor. constructor. intros v _. constructor. Qed.
Lemma random_datetimes_Y : Yields random_datetimes.
Proof. unfold random_datetimes. constructor. constructor. intros v _. constructor. Qed.
Lemma random_complex_Y : Yields random_complex.
Proof. unfold random_complex. constructor. constructor. Qed.
Lemma random_dicts_Y : Yields random_dicts.
Proof. unfold random_dicts. constructor. constructor. Qed.
Lemma random_sets_Y : Yields random_sets.
Proof. unfold random_sets. constructor. constructor. Qed.
Lemma random_anys_Y : Yields random_anys.
Proof.
  unfold random_anys. constructor. apply Y_round_pull; [lia|reflexivity| |].
  - intros j _. destruct j as [|[|j]]; [apply random_ints_Y; unfold MAXS; lia|apply random_strings_Y|apply random_floats_Y].
  - intros vs Hl E. subst vs. discriminate.
Qed.
Lemma offsets_Y v sign from n k : 1 <= n -> Yields (offsets v sign from n k).
Proof. destruct n; [lia|]. intros _. cbn. constructor. Qed.

Lemma draw_idx_Y r n acc k : (forall idx, Yields (k idx)) -> Yields (draw_idx r n acc k).
Proof. revert acc. induction r as [|r IH]; intros acc H; cbn; [apply H|]. constructor. intros z _. apply IH. exact H. Qed.
Lemma rcwr_Y pool r k : pool <> [] -> (forall sel, Yields (k sel)) -> Yields (rcwr pool r k).
Proof. intros Hp H. unfold rcwr. destruct pool; [congruence|]. apply draw_idx_Y. intros idx. apply H. Qed.

Lemma by_sort_true_Y W ck p dt fl it : sortable ck = true -> Yields dt -> Yields fl -> Yields it -> Yields (by_sort_true W ck p dt fl it).
Proof. unfold by_sort_true, sortable. destruct ck; try discriminate; auto. Qed.
Lemma by_sort_false_Y W ck p dt fl it : sortable ck = true -> Yields dt -> Yields fl -> Yields it -> Yields (by_sort_false W ck p dt fl it).
Proof. unfold by_sort_false, sortable. destruct ck; try discriminate; auto. Qed.

(* ---- generate_true ---- *)
Theorem gen_true_yields fe W ck : forall p, sat_true ck p = true -> Yields (gen_true fe W ck p).
Proof.
  induction p; intros Hp; cbn [sat_true] in Hp; try discriminate Hp; cbn [gen_true].
  all: try solve [constructor; constructor].                         (* True, Ne, IsNone, All *)
  all: try solve [constructor; constructor; constructor].            (* Eq *)
  all: try solve [constructor; apply by_sort_true_Y; [exact Hp|apply offsets_Y; lia|apply random_floats_Y|first [apply ints_from_Y|apply ints_upto_Y]]].
  all: try solve [constructor; unfold fixed; apply Yields_emit_all; discriminate].   (* IsEmpty, IsFalsy, IsTruthy *)
  - (* In *) match goal with H : nonempty ?s = true |- _ => destruct s; [discriminate H|] end.
    constructor. unfold fixed. apply Yields_emit_all. cbn. discriminate.
  - (* IsInstance *)
    match goal with H : supported_head ?l = true |- _ => destruct l as [|c ks]; [discriminate H|] end.
    unfold supported_head, supported_class in Hp. cbn in Hp.
    destruct (Nat.eqb c 4); [apply random_strings_Y|].
    destruct (Nat.eqb c 0); [constructor; constructor; constructor|].
    destruct (Nat.eqb c 3); [apply random_complex_Y|].
    destruct (Nat.eqb c 10); [apply random_datetimes_Y|].
    destruct (Nat.eqb c 9); [apply random_dicts_Y|].
    destruct (Nat.eqb c 2); [apply random_floats_Y|].
    destruct (Nat.eqb c 11); [apply random_uuids_Y|].
    destruct (Nat.eqb c 1); [apply random_ints_Y; unfold MAXS; lia|].
    destruct (Nat.eqb c 8); [apply random_sets_Y|]. discriminate.
  - (* Any *) constructor. apply Y_take_g; [lia|apply IHp; exact Hp|].
    intros vs Hvs. destruct vs as [|v0 r]; [congruence|]. apply rcwr_Y; [discriminate|]. intros sel. constructor.
  - (* Subset: the empty set comes first *) constructor. unfold fixed, powerset. cbn [List.seq flat_map]. destruct f_v; cbn; constructor.
  - (* RealSubset of a non-empty set: the empty set comes first and is not a superset *)
    match goal with H : nonempty ?s = true |- _ => destruct s as [|c0 s0]; [discriminate H|] end.
    constructor. unfold fixed, powerset. cbn. constructor.
  - (* HasKey *) constructor. apply Y_round_pull; [lia|reflexivity| |].
    + intros j _. destruct j; [apply random_dicts_Y|apply random_anys_Y].
    + intros vs _. discriminate.
Qed.

(* ---- generate_false ---- *)
Theorem gen_false_yields fe W ck : forall p, sat_false ck p = true -> Yields (gen_false fe W ck p).
Proof.
  induction p; intros Hp; cbn [sat_false] in Hp; try discriminate Hp; cbn [gen_false].
  all: try solve [constructor; constructor].                         (* Ne, IsNotNone *)
  all: try solve [apply random_anys_Y].                              (* False *)
  all: try solve [constructor; apply by_sort_false_Y; [exact Hp|apply offsets_Y; lia|apply random_floats_Y|apply ints_upto_Y]].
  all: try solve [constructor; unfold fixed; apply Yields_emit_all; discriminate].   (* IsEmpty, IsTruthy *)
  - (* All *) constructor. constructor. constructor. intros z [Hz|Hz]; [|lia].
    apply Y_take_g; [lia|apply IHp; exact Hp|].
    intros vs Hvs. destruct vs as [|v0 r]; [congruence|]. apply rcwr_Y; [discriminate|]. intros sel. constructor.
  - (* SetOf *) constructor. apply Y_take_g; [lia|apply IHp; exact Hp|].
    intros vs Hvs. destruct vs as [|v0 r]; [congruence|]. apply rcwr_Y; [discriminate|]. intros sel. constructor.
Qed.

(* ---- with the bounds of GenProd: the first value arrives within Bt p / Bf p steps, for every oracle ---- *)
Theorem satisfiable_true_request_yields fe W ck p : prod_true ck p = true -> sat_true ck p = true ->
  forall o c, exists v g' c', next_event (Bt p) (gen_true fe W ck p) o c = Some (EYield v, g', c').
Proof. intros Hb Hs. apply (first_value_arrives (Bt p) (Bt p)); [apply gen_true_productive; exact Hb|apply gen_true_yields; exact Hs]. Qed.

Theorem satisfiable_false_request_yields fe W ck p : prod_false ck p = true -> sat_false ck p = true ->
  forall o c, exists v g' c', next_event (Bf p) (gen_false fe W ck p) o c = Some (EYield v, g', c').
Proof. intros Hb Hs. apply (first_value_arrives (Bf p) (Bf p)); [apply gen_false_productive; exact Hb|apply gen_false_yields; exact Hs]. Qed.

(* the conditions are met by the kinds C11 lists *)
Example sat_examples :
  sat_true KInt (PAny (PGe 3)) = true /\ prod_true KInt (PAny (PGe 3)) = true /\
  sat_false KFloat (PAll (PGe 3)) = true /\ prod_false KFloat (PAll (PGe 3)) = true /\
  sat_true KInt (PIsInstance [9]) = true /\ sat_true KInt (PIn []) = false /\ sat_false KInt PTrue = false.
Proof. repeat split; reflexivity. Qed.
