(* Laws.v — the basic Boolean laws are applied at the root for every atom (C13). *)
From Coq Require Import QArith Bool List Arith String Lia.
From PP Require Import Prelude.Base Prelude.Val Prelude.Pred Prelude.Sem Gen.Negate Gen.Implies Gen.Optimize
  Lemmas.PeqFacts.
Import ListNotations.

(* atoms: every class without predicate-typed fields *)
Definition atomic (p : pred) : bool :=
  match p with
  | PAnd _ _ | POr _ _ | PXor _ _ | PNot _ | PAll _ | PAny _ | PSetOf _ | PComp _ _ => false
  | _ => true
  end.

(* the optimizer returns, with an empty trace, something == to the expected term *)
Definition yields (m : res pred) (e : res pred) : Prop :=
  match m, e with
  | Ok r [], Ok x [] => peq r x = true
  | _, _ => False
  end.

Definition FUEL (n : nat) : nat := S (S (S (S (S (S (S (S n))))))).

Definition K (p : pred) : res pred := Ok p [].
Definition law_statement (W : world) (n : nat) (p : pred) : Prop :=
  let opt := optimize W (FUEL n) in
  (* contradiction / excluded middle, with ~p and with negate(p), both operand orders *)
  yields (opt (PAnd p (PNot p))) (K PFalse) /\ yields (opt (PAnd (PNot p) p)) (K PFalse) /\
  yields (opt (PAnd p (negate p))) (K PFalse) /\ yields (opt (PAnd (negate p) p)) (K PFalse) /\
  yields (opt (POr p (PNot p))) (K PTrue) /\ yields (opt (POr (PNot p) p)) (K PTrue) /\
  yields (opt (POr p (negate p))) (K PTrue) /\ yields (opt (POr (negate p) p)) (K PTrue) /\
  yields (opt (PXor p (PNot p))) (K PTrue) /\ yields (opt (PXor (PNot p) p)) (K PTrue) /\
  yields (opt (PXor p (negate p))) (K PTrue) /\ yields (opt (PXor (negate p) p)) (K PTrue) /\
  yields (opt (PXor p p)) (K PFalse) /\
  (* idempotence and units: the result is optimize(p) *)
  yields (opt (PAnd p p)) (opt p) /\ yields (opt (POr p p)) (opt p) /\
  yields (opt (PAnd p PTrue)) (opt p) /\ yields (opt (PAnd PTrue p)) (opt p) /\
  yields (opt (POr p PFalse)) (opt p) /\ yields (opt (POr PFalse p)) (opt p) /\
  yields (opt (PXor p PFalse)) (opt p) /\ yields (opt (PXor PFalse p)) (opt p) /\
  yields (opt (PNot (PNot p))) (opt p) /\
  (* p ^ true is optimize(~p) *)
  yields (opt (PXor p PTrue)) (opt (PNot p)) /\ yields (opt (PXor PTrue p)) (opt (PNot p)) /\
  (* absorbing elements *)
  yields (opt (PAnd p PFalse)) (K PFalse) /\ yields (opt (PAnd PFalse p)) (K PFalse) /\
  yields (opt (POr p PTrue)) (K PTrue) /\ yields (opt (POr PTrue p)) (K PTrue).

Lemma list_eqb_nat_refl' a : list_eqb Nat.eqb a a = true.
Proof. induction a as [|x a IH]; cbn; [reflexivity|]. now rewrite Nat.eqb_refl, IH. Qed.
Lemma Qle_bool_refl' a : Qle_bool a a = true.
Proof. apply Qle_bool_iff. apply Qle_refl. Qed.
Lemma Qlt_bool_irrefl a : Qlt_bool a a = false.
Proof. unfold Qlt_bool. now rewrite Qle_bool_refl'. Qed.

Ltac refl_rewrites :=
  rewrite ?Qeq_bool_refl', ?set_eq_refl, ?Nat.eqb_refl, ?String.eqb_refl, ?list_eqb_nat_refl', ?Qle_bool_refl',
    ?Qlt_bool_irrefl, ?subseteq_refl, ?peq_refl.

Ltac law_atom :=
  unfold law_statement, K, yields, FUEL; cbv zeta;
  repeat match goal with |- _ /\ _ => split end;
  repeat progress (cbn; unfold optimize_or_not, optimize_xor_not; refl_rewrites);
  try reflexivity.
