(* GenExamples.v — the hypotheses of the generator theorems (C09/C10/C11) are satisfiable: a concrete float environment,
   world, oracle and terms that meet them, with non-empty streams (computed). *)
From Coq Require Import QArith ZArith Bool List Lia Lqa.
From PP Require Import Prelude.Base Prelude.Val Prelude.Pred Prelude.Sem Lemmas.GenDSL Lemmas.GenModel Lemmas.GenSafe Lemmas.GenProd
                       Lemmas.TupleOf Lemmas.GenTupleOf.
Import ListNotations.
Open Scope Q_scope.

Definition fe1 : fenv := {| nup := fun v => v + 1; ndown := fun v => v - 1; dlo := fun u => u - 1000000; dhi := fun l => l + 1000000 |}.
Definition W1 : world :=
  {| env := fun _ => false; isinst := fun _ _ => true; fn_sem := fun _ _ => None; comp_sem := fun _ _ => None;
     regex_sem := fun _ _ _ => None; lazy_sem := fun _ _ => None; self_sem := fun _ _ => None |}.
Definition o1 : oracle := {| oz := fun i => Z.of_nat i; oq := fun i => inject_Z (Z.of_nat i); ov := fun _ => VNone |}.

Lemma fe1_ok : fenv_ok fe1.
Proof. repeat split; intros v; cbn; lra. Qed.

Lemma W1_ok : world_ok W1.
Proof. repeat split. Qed.

Definition ex_true : pred := PAnd (PGe 3) (PLe 10).
Definition ex_tuple : list pred := [PGe 3; PLe (-3); PIsNone].

Lemma generator_hypotheses_nonvacuous :
  fenv_ok fe1 /\ world_ok W1 /\ gen_ok W1 KInt ex_true /\ gen_ok_false W1 KInt (PGe 3) /\ Forall (gen_ok W1 KInt) ex_tuple /\
  fst (run 60 (gen_true fe1 W1 KInt ex_true) o1 0) <> [] /\
  fst (run 60 (gen_false fe1 W1 KInt (PGe 3)) o1 0) <> [] /\
  fst (run 60 (gen_tuple_of fe1 W1 KInt ex_tuple) o1 0) <> [] /\
  ex_tuple <> [] /\ Forall (fun p => prod_true KInt p = true) ex_tuple.
Proof.
  split; [exact fe1_ok|]. split; [exact W1_ok|].
  split; [cbn; repeat split; intros _; reflexivity|].
  split; [cbn; intros _; reflexivity|].
  split; [repeat constructor; cbn; intros _; reflexivity|].
  split; [vm_compute; discriminate|]. split; [vm_compute; discriminate|]. split; [vm_compute; discriminate|].
  split; [discriminate|repeat constructor].
Qed.

Lemma generate_false_hypotheses_nonvacuous :
  fenv_ok fe1 /\ world_ok W1 /\ gen_ok_false W1 KInt (PGe 3) /\ fst (run 60 (gen_false fe1 W1 KInt (PGe 3)) o1 0) <> [].
Proof.
  destruct generator_hypotheses_nonvacuous as (H1 & H2 & _ & H4 & _ & _ & H7 & _).
  split; [exact H1|]. split; [exact H2|]. split; [exact H4|exact H7].
Qed.
