(* DotTree.v — C17, part 2: proofs about the model of format_dot.py in DotGraph.v.
   Main results (all for every predicate term, every starting value n0 of the shared counter, no size bound):
     render_decodes        supported p  ->  render p n0 = Ret g  with  decode g = Some (label_tree p), ids n0 .. n0+size p-1,
                           size p - 1 edges, all solid, counter left at n0 + size p
     render_unsupported    not supported  ->  render raises; ValueError whenever every is_instance node names a class
     to_dot_two_clusters   the second cluster starts where the first stopped: disjoint ids, both decode *)
From Coq Require Import QArith Bool List Arith String Lia.
From PP Require Import Prelude.Base Prelude.Pred Lemmas.DotGraph.
Import ListNotations.
Local Close Scope Q_scope.
Local Open Scope nat_scope.

(* ------------------------------------------------------------------------------------------------ *)
(* what a supported tree emits, as plain functions (proof scaffolding: validated by to_value_emits)   *)
(* ------------------------------------------------------------------------------------------------ *)
Definition name_of (p : pred) : string :=
  match p with
  | PAll _ => "all" | PFalse => "F" | PTrue => "T" | PAnd _ _ => "and" | PAny _ => "any" | PComp _ _ => "comp"
  | PEq _ => "eq" | PIsFalsy => "falsy" | PIsTruthy => "truthy" | PFn _ => "fn" | PGe _ => "ge" | PGeLe _ _ => "gele"
  | PGeLt _ _ => "gelt" | PGt _ => "gt" | PGtLe _ _ => "gtle" | PGtLt _ _ => "gtlt" | PIn _ => "in"
  | PIsInstance _ => "instance" | PIsNone => "none" | PRealSubset _ => "real_subset" | PSubset _ => "subset"
  | PRealSuperset _ => "real_superset" | PSuperset _ => "superset" | PLazy _ => "lazy" | PLe _ => "le" | PLt _ => "lt"
  | PNamed _ => "named" | PNotIn _ => "in" | PNe _ => "ne" | PNot _ => "not" | POr _ _ => "or" | PRoot _ => "root"
  | PTee _ => "tee" | PThis _ => "this" | PXor _ _ => "xor"
  | _ => ""
  end.
Definition nd (p : pred) (n : nat) : node := (n, name_of p, lab p).

Fixpoint emitN (p : pred) (n : nat) : list node :=
  match p with
  | PAnd l r | POr l r | PXor l r => nd p n :: emitN l (S n) ++ emitN r (S n + size l)
  | PNot q | PAll q | PAny q | PComp _ q | PSetOf q => nd p n :: emitN q (S n)
  | _ => [nd p n]
  end.
Fixpoint emitE (p : pred) (n : nat) : list edge :=
  match p with
  | PAnd l r | POr l r | PXor l r =>
      emitE l (S n) ++ [(n, S n, Solid)] ++ emitE r (S n + size l) ++ [(n, S n + size l, Solid)]
  | PNot q | PAll q | PAny q | PComp _ q | PSetOf q => emitE q (S n) ++ [(n, S n, Solid)]
  | _ => []
  end.

(* one case analysis with every unfolding equation, so that later proofs have three cases instead of 45 *)
Record view0 (p : pred) : Prop := {
  v0_size : size p = 1;
  v0_N : forall n, emitN p n = [nd p n];
  v0_E : forall n, emitE p n = [];
  v0_tree : label_tree p = LNode (lab p) [];
}.
Record view1 (p q : pred) : Prop := {
  v1_size : size p = S (size q);
  v1_N : forall n, emitN p n = nd p n :: emitN q (S n);
  v1_E : forall n, emitE p n = emitE q (S n) ++ [(n, S n, Solid)];
  v1_tree : label_tree p = LNode (lab p) [label_tree q];
}.
Record view2 (p l r : pred) : Prop := {
  v2_size : size p = S (size l + size r);
  v2_N : forall n, emitN p n = nd p n :: emitN l (S n) ++ emitN r (S n + size l);
  v2_E : forall n, emitE p n = emitE l (S n) ++ [(n, S n, Solid)] ++ emitE r (S n + size l) ++ [(n, S n + size l, Solid)];
  v2_tree : label_tree p = LNode (lab p) [label_tree l; label_tree r];
}.

Lemma pred_view_ind (P : pred -> Prop) :
  (forall p, view0 p -> P p) ->
  (forall p q, view1 p q -> P q -> P p) ->
  (forall p l r, view2 p l r -> P l -> P r -> P p) ->
  forall p, P p.
Proof.
  intros H0 H1 H2.
  induction p;
    first [ apply H0; constructor; intros; reflexivity
          | eapply H1; [constructor; intros; reflexivity | assumption]
          | eapply H2; [constructor; intros; reflexivity | assumption | assumption] ].
Qed.

(* ------------------------------------------------------------------------------------------------ *)
(* the monadic code emits exactly emitN / emitE                                                       *)
(* ------------------------------------------------------------------------------------------------ *)
Definition emits (m : M nat) (k : nat) (N : nat -> list node) (E : nat -> list edge) : Prop :=
  forall g, m g = Ret (next_id g, mkGraph (next_id g + k) (nodes g ++ N (next_id g)) (edges g ++ E (next_id g))).

Lemma run_leaf name lb g :
  add_node name lb g = Ret (next_id g, mkGraph (next_id g + 1) (nodes g ++ [(next_id g, name, lb)]) (edges g ++ [])).
Proof. unfold add_node. rewrite app_nil_r, Nat.add_1_r. reflexivity. Qed.

Lemma run_unary name lb mc k N E :
  emits mc k N E ->
  forall g, add_node_with_child name lb mc g =
    Ret (next_id g, mkGraph (next_id g + S k) (nodes g ++ (next_id g, name, lb) :: N (S (next_id g)))
                            (edges g ++ E (S (next_id g)) ++ [(next_id g, S (next_id g), Solid)])).
Proof.
  intros Hc g. unfold add_node_with_child, mbind, add_node, add_edge, mret.
  rewrite Hc. cbn [next_id nodes edges].
  rewrite <- !app_assoc. cbn [app].
  replace (S (next_id g) + k) with (next_id g + S k) by lia. reflexivity.
Qed.

Lemma run_binary name lb ml mr kl kr Nl El Nr Er :
  emits ml kl Nl El -> emits mr kr Nr Er ->
  forall g, add_node_left_right name lb ml mr g =
    Ret (next_id g,
         mkGraph (next_id g + S (kl + kr))
                 (nodes g ++ (next_id g, name, lb) :: Nl (S (next_id g)) ++ Nr (S (next_id g) + kl))
                 (edges g ++ El (S (next_id g)) ++ [(next_id g, S (next_id g), Solid)]
                          ++ Er (S (next_id g) + kl) ++ [(next_id g, S (next_id g) + kl, Solid)])).
Proof.
  intros Hl Hr g. unfold add_node_left_right, mbind, add_node, add_edge, mret.
  rewrite Hl. cbn [next_id nodes edges].
  rewrite Hr. cbn [next_id nodes edges].
  rewrite <- !app_assoc. cbn [app].
  replace (S (next_id g) + kl + kr) with (next_id g + S (kl + kr)) by lia. reflexivity.
Qed.

Lemma supported_bin_inv a b c : a && b && c = true -> b = true /\ c = true.
Proof. destruct a, b, c; cbn; intros; try discriminate; auto. Qed.
Lemma supported_un_inv a b : a && b = true -> b = true.
Proof. destruct a, b; cbn; intros; try discriminate; auto. Qed.

Lemma to_value_emits p : supported p = true -> emits (to_value p) (size p) (emitN p) (emitE p).
Proof.
  induction p; intros Hs; cbn [supported known label_of] in Hs; try discriminate Hs;
    try (apply supported_bin_inv in Hs; destruct Hs as [Hs1 Hs2]);
    try (apply supported_un_inv in Hs);
    intros g; cbn [to_value];
    first [ exact (run_leaf _ _ g)
          | rewrite (run_unary _ _ _ _ _ _ (IHp Hs) g); reflexivity
          | rewrite (run_binary _ _ _ _ _ _ _ _ _ _ (IHp1 Hs1) (IHp2 Hs2) g); reflexivity
          | idtac ].
  (* PIsInstance *)
  destruct f_klass as [|k ks]; [discriminate Hs|]. exact (run_leaf _ _ g).
Qed.

(* ------------------------------------------------------------------------------------------------ *)
(* facts about the emitted fragment                                                                   *)
(* ------------------------------------------------------------------------------------------------ *)
Lemma size_pos p : 1 <= size p.
Proof. destruct p; cbn; lia. Qed.

Lemma emitN_ids p : forall n, map node_id (emitN p n) = seq n (size p).
Proof.
  induction p as [p V|p q V IH|p l r V IHl IHr] using pred_view_ind; intros n.
  - rewrite (v0_N _ V), (v0_size _ V). reflexivity.
  - rewrite (v1_N _ _ V), (v1_size _ _ V). cbn [map seq]. rewrite IH. reflexivity.
  - rewrite (v2_N _ _ _ V), (v2_size _ _ _ V). cbn [map seq]. rewrite map_app, IHl, IHr, seq_app. reflexivity.
Qed.

Lemma emitN_length p n : List.length (emitN p n) = size p.
Proof. rewrite <- (map_length node_id), emitN_ids, seq_length. reflexivity. Qed.

Lemma emitE_length p : forall n, S (List.length (emitE p n)) = size p.
Proof.
  induction p as [p V|p q V IH|p l r V IHl IHr] using pred_view_ind; intros n.
  - rewrite (v0_E _ V), (v0_size _ V). reflexivity.
  - rewrite (v1_E _ _ V), (v1_size _ _ V), app_length. pose proof (IH (S n)). cbn [List.length]. lia.
  - rewrite (v2_E _ _ _ V), (v2_size _ _ _ V), !app_length.
    pose proof (IHl (S n)). pose proof (IHr (S n + size l)). cbn [List.length]. lia.
Qed.

Lemma emitE_solid p : forall n, forallb is_solid (emitE p n) = true.
Proof.
  induction p as [p V|p q V IH|p l r V IHl IHr] using pred_view_ind; intros n.
  - rewrite (v0_E _ V). reflexivity.
  - rewrite (v1_E _ _ V), forallb_app, IH. reflexivity.
  - rewrite (v2_E _ _ _ V), !forallb_app, IHl, IHr. reflexivity.
Qed.

Lemma filter_all {A} (f : A -> bool) l : forallb f l = true -> filter f l = l.
Proof.
  induction l as [|a l IH]; cbn; [reflexivity|]. intros H. apply andb_true_iff in H as [Ha Hl].
  rewrite Ha, IH by exact Hl. reflexivity.
Qed.

(* every edge stays inside the id range of its subtree; heads are never the subtree's root *)
Definition in_range (n k : nat) (e : edge) : Prop := n <= e_src e < n + k /\ n < e_tgt e < n + k.

Lemma Forall_weaken {A} (P Q : A -> Prop) l : (forall x, P x -> Q x) -> Forall P l -> Forall Q l.
Proof. intros H F. induction F; constructor; auto. Qed.

Lemma emitE_range p : forall n, Forall (in_range n (size p)) (emitE p n).
Proof.
  induction p as [p V|p q V IH|p l r V IHl IHr] using pred_view_ind; intros n.
  - rewrite (v0_E _ V). constructor.
  - rewrite (v1_E _ _ V), (v1_size _ _ V). apply Forall_app. split.
    + eapply Forall_weaken; [|apply IH]. unfold in_range. intros e. lia.
    + constructor; [|constructor]. unfold in_range, e_src, e_tgt. cbn. pose proof (size_pos q). lia.
  - rewrite (v2_E _ _ _ V), (v2_size _ _ _ V).
    pose proof (size_pos l). pose proof (size_pos r).
    repeat (apply Forall_app; split).
    + eapply Forall_weaken; [|apply IHl]. unfold in_range. intros e. lia.
    + constructor; [|constructor]. unfold in_range, e_src, e_tgt. cbn. lia.
    + eapply Forall_weaken; [|apply IHr]. unfold in_range. intros e. lia.
    + constructor; [|constructor]. unfold in_range, e_src, e_tgt. cbn. lia.
Qed.

Lemma NoDup_app_intro {A} (l1 l2 : list A) :
  NoDup l1 -> NoDup l2 -> (forall x, In x l1 -> ~ In x l2) -> NoDup (l1 ++ l2).
Proof.
  induction l1 as [|a l1 IH]; cbn; intros H1 H2 Hd; [exact H2|].
  inversion H1; subst. constructor.
  - rewrite in_app_iff. intros [Hin|Hin]; [contradiction|]. apply (Hd a); auto.
  - apply IH; auto.
Qed.

Lemma tgt_in_range n k es x : Forall (in_range n k) es -> In x (map e_tgt es) -> n < x < n + k.
Proof.
  intros F Hin. apply in_map_iff in Hin as [e [<- He]].
  rewrite Forall_forall in F. apply (F e He).
Qed.

Lemma emitE_tgt_nodup p : forall n, NoDup (map e_tgt (emitE p n)).
Proof.
  induction p as [p V|p q V IH|p l r V IHl IHr] using pred_view_ind; intros n.
  - rewrite (v0_E _ V). constructor.
  - rewrite (v1_E _ _ V), map_app. apply NoDup_app_intro; [apply IH|repeat constructor; intros []|].
    intros x Hx. apply (tgt_in_range _ _ _ _ (emitE_range q (S n))) in Hx.
    cbn. unfold e_tgt. cbn. lia.
  - rewrite (v2_E _ _ _ V), !map_app.
    pose proof (size_pos l). pose proof (size_pos r).
    apply NoDup_app_intro; [apply IHl| |].
    + apply NoDup_app_intro; [repeat constructor; intros []| |].
      * apply NoDup_app_intro; [apply IHr|repeat constructor; intros []|].
        intros x Hx. apply (tgt_in_range _ _ _ _ (emitE_range r (S n + size l))) in Hx.
        cbn. unfold e_tgt. cbn. lia.
      * intros x [<-|[]]. rewrite in_app_iff. intros [Hx|[Hx|[]]].
        -- apply (tgt_in_range _ _ _ _ (emitE_range r (S n + size l))) in Hx. unfold e_tgt in Hx. cbn in Hx. lia.
        -- unfold e_tgt in Hx. cbn in Hx. lia.
    + intros x Hx. apply (tgt_in_range _ _ _ _ (emitE_range l (S n))) in Hx.
      cbn [map app]. intros [Hy|Hy].
      * unfold e_tgt in Hy. cbn in Hy. lia.
      * rewrite in_app_iff in Hy. destruct Hy as [Hy|[Hy|[]]].
        -- apply (tgt_in_range _ _ _ _ (emitE_range r (S n + size l))) in Hy. lia.
        -- unfold e_tgt in Hy. cbn in Hy. lia.
Qed.

(* ------------------------------------------------------------------------------------------------ *)
(* reading the fragment back                                                                          *)
(* ------------------------------------------------------------------------------------------------ *)
Lemma label_at_app_l A B i : In i (map node_id A) -> label_at (A ++ B) i = label_at A i.
Proof.
  induction A as [|x A IH]; cbn; [intros []|]. intros [E|Hin].
  - rewrite E, Nat.eqb_refl. reflexivity.
  - destruct (Nat.eqb (node_id x) i); [reflexivity|]. apply IH, Hin.
Qed.
Lemma label_at_app_r A B i : ~ In i (map node_id A) -> label_at (A ++ B) i = label_at B i.
Proof.
  induction A as [|x A IH]; cbn; [reflexivity|]. intros Hn.
  destruct (Nat.eqb_spec (node_id x) i) as [E|E]; [exfalso; apply Hn; left; exact E|].
  apply IH. intros Hin. apply Hn. right. exact Hin.
Qed.

Lemma kids_at_app A B i : kids_at (A ++ B) i = kids_at A i ++ kids_at B i.
Proof. unfold kids_at. rewrite filter_app, map_app. reflexivity. Qed.
Lemma kids_at_outside n k es i : Forall (in_range n k) es -> ~ (n <= i < n + k) -> kids_at es i = [].
Proof.
  intros F Hi. unfold kids_at. induction F as [|e es He F IH]; [reflexivity|].
  cbn [filter]. destruct (Nat.eqb_spec (e_src e) i) as [E|E].
  - exfalso. destruct He as [He _]. lia.
  - rewrite andb_false_r. exact IH.
Qed.
Lemma kids_at_one a b i : kids_at [(a, b, Solid)] i = if Nat.eqb a i then [b] else [].
Proof. unfold kids_at. cbn. destruct (Nat.eqb a i); reflexivity. Qed.

Lemma build_fragment p :
  forall n lb ch fuel,
    size p <= fuel ->
    (forall i, n <= i < n + size p -> lb i = label_at (emitN p n) i) ->
    (forall i, n <= i < n + size p -> ch i = kids_at (emitE p n) i) ->
    build lb ch fuel n = Some (label_tree p).
Proof.
  induction p as [p V|p q V IH|p l r V IHl IHr] using pred_view_ind; intros n lb ch fuel Hf Hlb Hch.
  - destruct fuel as [|fuel]; [pose proof (size_pos p); lia|].
    cbn [build]. rewrite Hlb, Hch by (pose proof (size_pos p); lia).
    rewrite (v0_N _ V), (v0_E _ V), (v0_tree _ V). cbn. rewrite Nat.eqb_refl. reflexivity.
  - pose proof (size_pos q) as Hq. rewrite (v1_size _ _ V) in *.
    destruct fuel as [|fuel]; [lia|].
    cbn [build]. rewrite Hlb, Hch by lia.
    rewrite (v1_N _ _ V), (v1_E _ _ V), (v1_tree _ _ V).
    cbn [label_at nd node_id node_label fst snd]. rewrite Nat.eqb_refl.
    rewrite kids_at_app, kids_at_one, Nat.eqb_refl.
    rewrite (kids_at_outside _ _ _ _ (emitE_range q (S n))) by lia.
    cbn [app map sequence].
    rewrite (IH (S n) lb ch fuel); [reflexivity|lia| |].
    + intros i Hi. rewrite Hlb by lia. rewrite (v1_N _ _ V). cbn [label_at nd node_id fst].
      destruct (Nat.eqb_spec n i); [lia|reflexivity].
    + intros i Hi. rewrite Hch by lia. rewrite (v1_E _ _ V), kids_at_app, kids_at_one.
      destruct (Nat.eqb_spec n i); [lia|]. apply app_nil_r.
  - pose proof (size_pos l) as Hl. pose proof (size_pos r) as Hr. rewrite (v2_size _ _ _ V) in *.
    destruct fuel as [|fuel]; [lia|].
    cbn [build]. rewrite Hlb, Hch by lia.
    rewrite (v2_N _ _ _ V), (v2_E _ _ _ V), (v2_tree _ _ _ V).
    cbn [label_at nd node_id node_label fst snd]. rewrite Nat.eqb_refl.
    rewrite !kids_at_app, !kids_at_one, Nat.eqb_refl.
    rewrite (kids_at_outside _ _ _ _ (emitE_range l (S n))) by lia.
    rewrite (kids_at_outside _ _ _ _ (emitE_range r (S n + size l))) by lia.
    cbn [app map sequence].
    rewrite (IHl (S n) lb ch fuel); [|lia| |].
    rewrite (IHr (S n + size l) lb ch fuel); [reflexivity|lia| |].
    + intros i Hi. rewrite Hlb by lia. rewrite (v2_N _ _ _ V). cbn [label_at nd node_id fst].
      destruct (Nat.eqb_spec n i); [lia|].
      apply label_at_app_r. rewrite emitN_ids, in_seq. lia.
    + intros i Hi. rewrite Hch by lia. rewrite (v2_E _ _ _ V), !kids_at_app, !kids_at_one.
      destruct (Nat.eqb_spec n i); [lia|].
      rewrite (kids_at_outside _ _ _ _ (emitE_range l (S n))) by lia.
      cbn [app]. apply app_nil_r.
    + intros i Hi. rewrite Hlb by lia. rewrite (v2_N _ _ _ V). cbn [label_at nd node_id fst].
      destruct (Nat.eqb_spec n i); [lia|].
      apply label_at_app_l. rewrite emitN_ids, in_seq. lia.
    + intros i Hi. rewrite Hch by lia. rewrite (v2_E _ _ _ V), !kids_at_app, !kids_at_one.
      destruct (Nat.eqb_spec n i); [lia|].
      rewrite (kids_at_outside _ _ _ _ (emitE_range r (S n + size l))) by lia.
      cbn [app]. rewrite app_nil_r. reflexivity.
Qed.

Lemma tsize_label_tree p : tsize (label_tree p) = size p.
Proof.
  induction p as [p V|p q V IH|p l r V IHl IHr] using pred_view_ind.
  - rewrite (v0_tree _ V), (v0_size _ V). reflexivity.
  - rewrite (v1_tree _ _ V), (v1_size _ _ V). cbn. rewrite IH. lia.
  - rewrite (v2_tree _ _ _ V), (v2_size _ _ _ V). cbn. rewrite IHl, IHr. lia.
Qed.

(* boolean checks of decode *)
Lemma memb_iff x l : memb x l = true <-> In x l.
Proof.
  unfold memb. rewrite existsb_exists. split.
  - intros [y [Hy E]]. apply Nat.eqb_eq in E. subst. exact Hy.
  - intros H. exists x. split; [exact H|apply Nat.eqb_refl].
Qed.
Lemma nodup_b_of_NoDup l : NoDup l -> nodup_b l = true.
Proof.
  induction 1 as [|x l Hx _ IH]; [reflexivity|]. cbn. rewrite IH, andb_true_r.
  destruct (memb x l) eqn:E; [|reflexivity]. apply memb_iff in E. contradiction.
Qed.
Lemma NoDup_of_nodup_b l : nodup_b l = true -> NoDup l.
Proof.
  induction l as [|x l IH]; [constructor|]. cbn. intros H. apply andb_true_iff in H as [H1 H2].
  constructor; [|apply IH, H2]. intros Hin. apply memb_iff in Hin. rewrite Hin in H1. discriminate.
Qed.

Lemma emitN_head p n : exists rest, emitN p n = nd p n :: rest.
Proof. destruct p; cbn; eexists; reflexivity. Qed.

Lemma decode_fragment p n k :
  decode (mkGraph k (emitN p n) (emitE p n)) = Some (label_tree p).
Proof.
  unfold decode. cbn [nodes edges].
  rewrite (filter_all _ _ (emitE_solid p n)).
  assert (Hroot : memb n (map e_tgt (emitE p n)) = false).
  { destruct (memb n (map e_tgt (emitE p n))) eqn:E; [|reflexivity].
    apply memb_iff in E. apply (tgt_in_range _ _ _ _ (emitE_range p n)) in E. lia. }
  assert (Hfind : find (fun i => negb (memb i (map e_tgt (emitE p n)))) (map node_id (emitN p n)) = Some n).
  { destruct (emitN_head p n) as [rest ->]. cbn [map find node_id nd fst]. rewrite Hroot. reflexivity. }
  rewrite Hfind.
  rewrite emitN_ids, seq_length.
  rewrite (nodup_b_of_NoDup _ (seq_NoDup _ _)).
  rewrite (nodup_b_of_NoDup _ (emitE_tgt_nodup p n)).
  replace (Nat.eqb (S (List.length (emitE p n))) (size p)) with true
    by (symmetry; apply Nat.eqb_eq, emitE_length).
  assert (Hends : forallb (fun e => memb (e_src e) (seq n (size p)) && memb (e_tgt e) (seq n (size p))) (emitE p n) = true).
  { apply forallb_forall. intros e He.
    pose proof (emitE_range p n) as F. rewrite Forall_forall in F. destruct (F e He) as [Hs Ht].
    apply andb_true_iff. split; apply memb_iff, in_seq; lia. }
  rewrite Hends. cbn [andb].
  rewrite (build_fragment p n _ _ (size p)); [|lia|reflexivity|reflexivity].
  rewrite tsize_label_tree, Nat.eqb_refl. reflexivity.
Qed.

(* ------------------------------------------------------------------------------------------------ *)
(* THEOREM 1: a supported predicate is drawn as its own tree                                          *)
(* ------------------------------------------------------------------------------------------------ *)
Theorem render_decodes :
  forall (p : pred) (n0 : nat), supported p = true ->
    exists g, render p n0 = Ret g
      /\ decode g = Some (label_tree p)                       (* a tree; same shape, operand order, truthful labels *)
      /\ map node_id (nodes g) = seq n0 (size p)              (* one node per sub-predicate; ids n0 .. n0+size p-1 in pre-order *)
      /\ NoDup (map node_id (nodes g))
      /\ S (List.length (edges g)) = size p                   (* one edge per parent-child link *)
      /\ forallb is_solid (edges g) = true
      /\ next_id g = n0 + size p.                             (* where the shared counter is left *)
Proof.
  intros p n0 Hs. unfold render. rewrite (to_value_emits p Hs). cbn [next_id nodes edges app].
  eexists. split; [reflexivity|]. cbn [next_id nodes edges].
  split; [apply decode_fragment|].
  split; [apply emitN_ids|].
  split; [rewrite emitN_ids; apply seq_NoDup|].
  split; [apply emitE_length|].
  split; [apply emitE_solid|reflexivity].
Qed.

(* the statement in the form "decode (render p n0) = Some (label_tree p)" *)
Definition decode_result (r : result graph) : option ltree :=
  match r with Ret g => decode g | Raise _ => None end.
Corollary decode_render p n0 : supported p = true -> decode_result (render p n0) = Some (label_tree p).
Proof. intros Hs. destruct (render_decodes p n0 Hs) as [g [E [D _]]]. rewrite E. exact D. Qed.

(* ------------------------------------------------------------------------------------------------ *)
(* THEOREM 2: an unsupported kind anywhere gives an exception value, ValueError                       *)
(* ------------------------------------------------------------------------------------------------ *)
Lemma raise_unary name lb mc g e :
  mc (mkGraph (S (next_id g)) (nodes g ++ [(next_id g, name, lb)]) (edges g)) = Raise e ->
  add_node_with_child name lb mc g = Raise e.
Proof. intros H. unfold add_node_with_child, mbind, add_node. rewrite H. reflexivity. Qed.
Lemma raise_binary_l name lb ml mr g e :
  ml (mkGraph (S (next_id g)) (nodes g ++ [(next_id g, name, lb)]) (edges g)) = Raise e ->
  add_node_left_right name lb ml mr g = Raise e.
Proof. intros H. unfold add_node_left_right, mbind, add_node. rewrite H. reflexivity. Qed.
Lemma raise_binary_r name lb ml mr kl Nl El e :
  emits ml kl Nl El -> (forall g', mr g' = Raise e) ->
  forall g, add_node_left_right name lb ml mr g = Raise e.
Proof.
  intros Hl H g. unfold add_node_left_right, mbind, add_node, add_edge. rewrite Hl.
  cbn [next_id nodes edges]. rewrite H. reflexivity.
Qed.

(* the exception does not depend on the graph built so far *)
Lemma to_value_raises p :
  supported p = false ->
  exists e, (forall g, to_value p g = Raise e) /\ (inst_nonempty p = true -> e = ValueError).
Proof.
  induction p; intros Hs; cbn [supported known label_of] in Hs; try discriminate Hs; cbn [inst_nonempty to_value];
    try (exists ValueError; split; [intros g; reflexivity|reflexivity]).
  (* And, Or, Xor *)
  1-3: cbn [andb] in Hs; destruct (supported p1) eqn:S1;
       [ destruct (IHp2 Hs) as [e [He Hn]]; exists e; split;
         [ intros g; exact (raise_binary_r _ _ _ _ _ _ _ e (to_value_emits p1 S1) He g)
         | intros Hi; apply andb_true_iff in Hi as [_ Hi]; exact (Hn Hi) ]
       | destruct (IHp1 eq_refl) as [e [He Hn]]; exists e; split;
         [ intros g; apply raise_binary_l, He
         | intros Hi; apply andb_true_iff in Hi as [Hi _]; exact (Hn Hi) ] ].
  (* Not *)
  - cbn [andb] in Hs. destruct (IHp Hs) as [e [He Hn]]. exists e. split; [intros g; apply raise_unary, He|exact Hn].
  (* IsInstance *)
  - destruct f_klass as [|k ks]; [|discriminate Hs].
    exists IndexError. split; [intros g; reflexivity|intros Hi; discriminate Hi].
  (* All, Any *)
  - cbn [andb] in Hs. destruct (IHp Hs) as [e [He Hn]]. exists e. split; [intros g; apply raise_unary, He|exact Hn].
  - cbn [andb] in Hs. destruct (IHp Hs) as [e [He Hn]]. exists e. split; [intros g; apply raise_unary, He|exact Hn].
  (* Comp *)
  - cbn [andb] in Hs. destruct (IHp Hs) as [e [He Hn]]. exists e. split; [intros g; apply raise_unary, He|exact Hn].
Qed.

Theorem render_unsupported :
  forall (p : pred) (n0 : nat), supported p = false ->
    exists e, render p n0 = Raise e /\ (inst_nonempty p = true -> e = ValueError).
Proof.
  intros p n0 Hs. destruct (to_value_raises p Hs) as [e [He Hn]].
  exists e. split; [unfold render; rewrite He; reflexivity|exact Hn].
Qed.

(* and conversely: a result graph is only ever produced for supported trees, an exception only for the others *)
Corollary render_ret_iff_supported p n0 : (exists g, render p n0 = Ret g) <-> supported p = true.
Proof.
  split.
  - intros [g E]. destruct (supported p) eqn:Hs; [reflexivity|].
    destruct (render_unsupported p n0 Hs) as [e [E' _]]. rewrite E in E'. discriminate.
  - intros Hs. destruct (render_decodes p n0 Hs) as [g [E _]]. exists g. exact E.
Qed.

(* ------------------------------------------------------------------------------------------------ *)
(* THEOREM 3: show_optimized — two clusters, one counter                                              *)
(* ------------------------------------------------------------------------------------------------ *)
Theorem to_dot_two_clusters :
  forall (p q : pred), supported p = true -> supported q = true ->
    exists g1 g2, to_dot p (Some q) = Ret (g1, Some g2)
      /\ decode g1 = Some (label_tree p)
      /\ decode g2 = Some (label_tree q)
      /\ map node_id (nodes g1) = seq 0 (size p)
      /\ map node_id (nodes g2) = seq (size p) (size q)
      /\ (forall i, In i (map node_id (nodes g1)) -> ~ In i (map node_id (nodes g2)))
      /\ NoDup (map node_id (nodes g1) ++ map node_id (nodes g2)).
Proof.
  intros p q Hp Hq. unfold to_dot.
  destruct (render_decodes p 0 Hp) as [g1 [E1 [D1 [I1 [_ [_ [_ N1]]]]]]].
  rewrite E1.
  destruct (render_decodes q (next_id g1) Hq) as [g2 [E2 [D2 [I2 _]]]].
  rewrite E2. exists g1, g2. rewrite N1 in I2. cbn [plus] in I2.
  split; [reflexivity|]. split; [exact D1|]. split; [exact D2|]. split; [exact I1|]. split; [exact I2|].
  split.
  - intros i H1 H2. rewrite I1 in H1. rewrite I2 in H2. apply in_seq in H1, H2. lia.
  - rewrite I1, I2, <- seq_app. apply seq_NoDup.
Qed.

Theorem to_dot_one_cluster :
  forall (p : pred), supported p = true ->
    exists g1, to_dot p None = Ret (g1, None) /\ decode g1 = Some (label_tree p)
      /\ map node_id (nodes g1) = seq 0 (size p).
Proof.
  intros p Hp. unfold to_dot. destruct (render_decodes p 0 Hp) as [g1 [E1 [D1 [I1 _]]]].
  rewrite E1. exists g1. auto.
Qed.

(* an unknown kind in either tree: an exception value and no graph; ValueError when is_instance nodes name a class *)
Theorem to_dot_unsupported :
  forall (p : pred) (oq : option pred),
    (supported p = false \/ exists q, oq = Some q /\ supported q = false) ->
    exists e, to_dot p oq = Raise e
      /\ (inst_nonempty p = true -> (forall q, oq = Some q -> inst_nonempty q = true) -> e = ValueError).
Proof.
  intros p oq H. unfold to_dot. destruct (supported p) eqn:Hp.
  - destruct H as [H|[q [-> Hq]]]; [discriminate H|].
    destruct (render_decodes p 0 Hp) as [g1 [E1 _]]. rewrite E1.
    destruct (render_unsupported q (next_id g1) Hq) as [e [E2 Hn]]. rewrite E2.
    exists e. split; [reflexivity|]. intros _ Hi. apply Hn, (Hi q eq_refl).
  - destruct (render_unsupported p 0 Hp) as [e [E1 Hn]]. rewrite E1. exists e. split; [reflexivity|].
    intros Hi _. exact (Hn Hi).
Qed.

(* ------------------------------------------------------------------------------------------------ *)
(* non-vacuity: a tree with every shape, ranges of all four kinds, sets, names, counter not at 0       *)
(* ------------------------------------------------------------------------------------------------ *)
Definition ex_p : pred :=
  POr (PAnd (PGeLe (1#1)%Q (5#1)%Q) (PNot (PGtLt (2#1)%Q (7#1)%Q)))
      (PXor (PAll (PComp 0 (PGeLt (0#1)%Q (3#1)%Q))) (PAny (PAnd (PIn [(1#1)%Q; (2#1)%Q]) (PAnd (PNamed "v") (PGtLe (4#1)%Q (9#1)%Q))))).
Definition ex_q : pred := PAnd (PIsInstance [1; 4]) (PNotIn [(3#1)%Q]).
Definition ex_bad : pred := PAnd (PGe (1#1)%Q) (PNot (PHasLength (2#1)%Q)).

Example ex_supported : supported ex_p = true /\ size ex_p = 15.
Proof. split; vm_compute; reflexivity. Qed.
Example ex_render_decodes : decode_result (render ex_p 3) = Some (label_tree ex_p).
Proof. vm_compute. reflexivity. Qed.
Example ex_range_labels :
  label_tree (PGeLe (1#1)%Q (5#1)%Q) = LNode (LRange (1#1)%Q false (5#1)%Q false) []
  /\ label_tree (PGtLe (1#1)%Q (5#1)%Q) = LNode (LRange (1#1)%Q true (5#1)%Q false) [].
Proof. split; reflexivity. Qed.
Example ex_decode_rejects_swapped_operands :
  decode_result (render (PAnd (PGe (1#1)%Q) (PLe (2#1)%Q)) 0) <> Some (label_tree (PAnd (PLe (2#1)%Q) (PGe (1#1)%Q))).
Proof. vm_compute. intros H. discriminate H. Qed.
Example ex_decode_rejects_extra_edge :
  decode (mkGraph 2 [(0, "and"%string, LOp OAnd); (1, "T"%string, LOp OTrue)] [(0, 1, Solid); (0, 1, Solid)]) = None.
Proof. vm_compute. reflexivity. Qed.
Example ex_two_clusters :
  match to_dot ex_p (Some ex_q) with
  | Ret (g1, Some g2) => map node_id (nodes g2) = [15; 16; 17] /\ decode g2 = Some (label_tree ex_q)
  | _ => False
  end.
Proof. vm_compute. split; reflexivity. Qed.
Example ex_unsupported : render ex_bad 0 = Raise ValueError /\ supported ex_bad = false.
Proof. split; vm_compute; reflexivity. Qed.
Example ex_empty_isinstance : render (PIsInstance []) 0 = Raise IndexError.
Proof. reflexivity. Qed.
