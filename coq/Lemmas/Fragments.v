(* Fragments.v — the term spaces the optimizer properties quantify over, and a concrete world for
   non-vacuity examples and refutation witnesses. *)
From Coq Require Import QArith Bool List Arith String.
From PP Require Import Prelude.Base Prelude.Val Prelude.Pred Prelude.Sem.
Import ListNotations.

(* C01: named Boolean variables, true/false, & | ^ ~ *)
Fixpoint Fprop (p : pred) : bool :=
  match p with
  | PTrue | PFalse | PNamed _ => true
  | PAnd l r | POr l r | PXor l r => Fprop l && Fprop r
  | PNot q => Fprop q
  | _ => false
  end.

(* C02: & | ^ ~ over comparison, range, membership, none/truthy/type tests and function atoms *)
Fixpoint Fscalar (p : pred) : bool :=
  match p with
  | PTrue | PFalse | PNamed _ | PFn _ => true
  | PAnd l r | POr l r | PXor l r => Fscalar l && Fscalar r
  | PNot q => Fscalar q
  | PEq _ | PNe _ | PGe _ | PGt _ | PLe _ | PLt _ | PGeLe _ _ | PGeLt _ _ | PGtLe _ _ | PGtLt _ _ => true
  | PIn _ | PNotIn _ | PIsInstance _ | PIsNone | PIsNotNone | PIsFalsy | PIsTruthy => true
  | _ => false
  end.

(* C03: the above plus quantifiers over them, emptiness and set-inclusion atoms *)
Fixpoint Fcoll (p : pred) : bool :=
  match p with
  | PAnd l r | POr l r | PXor l r => Fcoll l && Fcoll r
  | PNot q | PAll q | PAny q => Fcoll q
  | PIsEmpty | PIsNotEmpty | PSubset _ | PRealSubset _ | PSuperset _ | PRealSuperset _ => true
  | _ => Fscalar p
  end.

Lemma Fprop_defined W p x : Fprop p = true -> defined W p x = true.
Proof.
  induction p; cbn; intros H; try discriminate; try reflexivity.
  all: try (apply andb_true_iff in H as [H1 H2]; rewrite IHp1, IHp2; auto).
  auto.
Qed.

(* a small concrete world: bool < int, every kind its own class 0..15 except KBool which is also class 1 (int);
   function 0 is "x > 2 on numbers", function 1 is "is a bool" *)
Definition kind_cls (k : kind) : nat :=
  match k with KBool => 0 | KInt => 1 | KFloat => 2 | KComplex => 3 | KStr => 4 | KNone => 5 | KList => 6 | KTuple => 7
  | KSet => 8 | KDict => 9 | KDatetime => 10 | KUuid => 11 | KRange => 12 | KFunction => 13 | KPredicate => 14 | KObject => 15 end.
Definition W_ex (tt_names : list string) : world := {|
  env := fun n => existsb (String.eqb n) tt_names;
  isinst := fun k c => Nat.eqb (kind_cls k) c || (match k with KBool => Nat.eqb c 1 | _ => false end);
  fn_sem := fun f x => match f with
            | O => Some (match x with VQ _ q _ => Qlt_bool 2 q | _ => false end)
            | _ => Some (match x with VQ KBool _ _ => true | _ => false end) end;
  comp_sem := fun _ x => Some x;
  regex_sem := fun _ _ _ => None;
  lazy_sem := fun _ _ => None;
  self_sem := fun _ _ => None |}.
