(* DotGraph.v — C17, part 1: definitions only.

   (1) MODEL (hand-written, tied to /repo by the C17 correspondence run + source fingerprint) of
       predicate/formatter/format_dot.py:  `to_value` (the big `match`), `_add_node`, `_add_node_left_right`,
       `_add_node_with_child`, `render`, `render_original`/`render_optimized`/`to_dot` (two clusters, one shared
       `itertools.count()`).  graphviz.Digraph is used by the code as a recorder only, so it is modelled as data:
       a state monad over (next_id, nodes, edges); node names f"{name}_{n}" are pairs (n, name); labels are
       structured values, not text (the harness parses the implementation's label text back into this structure).
       NOT modelled: `render_lazy_references` (dashed self-reference edges, found by walking Python frames) and
       DictOfPredicate (supported by the code, not a constructor of `pred`).
   (2) SPECIFICATION written from the property's text: `label_of` (what a node must show), `children`, `size`,
       `label_tree`, `supported`.
   (3) `decode`: an independent reader that rebuilds the ordered tree from a recorded graph (solid edges in emission
       order) and refuses anything that is not a tree spanning all recorded nodes.
   (4) `graph_eqb`: executable comparison used by the correspondence run inside vm_compute. *)
From Coq Require Import QArith Bool List Arith String.
From PP Require Import Prelude.Base Prelude.Pred.
Import ListNotations.
Local Close Scope Q_scope.
Local Open Scope nat_scope.

(* ------------------------------------------------------------------------------------------------ *)
(* labels as structured values                                                                        *)
(* ------------------------------------------------------------------------------------------------ *)
Inductive opk :=                     (* label text in format_dot.py *)
| OAll      (* "∀" *)      | OFalse   (* "false" *)   | OTrue   (* "true" *)   | OAnd  (* "∧" *)
| OAny      (* "∃" *)      | OComp    (* "f" *)       | OFalsy  (* "falsy" *)  | OTruthy (* "truthy" *)
| ONone     (* "x = None" *) | ONot   (* "¬" *)       | OOr     (* "∨" *)      | ORoot (* "root" *)
| OTee      (* "tee" *)    | OThis    (* "this" *)    | OXor    (* "⊻" *).
Inductive cmpk := CEq (* "x = v" *) | CNe (* "x ≠ v" *) | CGe (* "x ≥ v" *) | CGt (* "x > v" *) | CLe (* "x ≤ v" *) | CLt (* "x < v" *).
Inductive setk := SIn (* "x ∈ {..}" *) | SNotIn (* "x ∉ {..}" *) | SSubset (* "x ⊆ {..}" *) | SRealSubset (* "x ⊂ {..}" *)
                | SSuperset (* "x ⊇ {..}" *) | SRealSuperset (* "x ⊃ {..}" *).

Inductive label :=
| LOp (o : opk)
| LConst (c : cmpk) (v : Q)                                       (* "x <c> v" *)
| LRange (lo : Q) (lo_strict : bool) (hi : Q) (hi_strict : bool)  (* "lo <|≤ x <|≤ hi": lower bound LEFT, upper bound RIGHT *)
| LSet (o : setk) (s : qset)                                      (* "x <o> {a, b, ...}" *)
| LFn (f : nat)                                                   (* "fn: <name of function f>" *)
| LInstance (cls : nat)                                           (* "is_<name of class cls>_p" *)
| LName (s : string)                                              (* the bare name of a variable / reference *)
| LText (s : string).                                             (* any other text: never produced by the model *)

(* ------------------------------------------------------------------------------------------------ *)
(* (1) the model                                                                                      *)
(* ------------------------------------------------------------------------------------------------ *)
Inductive exn := ValueError | IndexError.
Inductive result (A : Type) : Type := Ret (a : A) | Raise (e : exn).
Arguments Ret {A} a.
Arguments Raise {A} e.

Inductive style := Solid | Dashed.
Definition node := (nat * string * label)%type.      (* f"{name}_{n}" [label=...] *)
Definition edge := (nat * nat * style)%type.         (* tail -> head [style] *)
Record graph := mkGraph { next_id : nat; nodes : list node; edges : list edge }.

Definition M (A : Type) := graph -> result (A * graph).
Definition mret {A} (a : A) : M A := fun g => Ret (a, g).
Definition mraise {A} (e : exn) : M A := fun _ => Raise e.
Definition mbind {A B} (m : M A) (f : A -> M B) : M B :=
  fun g => match m g with Ret (a, g') => f a g' | Raise e => Raise e end.
Local Notation "'let*' x := m 'in' f" := (mbind m (fun x => f)) (at level 200, x name, m at level 100, f at level 200).

(* def _add_node(name, *, label, predicate): node = next(node_nr); dot.node(f"{name}_{node}", label=label); return it *)
Definition add_node (name : string) (l : label) : M nat :=
  fun g => Ret (next_id g, mkGraph (S (next_id g)) (nodes g ++ [(next_id g, name, l)]) (edges g)).
(* dot.edge(a, b) *)
Definition add_edge (a b : nat) : M unit :=
  fun g => Ret (tt, mkGraph (next_id g) (nodes g) (edges g ++ [(a, b, Solid)])).

(* node = _add_node(...); dot.edge(node, to_value(left)); dot.edge(node, to_value(right)); return node
   -- the parent is allocated first, each edge is added after the child's whole subtree has been rendered *)
Definition add_node_left_right (name : string) (l : label) (m_left m_right : M nat) : M nat :=
  let* nd := add_node name l in
  let* a := m_left in
  let* _ := add_edge nd a in
  let* b := m_right in
  let* _ := add_edge nd b in
  mret nd.
Definition add_node_with_child (name : string) (l : label) (m_child : M nat) : M nat :=
  let* nd := add_node name l in
  let* c := m_child in
  let* _ := add_edge nd c in
  mret nd.

(* def to_value(predicate): match predicate: ...   (cases in the order of the source) *)
Fixpoint to_value (p : pred) : M nat :=
  match p with
  | PAll q => add_node_with_child "all" (LOp OAll) (to_value q)
  | PFalse => add_node "F" (LOp OFalse)
  | PTrue => add_node "T" (LOp OTrue)
  | PAnd l r => add_node_left_right "and" (LOp OAnd) (to_value l) (to_value r)
  | PAny q => add_node_with_child "any" (LOp OAny) (to_value q)
  | PComp _ q => add_node_with_child "comp" (LOp OComp) (to_value q)
  | PEq v => add_node "eq" (LConst CEq v)
  | PIsFalsy => add_node "falsy" (LOp OFalsy)
  | PIsTruthy => add_node "truthy" (LOp OTruthy)
  | PFn f => add_node "fn" (LFn f)
  | PGe v => add_node "ge" (LConst CGe v)
  | PGeLe lower upper => add_node "gele" (LRange lower false upper false)
  | PGeLt lower upper => add_node "gelt" (LRange lower false upper true)
  | PGt v => add_node "gt" (LConst CGt v)
  | PGtLe lower upper => add_node "gtle" (LRange lower true upper false)
  | PGtLt lower upper => add_node "gtlt" (LRange lower true upper true)
  | PIn v => add_node "in" (LSet SIn v)
  (* DictOfPredicate: not a constructor of `pred` *)
  | PIsInstance klass =>                      (* name = klass[0].__name__ *)
      match klass with
      | k :: _ => add_node "instance" (LInstance k)
      | [] => mraise IndexError
      end
  | PIsNone => add_node "none" (LOp ONone)
  | PRealSubset v => add_node "real_subset" (LSet SRealSubset v)
  | PSubset v => add_node "subset" (LSet SSubset v)
  | PRealSuperset v => add_node "real_superset" (LSet SRealSuperset v)
  | PSuperset v => add_node "superset" (LSet SSuperset v)
  | PLazy ref => add_node "lazy" (LName ref)
  | PLe v => add_node "le" (LConst CLe v)
  | PLt v => add_node "lt" (LConst CLt v)
  | PNamed name => add_node "named" (LName name)
  | PNotIn v => add_node "in" (LSet SNotIn v)          (* sic: the node name prefix is "in" *)
  | PNe v => add_node "ne" (LConst CNe v)
  | PNot q => add_node_with_child "not" (LOp ONot) (to_value q)
  | POr l r => add_node_left_right "or" (LOp OOr) (to_value l) (to_value r)
  | PRoot _ => add_node "root" (LOp ORoot)
  | PTee _ => add_node "tee" (LOp OTee)
  | PThis _ => add_node "this" (LOp OThis)
  | PXor l r => add_node_left_right "xor" (LOp OXor) (to_value l) (to_value r)
  (* case _: raise ValueError(f"Unknown predicate type {predicate}") *)
  | PIsNotNone | PIsEmpty | PIsNotEmpty | PHasKey _ | PHasLength _ | PRegex _ _ | PProperty _ | PSetOf _ =>
      mraise ValueError
  end.

(* def render(dot, predicate, node_nr): to_value(predicate); render_lazy_references(...)  [the latter: not modelled]
   `dot` is a fresh sub-graph; node_nr is the shared counter, here at n0 *)
Definition render (p : pred) (n0 : nat) : result graph :=
  match to_value p (mkGraph n0 [] []) with
  | Ret (_, g) => Ret g
  | Raise e => Raise e
  end.

(* def to_dot(predicate, predicate_string, show_optimized): node_nr = count(); render_original(...);
   if show_optimized: render_optimized(...)   -- `optimized` stands for optimize(predicate) *)
Definition to_dot (p : pred) (optimized : option pred) : result (graph * option graph) :=
  match render p 0 with
  | Raise e => Raise e
  | Ret g1 =>
      match optimized with
      | None => Ret (g1, None)
      | Some q =>
          match render q (next_id g1) with
          | Raise e => Raise e
          | Ret g2 => Ret (g1, Some g2)
          end
      end
  end.

(* ------------------------------------------------------------------------------------------------ *)
(* (2) the specification (from the property's text, independent of the code above)                    *)
(* ------------------------------------------------------------------------------------------------ *)
Inductive ltree := LNode (l : label) (kids : list ltree).

(* what the node of a predicate must show: its operator and its constants; a range shows the lower bound on the
   left, the upper bound on the right, and per end "<" (strict = true) or "≤" (strict = false).
   None: a kind to_dot does not support (or an is_instance_p() without any class, which has no name to show) *)
Definition label_of (p : pred) : option label :=
  match p with
  | PTrue => Some (LOp OTrue)          | PFalse => Some (LOp OFalse)
  | PNamed n => Some (LName n)         | PLazy r => Some (LName r)
  | PFn f => Some (LFn f)
  | PAnd _ _ => Some (LOp OAnd)        | POr _ _ => Some (LOp OOr)      | PXor _ _ => Some (LOp OXor)
  | PNot _ => Some (LOp ONot)          | PAll _ => Some (LOp OAll)      | PAny _ => Some (LOp OAny)
  | PComp _ _ => Some (LOp OComp)
  | PEq v => Some (LConst CEq v)       | PNe v => Some (LConst CNe v)
  | PGe v => Some (LConst CGe v)       | PGt v => Some (LConst CGt v)
  | PLe v => Some (LConst CLe v)       | PLt v => Some (LConst CLt v)
  | PGeLe lo hi => Some (LRange lo false hi false)     (* lo ≤ x ≤ hi *)
  | PGeLt lo hi => Some (LRange lo false hi true)      (* lo ≤ x < hi *)
  | PGtLe lo hi => Some (LRange lo true hi false)      (* lo < x ≤ hi *)
  | PGtLt lo hi => Some (LRange lo true hi true)       (* lo < x < hi *)
  | PIn s => Some (LSet SIn s)         | PNotIn s => Some (LSet SNotIn s)
  | PSubset s => Some (LSet SSubset s) | PRealSubset s => Some (LSet SRealSubset s)
  | PSuperset s => Some (LSet SSuperset s) | PRealSuperset s => Some (LSet SRealSuperset s)
  | PIsInstance (k :: _) => Some (LInstance k)
  | PIsInstance [] => None
  | PIsNone => Some (LOp ONone)        | PIsFalsy => Some (LOp OFalsy)  | PIsTruthy => Some (LOp OTruthy)
  | PTee _ => Some (LOp OTee)          | PThis _ => Some (LOp OThis)    | PRoot _ => Some (LOp ORoot)
  | PIsNotNone | PIsEmpty | PIsNotEmpty | PHasKey _ | PHasLength _ | PRegex _ _ | PProperty _ | PSetOf _ => None
  end.

(* the operands of a predicate, in operand order *)
Definition children (p : pred) : list pred :=
  match p with
  | PAnd l r | POr l r | PXor l r => [l; r]
  | PNot q | PAll q | PAny q | PComp _ q | PSetOf q => [q]
  | _ => []
  end.

(* number of sub-predicates (the predicate itself included) *)
Fixpoint size (p : pred) : nat :=
  match p with
  | PAnd l r | POr l r | PXor l r => S (size l + size r)
  | PNot q | PAll q | PAny q | PComp _ q | PSetOf q => S (size q)
  | _ => 1
  end.

Definition lab (p : pred) : label := match label_of p with Some l => l | None => LText "" end.

(* the tree the drawing must be: same shape and operand order as the predicate, truthful labels
   (only meaningful when `supported p`; LText "" is a placeholder elsewhere) *)
Fixpoint label_tree (p : pred) : ltree :=
  match p with
  | PAnd l r | POr l r | PXor l r => LNode (lab p) [label_tree l; label_tree r]
  | PNot q | PAll q | PAny q | PComp _ q | PSetOf q => LNode (lab p) [label_tree q]
  | _ => LNode (lab p) []
  end.

Definition known (p : pred) : bool := match label_of p with Some _ => true | None => false end.

(* every node of the tree is of a supported kind *)
Fixpoint supported (p : pred) : bool :=
  match p with
  | PAnd l r | POr l r | PXor l r => known p && supported l && supported r
  | PNot q | PAll q | PAny q | PComp _ q | PSetOf q => known p && supported q
  | _ => known p
  end.

(* every is_instance node names at least one class (IsInstancePredicate.__repr__ itself needs klass[0]) *)
Fixpoint inst_nonempty (p : pred) : bool :=
  match p with
  | PAnd l r | POr l r | PXor l r => inst_nonempty l && inst_nonempty r
  | PNot q | PAll q | PAny q | PComp _ q | PSetOf q => inst_nonempty q
  | PIsInstance [] => false
  | _ => true
  end.

(* ------------------------------------------------------------------------------------------------ *)
(* (3) decode: read a recorded graph back as an ordered tree                                          *)
(* ------------------------------------------------------------------------------------------------ *)
Definition node_id (x : node) : nat := fst (fst x).
Definition node_name (x : node) : string := snd (fst x).
Definition node_label (x : node) : label := snd x.
Definition e_src (e : edge) : nat := fst (fst e).
Definition e_tgt (e : edge) : nat := snd (fst e).
Definition is_solid (e : edge) : bool := match snd e with Solid => true | Dashed => false end.

Definition memb (x : nat) (l : list nat) : bool := existsb (Nat.eqb x) l.
Fixpoint nodup_b (l : list nat) : bool :=
  match l with [] => true | x :: r => negb (memb x r) && nodup_b r end.

Fixpoint label_at (ns : list node) (i : nat) : option label :=
  match ns with
  | [] => None
  | x :: r => if Nat.eqb (node_id x) i then Some (node_label x) else label_at r i
  end.
(* heads of the solid edges leaving i, in emission order *)
Definition kids_at (es : list edge) (i : nat) : list nat :=
  map e_tgt (filter (fun e => is_solid e && Nat.eqb (e_src e) i) es).

Fixpoint sequence {A} (l : list (option A)) : option (list A) :=
  match l with
  | [] => Some []
  | None :: _ => None
  | Some a :: r => match sequence r with Some r' => Some (a :: r') | None => None end
  end.

Fixpoint build (lb : nat -> option label) (ch : nat -> list nat) (fuel : nat) (i : nat) : option ltree :=
  match fuel with
  | O => None
  | S f =>
      match lb i with
      | None => None
      | Some l => match sequence (map (build lb ch f) (ch i)) with
                  | Some ts => Some (LNode l ts)
                  | None => None
                  end
      end
  end.

Fixpoint tsize (t : ltree) : nat :=
  match t with LNode _ ks => S (fold_right (fun k acc => tsize k + acc) 0 ks) end.

(* Some t  iff  the recorded nodes and SOLID edges are exactly the ordered tree t:
   node ids pairwise distinct; every solid edge joins recorded nodes; #solid edges = #nodes - 1; no node has two
   parents (so exactly one node, the root, has none); the tree read from the root (children in edge emission
   order) uses every node.  The order in which the NODES were recorded plays no role. *)
Definition decode (g : graph) : option ltree :=
  let ids := map node_id (nodes g) in
  let solid := filter is_solid (edges g) in
  let heads := map e_tgt solid in
  match find (fun i => negb (memb i heads)) ids with
  | None => None
  | Some r =>
      if nodup_b ids
         && forallb (fun e => memb (e_src e) ids && memb (e_tgt e) ids) solid
         && Nat.eqb (S (List.length solid)) (List.length ids)
         && nodup_b heads
      then match build (label_at (nodes g)) (kids_at (edges g)) (List.length ids) r with
           | Some t => if Nat.eqb (tsize t) (List.length ids) then Some t else None
           | None => None
           end
      else None
  end.

(* ------------------------------------------------------------------------------------------------ *)
(* (4) executable comparison for the correspondence run                                               *)
(* ------------------------------------------------------------------------------------------------ *)
Definition opk_code (o : opk) : nat :=
  match o with OAll => 0 | OFalse => 1 | OTrue => 2 | OAnd => 3 | OAny => 4 | OComp => 5 | OFalsy => 6 | OTruthy => 7
             | ONone => 8 | ONot => 9 | OOr => 10 | ORoot => 11 | OTee => 12 | OThis => 13 | OXor => 14 end.
Definition cmpk_code (c : cmpk) : nat := match c with CEq => 0 | CNe => 1 | CGe => 2 | CGt => 3 | CLe => 4 | CLt => 5 end.
Definition setk_code (c : setk) : nat :=
  match c with SIn => 0 | SNotIn => 1 | SSubset => 2 | SRealSubset => 3 | SSuperset => 4 | SRealSuperset => 5 end.

Definition label_eqb (a b : label) : bool :=
  match a, b with
  | LOp x, LOp y => Nat.eqb (opk_code x) (opk_code y)
  | LConst c v, LConst d w => Nat.eqb (cmpk_code c) (cmpk_code d) && Qeq_bool v w
  | LRange l1 s1 h1 t1, LRange l2 s2 h2 t2 => Qeq_bool l1 l2 && Bool.eqb s1 s2 && Qeq_bool h1 h2 && Bool.eqb t1 t2
  | LSet o s, LSet o' s' => Nat.eqb (setk_code o) (setk_code o') && set_eq s s' && Nat.eqb (List.length s) (List.length s')
  | LFn f, LFn g => Nat.eqb f g
  | LInstance c, LInstance d => Nat.eqb c d
  | LName s, LName t => String.eqb s t
  | LText s, LText t => String.eqb s t
  | _, _ => false
  end.

Fixpoint lst_eqb {A} (eqb : A -> A -> bool) (l1 l2 : list A) : bool :=
  match l1, l2 with
  | [], [] => true
  | a :: r, b :: s => eqb a b && lst_eqb eqb r s
  | _, _ => false
  end.

Definition node_eqb (a b : node) : bool :=
  Nat.eqb (node_id a) (node_id b) && String.eqb (node_name a) (node_name b) && label_eqb (node_label a) (node_label b).
Definition edge_eqb (a b : edge) : bool :=
  Nat.eqb (e_src a) (e_src b) && Nat.eqb (e_tgt a) (e_tgt b) && Bool.eqb (is_solid a) (is_solid b).

(* same nodes (id, name prefix, label) in the same emission order and same SOLID edges in the same emission
   order; dashed edges of the implementation are outside the model and are checked by the harness *)
Definition graph_eqb (model impl : graph) : bool :=
  lst_eqb node_eqb (nodes model) (nodes impl)
  && lst_eqb edge_eqb (filter is_solid (edges model)) (filter is_solid (edges impl)).

Fixpoint ltree_eqb (a b : ltree) {struct a} : bool :=
  match a, b with
  | LNode l ks, LNode l' ks' =>
      label_eqb l l' &&
      (fix go (xs : list ltree) (ys : list ltree) {struct xs} : bool :=
         match xs, ys with
         | [], [] => true
         | x :: xr, y :: yr => ltree_eqb x y && go xr yr
         | _, _ => false
         end) ks ks'
  end.
