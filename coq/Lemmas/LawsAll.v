From Coq Require Import QArith Bool List Arith String Lia.
From PP Require Import Prelude.Base Prelude.Val Prelude.Pred Prelude.Sem Gen.Negate Gen.Implies Gen.Optimize
  Lemmas.PeqFacts Lemmas.Laws Lemmas.LawsSets Lemmas.LawsAtoms Lemmas.LawsIn Lemmas.LawsNotIn.
Import ListNotations.

Theorem laws_all W n p : law_atom_ok p = true -> law_statement W n p.
Proof.
  intros H. destruct (is_In p) eqn:E1; [destruct p; try discriminate E1; apply law_in|].
  destruct (is_NotIn p) eqn:E2; [destruct p; try discriminate E2; apply law_notin|].
  destruct (is_Subset p) eqn:E3.
  - destruct p; try discriminate E3. apply law_subset. unfold law_atom_ok in H. cbn in H. exact H.
  - apply laws_other; assumption.
Qed.
