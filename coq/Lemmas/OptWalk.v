(* OptWalk.v — the walker over translated optimizer functions and the leaf solver for soundness. *)
From Coq Require Import QArith Lqa Bool List Arith String Lia.
From PP Require Import Prelude.Base Prelude.Val Prelude.Pred Prelude.Sem Gen.Negate Gen.Implies Gen.Optimize
  Lemmas.PeqFacts Lemmas.NegImp Lemmas.OptBase.
Import ListNotations.

(* induction hypothesis: every optimizer entry point is sound at this fuel *)
Definition IH (W : world) (fuel : nat) : Prop :=
  (forall p, sound_res W p (optimize W fuel p)) /\
  (forall p, sound_res W p (optimize_all_predicate W fuel p)) /\
  (forall p, sound_res W p (optimize_any_predicate W fuel p)) /\
  (forall p, sound_res W p (optimize_not_predicate W fuel p)) /\
  (forall p, sound_res W p (optimize_and_predicate W fuel p)) /\
  (forall p, sound_res W p (optimize_or_predicate W fuel p)) /\
  (forall p, sound_res W p (optimize_xor_predicate W fuel p)).

Ltac use_ih IHf x :=
  eapply (sound_bind _ _ _ _ (fun y => agree _ y x)); [intros ? Hy; apply IHf; exact Hy | intros ? ?].

Ltac walk IHs :=
  let IHo := fresh "IHo" in let IHall := fresh "IHall" in let IHany := fresh "IHany" in let IHnot := fresh "IHnot" in
  let IHand := fresh "IHand" in let IHor := fresh "IHor" in let IHxor := fresh "IHxor" in
  destruct IHs as (IHo & IHall & IHany & IHnot & IHand & IHor & IHxor);
  cbv zeta;
  repeat first
  [ match goal with
    | |- sound_blk _ _ (ret None) => apply sound_ret_none
    | |- sound_blk _ _ (taint _ _) => apply sound_taint
    | |- sound_res _ _ Crash => apply sound_crash
    | |- sound_res _ _ (finish _) => apply sound_finish
    | |- sound_blk _ _ (seq (if ?c then ret (Some _) else ret None) _) =>
        (* `if c: return e` followed by more code: keep the path condition for what follows *)
        destruct c eqn:?; [rewrite seq_ret_some | rewrite seq_ret_none]
    | |- sound_blk _ _ (seq _ _) => apply sound_seq
    | |- sound_blk _ _ (ret (Some _)) => apply sound_ret_some
    | |- sound_res _ _ (match ?m with _ => _ end) => destruct m eqn:?; inv; subst; cbv zeta
    | |- sound_blk _ _ (match ?m with _ => _ end) => destruct m eqn:?; inv; subst; cbv zeta
    | |- sound_blk _ _ (if ?c then _ else _) => destruct c eqn:?; cbv zeta
    | |- sound_blk _ _ (bind (optimize _ _ ?x) _) => use_ih IHo x
    | |- sound_blk _ _ (bind (optimize_all_predicate _ _ ?x) _) => use_ih IHall x
    | |- sound_blk _ _ (bind (optimize_any_predicate _ _ ?x) _) => use_ih IHany x
    | |- sound_blk _ _ (bind (optimize_not_predicate _ _ ?x) _) => use_ih IHnot x
    | |- sound_blk _ _ (bind (optimize_and_predicate _ _ ?x) _) => use_ih IHand x
    | |- sound_blk _ _ (bind (optimize_or_predicate _ _ ?x) _) => use_ih IHor x
    | |- sound_blk _ _ (bind (optimize_xor_predicate _ _ ?x) _) => use_ih IHxor x
    end ].

(* leaf: `agree Q P` with guard hypotheses *)
Ltac split_ands :=
  repeat match goal with H : _ && _ = true |- _ => apply andb_true_iff in H; destruct H end.

(* use every `agree e v` hypothesis at the point x (v is an operand of the original term, so that
   `defined W v x = true` is among the facts obtained from the definedness of the original) *)
Ltac agree_at W x :=
  repeat match goal with
  | H : agree W ?e ?v |- _ =>
      let Hx := fresh "A" in
      assert (Hx : defined W e x = true /\ beval W e x = beval W v x) by (apply H; def_side);
      destruct Hx; clear H
  end.

Ltac solve_point W x :=
  first
  [ solve [ abstract_bools W; destruct_bools ]
  | solve [ try (let h := fresh "h" in set (h := hashable x) in *; clearbody h);
            let qx := fresh "qx" in
            destruct x as [?k qx ?t| |?k ?i ?t|?k ?items];
            cbn [scalar_cmp veq vmem is_scalarQ is_coll is_setv is_dictv items_of truthy] in *;
            try discriminate;
            try (set_facts qx);
            abstract_bools W;
            try solve [destruct_bools];
            try solve [mem_bools; destruct_bools; qreflect; use_trivial_premises; congruence];
            try solve [mem_bools; qreflect; destruct_bools] ] ].

Ltac pointwise W :=
  let x := fresh "x" in let D := fresh "D" in
  intros x D;
  cbn [defined] in D; split_ands;
  agree_at W x;
  guard_facts W x;
  repeat match goal with
  | H : ?c = true |- context [if ?c then _ else _] => rewrite H
  | H : ?c = false |- context [if ?c then _ else _] => rewrite H
  end;
  cbn [beval defined] in *;
  rewrite ?vsubset_inter in *;
  split_ands;
  negate_facts W x;
  cbn [beval defined] in *;
  repeat match goal with Hd : defined W ?p x = true |- _ => rewrite Hd in * end;
  cbn [andb orb negb] in *; use_trivial_premises;
  split; solve_point W x.

(* guards on terms whose head constructors are known reduce; pure helper functions are unfolded and inverted *)
Ltac simpl_guards :=
  try match goal with
  | H : peq ?a ?b = true |- _ => solve [ cbn [peq] in H; cbn_proj_in H; discriminate H ]
  end.
Ltac unfold_helpers :=
  repeat match goal with
  | H : optimize_xor_not _ _ = Some _ |- _ => unfold optimize_xor_not in H; inv
  | H : optimize_or_not _ _ = Some _ |- _ => unfold optimize_or_not in H; inv
  end.

Ltac leaf W :=
  unfold_helpers; simpl_guards; try discriminate;
  first
  [ solve [normalise; quantifier_rule]
  | solve [apply optimize_in_agree]
  | solve [apply optimize_not_in_agree]
  | solve [pointwise W]
  | solve [normalise; pointwise W]
  | solve [normalise; eapply agree_trans; [apply optimize_in_agree|]; pointwise W]
  | solve [normalise; eapply agree_trans; [apply optimize_not_in_agree|]; pointwise W] ].
