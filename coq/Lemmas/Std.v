(* Std.v — the module-level constants and one-line factories of standard_predicates.py / set_predicates.py as
   model terms (HAND-WRITTEN; tied by the source fingerprints in tools/py2coq/call_table.json ("std") and by the C08
   correspondence run, which evaluates every exported name next to these definitions). Class ids are those of
   tools/corr/enc.py CLASS_LIST. *)
From Coq Require Import QArith Bool List Arith String.
From PP Require Import Prelude.Base Prelude.Val Prelude.Pred Prelude.Sem.
Import ListNotations.
Open Scope Q_scope.

Definition c_bool := 0%nat. Definition c_int := 1%nat. Definition c_float := 2%nat. Definition c_complex := 3%nat.
Definition c_str := 4%nat. Definition c_none := 5%nat. Definition c_list := 6%nat. Definition c_tuple := 7%nat.
Definition c_set := 8%nat. Definition c_dict := 9%nat. Definition c_datetime := 10%nat. Definition c_uuid := 11%nat.
Definition c_range := 12%nat. Definition c_callable := 13%nat. Definition c_container := 14%nat.
Definition c_iterable := 15%nat. Definition c_hashable := 16%nat. Definition c_predicate := 17%nat.

Definition eq_p (v : Q) := PEq v.   Definition ne_p (v : Q) := PNe v.
Definition ge_p (v : Q) := PGe v.   Definition gt_p (v : Q) := PGt v.
Definition le_p (v : Q) := PLe v.   Definition lt_p (v : Q) := PLt v.
Definition ge_le_p (lo hi : Q) := PGeLe lo hi.   Definition ge_lt_p (lo hi : Q) := PGeLt lo hi.
Definition gt_le_p (lo hi : Q) := PGtLe lo hi.   Definition gt_lt_p (lo hi : Q) := PGtLt lo hi.
Definition in_p (s : qset) := PIn s.   Definition not_in_p (s : qset) := PNotIn s.
Definition is_subset_p (s : qset) := PSubset s.   Definition is_real_subset_p (s : qset) := PRealSubset s.
Definition is_superset_p (s : qset) := PSuperset s.   Definition is_real_superset_p (s : qset) := PRealSuperset s.
Definition neg_p := lt_p 0.   Definition zero_p := eq_p 0.   Definition pos_p := gt_p 0.
Definition eq_true_p := eq_p 1.   Definition eq_false_p := eq_p 0.
Definition is_instance_p (ks : list nat) := PIsInstance ks.
Definition is_bool_p := is_instance_p [c_bool].   Definition is_int_p := is_instance_p [c_int].
Definition is_float_p := is_instance_p [c_float].   Definition is_complex_p := is_instance_p [c_complex].
Definition is_str_p := is_instance_p [c_str].   Definition is_list_p := is_instance_p [c_list].
Definition is_tuple_p := is_instance_p [c_tuple].   Definition is_set_p := is_instance_p [c_set].
Definition is_dict_p := is_instance_p [c_dict].   Definition is_datetime_p := is_instance_p [c_datetime].
Definition is_uuid_p := is_instance_p [c_uuid].   Definition is_range_p := is_instance_p [c_range].
Definition is_callable_p := is_instance_p [c_callable].   Definition is_container_p := is_instance_p [c_container].
Definition is_iterable_p := is_instance_p [c_iterable].   Definition is_hashable_p := is_instance_p [c_hashable].
Definition is_predicate_p := is_instance_p [c_predicate].
Definition is_none_p := PIsNone.   Definition is_not_none_p := PIsNotNone.
Definition is_falsy_p := PIsFalsy.   Definition is_truthy_p := PIsTruthy.
Definition is_empty_p := PIsEmpty.   Definition is_not_empty_p := PIsNotEmpty.
Definition all_p (p : pred) := PAll p.   Definition any_p (p : pred) := PAny p.
Definition has_length_p (n : Q) := PHasLength n.   Definition has_key_p (k : Q) := PHasKey k.
Definition comp_p (f : nat) (p : pred) := PComp f p.   Definition fn_p (f : nat) := PFn f.   Definition tee_p (f : nat) := PTee f.
Definition is_set_of_p (p : pred) := PSetOf p.
Definition is_iterable_of_p (p : pred) := PAnd is_iterable_p (all_p p).
Definition is_single_or_iterable_of_p (p : pred) := POr (is_iterable_of_p p) p.
Definition is_list_of_p (p : pred) := PAnd is_list_p (all_p p).
Definition is_single_or_list_of_p (p : pred) := POr (is_list_of_p p) p.
