(* DictOf.v — HAND-WRITTEN model of predicate/dict_of_predicate.py (DictOfPredicate is not a constructor of `pred`: its
   field is a list of (key predicate, value predicate) pairs; a str key has already become eq_p(str) in __init__):
       def __call__(self, x):
           if not isinstance(x, dict): return False
           if not x and self.key_value_predicates: return False
           for key, value in x.items():                                            # every item is accepted by some pair
               if not any(key_p(key) and value_p(value) for key_p, value_p in self.key_value_predicates): return False
           for key_p, value_p in self.key_value_predicates:                        # no pair is contradicted by an item
               if any(key_p(key) and not value_p(value) for key, value in x.items()): return False
           return True
   A dict is modelled by its items in insertion order (`val` keeps only the keys of a dict).  Evaluation order and
   exceptions (None) are those of the code: `and` / any() short-circuit, an exception propagates.
   tie: fingerprint of the class + differential run (tools/props/c09.py). *)
From Coq Require Import QArith Bool List Arith Lia.
From PP Require Import Prelude.Base Prelude.Val Prelude.Pred Prelude.Sem.
Import ListNotations.
Close Scope Q_scope.
Open Scope nat_scope.

Definition kvpred := (pred * pred)%type.
Definition item := (val * val)%type.

(* key_p(key) and value_p(value) *)
Definition kv_and (W : world) (kv : kvpred) (it : item) : option bool :=
  match ev W (fst kv) (fst it) with Some true => ev W (snd kv) (snd it) | o => o end.
(* key_p(key) and not value_p(value) *)
Definition kv_viol (W : world) (kv : kvpred) (it : item) : option bool :=
  match ev W (fst kv) (fst it) with Some true => option_map negb (ev W (snd kv) (snd it)) | o => o end.

(* any(f(y) for y in ys): left to right, stops at the first True, an exception propagates *)
Fixpoint any_of {A} (f : A -> option bool) (ys : list A) : option bool :=
  match ys with [] => Some false | y :: r => match f y with Some false => any_of f r | o => o end end.

(* for y in ys: if not f(y): return False  ... (then) True *)
Fixpoint all_of {A} (f : A -> option bool) (ys : list A) : option bool :=
  match ys with [] => Some true | y :: r => match f y with Some true => all_of f r | o => o end end.

Definition dict_of_items (W : world) (kvs : list kvpred) (items : list item) : option bool :=
  match items, kvs with
  | [], _ :: _ => Some false
  | _, _ =>
      match all_of (fun it => any_of (fun kv => kv_and W kv it) kvs) items with
      | Some true => all_of (fun kv => option_map negb (any_of (fun it => kv_viol W kv it) items)) kvs
      | o => o
      end
  end.

(* ---- the plain meaning, when it answers True ---- *)
Lemma any_of_true {A} (f : A -> option bool) : forall ys, any_of f ys = Some true ->
  exists y, In y ys /\ f y = Some true.
Proof.
  induction ys as [|y r IH]; cbn; [discriminate|]. destruct (f y) as [[|]|] eqn:E; intros H; try discriminate.
  - exists y. auto.
  - destruct (IH H) as (z & Hz & Hf). exists z. auto.
Qed.

Lemma any_of_false {A} (f : A -> option bool) : forall ys, any_of f ys = Some false <-> Forall (fun y => f y = Some false) ys.
Proof.
  induction ys as [|y r IH]; cbn; [split; [constructor|reflexivity]|].
  destruct (f y) as [[|]|] eqn:E.
  - split; [discriminate|intros H; inversion H; congruence].
  - rewrite IH. split; [intros H; constructor; assumption|intros H; inversion H; assumption].
  - split; [discriminate|intros H; inversion H; congruence].
Qed.

Lemma all_of_true {A} (f : A -> option bool) : forall ys, all_of f ys = Some true <-> Forall (fun y => f y = Some true) ys.
Proof.
  induction ys as [|y r IH]; cbn; [split; [constructor|reflexivity]|].
  destruct (f y) as [[|]|] eqn:E.
  - rewrite IH. split; [intros H; constructor; assumption|intros H; inversion H; assumption].
  - split; [discriminate|intros H; inversion H; congruence].
  - split; [discriminate|intros H; inversion H; congruence].
Qed.

(* True exactly when: an empty dict only for an empty list of pairs; every item is accepted by some pair (the pairs
   before it answering False without raising); and no pair is contradicted by any item (all checks answering) *)
Theorem dict_of_true W kvs items :
  dict_of_items W kvs items = Some true <->
    (items = [] -> kvs = []) /\
    Forall (fun it => any_of (fun kv => kv_and W kv it) kvs = Some true) items /\
    Forall (fun kv => Forall (fun it => kv_viol W kv it = Some false) items) kvs.
Proof.
  unfold dict_of_items.
  assert (Hmain : match all_of (fun it => any_of (fun kv => kv_and W kv it) kvs) items with
                  | Some true => all_of (fun kv => option_map negb (any_of (fun it => kv_viol W kv it) items)) kvs
                  | o => o end = Some true <->
                  Forall (fun it => any_of (fun kv => kv_and W kv it) kvs = Some true) items /\
                  Forall (fun kv => Forall (fun it => kv_viol W kv it = Some false) items) kvs).
  { destruct (all_of (fun it => any_of (fun kv => kv_and W kv it) kvs) items) as [[|]|] eqn:E.
    - apply all_of_true in E. rewrite all_of_true. split.
      + intros H. split; [exact E|]. eapply Forall_impl; [|exact H]. intros kv Hkv. change (option_map negb (any_of (fun it => kv_viol W kv it) items) = Some true) in Hkv.
        destruct (any_of (fun it => kv_viol W kv it) items) as [[|]|] eqn:E2; try discriminate. apply any_of_false. exact E2.
      + intros [_ H]. eapply Forall_impl; [|exact H]. intros kv Hkv. apply any_of_false in Hkv.
        change (option_map negb (any_of (kv_viol W kv) items) = Some true). rewrite Hkv. reflexivity.
    - split; [discriminate|]. intros [H _]. apply all_of_true in H. congruence.
    - split; [discriminate|]. intros [H _]. apply all_of_true in H. congruence. }
  destruct items as [|it items]; destruct kvs as [|kv kvs].
  - rewrite Hmain. tauto.
  - split; [discriminate|]. intros [H _]. specialize (H eq_refl). discriminate.
  - rewrite Hmain. split; [intros H; split; [discriminate|exact H]|tauto].
  - rewrite Hmain. split; [intros H; split; [discriminate|exact H]|tauto].
Qed.

(* an item accepted by a pair: its key satisfies the key predicate and its value the value predicate *)
Lemma accepted_means W kvs it : any_of (fun kv => kv_and W kv it) kvs = Some true ->
  exists kv, In kv kvs /\ ev W (fst kv) (fst it) = Some true /\ ev W (snd kv) (snd it) = Some true.
Proof.
  intros H. apply any_of_true in H as (kv & Hin & Hk). exists kv. split; [exact Hin|].
  unfold kv_and in Hk. destruct (ev W (fst kv) (fst it)) as [[|]|]; try discriminate. auto.
Qed.
