(* Trace.v — evaluation order of connectives and quantifiers (C07): an instrumented evaluator that records every
   call of a user function (function atoms, tee functions, comp functions), in the order Python performs them.
   Hand-written from the __call__ bodies of And/Or/Xor/Not/All/Any/SetOf/Comp/Tee/Fn (tie: source fingerprints
   + the recorded-call correspondence run of C07). *)
From Coq Require Import QArith Bool List Arith String.
From PP Require Import Prelude.Base Prelude.Val Prelude.Pred Prelude.Sem.
Import ListNotations.

Inductive call :=
| CallFn (f : nat) (x : val)      (* FnPredicate / TeePredicate / PropertyPredicate function *)
| CallComp (f : nat) (x : val).   (* CompPredicate.fn *)

Definition out := (option bool * list call)%type.     (* None = an exception propagated *)

(* all(gen) / any(gen): stop at the first decisive element or exception *)
Fixpoint run_all (f : val -> out) (items : list val) : out :=
  match items with
  | [] => (Some true, [])
  | i :: r => let '(a, t) := f i in
              match a with
              | Some true => let '(b, t') := run_all f r in (b, t ++ t')
              | _ => (a, t)
              end
  end.
Fixpoint run_any (f : val -> out) (items : list val) : out :=
  match items with
  | [] => (Some false, [])
  | i :: r => let '(a, t) := f i in
              match a with
              | Some false => let '(b, t') := run_any f r in (b, t ++ t')
              | _ => (a, t)
              end
  end.

Fixpoint run (W : world) (p : pred) (x : val) {struct p} : out :=
  match p with
  | PFn f => (fn_sem W f x, [CallFn f x])
  | PProperty g => (fn_sem W g x, [CallFn g x])
  | PTee f => (match fn_sem W f x with Some _ => Some true | None => None end, [CallFn f x])
  | PAnd l r => let '(a, t) := run W l x in
                match a with Some true => let '(b, t') := run W r x in (b, t ++ t') | _ => (a, t) end
  | POr l r => let '(a, t) := run W l x in
               match a with Some false => let '(b, t') := run W r x in (b, t ++ t') | _ => (a, t) end
  | PXor l r => let '(a, t) := run W l x in
                match a with
                | Some va => let '(b, t') := run W r x in
                             (match b with Some vb => Some (xorb va vb) | None => None end, t ++ t')
                | None => (None, t)
                end
  | PNot q => let '(a, t) := run W q x in (option_map negb a, t)
  | PAll q => match x with VColl _ items => run_all (run W q) items | _ => (None, []) end
  | PSetOf q => match x with VColl _ items => run_all (run W q) items | _ => (None, []) end
  | PAny q => match x with VColl _ items => run_any (run W q) items | _ => (None, []) end
  | PComp f q => match comp_sem W f x with
                 | Some y => let '(b, t) := run W q y in (b, CallComp f x :: t)
                 | None => (None, [CallComp f x])
                 end
  | _ => (ev W p x, [])
  end.

Definition value (W : world) p x : option bool := fst (run W p x).
Definition trace (W : world) p x : list call := snd (run W p x).

(* erasing the trace gives Python's evaluation as modelled by Sem.ev *)
Lemma run_all_value f g items : (forall i, fst (f i) = g i) -> fst (run_all f items) = ev_all g items.
Proof.
  intros H. induction items as [|i r IH]; cbn; [reflexivity|]. rewrite <- (H i).
  destruct (f i) as [[[|]|] t]; cbn; try reflexivity. destruct (run_all f r). cbn in *. exact IH.
Qed.
Lemma run_any_value f g items : (forall i, fst (f i) = g i) -> fst (run_any f items) = ev_any g items.
Proof.
  intros H. induction items as [|i r IH]; cbn; [reflexivity|]. rewrite <- (H i).
  destruct (f i) as [[[|]|] t]; cbn; try reflexivity. destruct (run_any f r). cbn in *. exact IH.
Qed.

Theorem value_is_ev W : forall p x, value W p x = ev W p x.
Proof.
  unfold value. induction p; intros x; cbn [run ev]; try reflexivity.
  (* binary connectives *)
  all: try (specialize (IHp1 x); specialize (IHp2 x);
            destruct (run W p1 x) as [[[|]|] t]; cbn in *; rewrite <- IHp1; try reflexivity;
            destruct (run W p2 x) as [[[|]|] t']; cbn in *; rewrite <- IHp2; reflexivity).
  (* quantifiers *)
  all: try (destruct x; cbn; try reflexivity; first [apply run_all_value | apply run_any_value]; exact IHp).
  (* not *)
  all: try (specialize (IHp x); destruct (run W p x); cbn in *; rewrite IHp; reflexivity).
  (* tee / comp *)
  all: try (destruct (fn_sem W f_fn x); reflexivity).
  all: try (destruct (comp_sem W f_fn x) as [y|]; cbn; [|reflexivity]; specialize (IHp y); destruct (run W p y); cbn in *; exact IHp).
Qed.

(* ---- truth-functional values for operands that return booleans ---- *)
Lemma and_value W l r x a b : value W l x = Some a -> value W r x = Some b -> value W (PAnd l r) x = Some (a && b).
Proof. rewrite !value_is_ev. cbn. intros -> ->. destruct a; reflexivity. Qed.
Lemma or_value W l r x a b : value W l x = Some a -> value W r x = Some b -> value W (POr l r) x = Some (a || b).
Proof. rewrite !value_is_ev. cbn. intros -> ->. destruct a; reflexivity. Qed.
Lemma xor_value W l r x a b : value W l x = Some a -> value W r x = Some b -> value W (PXor l r) x = Some (xorb a b).
Proof. rewrite !value_is_ev. cbn. intros -> ->. reflexivity. Qed.
Lemma not_value W q x a : value W q x = Some a -> value W (PNot q) x = Some (negb a).
Proof. rewrite !value_is_ev. cbn. intros ->. reflexivity. Qed.

(* ---- left to right, short-circuit ---- *)
Lemma and_trace W l r x : trace W (PAnd l r) x =
  trace W l x ++ (match value W l x with Some true => trace W r x | _ => [] end).
Proof. unfold trace, value. cbn. destruct (run W l x) as [[[|]|] t]; cbn; rewrite ?app_nil_r; try reflexivity. destruct (run W r x); reflexivity. Qed.
Lemma or_trace W l r x : trace W (POr l r) x =
  trace W l x ++ (match value W l x with Some false => trace W r x | _ => [] end).
Proof. unfold trace, value. cbn. destruct (run W l x) as [[[|]|] t]; cbn; rewrite ?app_nil_r; try reflexivity. destruct (run W r x); reflexivity. Qed.
Lemma xor_trace W l r x : trace W (PXor l r) x =
  trace W l x ++ (match value W l x with Some _ => trace W r x | None => [] end).
Proof. unfold trace, value. cbn. destruct (run W l x) as [[va|] t]; cbn; rewrite ?app_nil_r; try reflexivity. destruct (run W r x); reflexivity. Qed.
Lemma not_trace W q x : trace W (PNot q) x = trace W q x.
Proof. unfold trace. cbn. destruct (run W q x); reflexivity. Qed.

(* a guard on the left protects the right operand: when the left operand says False, p & q is False, the right
   operand is not evaluated at all (none of its functions is called) and nothing is raised, whatever q is *)
Lemma and_guard W l r x : value W l x = Some false -> run W (PAnd l r) x = (Some false, trace W l x).
Proof. unfold value, trace. cbn. destruct (run W l x) as [a t]. cbn. intros ->. reflexivity. Qed.
Lemma or_guard W l r x : value W l x = Some true -> run W (POr l r) x = (Some true, trace W l x).
Proof. unfold value, trace. cbn. destruct (run W l x) as [a t]. cbn. intros ->. reflexivity. Qed.

(* ---- quantifiers ---- *)
Lemma all_empty W q k : run W (PAll q) (VColl k []) = (Some true, []). Proof. reflexivity. Qed.
Lemma any_empty W q k : run W (PAny q) (VColl k []) = (Some false, []). Proof. reflexivity. Qed.

Fixpoint traces (W : world) q (items : list val) : list call :=
  match items with [] => [] | i :: r => trace W q i ++ traces W q r end.

(* all_p is for-all, evaluated left to right, stopping at (and including) the first counter-example *)
Lemma all_stops W q k pre c post :
  Forall (fun i => value W q i = Some true) pre -> value W q c = Some false ->
  run W (PAll q) (VColl k (pre ++ c :: post)) = (Some false, traces W q pre ++ trace W q c).
Proof.
  intros Hpre Hc. cbn [run]. induction Hpre as [|i pre Hi _ IH]; cbn.
  - unfold value, trace in *. destruct (run W q c) as [a t]. cbn in *. subst. reflexivity.
  - unfold value, trace in *. destruct (run W q i) as [a t]. cbn in Hi. subst. rewrite IH. cbn. now rewrite app_assoc.
Qed.
Lemma all_holds W q k items :
  Forall (fun i => value W q i = Some true) items -> run W (PAll q) (VColl k items) = (Some true, traces W q items).
Proof.
  intros H. cbn [run]. induction H as [|i r Hi _ IH]; cbn; [reflexivity|].
  unfold value, trace in *. destruct (run W q i) as [a t]. cbn in Hi. subst. rewrite IH. reflexivity.
Qed.
(* any_p is exists, stopping at (and including) the first witness *)
Lemma any_stops W q k pre c post :
  Forall (fun i => value W q i = Some false) pre -> value W q c = Some true ->
  run W (PAny q) (VColl k (pre ++ c :: post)) = (Some true, traces W q pre ++ trace W q c).
Proof.
  intros Hpre Hc. cbn [run]. induction Hpre as [|i pre Hi _ IH]; cbn.
  - unfold value, trace in *. destruct (run W q c) as [a t]. cbn in *. subst. reflexivity.
  - unfold value, trace in *. destruct (run W q i) as [a t]. cbn in Hi. subst. rewrite IH. cbn. now rewrite app_assoc.
Qed.
Lemma any_fails W q k items :
  Forall (fun i => value W q i = Some false) items -> run W (PAny q) (VColl k items) = (Some false, traces W q items).
Proof.
  intros H. cbn [run]. induction H as [|i r Hi _ IH]; cbn; [reflexivity|].
  unfold value, trace in *. destruct (run W q i) as [a t]. cbn in Hi. subst. rewrite IH. reflexivity.
Qed.

(* ---- comp_p(f, p)(x) is p(f(x)): f is called exactly once, first; tee_p(f) calls f exactly once and is True ---- *)
Lemma comp_run W f q x y : comp_sem W f x = Some y -> run W (PComp f q) x = (value W q y, CallComp f x :: trace W q y).
Proof. intros H. cbn. rewrite H. unfold value, trace. destruct (run W q y); reflexivity. Qed.
Lemma tee_run W f x b : fn_sem W f x = Some b -> run W (PTee f) x = (Some true, [CallFn f x]).
Proof. intros H. cbn. now rewrite H. Qed.

(* the operators and factories build the node they should: p & q is AndPredicate(left=p, right=q), etc.
   (recorded as definitions so that the correspondence run compares them with the implementation's __and__ / all_p ...) *)
Definition op_and (p q : pred) := PAnd p q.
Definition op_or (p q : pred) := POr p q.
Definition op_xor (p q : pred) := PXor p q.
Definition op_invert (p : pred) := PNot p.
Definition mk_all (p : pred) := PAll p.
Definition mk_any (p : pred) := PAny p.
