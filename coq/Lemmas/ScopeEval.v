(* ScopeEval.v — C16, part 2: evaluation of predicates that contain this_p / root_p / lazy_p references, over the
   scope-stack model of Scope.v, with the cached_property of every reference node.

   Hand-written from the __call__ bodies of ThisPredicate / RootPredicate / LazyPredicate (store the current frame,
   read the cached_property, call what it holds or raise ValueError) and of Or/And/Not/All/Comp (which push the frames
   the resolver walks through).  Tie: source fingerprints + the differential run of tools/props/c16.py, which runs
   `run_calls` below on the real caller stack of every call of ~50 scope configurations and compares the outcome
   (True / False / ValueError / other exception) call by call, cache included. *)
From Coq Require Import QArith Bool List Arith String Lia.
From PP Require Import Prelude.Base Prelude.Val Prelude.Pred Prelude.Sem Lemmas.Scope.
Import ListNotations.
Close Scope Q_scope.
Open Scope string_scope.
Open Scope list_scope.
Open Scope nat_scope.

(* no reference node anywhere below p: such a subtree is evaluated by the evaluator of all other properties (ev);
   the frames it pushes are never looked at *)
Fixpoint ref_free (p : pred) : bool :=
  match p with
  | PThis _ | PRoot _ | PLazy _ => false
  | PAnd l r | POr l r | PXor l r => ref_free l && ref_free r
  | PNot q | PAll q | PAny q | PSetOf q | PComp _ q => ref_free q
  | _ => true
  end.

Inductive result :=
| RBool (b : bool)
| RValueError        (* "Could not find ..." / "Don't call PredicateFactory directly" *)
| RRaise             (* any other exception (an atom outside its domain, calling a non-callable) *)
| ROutOfFuel         (* the model's recursion budget ran out *)
| ROutside.          (* the tree is outside the modelled fragment (a reference below Xor/Any/SetOf/...) *)

Definition of_ev (o : option bool) : result := match o with Some b => RBool b | None => RRaise end.

(* cached_property: per reference node, absent = never read; present = what the FIRST lookup returned (None included:
   a failed lookup is cached too).  LazyPredicate objects have no identity in `pred`: they are keyed by their name
   (the harness refuses runs with two distinct lazy_p objects of the same name). *)
Definition cache := list (pred * option obj).
Fixpoint lookup (c : cache) (node : pred) : option (option obj) :=
  match c with
  | [] => None
  | (k, r) :: rest => if peq k node then Some r else lookup rest node
  end.

(* the search a reference node performs when its cached_property is first read *)
(* `home` = the `scope` attribute of a lazy_p node: the globals of the module that wrote lazy_p(ref) (D10 repair), as a list of
   bindings ([] for a LazyPredicate built directly).  It is consulted with dict.get -- no filter -- only when the stack search
   found nothing. *)
Definition home_get (ref : string) (b : binding) : option obj := if String.eqb (fst b) ref then Some (snd b) else None.
Definition fresh_resolve (home : frame) (stk : stack) (node : pred) : option obj :=
  match node with
  | PThis _ => option_map OPred (find_this stk node)
  | PRoot _ => option_map OPred (find_root stk node)
  | PLazy ref => match find_by_ref stk ref with
                 | Some o => Some o
                 | None => first_some (home_get ref) home
                 end
  | _ => None
  end.
Definition resolve (home : frame) (stk : stack) (c : cache) (node : pred) : option obj * cache :=
  match lookup c node with
  | Some r => (r, c)
  | None => let r := fresh_resolve home stk node in (r, (node, r) :: c)
  end.

(* frames pushed by the library *)
Definition call_frame (p : pred) (x : val) : frame := [("self", OPred p); ("x", OData (truthy x))].
Definition all_frame (p : pred) (x : val) : frame := [("self", OPred p); ("iterable", OData (truthy x))].
Definition gen_frame (p : pred) (i : val) : frame := [(".0", OData true); ("x", OData (truthy i)); ("self", OPred p)].

(* all(f(i) for i in items), threading the cache *)
Fixpoint all_items (f : cache -> val -> result * cache) (c : cache) (items : list val) : result * cache :=
  match items with
  | [] => (RBool true, c)
  | i :: r => match f c i with
              | (RBool true, c1) => all_items f c1 r
              | o => o
              end
  end.

Fixpoint reval (W : world) (home : frame) (fuel : nat) (stk : stack) (c : cache) (p : pred) (x : val) {struct fuel} : result * cache :=
  match fuel with
  | O => (ROutOfFuel, c)
  | S fuel =>
    if ref_free p then (of_ev (ev W p x), c) else
    match p with
    | POr l r => match reval W home fuel (call_frame p x :: stk) c l x with
                 | (RBool false, c1) => reval W home fuel (call_frame p x :: stk) c1 r x
                 | o => o
                 end
    | PAnd l r => match reval W home fuel (call_frame p x :: stk) c l x with
                  | (RBool true, c1) => reval W home fuel (call_frame p x :: stk) c1 r x
                  | o => o
                  end
    | PNot q => match reval W home fuel (call_frame p x :: stk) c q x with
                | (RBool b, c1) => (RBool (negb b), c1)
                | o => o
                end
    | PAll q => match x with
                | VColl _ items =>
                    all_items (fun c' i => reval W home fuel (gen_frame p i :: all_frame p x :: stk) c' q i) c items
                | _ => (RRaise, c)
                end
    | PComp f q => match comp_sem W f x with
                   | Some y => reval W home fuel (call_frame p x :: stk) c q y
                   | None => (RRaise, c)
                   end
    | PThis _ | PRoot _ | PLazy _ =>
        let stk' := call_frame p x :: stk in
        let '(r, c') := resolve home stk' c p in
        match r with
        | Some (OPred t) => reval W home fuel stk' c' t x     (* self.this_predicate(x) *)
        | Some OFactory => (RValueError, c')              (* PredicateFactory.__call__ raises ValueError *)
        | Some (OData true) => (RRaise, c')               (* truthy non-callable: TypeError *)
        | Some (OData false) => (RValueError, c')         (* falsy: "Could not find" *)
        | None => (RValueError, c')
        end
    | _ => (ROutside, c)
    end
  end.

(* a history of calls, each from its own caller stack, sharing the caches *)
Fixpoint run_calls (W : world) (fuel : nat) (c : cache) (calls : list (frame * stack * pred * val)) : list result :=
  match calls with
  | [] => []
  | (home, stk, p, x) :: rest => let '(r, c') := reval W home fuel stk c p x in r :: run_calls W fuel c' rest
  end.

(* ---------- nesting depth and an induction principle for nested values ---------- *)
Fixpoint vdepth (x : val) : nat :=
  match x with
  | VColl _ items => S (fold_right (fun i m => Nat.max (vdepth i) m) 0 items)
  | _ => 0
  end.
Lemma vdepth_item k items i : In i items -> vdepth i < vdepth (VColl k items).
Proof.
  cbn [vdepth]. induction items as [|a items IH]; cbn; [intros []|].
  intros [->|H]; [lia|]. specialize (IH H). lia.
Qed.

Lemma val_ind_nested (Q : val -> Prop) :
  (forall k q t, Q (VQ k q t)) -> Q VNone -> (forall k i t, Q (VOther k i t)) ->
  (forall k items, Forall Q items -> Q (VColl k items)) -> forall x, Q x.
Proof.
  intros H1 H2 H3 H4. fix IH 1. intros [k q t| |k i t|k items].
  - apply H1.
  - apply H2.
  - apply H3.
  - apply H4. induction items as [|a items IHl]; constructor; [apply IH|exact IHl].
Qed.

(* ---------- (b) MEANING ----------
   P = base | (guard & all_p(ref)) where ref is a this_p / root_p / lazy_p(name) node that resolves to P. *)
Definition recpred (base guard node : pred) : pred := POr base (PAnd guard (PAll node)).

(* ev_all with the function outside the fixpoint, so that nested recursion through it is accepted *)
Definition ev_all' (f : val -> option bool) : list val -> option bool :=
  fix go (items : list val) : option bool :=
    match items with
    | [] => Some true
    | i :: r => match f i with Some true => go r | Some false => Some false | None => None end
    end.
Lemma ev_all'_eq f items : ev_all' f items = ev_all f items.
Proof. induction items as [|i r IH]; cbn; [reflexivity|]. destruct (f i) as [[|]|]; auto. Qed.

(* the recursive definition P is supposed to denote, with Python's evaluation order: None = an atom raised *)
Fixpoint spec (W : world) (base guard : pred) (x : val) {struct x} : option bool :=
  match ev W base x with
  | Some false =>
      match ev W guard x with
      | Some true => match x with VColl _ items => ev_all' (spec W base guard) items | _ => None end
      | o => o
      end
  | o => o
  end.

Definition is_ref (node : pred) : bool := match node with PThis _ | PRoot _ | PLazy _ => true | _ => false end.
(* no reference sees the library's frames (lazy_p: since the D10b repair) *)

Lemma fresh_resolve_lib home fr stk node :
  lib_frame fr = true -> is_ref node = true -> fresh_resolve home (fr :: stk) node = fresh_resolve home stk node.
Proof.
  intros Hf Hs. destruct node; try discriminate; cbn [fresh_resolve].
  - rewrite lib_frame_transparent_lazy; auto.
  - rewrite lib_frame_transparent_this; auto.
  - rewrite lib_frame_transparent_root; auto.
Qed.

Lemma call_frame_lib p x : lib_frame (call_frame p x) = true. Proof. reflexivity. Qed.
Lemma all_frame_lib p x : lib_frame (all_frame p x) = true. Proof. reflexivity. Qed.
Lemma gen_frame_lib p i : lib_frame (gen_frame p i) = true. Proof. reflexivity. Qed.

Lemma is_ref_not_free node : is_ref node = true -> ref_free node = false.
Proof. destruct node; cbn; congruence. Qed.
Lemma peq_ref_refl node : is_ref node = true -> peq node node = true.
Proof. destruct node; cbn; try discriminate; intros _; [apply String.eqb_refl|apply Nat.eqb_refl|apply Nat.eqb_refl]. Qed.

(* the state of P's own reference node: never read yet, or already holding P *)
Definition cache_ok (c : cache) (node P : pred) : Prop :=
  lookup c node = None \/ lookup c node = Some (Some (OPred P)).
(* evaluating P touches no other node's cached_property *)
Definition only_touches (c c' : cache) (node : pred) : Prop :=
  forall k, peq node k = false -> lookup c' k = lookup c k.

Lemma reval_ref_free W home fuel stk c p x : ref_free p = true -> reval W home (S fuel) stk c p x = (of_ev (ev W p x), c).
Proof. intros H. cbn [reval]. rewrite H. reflexivity. Qed.

Lemma P_not_free base guard node : is_ref node = true -> ref_free (recpred base guard node) = false.
Proof. intros Hnode. unfold recpred. cbn. rewrite (is_ref_not_free _ Hnode). now rewrite !andb_false_r. Qed.
Lemma And_not_free guard node : is_ref node = true -> ref_free (PAnd guard (PAll node)) = false.
Proof. intros Hnode. cbn. rewrite (is_ref_not_free _ Hnode). now rewrite andb_false_r. Qed.
Lemma All_not_free node : is_ref node = true -> ref_free (PAll node) = false.
Proof. intros Hnode. cbn. exact (is_ref_not_free _ Hnode). Qed.

Lemma only_touches_refl c node : only_touches c c node. Proof. intros k _. reflexivity. Qed.
Lemma only_touches_trans c1 c2 c3 node : only_touches c1 c2 node -> only_touches c2 c3 node -> only_touches c1 c3 node.
Proof. intros H1 H2 k Hk. rewrite (H2 k Hk). apply H1. exact Hk. Qed.

(* one read of the reference on a stack that resolves it to P *)
Lemma resolve_ok home node P stk c :
  is_ref node = true ->
  fresh_resolve home stk node = Some (OPred P) -> cache_ok c node P ->
  exists c', resolve home stk c node = (Some (OPred P), c') /\ lookup c' node = Some (Some (OPred P)) /\ only_touches c c' node.
Proof.
  intros Hnode Hr [Hc|Hc]; unfold resolve; rewrite Hc.
  - rewrite Hr. eexists. split; [reflexivity|]. split.
    + cbn. rewrite (peq_ref_refl _ Hnode). reflexivity.
    + intros k Hk. cbn. rewrite Hk. reflexivity.
  - eexists. split; [reflexivity|]. split; [exact Hc|apply only_touches_refl].
Qed.

(* one-step equations of the evaluator *)
Lemma reval_or W home f stk c l r x : ref_free (POr l r) = false ->
  reval W home (S f) stk c (POr l r) x =
  match reval W home f (call_frame (POr l r) x :: stk) c l x with
  | (RBool false, c1) => reval W home f (call_frame (POr l r) x :: stk) c1 r x
  | o => o
  end.
Proof. intros H. cbn [reval]. rewrite H. reflexivity. Qed.
Lemma reval_and W home f stk c l r x : ref_free (PAnd l r) = false ->
  reval W home (S f) stk c (PAnd l r) x =
  match reval W home f (call_frame (PAnd l r) x :: stk) c l x with
  | (RBool true, c1) => reval W home f (call_frame (PAnd l r) x :: stk) c1 r x
  | o => o
  end.
Proof. intros H. cbn [reval]. rewrite H. reflexivity. Qed.
Lemma reval_all W home f stk c q x : ref_free (PAll q) = false ->
  reval W home (S f) stk c (PAll q) x =
  match x with
  | VColl _ items => all_items (fun c' i => reval W home f (gen_frame (PAll q) i :: all_frame (PAll q) x :: stk) c' q i) c items
  | _ => (RRaise, c)
  end.
Proof. intros H. cbn [reval]. rewrite H. reflexivity. Qed.
Lemma reval_ref W home f stk c node x : is_ref node = true ->
  reval W home (S f) stk c node x =
  let '(r, c') := resolve home (call_frame node x :: stk) c node in
  match r with
  | Some (OPred t) => reval W home f (call_frame node x :: stk) c' t x
  | Some OFactory => (RValueError, c')
  | Some (OData true) => (RRaise, c')
  | Some (OData false) => (RValueError, c')
  | None => (RValueError, c')
  end.
Proof. intros H. destruct node; try discriminate H; reflexivity. Qed.

(* the loop over the elements, given the statement for every element at fuel f *)
Lemma items_loop W home base guard node f s3 :
  is_ref node = true ->
  (forall i, fresh_resolve home (call_frame node i :: gen_frame (PAll node) i :: s3) node = Some (OPred (recpred base guard node))) ->
  forall items,
    Forall (fun x => forall stk c, fresh_resolve home stk node = Some (OPred (recpred base guard node)) ->
                       cache_ok c node (recpred base guard node) ->
                       exists c', reval W home f stk c (recpred base guard node) x = (of_ev (spec W base guard x), c')
                                  /\ cache_ok c' node (recpred base guard node) /\ only_touches c c' node) items ->
    forall c, cache_ok c node (recpred base guard node) ->
      exists c', all_items (fun c' i => reval W home (S f) (gen_frame (PAll node) i :: s3) c' node i) c items
                 = (of_ev (ev_all' (spec W base guard) items), c')
                 /\ cache_ok c' node (recpred base guard node) /\ only_touches c c' node.
Proof.
  intros Hnode Hs3. set (P := recpred base guard node) in *.
  induction 1 as [|a items IHa _ IHitems]; intros c Hc.
  - cbn. eexists. split; [reflexivity|split; [exact Hc|apply only_touches_refl]].
  - cbn [all_items ev_all'].
    destruct (resolve_ok home node P (call_frame node a :: gen_frame (PAll node) a :: s3) c Hnode (Hs3 a) Hc) as (c1 & Hres & Hl1 & Ht1).
    rewrite (reval_ref W home f _ c node a Hnode), Hres.
    destruct (IHa (call_frame node a :: gen_frame (PAll node) a :: s3) c1 (Hs3 a) (or_intror Hl1)) as (c2 & Hev & Hc2 & Ht2).
    rewrite Hev.
    destruct (spec W base guard a) as [[|]|]; cbn [of_ev].
    + destruct (IHitems c2 Hc2) as (c3 & Hev3 & Hc3 & Ht3).
      exists c3. split; [exact Hev3|]. split; [exact Hc3|].
      eapply only_touches_trans; [|exact Ht3]. eapply only_touches_trans; [exact Ht1|exact Ht2].
    + exists c2. split; [reflexivity|]. split; [exact Hc2|]. eapply only_touches_trans; [exact Ht1|exact Ht2].
    + exists c2. split; [reflexivity|]. split; [exact Hc2|]. eapply only_touches_trans; [exact Ht1|exact Ht2].
Qed.

(* THE THEOREM.  For every finitely nested x, every stack on which the reference resolves to P (theorems (a)),
   whatever the reference node's cache state (never called / already called), with fuel linear in the nesting of x:
   P(x) is exactly the recursive definition; afterwards the node holds P and no other node was touched. *)
Theorem recursive_meaning :
  forall (W : world) (home : frame) (base guard node : pred),
    ref_free base = true -> ref_free guard = true -> is_ref node = true ->
    forall x stk c fuel,
      fresh_resolve home stk node = Some (OPred (recpred base guard node)) ->
      cache_ok c node (recpred base guard node) -> 4 * vdepth x + 3 <= fuel ->
      exists c', reval W home fuel stk c (recpred base guard node) x = (of_ev (spec W base guard x), c')
                 /\ cache_ok c' node (recpred base guard node) /\ only_touches c c' node.
Proof.
  intros W home base guard node Hbase Hguard Hnode.
  pose proof (P_not_free base guard node Hnode) as NF. pose proof (And_not_free guard node Hnode) as NA.
  pose proof (All_not_free node Hnode) as NL.
  assert (Step : forall x stk c f,
    reval W home (S (S (S f))) stk c (recpred base guard node) x
        = match ev W base x with
          | Some false => match ev W guard x with
                          | Some true => reval W home (S f) (call_frame (PAnd guard (PAll node)) x :: call_frame (recpred base guard node) x :: stk) c (PAll node) x
                          | o => (of_ev o, c)
                          end
          | o => (of_ev o, c)
          end).
  { intros x stk c f.
    unfold recpred at 1. rewrite reval_or by exact NF. rewrite (reval_ref_free W home _ _ c base x Hbase).
    destruct (ev W base x) as [[|]|]; cbn [of_ev]; try reflexivity.
    rewrite reval_and by exact NA. rewrite (reval_ref_free W home _ _ c guard x Hguard).
    destruct (ev W guard x) as [[|]|]; cbn [of_ev]; reflexivity. }
  induction x as [k q t| |k i t|k items IH] using val_ind_nested; intros stk c fuel Hr Hc Hf.
  1-3: destruct fuel as [|[|[|f]]]; try (cbn in Hf; lia);
    rewrite Step; cbn [spec];
    destruct (ev W base _) as [[|]|]; cbn [of_ev];
    try (eexists; split; [reflexivity|split; [exact Hc|apply only_touches_refl]]);
    destruct (ev W guard _) as [[|]|]; cbn [of_ev];
    try (eexists; split; [reflexivity|split; [exact Hc|apply only_touches_refl]]);
    rewrite reval_all by exact NL; eexists; (split; [reflexivity|split; [exact Hc|apply only_touches_refl]]).
  (* a collection *)
  destruct fuel as [|[|[|[|f]]]]; try (cbn [vdepth] in Hf; lia).
  rewrite Step. cbn [spec].
  destruct (ev W base (VColl k items)) as [[|]|]; cbn [of_ev];
    try (eexists; split; [reflexivity|split; [exact Hc|apply only_touches_refl]]).
  destruct (ev W guard (VColl k items)) as [[|]|]; cbn [of_ev];
    try (eexists; split; [reflexivity|split; [exact Hc|apply only_touches_refl]]).
  rewrite reval_all by exact NL.
  apply items_loop; auto.
  - intros i. rewrite !fresh_resolve_lib; auto.
  - rewrite Forall_forall in IH. apply Forall_forall. intros i Hi stk' c0 Hr' Hc'.
    apply IH; auto. pose proof (vdepth_item k items i Hi). lia.
Qed.

(* the property's own words: when base is a total Boolean test b and the guard is "x is a list",
   P(x) = b(x) or (x is a list and every element satisfies P) *)
Definition is_listv (x : val) : bool := match x with VColl KList _ => true | _ => false end.
Fixpoint denotes (b : val -> bool) (x : val) {struct x} : bool :=
  b x || match x with VColl KList items => forallb (denotes b) items | _ => false end.
Lemma denotes_unfold b x : denotes b x = b x || (is_listv x && forallb (denotes b) (items_of x)).
Proof. destruct x as [| | |[] items]; reflexivity. Qed.

Lemma ev_all_total (f : val -> option bool) (g : val -> bool) items :
  Forall (fun i => f i = Some (g i)) items -> ev_all f items = Some (forallb g items).
Proof. induction 1 as [|a l Ha _ IH]; cbn; [reflexivity|]. rewrite Ha. destruct (g a); [exact IH|reflexivity]. Qed.

Lemma spec_denotes W base guard b :
  (forall y, ev W base y = Some (b y)) -> (forall y, ev W guard y = Some (is_listv y)) ->
  forall x, spec W base guard x = Some (denotes b x).
Proof.
  intros Hb Hg. induction x as [k q t| |k i t|k items IH] using val_ind_nested;
    cbn [spec denotes]; rewrite Hb, Hg; cbn [is_listv]; try (destruct (b _); reflexivity).
  destruct (b (VColl k items)); [reflexivity|]. cbn [orb].
  destruct k; cbn [is_listv]; try reflexivity.
  rewrite ev_all'_eq. apply ev_all_total. exact IH.
Qed.

Theorem recursive_meaning_bool :
  forall (W : world) (home : frame) (base guard node : pred) (b : val -> bool),
    ref_free base = true -> ref_free guard = true -> is_ref node = true ->
    (forall y, ev W base y = Some (b y)) -> (forall y, ev W guard y = Some (is_listv y)) ->
    forall x stk c fuel,
      fresh_resolve home stk node = Some (OPred (recpred base guard node)) ->
      cache_ok c node (recpred base guard node) -> 4 * vdepth x + 3 <= fuel ->
      fst (reval W home fuel stk c (recpred base guard node) x)
      = RBool (b x || (is_listv x && forallb (denotes b) (items_of x)))
      /\ forall y, fst (reval W home (4 * vdepth y + 3) stk c (recpred base guard node) y) = RBool (denotes b y).
Proof.
  intros W home base guard node b H1 H2 H3 Hb Hg x stk c fuel Hr Hc Hf. split.
  - destruct (recursive_meaning W home base guard node H1 H2 H3 x stk c fuel Hr Hc Hf) as (c' & E & _).
    rewrite E, (spec_denotes W base guard b Hb Hg), <- denotes_unfold. reflexivity.
  - intros y. destruct (recursive_meaning W home base guard node H1 H2 H3 y stk c _ Hr Hc (le_n _)) as (c' & E & _).
    rewrite E, (spec_denotes W base guard b Hb Hg). reflexivity.
Qed.

(* whatever the order of first calls: two self-referential predicates A and B (different nodes) on the same stack;
   calling A then B or B then A gives each its own recursive meaning *)
Theorem order_of_first_calls :
  forall (W : world) (home : frame) (ba ga na bb gb nb : pred) stk c x y fa fb,
    ref_free ba = true -> ref_free ga = true -> is_ref na = true ->
    ref_free bb = true -> ref_free gb = true -> is_ref nb = true ->
    peq na nb = false -> peq nb na = false ->
    fresh_resolve home stk na = Some (OPred (recpred ba ga na)) -> fresh_resolve home stk nb = Some (OPred (recpred bb gb nb)) ->
    cache_ok c na (recpred ba ga na) -> cache_ok c nb (recpred bb gb nb) ->
    4 * vdepth x + 3 <= fa -> 4 * vdepth y + 3 <= fb ->
    run_calls W (Nat.max fa fb) c [(home, stk, recpred ba ga na, x); (home, stk, recpred bb gb nb, y)]
      = [of_ev (spec W ba ga x); of_ev (spec W bb gb y)] /\
    run_calls W (Nat.max fa fb) c [(home, stk, recpred bb gb nb, y); (home, stk, recpred ba ga na, x)]
      = [of_ev (spec W bb gb y); of_ev (spec W ba ga x)].
Proof.
  intros W home ba ga na bb gb nb stk c x y fa fb A1 A2 A3 B1 B2 B3 Hab Hba Ra Rb Ca Cb Fa Fb.
  assert (Fa' : 4 * vdepth x + 3 <= Nat.max fa fb) by lia.
  assert (Fb' : 4 * vdepth y + 3 <= Nat.max fa fb) by lia.
  split; cbn [run_calls].
  - destruct (recursive_meaning W home ba ga na A1 A2 A3 x stk c _ Ra Ca Fa') as (c1 & E1 & _ & T1). rewrite E1.
    assert (Cb1 : cache_ok c1 nb (recpred bb gb nb)) by (unfold cache_ok; rewrite (T1 nb Hab); exact Cb).
    destruct (recursive_meaning W home bb gb nb B1 B2 B3 y stk c1 _ Rb Cb1 Fb') as (c2 & E2 & _). rewrite E2. reflexivity.
  - destruct (recursive_meaning W home bb gb nb B1 B2 B3 y stk c _ Rb Cb Fb') as (c1 & E1 & _ & T1). rewrite E1.
    assert (Ca1 : cache_ok c1 na (recpred ba ga na)) by (unfold cache_ok; rewrite (T1 na Hba); exact Ca).
    destruct (recursive_meaning W home ba ga na A1 A2 A3 x stk c1 _ Ra Ca1 Fa') as (c2 & E2 & _). rewrite E2. reflexivity.
Qed.

(* ---------- (c) an unresolvable reference raises ValueError, never a Boolean ---------- *)
Theorem unresolved_reference_raises :
  forall (W : world) (home : frame) (node : pred) stk c x fuel,
    is_ref node = true -> lookup c node = None ->
    fresh_resolve home (call_frame node x :: stk) node = None ->
    fst (reval W home (S fuel) stk c node x) = RValueError.
Proof.
  intros W home node stk c x fuel Hn Hc Hr. cbn [reval]. rewrite (is_ref_not_free _ Hn).
  destruct node; try discriminate Hn; unfold resolve; rewrite Hc, Hr; reflexivity.
Qed.
(* a failed first lookup is cached: the node keeps raising ValueError wherever it is called from afterwards *)
Theorem failed_lookup_is_permanent :
  forall (W : world) (home : frame) (node : pred) stk c x fuel,
    is_ref node = true -> lookup c node = Some None -> fst (reval W home (S fuel) stk c node x) = RValueError.
Proof.
  intros W home node stk c x fuel Hn Hc. cbn [reval]. rewrite (is_ref_not_free _ Hn).
  destruct node; try discriminate Hn; unfold resolve; rewrite Hc; reflexivity.
Qed.
(* and P itself: as soon as the recursion reaches the reference (a non-empty list that base rejects), ValueError *)
Theorem unresolved_recursive_predicate_raises :
  forall (W : world) (home : frame) (base guard node : pred) stk c k i items fuel,
    ref_free base = true -> ref_free guard = true -> is_ref node = true ->
    lookup c node = None -> fresh_resolve home stk node = None ->
    ev W base (VColl k (i :: items)) = Some false -> ev W guard (VColl k (i :: items)) = Some true ->
    fst (reval W home (S (S (S (S fuel)))) stk c (recpred base guard node) (VColl k (i :: items))) = RValueError.
Proof.
  intros W home base guard node stk c k i items fuel H1 H2 H3 Hc Hr Eb Eg.
  pose proof (P_not_free base guard node H3) as NF. pose proof (And_not_free guard node H3) as NA.
  pose proof (All_not_free node H3) as NL.
  unfold recpred at 1. rewrite reval_or by exact NF. rewrite (reval_ref_free W home _ _ c base _ H1), Eb. cbn [of_ev].
  rewrite reval_and by exact NA. rewrite (reval_ref_free W home _ _ c guard _ H2), Eg. cbn [of_ev].
  rewrite reval_all by exact NL. cbn [all_items]. rewrite (reval_ref W home fuel _ c node i H3).
  unfold resolve. rewrite Hc. rewrite !fresh_resolve_lib by auto. rewrite Hr. reflexivity.
Qed.

(* ---------- the D10 repair: a lazy_p reference written at module level works from ANY caller ---------- *)
Theorem lazy_falls_back_to_home :
  forall (home h1 h2 : frame) (stk : stack) (name : string) (o : obj),
    find_by_ref stk name = None ->                       (* no predicate called `name` on the caller's stack *)
    home = h1 ++ (name, o) :: h2 -> (forall b, In b h1 -> fst b <> name) ->
    fresh_resolve home stk (PLazy name) = Some o.
Proof.
  intros home h1 h2 stk name o Hs -> Hh. cbn [fresh_resolve]. rewrite Hs.
  apply first_some_hit.
  - unfold home_get. cbn. now rewrite String.eqb_refl.
  - intros b Hb. left. unfold home_get. destruct (String.eqb_spec (fst b) name); [exfalso; eapply Hh; eauto|reflexivity].
Qed.

(* hence P = base | (guard & all_p(lazy_p("P"))) written at module level (is_json_p's shape) means its recursive definition
   from every caller whose stack binds no predicate under that name: any function, any module, the empty stack included *)
Theorem module_level_lazy_meaning :
  forall (W : world) (home h1 h2 : frame) (base guard : pred) (name : string),
    ref_free base = true -> ref_free guard = true ->
    home = h1 ++ (name, OPred (recpred base guard (PLazy name))) :: h2 -> (forall b, In b h1 -> fst b <> name) ->
    forall x stk c fuel,
      find_by_ref stk name = None ->
      cache_ok c (PLazy name) (recpred base guard (PLazy name)) -> 4 * vdepth x + 3 <= fuel ->
      fst (reval W home fuel stk c (recpred base guard (PLazy name)) x) = of_ev (spec W base guard x).
Proof.
  intros W home h1 h2 base guard name Hb Hg Hh Hn x stk c fuel Hs Hc Hf.
  destruct (recursive_meaning W home base guard (PLazy name) Hb Hg eq_refl x stk c fuel
              (lazy_falls_back_to_home home h1 h2 stk name _ Hs Hh Hn) Hc Hf) as (c' & E & _).
  rewrite E. reflexivity.
Qed.

(* ---------- non-vacuity ---------- *)
Definition Wex : world := {|
  env := fun _ => false;
  isinst := fun k c => match k, c with KStr, 4 => true | KInt, 1 => true | KBool, 1 => true | KList, 6 => true | _, _ => false end;
  fn_sem := fun _ _ => None; comp_sem := fun _ _ => None; regex_sem := fun _ _ _ => None;
  lazy_sem := fun _ _ => None; self_sem := fun _ _ => None |}.
Definition vstr : val := VColl KStr [VOther KStr 0 true].
Definition vint : val := VQ KInt (3#1)%Q true.
Definition vlist (l : list val) : val := VColl KList l.
Definition Pex : pred := recpred is_str is_list (PThis 1).
Definition Aex : pred := recpred is_int is_list (PThis 0).
Definition user_stack : stack :=
  [ [("p", OPred Pex); ("v", OData true)];
    [("A", OPred Aex); ("P", OPred Pex); ("Q", OPred (POr Pex is_int)); ("helper", OData true)];
    [("this_p", OFactory); ("root_p", OFactory); ("is_str_p", OPred is_str)] ].

Example recursive_meaning_nonvacuous :
  run_calls Wex 20 []
    [ ([], user_stack, Pex, vlist [vstr; vlist [vstr; vlist []]]);          (* True, first call resolves *)
      ([], user_stack, Pex, vlist [vstr; vlist [vint]]);                    (* False, cached *)
      ([], user_stack, Aex, vlist [vint; vlist [vint]]);                    (* the other recursive predicate: True *)
      ([], user_stack, Aex, vlist [vstr]);
      ([], [], Pex, vlist [vstr; vlist [vstr]]) ]                           (* P escaped its scope AFTER being resolved: still works *)
  = [RBool true; RBool false; RBool true; RBool false; RBool true].
Proof. vm_compute. reflexivity. Qed.
Example unresolved_nonvacuous :
  run_calls Wex 20 []
    [ ([], [], Pex, vstr);                                    (* base accepts: the reference is never reached *)
      ([], [], Pex, vlist []);                                (* empty list: never reached *)
      ([], [], Pex, vlist [vstr]);                            (* reached, no binding in scope: ValueError *)
      ([], user_stack, Pex, vlist [vstr]) ]                   (* the failed lookup was cached: ValueError even in scope *)
  = [RBool true; RBool true; RValueError; RValueError].
Proof. vm_compute. reflexivity. Qed.
(* lazy_p(name): same meaning; a predicate the user called `x` is no longer captured by the library's own local (D10b);
   a module-level definition is found through the home namespace from an EMPTY caller stack (D10), and a lazy node without
   home on an empty stack raises ValueError *)
Definition Lex (n : string) : pred := recpred is_str is_list (PLazy n).
Example lazy_nonvacuous :
  run_calls Wex 20 []
    [ ([], [[("P", OPred (Lex "P"))]], Lex "P", vlist [vstr; vlist [vstr]]);
      ([], [[("x", OPred (Lex "x"))]], Lex "x", vlist [vstr; vlist [vint]]);
      ([("is_str_p", OPred is_str); ("J", OPred (Lex "J"))], [[("v", OData true)]], Lex "J", vlist [vstr; vlist [vstr]]);
      ([], [[("v", OData true)]], Lex "K", vlist [vstr]) ]
  = [RBool true; RBool false; RBool true; RValueError].
Proof. vm_compute. reflexivity. Qed.
Example denotes_nonvacuous :
  denotes (fun y => match y with VColl KStr _ => true | _ => false end) (vlist [vstr; vlist [vstr; vlist []]]) = true /\
  denotes (fun y => match y with VColl KStr _ => true | _ => false end) (vlist [vstr; vlist [vint]]) = false.
Proof. split; reflexivity. Qed.
