(* GenDictExamples.v — the hypotheses of the dict_of theorem are satisfiable (and the stream is not empty). *)
From Coq Require Import QArith ZArith Bool List Lia Lqa.
From PP Require Import Prelude.Base Prelude.Val Prelude.Pred Prelude.Sem Lemmas.GenDSL Lemmas.GenModel Lemmas.GenSafe Lemmas.DictOf Lemmas.GenDictOf
                       Lemmas.GenExamples.
Import ListNotations.
Open Scope Q_scope.

(* is_dict_of_p((eq_p(1), ge_p(3)), (eq_p(2), is_none_p)) *)
Definition kvs_ok : list kvpred := [(PEq 1, PGe 3); (PEq 2, PIsNone)].

Lemma sat_eq_inv W c k : Sat W (PEq c) k -> exists kd q t, k = VQ kd q t /\ Qeq_bool q c = true.
Proof.
  unfold Sat. cbn. intros H. injection H as H. destruct k as [kd q t| | |]; cbn in H; try discriminate. eauto.
Qed.

Lemma Qeq_bool_other q a b : Qeq_bool q a = true -> ~ (a == b) -> Qeq_bool q b = false.
Proof.
  intros H Hn. apply Qeq_bool_iff in H. destruct (Qeq_bool q b) eqn:E; [|reflexivity].
  apply Qeq_bool_iff in E. exfalso. apply Hn. rewrite <- H. exact E.
Qed.

Lemma kvs_ok_compat : Compat W1 kvs_ok.
Proof.
  split.
  - intros i j k Hne Hi Hj Hs. cbn in Hi, Hj.
    destruct i as [|[|i]]; destruct j as [|[|j]]; try lia; cbn in Hs |- *;
      apply sat_eq_inv in Hs as (kd & q & t & -> & Hq); cbn; f_equal; eapply Qeq_bool_other; try exact Hq; intros Hc; discriminate Hc.
  - intros i j k k' Hlt Hj Hs Hs'. cbn in Hj.
    destruct i as [|[|i]]; destruct j as [|[|j]]; try lia. cbn in Hs, Hs'.
    apply sat_eq_inv in Hs as (kd & q & t & -> & Hq). apply sat_eq_inv in Hs' as (kd' & q' & t' & -> & Hq').
    cbn. apply andb_false_iff. left. apply Qeq_bool_iff in Hq'. destruct (Qeq_bool q q') eqn:E; [|reflexivity].
    apply Qeq_bool_iff in E. apply Qeq_bool_iff in Hq. exfalso. rewrite E, Hq' in Hq. discriminate Hq.
Qed.

Lemma dict_of_hypotheses_nonvacuous :
  fenv_ok fe1 /\ world_ok W1 /\ Forall (fun kv => gen_ok W1 KInt (fst kv) /\ gen_ok W1 KInt (snd kv)) kvs_ok /\ Compat W1 kvs_ok /\
  fst (run 80 (gen_dict_of fe1 W1 KInt kvs_ok) o1 0) <> [].
Proof.
  split; [exact fe1_ok|]. split; [exact W1_ok|]. split; [|split; [exact kvs_ok_compat|vm_compute; discriminate]].
  repeat constructor; cbn; auto; intros _; reflexivity.
Qed.
