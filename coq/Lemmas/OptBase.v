(* OptBase.v — the refinement relation `agree`, its congruence lemmas, the Hoare-style rules for the
   result monad, and the generic walker/leaf tactics used to prove every translated optimizer function.
   Nothing here mentions a particular rewrite rule of the optimizer: the tactics are keyed on the
   *shape* the translator emits (match-on-projector chains, seq, bind, taint, ret). *)
From Coq Require Import QArith Lqa Bool List Arith String Lia.
From PP Require Import Prelude.Base Prelude.Val Prelude.Pred Prelude.Sem Gen.Negate Gen.Implies Gen.Optimize
  Lemmas.PeqFacts Lemmas.NegImp.
Import ListNotations.

(* q may replace p: wherever all atoms of p are defined, so are q's, and q answers like p *)
Definition agree (W : world) (q p : pred) : Prop :=
  forall x, defined W p x = true -> defined W q x = true /\ beval W q x = beval W p x.

Lemma agree_refl W p : agree W p p.
Proof. intros x H. auto. Qed.
Lemma agree_trans W a b c : agree W a b -> agree W b c -> agree W a c.
Proof. intros H1 H2 x Hx. destruct (H2 x Hx) as [D E]. destruct (H1 x D) as [D' E']. split; congruence. Qed.

Lemma agree_and W a a' b b' : agree W a a' -> agree W b b' -> agree W (PAnd a b) (PAnd a' b').
Proof. intros Ha Hb x H. cbn in *. apply andb_true_iff in H as [H1 H2].
  destruct (Ha x H1) as [-> ->], (Hb x H2) as [-> ->]. auto. Qed.
Lemma agree_or W a a' b b' : agree W a a' -> agree W b b' -> agree W (POr a b) (POr a' b').
Proof. intros Ha Hb x H. cbn in *. apply andb_true_iff in H as [H1 H2].
  destruct (Ha x H1) as [-> ->], (Hb x H2) as [-> ->]. auto. Qed.
Lemma agree_xor W a a' b b' : agree W a a' -> agree W b b' -> agree W (PXor a b) (PXor a' b').
Proof. intros Ha Hb x H. cbn in *. apply andb_true_iff in H as [H1 H2].
  destruct (Ha x H1) as [-> ->], (Hb x H2) as [-> ->]. auto. Qed.
Lemma agree_not W a a' : agree W a a' -> agree W (PNot a) (PNot a').
Proof. intros Ha x H. cbn in *. destruct (Ha x H) as [-> ->]. auto. Qed.
Lemma agree_items W a a' items :
  agree W a a' -> forallb (defined W a') items = true ->
  forallb (defined W a) items = true /\ forallb (beval W a) items = forallb (beval W a') items
  /\ existsb (beval W a) items = existsb (beval W a') items.
Proof.
  intros Ha. induction items as [|i r IH]; cbn; intros H; [auto|].
  apply andb_true_iff in H as [H1 H2]. destruct (Ha i H1) as [-> ->], (IH H2) as (-> & -> & ->). auto.
Qed.
Lemma agree_all W a a' : agree W a a' -> agree W (PAll a) (PAll a').
Proof. intros Ha x H. cbn in *. apply andb_true_iff in H as [H1 H2].
  destruct (agree_items W a a' _ Ha H2) as (-> & -> & _). rewrite H1. auto. Qed.
Lemma agree_any W a a' : agree W a a' -> agree W (PAny a) (PAny a').
Proof. intros Ha x H. cbn in *. apply andb_true_iff in H as [H1 H2].
  destruct (agree_items W a a' _ Ha H2) as (-> & _ & ->). rewrite H1. auto. Qed.
Lemma agree_setof W a a' : agree W a a' -> agree W (PSetOf a) (PSetOf a').
Proof. intros Ha x H. cbn in *. apply andb_true_iff in H as [H1 H2].
  destruct (agree_items W a a' _ Ha H2) as (-> & -> & _). rewrite H1. auto. Qed.
Lemma agree_comp W f a a' : agree W a a' -> agree W (PComp f a) (PComp f a').
Proof. intros Ha x H. cbn in *. destruct (comp_sem W f x) as [y|]; [apply Ha; exact H|discriminate]. Qed.

(* build `agree C[a] C[b]` from `H : agree a b` by descending through the constructors of C *)
Ltac congr_with H :=
  first
  [ exact H
  | apply agree_refl
  | apply agree_and; congr_with H
  | apply agree_or; congr_with H
  | apply agree_xor; congr_with H
  | apply agree_not; congr_with H
  | apply agree_all; congr_with H
  | apply agree_any; congr_with H
  | apply agree_setof; congr_with H
  | apply agree_comp; congr_with H ].

(* Step A: in the right-hand side, replace an original sub-term v by its optimised version e (H : agree e v) *)
Ltac rhs_step :=
  match goal with
  | H : agree ?W ?e ?v |- agree ?W ?L ?R =>
      is_var v;
      match R with context [v] => idtac end;
      let R' := eval pattern v in R in
      match R' with
      | ?F _ => let Re := eval cbv beta in (F e) in
                apply (agree_trans W L Re R); [ | solve [congr_with H] ]; clear H
      end
  end.
(* Step B: in the left-hand side, replace the result r of a later call by what it was computed from *)
Ltac lhs_step :=
  match goal with
  | H : agree ?W ?r ?e |- agree ?W ?L ?R =>
      is_var r;
      match L with context [r] => idtac end;
      lazymatch R with context [r] => fail | _ => idtac end;
      let L' := eval pattern r in L in
      match L' with
      | ?F _ => let Le := eval cbv beta in (F e) in
                apply (agree_trans W L Le R); [ solve [congr_with H] | ]; clear H
      end
  end.
Ltac normalise := repeat rhs_step; repeat lhs_step.

(* ---------- Hoare rules for the result monad ---------- *)
Definition sound_res (W : world) (p : pred) (m : res pred) : Prop :=
  forall q, m = Ok q [] -> agree W q p.
Definition sound_blk (W : world) (p : pred) (m : res (option pred)) : Prop :=
  forall q, m = Ok (Some q) [] -> agree W q p.

Lemma sound_ret_some W p q : agree W q p -> sound_blk W p (ret (Some q)).
Proof. intros H q' E. injection E as <-. exact H. Qed.
Lemma sound_ret_none W p : sound_blk W p (ret None).
Proof. intros q E. discriminate. Qed.
Lemma sound_taint W p s m : sound_blk W p (taint s m).
Proof. intros q E. destruct m; discriminate. Qed.
Lemma sound_crash W p : sound_res W p Crash.
Proof. intros q E. discriminate. Qed.
Lemma sound_seq W p s1 s2 : sound_blk W p s1 -> sound_blk W p s2 -> sound_blk W p (seq s1 s2).
Proof.
  intros H1 H2 q E. unfold seq, bind in E.
  destruct s1 as [[v|] t1| |]; try discriminate.
  - cbn in E. injection E as <- Et. rewrite app_nil_r in Et. subst. apply H1. reflexivity.
  - destruct s2 as [[v|] t2| |]; try discriminate. injection E as <- Et.
    apply app_eq_nil in Et as [-> ->]. apply H2. reflexivity.
Qed.
Lemma seq_ret_some {A} (v : A) s2 : seq (ret (Some v)) s2 = ret (Some v).
Proof. reflexivity. Qed.
Lemma seq_ret_none {A} (s2 : res (option A)) : seq (ret None) s2 = s2.
Proof. unfold seq, ret, bind. destruct s2; reflexivity. Qed.
Lemma sound_bind W p (m : res pred) (f : pred -> res (option pred)) (P : pred -> Prop) :
  (forall y, m = Ok y [] -> P y) -> (forall y, P y -> sound_blk W p (f y)) -> sound_blk W p (bind m f).
Proof.
  intros Hm Hf q E. unfold bind in E. destruct m as [y t1| |]; try discriminate.
  destruct (f y) as [b t2| |] eqn:Ef; try discriminate. injection E as -> Et.
  apply app_eq_nil in Et as [-> ->]. apply (Hf y); [apply Hm; reflexivity|exact Ef].
Qed.
Lemma sound_finish W p m : sound_blk W p m -> sound_res W p (finish m).
Proof.
  intros H q E. unfold finish, bind in E. destruct m as [[v|] t1| |]; try discriminate.
  cbn in E. injection E as <- Et. rewrite app_nil_r in Et. subst. apply H. reflexivity.
Qed.
Lemma sound_res_weaken W p p' m : sound_res W p' m -> agree W p' p -> sound_res W p m.
Proof. intros H A q E. eapply agree_trans; [apply H; exact E|exact A]. Qed.

(* ---------- inversion of projector/guard equations ---------- *)
Ltac inv :=
  repeat first
  [ inv_proj1
  | match goal with
    | H : Some _ = Some _ |- _ => injection H as H; subst
    | H : None = Some _ |- _ => discriminate H
    | H : Some _ = None |- _ => discriminate H
    | H : (_, _) = (_, _) |- _ => injection H as H; subst
    | p : (_ * _)%type |- _ => destruct p
    | u : unit |- _ => destruct u
    | H : _ = None |- _ => clear H
    | H : Some tt = Some tt |- _ => clear H
    | H : match ?m with _ => _ end = Some _ |- _ => destruct m eqn:?; try discriminate H
    | H : (if ?c then _ else _) = Some _ |- _ => destruct c eqn:?; try discriminate H
    end ]; subst.

(* ---------- facts about the pure helper functions of the optimizer ---------- *)
Lemma and_contains_negate_sound W P s x :
  and_contains_negate P s = true -> defined W P x = true -> beval W P x = true -> beval W (negate s) x = true.
Proof.
  induction P; cbn [and_contains_negate]; try discriminate. cbv zeta.
  intros H D B. cbn in D, B. apply andb_true_iff in D as [D1 D2]. apply andb_true_iff in B as [B1 B2].
  destruct (peq (negate s) P1 || peq (negate s) P2) eqn:E.
  - apply orb_true_iff in E as [E|E]; rewrite (peq_beval W _ _ x E); assumption.
  - cbn in H. destruct (as_And P1) as [[? ?]|] eqn:E1; [apply IHP1; assumption|].
    destruct (as_And P2) as [[? ?]|] eqn:E2; [apply IHP2; assumption|]. discriminate H.
Qed.
Lemma or_contains_negate_sound W P s x :
  or_contains_negate P s = true -> defined W P x = true -> beval W (negate s) x = true -> beval W P x = true.
Proof.
  induction P; cbn [or_contains_negate]; try discriminate. cbv zeta.
  intros H D B. cbn in D |- *. apply andb_true_iff in D as [D1 D2].
  destruct (as_Or P1) as [[? ?]|] eqn:E1.
  - rewrite (IHP1 H D1 B). reflexivity.
  - apply orb_true_iff in H as [E|E]; rewrite <- (peq_beval W _ _ x E), B; auto using orb_true_r.
Qed.

Lemma kdisjoint_sound W a b x : kdisjoint W a b = true -> isinstance W x a && isinstance W x b = false.
Proof.
  unfold kdisjoint, isinstance. intros H. rewrite forallb_forall in H.
  specialize (H (type_of x) (all_kinds_complete _)). apply negb_true_iff in H. exact H.
Qed.
Lemma nonempty_false_mem s q : nonempty s = false -> mem q s = false.
Proof. intros H. rewrite (nonempty_false s H). reflexivity. Qed.
Lemma card_0_mem s q : Nat.eqb (card s) 0 = true -> mem q s = false.
Proof. intros H. apply Nat.eqb_eq in H. rewrite (card_0 s H). reflexivity. Qed.
Lemma card_1_mem s q : Nat.eqb (card s) 1 = true -> mem q s = Qeq_bool q (the_one s).
Proof. intros H. apply Nat.eqb_eq in H. apply card_1; exact H. Qed.

Lemma optimize_in_agree W s : agree W (optimize_in_predicate (PIn s)) (PIn s).
Proof.
  intros x D. unfold optimize_in_predicate. cbv zeta.
  destruct (Nat.eqb (card s) 0) eqn:E0; cbn [beval defined]; [|destruct (Nat.eqb (card s) 1) eqn:E1; cbn [beval defined]].
  - split; [reflexivity|]. destruct x; cbn; try reflexivity. now rewrite (card_0_mem s q E0).
  - split; [reflexivity|]. destruct x; cbn; try reflexivity. now rewrite (card_1_mem s q E1).
  - auto.
Qed.
Lemma optimize_not_in_agree W s : agree W (optimize_not_in_predicate (PNotIn s)) (PNotIn s).
Proof.
  intros x D. unfold optimize_not_in_predicate. cbv zeta.
  destruct (Nat.eqb (card s) 0) eqn:E0; cbn [beval defined]; [|destruct (Nat.eqb (card s) 1) eqn:E1; cbn [beval defined]].
  - split; [reflexivity|]. destruct x; cbn; try reflexivity. now rewrite (card_0_mem s q E0).
  - split; [reflexivity|]. destruct x; cbn; try reflexivity. now rewrite (card_1_mem s q E1).
  - auto.
Qed.

(* ---------- pure rule lemmas about quantifiers (each is one rewrite the optimizer may perform) ---------- *)
Ltac coll x := destruct x as [| | |?k ?items]; cbn in *; try discriminate.

Lemma q_all_true W : agree W PTrue (PAll PTrue).
Proof. intros x D. coll x. split; [reflexivity|]. induction items; cbn; auto. Qed.
Lemma q_all_false W : agree W PIsEmpty (PAll PFalse).
Proof. intros x D. coll x. split; [reflexivity|]. destruct items; reflexivity. Qed.
Lemma q_any_false W : agree W PFalse (PAny PFalse).
Proof. intros x D. coll x. split; [reflexivity|]. induction items; cbn; auto. Qed.
Lemma q_all_not W f : agree W (PNot (PAny f)) (PAll (PNot f)).
Proof. intros x D. coll x. split; [exact D|]. clear D. induction items as [|i r IH]; cbn; [reflexivity|].
  rewrite <- IH. now rewrite negb_orb. Qed.
Lemma q_any_not W f : agree W (PNot (PAll f)) (PAny (PNot f)).
Proof. intros x D. coll x. split; [exact D|]. clear D. induction items as [|i r IH]; cbn; [reflexivity|].
  rewrite <- IH. now rewrite negb_andb. Qed.
Lemma q_all_notnone W : agree W (PNot (PAny PIsNone)) (PAll PIsNotNone).
Proof. intros x D. coll x. split; [|]. { clear D. induction items; cbn; auto. }
  clear D. induction items as [|i r IH]; cbn; [reflexivity|]. rewrite <- IH. destruct i; cbn; reflexivity. Qed.
Lemma q_any_ne W v : agree W (PNot (PAll (PEq v))) (PAny (PNe v)).
Proof. intros x D. coll x. split; [exact D|]. clear D. induction items as [|i r IH]; cbn; [reflexivity|].
  rewrite <- IH. now rewrite negb_andb. Qed.
Lemma q_not_all W f : agree W (PAny (negate f)) (PNot (PAll f)).
Proof. intros x D. coll x. split.
  - clear - D. induction items as [|i r IH]; cbn in *; [reflexivity|]. apply andb_true_iff in D as [D1 D2].
    rewrite negate_defined, D1. apply IH; exact D2.
  - clear - D. induction items as [|i r IH]; cbn in *; [reflexivity|]. apply andb_true_iff in D as [D1 D2].
    rewrite (negate_sound W f i D1), (IH D2). now rewrite negb_andb. Qed.
Lemma q_not_any W f : agree W (PAll (negate f)) (PNot (PAny f)).
Proof. intros x D. coll x. split.
  - clear - D. induction items as [|i r IH]; cbn in *; [reflexivity|]. apply andb_true_iff in D as [D1 D2].
    rewrite negate_defined, D1. apply IH; exact D2.
  - clear - D. induction items as [|i r IH]; cbn in *; [reflexivity|]. apply andb_true_iff in D as [D1 D2].
    rewrite (negate_sound W f i D1), (IH D2). now rewrite negb_orb. Qed.
Lemma q_all_and W a b : agree W (PAll (PAnd a b)) (PAnd (PAll a) (PAll b)).
Proof. intros x D. coll x. apply andb_true_iff in D as [D1 D2]. split.
  - clear - D1 D2. induction items as [|i r IH]; cbn in *; [reflexivity|].
    apply andb_true_iff in D1 as [-> D1]. apply andb_true_iff in D2 as [-> D2]. apply IH; assumption.
  - clear. induction items as [|i r IH]; cbn; [reflexivity|]. rewrite IH.
    destruct (beval W a i), (beval W b i), (forallb (beval W a) r), (forallb (beval W b) r); reflexivity. Qed.
Lemma q_any_or W a b : agree W (PAny (POr a b)) (POr (PAny a) (PAny b)).
Proof. intros x D. coll x. apply andb_true_iff in D as [D1 D2]. split.
  - clear - D1 D2. induction items as [|i r IH]; cbn in *; [reflexivity|].
    apply andb_true_iff in D1 as [-> D1]. apply andb_true_iff in D2 as [-> D2]. apply IH; assumption.
  - clear. induction items as [|i r IH]; cbn; [reflexivity|]. rewrite IH.
    destruct (beval W a i), (beval W b i), (existsb (beval W a) r), (existsb (beval W b) r); reflexivity. Qed.

Lemma vsubset_inter items a b : vsubset items (inter a b) = vsubset items a && vsubset items b.
Proof.
  unfold vsubset. induction items as [|i r IH]; cbn; [reflexivity|]. rewrite IH.
  destruct i; cbn; rewrite ?mem_inter;
  repeat match goal with |- context [forallb ?f ?l] => destruct (forallb f l) end;
  repeat match goal with |- context [mem ?q ?s] => destruct (mem q s) end; reflexivity.
Qed.

Ltac quantifier_rule :=
  first [ apply q_all_true | apply q_all_false | apply q_any_false | apply q_all_not | apply q_any_not
        | apply q_all_notnone | apply q_any_ne | apply q_not_all | apply q_not_any | apply q_all_and | apply q_any_or
        | apply agree_refl ].

(* ---------- the leaf solver: a rule with no recursive results left, proved point-wise ---------- *)
(* turn guard equations into facts at the point x *)
Ltac guard_facts W x :=
  repeat match goal with
  | H : peq ?a ?b = true |- _ =>
      pose proof (peq_beval W a b x H); pose proof (peq_defined W a b x H); clear H
  | H : implies ?a ?b = true |- _ =>
      pose proof (implies_sound W a b H x); clear H
  | H : and_contains_negate ?P ?s = true |- _ =>
      pose proof (and_contains_negate_sound W P s x H); clear H
  | H : or_contains_negate ?P ?s = true |- _ =>
      pose proof (or_contains_negate_sound W P s x H); clear H
  | H : kdisjoint W ?a ?b = true |- _ => pose proof (kdisjoint_sound W a b x H); clear H
  | H : _ || _ = true |- _ => apply orb_true_iff in H; destruct H
  | H : _ && _ = true |- _ => apply andb_true_iff in H; destruct H
  | H : negb _ = true |- _ => apply negb_true_iff in H
  | H : negb _ = false |- _ => apply negb_false_iff in H
  end.

Ltac def_side := cbn [defined]; repeat (apply andb_true_iff; split); solve [assumption | reflexivity].
Ltac negate_facts W x :=
  rewrite ?negate_defined in *;
  repeat match goal with
  | |- context [beval W (negate ?p) x] => rewrite (negate_sound W p x) by def_side
  | H : context [beval W (negate ?p) x] |- _ => rewrite (negate_sound W p x) in H by def_side
  end.

Ltac abstract_bools W :=
  repeat match goal with
  | |- context [beval W ?p ?v] => let b := fresh "b" in set (b := beval W p v) in *; clearbody b
  | H : context [beval W ?p ?v] |- _ => let b := fresh "b" in set (b := beval W p v) in *; clearbody b
  | |- context [defined W ?p ?v] => let b := fresh "d" in set (b := defined W p v) in *; clearbody b
  | H : context [defined W ?p ?v] |- _ => let b := fresh "d" in set (b := defined W p v) in *; clearbody b
  | |- context [isinstance W ?v ?l] => let b := fresh "ii" in set (b := isinstance W v l) in *; clearbody b
  | H : context [isinstance W ?v ?l] |- _ => let b := fresh "ii" in set (b := isinstance W v l) in *; clearbody b
  | |- context [forallb ?f ?l] => let b := fresh "fa" in set (b := forallb f l) in *; clearbody b
  | H : context [forallb ?f ?l] |- _ => let b := fresh "fa" in set (b := forallb f l) in *; clearbody b
  | |- context [existsb ?f ?l] => let b := fresh "ex" in set (b := existsb f l) in *; clearbody b
  | H : context [existsb ?f ?l] |- _ => let b := fresh "ex" in set (b := existsb f l) in *; clearbody b
  end.

Ltac use_trivial_premises :=
  repeat match goal with
  | H : true = true -> _ |- _ => specialize (H eq_refl)
  | H : false = false -> _ |- _ => specialize (H eq_refl)
  | H : true = false -> _ |- _ => clear H
  | H : false = true -> _ |- _ => clear H
  end.
Ltac destruct_bools :=
  repeat match goal with
  | b : bool |- _ => destruct b; cbn in *; use_trivial_premises; try discriminate; try reflexivity; try assumption;
                     try congruence
  end.

#[export] Hint Rewrite mem_inter mem_union mem_diff mem_symdiff mem_add1 mem_cons mem_nil : memdb.
Ltac set_facts q :=
  repeat match goal with
  | H : nonempty ?s = false |- _ => pose proof (nonempty_false_mem s q H); clear H
  | H : Nat.eqb (card ?s) 0 = true |- _ => pose proof (card_0_mem s q H); clear H
  | H : Nat.eqb (card ?s) 1 = true |- _ => pose proof (card_1_mem s q H); clear H
  | H : subseteq ?s ?t = true |- _ => pose proof (subseteq_mem s t q H); clear H
  | H : set_eq ?s ?t = true |- _ => pose proof (set_eq_mem s t q H); clear H
  end;
  autorewrite with memdb in *;
  (* membership of the probe value and of a constant in the same set are linked through == *)
  repeat match goal with
  | H : context [mem ?c ?s] |- _ =>
      lazymatch c with q => fail | _ => idtac end;
      lazymatch goal with
      | _ : Qeq_bool q c = true -> mem q s = mem c s |- _ => fail
      | _ => pose proof (mem_eqb q c s)
      end
  end.

Ltac mem_bools :=
  repeat match goal with
  | |- context [mem ?a ?s] => let b := fresh "m" in set (b := mem a s) in *; clearbody b
  | H : context [mem ?a ?s] |- _ => let b := fresh "m" in set (b := mem a s) in *; clearbody b
  end.
