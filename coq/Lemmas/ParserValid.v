(* ParserValid.v — C14, part 3: what cannot be a theorem about the repo (WHICH derivation Lark's Earley
   resolver returns for an ambiguous text) is decided by a VERIFIED VALIDATOR that is run, with vm_compute,
   on the implementation's actual output for every token string up to a List.length bound.

   - `parses n ts`  : ALL derivations of the token string ts (proved sound and complete);
   - `in_lang ts`   : decision procedure for the expression language (proved: true <-> Lang ts);
   - `reads_ok ts p`: p is the transformer's image of a derivation of ts in which every "~" applies to the
                      operand that follows it, and p has the truth table of a reading of ts in which "~" binds
                      tightest and "&", "^" bind tighter than "|" (proved: sound and complete for that
                      specification, with the truth-table clause for ALL assignments). *)
From Coq Require Import Bool List String Arith NArith Lia.
From PP Require Import Prelude.Base Prelude.Val Prelude.Pred Prelude.Sem Lemmas.Fragments Lemmas.ParserLang.
Import ListNotations.
Close Scope Q_scope.
Open Scope list_scope.

(* ------------------------------------------------------------------------------------------- *)
(** * Boolean equality on tokens and on propositional predicates *)

Definition tok_eqb (x y : token) : bool :=
  match x, y with
  | TName a, TName b => String.eqb a b
  | TTrue, TTrue | TFalse, TFalse | TNot, TNot | TAnd, TAnd | TOr, TOr | TXor, TXor
  | TLParen, TLParen | TRParen, TRParen => true
  | _, _ => false
  end.

Lemma tok_eqb_eq x y : tok_eqb x y = true <-> x = y.
Proof.
  split.
  - destruct x, y; cbn; intros H; try discriminate; try reflexivity.
    apply String.eqb_eq in H. subst. reflexivity.
  - intros <-. destruct x; cbn; try reflexivity. apply String.eqb_refl.
Qed.

(* structural, ORDER-SENSITIVE equality on the fragment the parser can return (unlike the library's ==,
   which is commutative on & | ^); false on every other constructor *)
Fixpoint prop_eqb (p q : pred) : bool :=
  match p, q with
  | PTrue, PTrue | PFalse, PFalse => true
  | PNamed a, PNamed b => String.eqb a b
  | PAnd a b, PAnd c d | POr a b, POr c d | PXor a b, PXor c d => prop_eqb a c && prop_eqb b d
  | PNot a, PNot b => prop_eqb a b
  | _, _ => false
  end.

Lemma prop_eqb_eq p q : prop_eqb p q = true -> p = q.
Proof.
  revert q. induction p; destruct q; cbn; intros H; try discriminate; try reflexivity.
  - apply String.eqb_eq in H. subst. reflexivity.
  - apply andb_true_iff in H as [H1 H2]. rewrite (IHp1 _ H1), (IHp2 _ H2). reflexivity.
  - apply andb_true_iff in H as [H1 H2]. rewrite (IHp1 _ H1), (IHp2 _ H2). reflexivity.
  - apply andb_true_iff in H as [H1 H2]. rewrite (IHp1 _ H1), (IHp2 _ H2). reflexivity.
  - rewrite (IHp _ H). reflexivity.
Qed.

Lemma prop_eqb_refl p : Fprop p = true -> prop_eqb p p = true.
Proof.
  induction p; cbn; intros H; try discriminate; try reflexivity.
  - apply String.eqb_refl.
  - apply andb_true_iff in H as [H1 H2]. rewrite IHp1, IHp2; auto.
  - apply andb_true_iff in H as [H1 H2]. rewrite IHp1, IHp2; auto.
  - apply andb_true_iff in H as [H1 H2]. rewrite IHp1, IHp2; auto.
  - auto.
Qed.

(* ------------------------------------------------------------------------------------------- *)
(** * All derivations of a token string *)

(* every way of writing ts = a ++ x :: b *)
Fixpoint splits (ts : list token) : list (list token * token * list token) :=
  match ts with
  | [] => []
  | x :: r => ([], x, r) :: map (fun '(a, y, b) => (x :: a, y, b)) (splits r)
  end.

Lemma splits_sound ts a x b : In (a, x, b) (splits ts) -> ts = a ++ x :: b.
Proof.
  revert a x b. induction ts as [|y r IH]; cbn; intros a x b H; [contradiction|].
  destruct H as [H|H].
  - inversion H; subst. reflexivity.
  - apply in_map_iff in H as [[[a' x'] b'] [E H]]. inversion E; subst. rewrite (IH _ _ _ H). reflexivity.
Qed.

Lemma splits_complete a x b : In (a, x, b) (splits (a ++ x :: b)).
Proof.
  induction a as [|y a IH]; cbn; [left; reflexivity|].
  right. apply in_map_iff. exists (a, x, b). split; [reflexivity|exact IH].
Qed.

Lemma splits_length ts a x b : In (a, x, b) (splits ts) -> (List.length a < List.length ts /\ List.length b < List.length ts)%nat.
Proof. intros H. apply splits_sound in H. subst. rewrite app_length. cbn. lia. Qed.

Fixpoint unsnoc (l : list token) : option (list token * token) :=
  match l with
  | [] => None
  | [x] => Some ([], x)
  | x :: r => match unsnoc r with Some (m, y) => Some (x :: m, y) | None => None end
  end.

Lemma unsnoc_sound l m y : unsnoc l = Some (m, y) -> l = m ++ [y].
Proof.
  revert m y. induction l as [|x r IH]; cbn; intros m y H; [discriminate|].
  destruct r as [|x' r'].
  - inversion H; subst. reflexivity.
  - destruct (unsnoc (x' :: r')) as [[m' y']|] eqn:U; [|discriminate].
    inversion H; subst. rewrite (IH _ _ eq_refl). reflexivity.
Qed.

Lemma unsnoc_app m y : unsnoc (m ++ [y]) = Some (m, y).
Proof.
  induction m as [|x m IH]; [reflexivity|].
  change ((x :: m) ++ [y]) with (x :: (m ++ [y])). cbn [unsnoc]. rewrite IH.
  destruct (m ++ [y]) eqn:E; [destruct m; discriminate|reflexivity].
Qed.

Definition leaf_parses (ts : list token) : list ptree :=
  match ts with
  | [TName s] => [TVar s]
  | [TTrue] => [TTru]
  | [TFalse] => [TFal]
  | _ => []
  end.

(* all derivations of ts; `fuel` bounds the recursion (List.length ts suffices) *)
Fixpoint parses (fuel : nat) (ts : list token) : list ptree :=
  match fuel with
  | O => []
  | S f =>
      leaf_parses ts
      ++ match ts with
         | TLParen :: r => match unsnoc r with
                           | Some (m, TRParen) => map TGroup (parses f m)
                           | _ => []
                           end
         | TNot :: r => map TNeg (parses f r)
         | _ => []
         end
      ++ flat_map (fun '(a, x, b) =>
                     match binop_of x with
                     | Some o => flat_map (fun l => map (TBin o l) (parses f b)) (parses f a)
                     | None => []
                     end) (splits ts)
  end.

Theorem parses_sound : forall fuel ts t, In t (parses fuel ts) -> yield t = ts.
Proof.
  induction fuel as [|f IH]; cbn; intros ts t H; [contradiction|].
  apply in_app_or in H as [H|H]; [|apply in_app_or in H as [H|H]].
  - destruct ts as [|x r]; [contradiction|].
    destruct x; destruct r; cbn in H; try contradiction; destruct H as [<-|[]]; reflexivity.
  - destruct ts as [|x r]; [contradiction|]. destruct x; try contradiction.
    + apply in_map_iff in H as [t' [<- H]]. cbn. rewrite (IH _ _ H). reflexivity.
    + destruct (unsnoc r) as [[m y]|] eqn:U; [|contradiction]. destruct y; try contradiction.
      apply in_map_iff in H as [t' [<- H]]. cbn. rewrite (IH _ _ H). rewrite (unsnoc_sound _ _ _ U). reflexivity.
  - apply in_flat_map in H as [[[a x] b] [Hs H]].
    destruct (binop_of x) as [o|] eqn:B; [|contradiction].
    apply in_flat_map in H as [l [Hl H]]. apply in_map_iff in H as [r [<- Hr]].
    cbn. rewrite (IH _ _ Hl), (IH _ _ Hr). rewrite (splits_sound _ _ _ _ Hs), (binop_of_inv _ _ B). reflexivity.
Qed.

Lemma yield_length_pos t : (1 <= List.length (yield t))%nat.
Proof. pose proof (yield_nonempty t). destruct (yield t); [congruence|cbn; lia]. Qed.

Theorem parses_complete : forall fuel t, (List.length (yield t) <= fuel)%nat -> In t (parses fuel (yield t)).
Proof.
  induction fuel as [|f IH]; intros t L.
  - pose proof (yield_length_pos t). lia.
  - destruct t; cbn [parses].
    + apply in_or_app. left. cbn. left. reflexivity.
    + apply in_or_app. left. cbn. left. reflexivity.
    + apply in_or_app. left. cbn. left. reflexivity.
    + apply in_or_app. right. apply in_or_app. left. cbn [yield].
      rewrite unsnoc_app. apply in_map. apply IH. cbn in L. rewrite app_length in L. cbn in L. lia.
    + apply in_or_app. right. apply in_or_app. right. apply in_flat_map.
      exists (yield t1, tok_of o, yield t2). split; [apply splits_complete|].
      rewrite binop_of_tok. apply in_flat_map. cbn in L. rewrite app_length in L. cbn in L.
      exists t1. split; [apply IH; lia|]. apply in_map. apply IH. lia.
    + apply in_or_app. right. apply in_or_app. left. cbn [yield].
      apply in_map. apply IH. cbn in L. lia.
Qed.

Definition readings (ts : list token) : list ptree := parses (List.length ts) ts.

Theorem readings_spec : forall ts t, In t (readings ts) <-> yield t = ts.
Proof.
  intros ts t. unfold readings. split.
  - apply parses_sound.
  - intros <-. apply parses_complete. lia.
Qed.

(* ------------------------------------------------------------------------------------------- *)
(** * Deciding the language *)

Definition in_lang (ts : list token) : bool :=
  match readings ts with [] => false | _ => true end.

Theorem in_lang_spec : forall ts, in_lang ts = true <-> Lang ts.
Proof.
  intros ts. rewrite <- grammar_is_language. unfold in_lang. split.
  - destruct (readings ts) as [|t r] eqn:E; [discriminate|]. intros _. exists t.
    apply readings_spec. rewrite E. left. reflexivity.
  - intros [t Ht]. apply readings_spec in Ht. destruct (readings ts); [contradiction|reflexivity].
Qed.

Corollary not_in_lang_no_reading : forall ts, in_lang ts = false -> forall t, yield t <> ts.
Proof.
  intros ts H t E. assert (in_lang ts = true) by (apply in_lang_spec, grammar_is_language; eauto). congruence.
Qed.

(* ------------------------------------------------------------------------------------------- *)
(** * The two clauses that depend on Lark's choice, as predicates on derivations *)

(* what can follow "~": a name, a constant, a parenthesised group, or another "~" *)
Definition is_operand (t : ptree) : bool :=
  match t with TBin _ _ _ => false | _ => true end.

(* "~ applies only to the operand that follows it": no not_expression node directly over a binary rule *)
Fixpoint not_tight (t : ptree) : bool :=
  match t with
  | TVar _ | TTru | TFal => true
  | TGroup t => not_tight t
  | TBin _ l r => not_tight l && not_tight r
  | TNeg t => is_operand t && not_tight t
  end.

Definition is_or (t : ptree) : bool := match t with TBin BOr _ _ => true | _ => false end.

(* "& and ^ bind tighter than |": no and/xor rule directly over an (unparenthesised) or rule *)
Fixpoint or_loosest (t : ptree) : bool :=
  match t with
  | TVar _ | TTru | TFal => true
  | TGroup t => or_loosest t
  | TBin BOr l r => or_loosest l && or_loosest r
  | TBin _ l r => negb (is_or l) && negb (is_or r) && or_loosest l && or_loosest r
  | TNeg t => or_loosest t
  end.

(* a reading that respects the stated precedences (nothing is said about & against ^) *)
Definition prec_reading (t : ptree) : bool := not_tight t && or_loosest t.

(* ------------------------------------------------------------------------------------------- *)
(** * Truth tables *)

Definition upd (v : string) (b : bool) (e : string -> bool) : string -> bool :=
  fun s => if String.eqb s v then b else e s.

Fixpoint assignments (vs : list string) : list (string -> bool) :=
  match vs with
  | [] => [fun _ => false]
  | v :: r => flat_map (fun e => [upd v false e; upd v true e]) (assignments r)
  end.

Lemma assignments_cover vs (env : string -> bool) :
  exists e, In e (assignments vs) /\ forall s, In s vs -> e s = env s.
Proof.
  induction vs as [|v r [e [He Ha]]]; cbn.
  - exists (fun _ => false). split; [left; reflexivity|intros s []].
  - exists (upd v (env v) e). split.
    + apply in_flat_map. exists e. split; [exact He|]. destruct (env v); cbn; auto.
    + intros s [<-|Hs]; unfold upd.
      * rewrite String.eqb_refl. reflexivity.
      * destruct (String.eqb s v) eqn:E; [apply String.eqb_eq in E; subst; reflexivity|apply Ha, Hs].
Qed.

Lemma psem_ext e1 e2 p : (forall s, In s (pnames p) -> e1 s = e2 s) -> psem e1 p = psem e2 p.
Proof.
  induction p; cbn; intros H; try reflexivity.
  - apply H. left. reflexivity.
  - rewrite IHp1, IHp2; [reflexivity| |]; intros s Hs; apply H, in_or_app; auto.
  - rewrite IHp1, IHp2; [reflexivity| |]; intros s Hs; apply H, in_or_app; auto.
  - rewrite IHp1, IHp2; [reflexivity| |]; intros s Hs; apply H, in_or_app; auto.
  - rewrite IHp; [reflexivity|]. exact H.
Qed.

(* all assignments of the variables that occur in p or q (each variable once) *)
Definition tt_vars (p q : pred) : list string := nodup string_dec (pnames p ++ pnames q).

Definition tt_eqb (p q : pred) : bool :=
  forallb (fun e => Bool.eqb (psem e p) (psem e q)) (assignments (tt_vars p q)).

Theorem tt_eqb_spec p q : tt_eqb p q = true <-> forall env, psem env p = psem env q.
Proof.
  unfold tt_eqb, tt_vars. split.
  - intros H env. destruct (assignments_cover (nodup string_dec (pnames p ++ pnames q)) env) as [e [He Ha]].
    rewrite forallb_forall in H. specialize (H e He). apply eqb_prop in H.
    rewrite <- (psem_ext e env p), <- (psem_ext e env q); [exact H| |]; intros s Hs; apply Ha, nodup_In, in_or_app; auto.
  - intros H. apply forallb_forall. intros e _. rewrite H. apply eqb_reflx.
Qed.

(* ------------------------------------------------------------------------------------------- *)
(** * The validator *)

(* clause 1+2: p is the image of a derivation of ts (so: same atoms and operators in the same order, groups
               are sub-trees, names exact — by the theorems of ParserLang/ParserGroups) in which every "~"
               applies to the operand that follows it;
   clause 3:   p has the truth table of a reading of ts that respects the stated precedences. *)
Definition structure_ok (ts : list token) (p : pred) : bool :=
  existsb (fun t => prop_eqb (transform t) p && not_tight t) (readings ts).
Definition precedence_ok (ts : list token) (p : pred) : bool :=
  existsb (fun t => prec_reading t && tt_eqb p (transform t)) (readings ts).
Definition reads_ok (ts : list token) (p : pred) : bool := structure_ok ts p && precedence_ok ts p.

(* the reference reading used in messages and examples: the first reading that respects the precedences *)
Definition prec_parse (ts : list token) : option pred :=
  option_map transform (find prec_reading (readings ts)).

Theorem reads_ok_sound : forall ts p, reads_ok ts p = true ->
  (exists t, yield t = ts /\ transform t = p /\ not_tight t = true) /\
  (exists t', yield t' = ts /\ prec_reading t' = true /\ forall env, psem env p = psem env (transform t')).
Proof.
  unfold reads_ok, structure_ok, precedence_ok. intros ts p H. apply andb_true_iff in H as [H1 H2].
  apply existsb_exists in H1 as [t [Ht H1]]. apply existsb_exists in H2 as [t' [Ht' H2]].
  apply andb_true_iff in H1 as [E N]. apply andb_true_iff in H2 as [R T].
  split.
  - exists t. split; [apply readings_spec, Ht|]. split; [apply prop_eqb_eq, E|exact N].
  - exists t'. split; [apply readings_spec, Ht'|]. split; [exact R|apply tt_eqb_spec, T].
Qed.

(* the validator rejects nothing it should accept *)
Theorem reads_ok_complete : forall ts p t t',
  yield t = ts -> transform t = p -> not_tight t = true ->
  yield t' = ts -> prec_reading t' = true -> (forall env, psem env p = psem env (transform t')) ->
  reads_ok ts p = true.
Proof.
  intros ts p t t' Y E N Y' R T. unfold reads_ok, structure_ok, precedence_ok. apply andb_true_iff. split.
  - apply existsb_exists. exists t. split; [apply readings_spec, Y|]. rewrite N, E, andb_true_r.
    apply prop_eqb_refl. rewrite <- E. apply transform_prop.
  - apply existsb_exists. exists t'. split; [apply readings_spec, Y'|]. rewrite R. cbn. apply tt_eqb_spec, T.
Qed.

(* consequences for an accepted (text, result) pair, whatever Lark did to get there *)
Corollary reads_ok_faithful : forall ts p, reads_ok ts p = true ->
  Lang ts /\ Fprop p = true /\ inorder p = strip_parens ts /\ pnames p = tnames ts.
Proof.
  intros ts p H. destruct (reads_ok_sound ts p H) as [[t [Y [E _]]] _]. subst ts p.
  split; [apply grammar_sound|]. split; [apply transform_prop|]. split; [apply faithful_order|apply names_preserved].
Qed.

(* the reference reading, when it exists, is a reading that respects the precedences *)
Lemma prec_parse_spec ts q : prec_parse ts = Some q ->
  exists t, yield t = ts /\ prec_reading t = true /\ transform t = q.
Proof.
  unfold prec_parse. destruct (find prec_reading (readings ts)) as [t|] eqn:F; cbn; [|discriminate].
  intros E. inversion E; subst. apply find_some in F as [I R]. exists t. split; [apply readings_spec, I|auto].
Qed.

(* diagnostic code for the harness: 0 ok; 1 p is not the image of any derivation of ts; 2 it is, but only of
   derivations where a "~" swallows a binary expression; 3 truth table differs from every precedence reading *)
Definition reads_code (ts : list token) (p : pred) : nat :=
  if negb (existsb (fun t => prop_eqb (transform t) p) (readings ts)) then 1
  else if negb (structure_ok ts p) then 2
  else if negb (precedence_ok ts p) then 3 else 0.

Lemma reads_code_0 ts p : reads_code ts p = 0 <-> reads_ok ts p = true.
Proof.
  unfold reads_code, reads_ok. split.
  - destruct (existsb _ _); cbn; [|discriminate]. destruct (structure_ok ts p); cbn; [|discriminate].
    destruct (precedence_ok ts p); cbn; [reflexivity|discriminate].
  - intros H. apply andb_true_iff in H as [H1 H2]. rewrite H1, H2.
    assert (existsb (fun t => prop_eqb (transform t) p) (readings ts) = true) as ->; [|reflexivity].
    unfold structure_ok in H1. apply existsb_exists in H1 as [t [I H1]]. apply existsb_exists. exists t.
    split; [exact I|]. apply andb_true_iff in H1. tauto.
Qed.

(* ------------------------------------------------------------------------------------------- *)
(** * Enumerating token strings (for the exhaustive accept/reject comparison) *)

Fixpoint all_strings (alphabet : list token) (n : nat) : list (list token) :=
  match n with
  | O => [[]]
  | S k => flat_map (fun x => map (cons x) (all_strings alphabet k)) alphabet
  end.

(* positions (in the order of itertools.product(alphabet, repeat=n)) of the strings that are in the language *)
(* (binary numbers: positions go up to 11^n) *)
Fixpoint positions_from (i : N) (l : list (list token)) : list N :=
  match l with
  | [] => []
  | ts :: r => if in_lang ts then i :: positions_from (N.succ i) r else positions_from (N.succ i) r
  end.
Definition lang_positions (alphabet : list token) (n : nat) : list N :=
  positions_from 0%N (all_strings alphabet n).

Lemma all_strings_complete alphabet ts :
  Forall (fun x => In x alphabet) ts -> In ts (all_strings alphabet (List.length ts)).
Proof.
  induction 1 as [|x r Hx Hr IH]; cbn; [left; reflexivity|].
  apply in_flat_map. exists x. split; [exact Hx|]. apply in_map, IH.
Qed.

(* ------------------------------------------------------------------------------------------- *)
(** * Examples (non-vacuity) *)

Local Definition p_ := TName "p".
Local Definition q_ := TName "q".
Local Definition r_ := TName "r".

(* p & q | r : the validator accepts the precedence reading and rejects (p & (q | r)) *)
Example reads_ok_accepts : reads_ok [p_; TAnd; q_; TOr; r_] (POr (PAnd (PNamed "p") (PNamed "q")) (PNamed "r")) = true.
Proof. vm_compute. reflexivity. Qed.
Example reads_ok_rejects_wrong_precedence :
  reads_code [p_; TAnd; q_; TOr; r_] (PAnd (PNamed "p") (POr (PNamed "q") (PNamed "r"))) = 3.
Proof. vm_compute. reflexivity. Qed.
(* ~p & q read as ~(p & q): code 2 *)
Example reads_ok_rejects_wide_not :
  reads_code [TNot; p_; TAnd; q_] (PNot (PAnd (PNamed "p") (PNamed "q"))) = 2.
Proof. vm_compute. reflexivity. Qed.
(* a changed name, swapped operands, a dropped group: code 1 *)
Example reads_ok_rejects_wrong_name : reads_code [TName "foo"] (PNamed "f") = 1.
Proof. vm_compute. reflexivity. Qed.
Example reads_ok_rejects_swapped : reads_code [p_; TAnd; q_] (PAnd (PNamed "q") (PNamed "p")) = 1.
Proof. vm_compute. reflexivity. Qed.
Example reads_ok_rejects_ignored_group :
  reads_code [p_; TAnd; TLParen; q_; TOr; r_; TRParen] (POr (PAnd (PNamed "p") (PNamed "q")) (PNamed "r")) = 1.
Proof. vm_compute. reflexivity. Qed.
(* & against ^ is left open by the property: both readings of p & q ^ r are accepted *)
Example reads_ok_and_xor_open :
  reads_ok [p_; TAnd; q_; TXor; r_] (PAnd (PNamed "p") (PXor (PNamed "q") (PNamed "r"))) = true /\
  reads_ok [p_; TAnd; q_; TXor; r_] (PXor (PAnd (PNamed "p") (PNamed "q")) (PNamed "r")) = true.
Proof. split; vm_compute; reflexivity. Qed.
Example prec_parse_example :
  prec_parse [TNot; p_; TOr; q_; TAnd; TLParen; r_; TOr; p_; TRParen]
  = Some (POr (PNot (PNamed "p")) (PAnd (PNamed "q") (POr (PNamed "r") (PNamed "p")))).
Proof. vm_compute. reflexivity. Qed.
Example in_lang_examples :
  in_lang [p_; TAnd; TLParen; TNot; TNot; q_; TRParen] = true /\ in_lang [] = false /\ in_lang [p_; q_] = false /\
  in_lang [p_; TAnd] = false /\ in_lang [TLParen; TRParen] = false /\ in_lang [TLParen; p_] = false /\
  in_lang [p_; TNot; q_] = false /\ in_lang [TAnd; p_] = false.
Proof. repeat split; vm_compute; reflexivity. Qed.
Example lang_positions_example :
  lang_positions [p_; TTrue; TNot; TAnd; TLParen; TRParen] 2 = [12%N; 13%N].   (* "~ p", "~ true" *)
Proof. vm_compute. reflexivity. Qed.
