From Coq Require Import QArith Lqa Bool List Arith String Lia.
From PP Require Import Prelude.Base Prelude.Val Prelude.Pred Prelude.Sem Gen.Negate Gen.Implies Gen.Optimize
  Lemmas.PeqFacts Lemmas.NegImp Lemmas.OptBase Lemmas.OptWalk.
Import ListNotations.

Lemma all_step W fuel : IH W fuel -> forall p, sound_res W p (optimize_all_predicate W (S fuel) p).
Proof.
  intros IHs p. cbn [optimize_all_predicate]. walk IHs.
  all: leaf W.
Qed.
Lemma any_step W fuel : IH W fuel -> forall p, sound_res W p (optimize_any_predicate W (S fuel) p).
Proof.
  intros IHs p. cbn [optimize_any_predicate]. walk IHs.
  all: leaf W.
Qed.
