(* LawsSets.v — set lemmas and the tactic used for the membership atoms in the C13 laws. *)
From Coq Require Import QArith Bool List Arith String Lia.
From PP Require Import Prelude.Base Prelude.Val Prelude.Pred Prelude.Sem Gen.Negate Gen.Implies Gen.Optimize
  Lemmas.PeqFacts Lemmas.Laws Lemmas.LawsEq.
Import ListNotations.

Lemma mem_self_in a s : In a s -> mem a s = true.
Proof. intros H. unfold mem. apply existsb_exists. exists a. split; [exact H|apply Qeq_bool_refl']. Qed.
Lemma inter_self s : inter s s = s.
Proof.
  unfold inter. assert (H : forall l, (forall a, In a l -> mem a s = true) -> filter (fun a => mem a s) l = l).
  { induction l as [|a l IH]; cbn; intros Hl; [reflexivity|]. rewrite (Hl a (or_introl eq_refl)). f_equal. apply IH. auto. }
  apply H. intros a Ha. apply mem_self_in; exact Ha.
Qed.
Lemma dedup_app_covered l1 l2 : (forall a, In a l1 -> mem a l2 = true) -> dedup (l1 ++ l2) = dedup l2.
Proof.
  induction l1 as [|a l1 IH]; cbn; intros H; [reflexivity|].
  rewrite mem_app, (H a (or_introl eq_refl)), orb_true_r. apply IH. auto.
Qed.
Lemma card_union_self s : card (union s s) = card s.
Proof. unfold card, union. rewrite dedup_app_covered; [reflexivity|]. intros a Ha. apply mem_self_in; exact Ha. Qed.
Lemma the_one_union_self s : the_one (union s s) = the_one s.
Proof. unfold the_one, union. rewrite dedup_app_covered; [reflexivity|]. intros a Ha. apply mem_self_in; exact Ha. Qed.
Lemma set_eq_union_self s : set_eq (union s s) s = true.
Proof. apply set_eq_spec. intros x. rewrite mem_union. now rewrite orb_diag. Qed.
Lemma nonempty_union_self s : nonempty (union s s) = nonempty s.
Proof. destruct s; reflexivity. Qed.
Lemma card_nonempty s : Nat.eqb (card s) 0 = false -> nonempty s = true.
Proof. destruct s; [discriminate|reflexivity]. Qed.

Lemma opt_in_0 s : Nat.eqb (card s) 0 = true -> optimize_in_predicate (PIn s) = PFalse.
Proof. intros E. unfold optimize_in_predicate. cbv zeta. now rewrite E. Qed.
Lemma opt_in_1 s : Nat.eqb (card s) 0 = false -> Nat.eqb (card s) 1 = true -> optimize_in_predicate (PIn s) = PEq (the_one s).
Proof. intros E0 E1. unfold optimize_in_predicate. cbv zeta. now rewrite E0, E1. Qed.
Lemma opt_in_2 s : Nat.eqb (card s) 0 = false -> Nat.eqb (card s) 1 = false -> optimize_in_predicate (PIn s) = PIn s.
Proof. intros E0 E1. unfold optimize_in_predicate. cbv zeta. now rewrite E0, E1. Qed.
Lemma opt_notin_0 s : Nat.eqb (card s) 0 = true -> optimize_not_in_predicate (PNotIn s) = PTrue.
Proof. intros E. unfold optimize_not_in_predicate. cbv zeta. now rewrite E. Qed.
Lemma opt_notin_1 s : Nat.eqb (card s) 0 = false -> Nat.eqb (card s) 1 = true -> optimize_not_in_predicate (PNotIn s) = PNe (the_one s).
Proof. intros E0 E1. unfold optimize_not_in_predicate. cbv zeta. now rewrite E0, E1. Qed.
Lemma opt_notin_2 s : Nat.eqb (card s) 0 = false -> Nat.eqb (card s) 1 = false -> optimize_not_in_predicate (PNotIn s) = PNotIn s.
Proof. intros E0 E1. unfold optimize_not_in_predicate. cbv zeta. now rewrite E0, E1. Qed.

Lemma diff_self s : diff s s = [].
Proof.
  unfold diff. assert (H : forall l, (forall a, In a l -> mem a s = true) -> filter (fun a => negb (mem a s)) l = []).
  { induction l as [|a l IH]; cbn; intros Hl; [reflexivity|]. rewrite (Hl a (or_introl eq_refl)). cbn. apply IH. auto. }
  apply H. intros a Ha. apply mem_self_in; exact Ha.
Qed.
Lemma opt_notin_union_0 s : Nat.eqb (card s) 0 = true -> optimize_not_in_predicate (PNotIn (union s s)) = PTrue.
Proof. intros E. unfold optimize_not_in_predicate. cbv zeta. now rewrite card_union_self, E. Qed.
Lemma opt_notin_union_1 s : Nat.eqb (card s) 0 = false -> Nat.eqb (card s) 1 = true ->
  optimize_not_in_predicate (PNotIn (union s s)) = PNe (the_one s).
Proof. intros E0 E1. unfold optimize_not_in_predicate. cbv zeta. now rewrite card_union_self, the_one_union_self, E0, E1. Qed.
Lemma opt_notin_union_2 s : Nat.eqb (card s) 0 = false -> Nat.eqb (card s) 1 = false ->
  optimize_not_in_predicate (PNotIn (union s s)) = PNotIn (union s s).
Proof. intros E0 E1. unfold optimize_not_in_predicate. cbv zeta. now rewrite card_union_self, E0, E1. Qed.

Ltac set_rewrites :=
  rewrite ?inter_self, ?diff_self, ?card_union_self, ?the_one_union_self, ?nonempty_union_self, ?set_eq_union_self;
  repeat match goal with
  | E0 : Nat.eqb (card ?s) 0 = true |- _ => progress rewrite ?(opt_in_0 s E0), ?(opt_notin_0 s E0), ?(opt_notin_union_0 s E0)
  | E0 : Nat.eqb (card ?s) 0 = false, E1 : Nat.eqb (card ?s) 1 = true |- _ =>
      progress rewrite ?(opt_in_1 s E0 E1), ?(opt_notin_1 s E0 E1), ?(opt_notin_union_1 s E0 E1)
  | E0 : Nat.eqb (card ?s) 0 = false, E1 : Nat.eqb (card ?s) 1 = false |- _ =>
      progress rewrite ?(opt_in_2 s E0 E1), ?(opt_notin_2 s E0 E1), ?(opt_notin_union_2 s E0 E1)
  | H : nonempty _ = true |- _ => rewrite H
  end.
(* the optimizer call in evaluation position (the one whose result the surrounding matches are waiting for) *)
Ltac head_call E k :=
  lazymatch E with
  | match ?E' with _ => _ end => head_call E' k
  | (if ?E' then _ else _) => head_call E' k
  | bind ?C _ => head_call C k
  | finish ?C => head_call C k
  | seq ?C _ => head_call C k
  | taint _ ?C => head_call C k
  | optimize ?W (S ?f) ?p => k (eq_optimize W f p)
  | optimize_and_predicate ?W (S ?f) ?p => k (eq_and W f p)
  | optimize_or_predicate ?W (S ?f) ?p => k (eq_or W f p)
  | optimize_xor_predicate ?W (S ?f) ?p => k (eq_xor W f p)
  | optimize_not_predicate ?W (S ?f) ?p => k (eq_not W f p)
  | optimize_all_predicate ?W (S ?f) ?p => k (eq_all W f p)
  | optimize_any_predicate ?W (S ?f) ?p => k (eq_any W f p)
  end.
Ltac unfold1 :=
  match goal with
  | |- match ?E with _ => _ end => head_call E ltac:(fun eqn => rewrite eqn)
  end.
(* symbolic execution, one optimizer call at a time (the law files declare the optimizer functions `simpl never`) *)
Ltac esimpl := repeat progress (cbn; unfold optimize_or_not, optimize_xor_not; set_rewrites; refl_rewrites).
Ltac exec := repeat first [ unfold1 | progress esimpl ].
(* one law for a membership atom over s: first without looking at the size of s, then by the three size classes *)
Ltac law_one s :=
  unfold yields, FUEL;
  first
  [ solve [ exec; reflexivity ]
  | solve [ destruct (Nat.eqb (card s) 0) eqn:E0;
            [ | destruct (Nat.eqb (card s) 1) eqn:E1; [ | pose proof (card_nonempty s E0) ] ];
            exec; reflexivity ] ].
Ltac law_set s := unfold law_statement, K; cbv zeta; repeat match goal with |- _ /\ _ => split end; law_one s.
Ltac law_exec := unfold law_statement, K; cbv zeta; repeat match goal with |- _ /\ _ => split end; unfold yields, FUEL; exec; reflexivity.
