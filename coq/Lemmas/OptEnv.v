(* OptEnv.v — the optimizer never reads the variable assignment: running it in a world with another `env` gives the
   same result.  (Needed by C20: the predicate printed by the CLI is computed once, its truth table ranges over
   all assignments.)  Proved by walking the two unfoldings of each generated function in lock-step. *)
From Coq Require Import QArith Bool List Arith String.
From PP Require Import Prelude.Base Prelude.Val Prelude.Pred Prelude.Sem Gen.Negate Gen.Implies Gen.Optimize.
Import ListNotations.

Definition with_env (W : world) (e : string -> bool) : world :=
  {| env := e; isinst := isinst W; fn_sem := fn_sem W; comp_sem := comp_sem W; regex_sem := regex_sem W;
     lazy_sem := lazy_sem W; self_sem := self_sem W |}.

Lemma bind_ext {A B} (m : res A) (f g : A -> res B) : (forall a, f a = g a) -> bind m f = bind m g.
Proof. intros H. unfold bind. destruct m; try reflexivity. now rewrite H. Qed.
Lemma fn_const_env W e f c : fn_const (with_env W e) f c = fn_const W f c.
Proof. reflexivity. Qed.
Lemma kdisjoint_env W e a b : kdisjoint (with_env W e) a b = kdisjoint W a b.
Proof. reflexivity. Qed.

Definition SameEnv (W W' : world) (fuel : nat) : Prop :=
  (forall p, optimize W' fuel p = optimize W fuel p) /\
  (forall p, optimize_all_predicate W' fuel p = optimize_all_predicate W fuel p) /\
  (forall p, optimize_any_predicate W' fuel p = optimize_any_predicate W fuel p) /\
  (forall p, optimize_not_predicate W' fuel p = optimize_not_predicate W fuel p) /\
  (forall p, optimize_and_predicate W' fuel p = optimize_and_predicate W fuel p) /\
  (forall p, optimize_or_predicate W' fuel p = optimize_or_predicate W fuel p) /\
  (forall p, optimize_xor_predicate W' fuel p = optimize_xor_predicate W fuel p).

Lemma bind_cong {A B} (m m' : res A) (f g : A -> res B) : m = m' -> (forall a, f a = g a) -> bind m f = bind m' g.
Proof. intros -> H. apply bind_ext. exact H. Qed.

(* lock-step walk: only local steps, no rewriting over the whole goal *)
Ltac sync IHo IHall IHany IHnot IHand IHor IHxor :=
  cbv zeta; unfold fn_const, kdisjoint;
  try change (fn_sem (with_env ?W0 ?e0)) with (fn_sem W0); try change (isinst (with_env ?W0 ?e0)) with (isinst W0);
  repeat first
  [ match goal with |- ?a = ?b => constr_eq a b; reflexivity end
  | match goal with
    | |- match ?x with _ => _ end = match ?y with _ => _ end => constr_eq x y; destruct x
    | |- (if ?c then _ else _) = (if ?d then _ else _) => constr_eq c d; destruct c
    | |- finish _ = finish _ => apply (f_equal finish)
    | |- seq _ _ = seq _ _ => apply (f_equal2 seq)
    | |- taint ?s _ = taint ?s _ => apply (f_equal (taint s))
    | |- bind (optimize _ _ _) _ = bind (optimize _ _ _) _ => apply bind_cong; [apply IHo|intros ?]
    | |- bind (optimize_all_predicate _ _ _) _ = bind _ _ => apply bind_cong; [apply IHall|intros ?]
    | |- bind (optimize_any_predicate _ _ _) _ = bind _ _ => apply bind_cong; [apply IHany|intros ?]
    | |- bind (optimize_not_predicate _ _ _) _ = bind _ _ => apply bind_cong; [apply IHnot|intros ?]
    | |- bind (optimize_and_predicate _ _ _) _ = bind _ _ => apply bind_cong; [apply IHand|intros ?]
    | |- bind (optimize_or_predicate _ _ _) _ = bind _ _ => apply bind_cong; [apply IHor|intros ?]
    | |- bind (optimize_xor_predicate _ _ _) _ = bind _ _ => apply bind_cong; [apply IHxor|intros ?]
    end ].

Theorem optimize_ignores_env W e : forall fuel, SameEnv W (with_env W e) fuel.
Proof.
  induction fuel as [|fuel (IHo & IHall & IHany & IHnot & IHand & IHor & IHxor)].
  - unfold SameEnv. repeat match goal with |- _ /\ _ => split end; intros p; reflexivity.
  - unfold SameEnv. repeat match goal with |- _ /\ _ => split end; intros p.
    + cbn [optimize]. Time sync IHo IHall IHany IHnot IHand IHor IHxor.
    + cbn [optimize_all_predicate]. Time sync IHo IHall IHany IHnot IHand IHor IHxor.
    + cbn [optimize_any_predicate]. sync IHo IHall IHany IHnot IHand IHor IHxor.
    + cbn [optimize_not_predicate]. sync IHo IHall IHany IHnot IHand IHor IHxor.
    + cbn [optimize_and_predicate]. Time sync IHo IHall IHany IHnot IHand IHor IHxor.
    + cbn [optimize_or_predicate]. sync IHo IHall IHany IHnot IHand IHor IHxor.
    + cbn [optimize_xor_predicate]. sync IHo IHall IHany IHnot IHand IHor IHxor.
Qed.

Corollary optimize_env_irrelevant W e fuel p : optimize (with_env W e) fuel p = optimize W fuel p.
Proof. exact (proj1 (optimize_ignores_env W e fuel) p). Qed.
