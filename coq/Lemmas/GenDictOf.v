(* GenDictOf.v — HAND-WRITTEN model of generate_true for is_dict_of_p (predicate/generator/generate_true.py):
       def generate_dict_of_p(dict_of_predicate):
           key_value_predicates = dict_of_predicate.key_value_predicates
           candidates = zip(STAR flatten(((generate_true(key_p), generate_true(value_p)) for key_p, value_p in key_value_predicates)), strict=False)
           yield from (dict(chunked(candidate, 2)) for candidate in candidates)          [STAR = argument unpacking]
   i.e. one stream per key predicate and per value predicate, zipped (draws interleave); each round k1 v1 k2 v2 ... becomes
   the dict {k1: v1, k2: v2, ...} (a key equal to an earlier one keeps its place and takes the later value).
   The yielded dict is encoded in `val` as VColl KDict [VColl KTuple [k; v]; ...] (venc_dict): `val` keeps only the keys of
   a dict, and DictOfPredicate needs the values.  Its meaning is Lemmas/DictOf.v's dict_of_items.
   PROVED: under `Compat` (a key meant for one entry is rejected, without an exception, by every other entry's key
   predicate, and is not equal to a key meant for another entry) every yielded dict satisfies the predicate.
   REFUTED without it (known finding 12): see Refuted/GenFindings.v. *)
From Coq Require Import QArith Bool List Arith Lia.
From PP Require Import Prelude.Base Prelude.Val Prelude.Pred Prelude.Sem Lemmas.GenDSL Lemmas.GenModel Lemmas.GenSafe Lemmas.GenZip Lemmas.DictOf.
Import ListNotations.
Close Scope Q_scope.
Open Scope nat_scope.

(* Python's == on the values that can be dict keys here (numbers compare across bool/int/float) *)
Definition numeric (k : kind) : bool := match k with KBool | KInt | KFloat => true | _ => false end.
Fixpoint key_eqb (a b : val) {struct a} : bool :=
  match a, b with
  | VQ k q _, VQ k' q' _ => Qeq_bool q q' && ((numeric k && numeric k') || kind_eqb k k')
  | VNone, VNone => true
  | VOther k i _, VOther k' i' _ => kind_eqb k k' && Nat.eqb i i'
  | VColl KTuple l, VColl KTuple l' =>
      (fix go (l l' : list val) {struct l} : bool :=
         match l, l' with [], [] => true | x :: r, y :: r' => key_eqb x y && go r r' | _, _ => false end) l l'
  | _, _ => false
  end.

(* d[k] = v *)
Fixpoint dict_set (d : list item) (k v : val) : list item :=
  match d with
  | [] => [(k, v)]
  | (k0, v0) :: r => if key_eqb k0 k then (k0, v) :: r else (k0, v0) :: dict_set r k v
  end.
Definition mkdict (ps : list item) : list item := fold_left (fun d kv => dict_set d (fst kv) (snd kv)) ps [].

(* chunked(candidate, 2) *)
Fixpoint pairs_of (vs : list val) : list item :=
  match vs with k :: v :: r => (k, v) :: pairs_of r | _ => [] end.

Definition venc_dict (d : list item) : val := VColl KDict (map (fun kv => VColl KTuple [fst kv; snd kv]) d).

(* flatten: stream 2i is the i-th key predicate's, stream 2i+1 the i-th value predicate's *)
Fixpoint comp_pred (kvs : list kvpred) (j : nat) : pred :=
  match kvs, j with
  | [], _ => PFalse
  | kv :: _, 0 => fst kv
  | kv :: _, 1 => snd kv
  | _ :: r, S (S j') => comp_pred r j'
  end.

Definition gen_dict_of (fe : fenv) (W : world) (ck : kind) (kvs : list kvpred) : gp :=
  GFun (GRound (2 * List.length kvs) (fun j => gen_true fe W ck (comp_pred kvs j)) 0 []
               (fun vs => [venc_dict (mkdict (pairs_of vs))]) GStop).

(* ------------------------------------------------------------------ a round, read as items *)
(* items i is (key, value) with key satisfying the i-th key predicate and value the i-th value predicate *)
Definition Items (W : world) (kvs : list kvpred) (items : list item) : Prop :=
  Forall2 (fun kv it => Sat W (fst kv) (fst it) /\ Sat W (snd kv) (snd it)) kvs items.

Lemma pairs_of_items W : forall kvs vs, List.length vs = 2 * List.length kvs ->
  Positional (fun j v => Sat W (comp_pred kvs j) v) vs -> Items W kvs (pairs_of vs).
Proof.
  induction kvs as [|kv kvs IH]; intros vs Hl Hp.
  - destruct vs; [constructor|discriminate].
  - destruct vs as [|k [|v vs]]; cbn in Hl; try lia. cbn [pairs_of]. constructor.
    + split; [apply (Hp 0 k eq_refl)|apply (Hp 1 v eq_refl)].
    + apply IH; [lia|]. intros m u Hm. apply (Hp (S (S m)) u). exact Hm.
Qed.

(* ------------------------------------------------------------------ dict() of pairwise different keys *)
Fixpoint ndk (l : list item) : Prop :=
  match l with [] => True | kv :: r => Forall (fun kv' => key_eqb (fst kv) (fst kv') = false) r /\ ndk r end.

Lemma dict_set_fresh : forall d k v, Forall (fun kv => key_eqb (fst kv) k = false) d -> dict_set d k v = d ++ [(k, v)].
Proof.
  induction d as [|[k0 v0] r IH]; intros k v H; cbn; [reflexivity|].
  inversion H as [|? ? H1 H2]; subst. cbn in H1. rewrite H1. f_equal. apply IH. exact H2.
Qed.

Lemma ndk_app_keys : forall d k v r, ndk (d ++ (k, v) :: r) -> Forall (fun kv => key_eqb (fst kv) k = false) d.
Proof.
  induction d as [|kv d IH]; intros k v r H; [constructor|]. cbn in H. destruct H as [H1 H2]. constructor.
  - rewrite Forall_forall in H1. apply (H1 (k, v)). apply in_or_app. right. left. reflexivity.
  - eapply IH. exact H2.
Qed.

Lemma mkdict_fold : forall ps d, ndk (d ++ ps) -> fold_left (fun d kv => dict_set d (fst kv) (snd kv)) ps d = d ++ ps.
Proof.
  induction ps as [|[k v] r IH]; intros d H; cbn; [now rewrite app_nil_r|].
  rewrite (dict_set_fresh d k v (ndk_app_keys d k v r H)).
  rewrite IH; rewrite <- app_assoc; [reflexivity|exact H].
Qed.

Lemma mkdict_ndk ps : ndk ps -> mkdict ps = ps.
Proof. intros H. unfold mkdict. now rewrite mkdict_fold. Qed.

(* ------------------------------------------------------------------ compatibility of the entries *)
Definition kp (kvs : list kvpred) (i : nat) : pred := fst (nth i kvs (PFalse, PFalse)).
Definition Compat (W : world) (kvs : list kvpred) : Prop :=
  (forall i j k, i <> j -> i < List.length kvs -> j < List.length kvs -> Sat W (kp kvs j) k -> ev W (kp kvs i) k = Some false) /\
  (forall i j k k', i < j -> j < List.length kvs -> Sat W (kp kvs i) k -> Sat W (kp kvs j) k' -> key_eqb k k' = false).

Lemma Items_nth W kvs items : Items W kvs items -> forall i it, nth_error items i = Some it ->
  i < List.length kvs /\ Sat W (kp kvs i) (fst it) /\ Sat W (snd (nth i kvs (PFalse, PFalse))) (snd it).
Proof.
  induction 1 as [|kv it0 kvs items [Hk Hv] _ IH]; intros i it Hi; [destruct i; discriminate|].
  destruct i as [|i]; cbn in *.
  - injection Hi as <-. split; [lia|]. split; assumption.
  - destruct (IH i it Hi) as (H1 & H2 & H3). split; [lia|]. split; assumption.
Qed.

Lemma Items_ndk W kvs items : Compat W kvs -> Items W kvs items -> ndk items.
Proof.
  intros [_ Hneq] HI.
  assert (Hgen : forall off l, (forall i it, nth_error l i = Some it -> nth_error items (off + i) = Some it) -> ndk l).
  { intros off l. revert off. induction l as [|it l IHl]; intros off Hsub; cbn; [exact I|]. split.
    - apply Forall_forall. intros it' Hin. apply In_nth_error in Hin as [m Hm].
      pose proof (Hsub 0 it eq_refl) as H0. pose proof (Hsub (S m) it' Hm) as H1.
      destruct (Items_nth W kvs items HI _ _ H0) as (L0 & K0 & _).
      destruct (Items_nth W kvs items HI _ _ H1) as (L1 & K1 & _).
      eapply (Hneq (off + 0) (off + S m)); [lia|exact L1|exact K0|exact K1].
    - apply (IHl (S off)). intros i it' Hi. replace (S off + i) with (off + S i) by lia. apply Hsub. exact Hi. }
  apply (Hgen 0 items). intros i it Hi. exact Hi.
Qed.

(* any(...) over the pairs, for the item meant for pair i: the pairs before it answer False, pair i answers True *)
Lemma any_of_at {A} (f : A -> option bool) : forall ys i y, nth_error ys i = Some y -> f y = Some true ->
  (forall j z, j < i -> nth_error ys j = Some z -> f z = Some false) -> any_of f ys = Some true.
Proof.
  induction ys as [|y0 r IH]; intros i y Hi Hy Hb; [destruct i; discriminate|].
  destruct i as [|i]; cbn in *.
  - injection Hi as ->. rewrite Hy. reflexivity.
  - rewrite (Hb 0 y0 (Nat.lt_0_succ i) eq_refl). apply (IH i y Hi Hy). intros j z Hj Hz. apply (Hb (S j) z); [lia|exact Hz].
Qed.

Lemma nth_error_nth_kv (kvs : list kvpred) i kv : nth_error kvs i = Some kv -> nth i kvs (PFalse, PFalse) = kv.
Proof. intros H. apply nth_error_nth. exact H. Qed.

Theorem items_satisfy W kvs items : Compat W kvs -> Items W kvs items -> dict_of_items W kvs items = Some true.
Proof.
  intros HC HI. pose proof HC as [Hrej _]. apply dict_of_true. split; [|split].
  - intros ->. inversion HI. reflexivity.
  - apply Forall_forall. intros it Hin. apply In_nth_error in Hin as [i Hi].
    destruct (Items_nth W kvs items HI i it Hi) as (Hlt & Hk & Hv).
    destruct (nth_error kvs i) as [kv|] eqn:Ekv; [|apply nth_error_None in Ekv; lia].
    pose proof (nth_error_nth_kv kvs i kv Ekv) as Enth.
    apply (any_of_at _ kvs i kv Ekv).
    + unfold kv_and. unfold kp in Hk. rewrite Enth in Hk, Hv. unfold Sat in Hk, Hv. rewrite Hk. exact Hv.
    + intros j z Hj Hz. unfold kv_and.
      assert (Hjl : j < List.length kvs) by lia.
      pose proof (Hrej j i (fst it) (Nat.lt_neq _ _ Hj) Hjl Hlt Hk) as Hr. unfold kp in Hr.
      rewrite (nth_error_nth_kv kvs j z Hz) in Hr. rewrite Hr. reflexivity.
  - apply Forall_forall. intros kv Hin. apply In_nth_error in Hin as [i Hi]. apply Forall_forall. intros it Hin2.
    apply In_nth_error in Hin2 as [j Hj].
    destruct (Items_nth W kvs items HI j it Hj) as (Hlt & Hk & Hv).
    assert (Hil : i < List.length kvs) by (apply nth_error_Some; congruence).
    pose proof (nth_error_nth_kv kvs i kv Hi) as Enth. unfold kv_viol.
    destruct (Nat.eq_dec i j) as [->|Hne].
    + unfold kp in Hk. rewrite Enth in Hk, Hv. unfold Sat in Hk, Hv. rewrite Hk, Hv. reflexivity.
    + pose proof (Hrej i j (fst it) Hne Hil Hlt Hk) as Hr. unfold kp in Hr. rewrite Enth in Hr. rewrite Hr. reflexivity.
Qed.

(* every dict generate_true(is_dict_of_p((k1, v1), ..., (kn, vn))) yields satisfies the predicate - under Compat *)
Theorem gen_dict_of_safe fe W ck kvs : fenv_ok fe -> world_ok W ->
  Forall (fun kv => gen_ok W ck (fst kv) /\ gen_ok W ck (snd kv)) kvs -> Compat W kvs ->
  forall fuel o c, Forall (fun v => exists d, v = venc_dict d /\ dict_of_items W kvs d = Some true)
                          (fst (run fuel (gen_dict_of fe W ck kvs) o c)).
Proof.
  intros Hfe HW Hok HC fuel o c. unfold gen_dict_of.
  apply (zip_run_safe (fun j v => Sat W (comp_pred kvs j) v)).
  - intros vs Hl Hpos. constructor; [|constructor].
    pose proof (pairs_of_items W kvs vs Hl Hpos) as HI.
    exists (pairs_of vs). split; [rewrite (mkdict_ndk _ (Items_ndk W kvs _ HC HI)); reflexivity|].
    apply items_satisfy; assumption.
  - intros j. apply gen_true_safe; try assumption.
    clear HC. revert j. induction Hok as [|kv r [H1 H2] _ IH]; intros j; [destruct j; exact I|].
    destruct j as [|[|j]]; cbn; auto.
Qed.
