(* Construct.v — hand-written executable model of predicate/constructor/construct.py and the C19 theorems.

   Modelled code (tied to /repo by the C19 correspondence run and by the source fingerprint
   tools/props/fingerprints/c19.json, both checked on every run):

     def construct(false_set, true_set):
         predicates = list(initial_predicates())
         while True:
             for predicate in predicates:
                 if all_p(predicate)(true_set) and all_p(~predicate)(false_set):
                     yield predicate
             predicates = list(create_mutations(predicates))

     def create_mutations(candidates):
         for left, right in gray_product(candidates, candidates):
             if left != right:
                 yield left | right
                 yield left & right

   Model.  `initial` is the list of the 14 candidates in source order.  `mutations cs` enumerates all ordered
   pairs of cs (row-major; gray_product enumerates the same set of pairs in another order: only the order of
   the stream inside a round depends on it, and every statement below is about membership), keeps the pairs
   with `negb (peq a b)` (`!=` is the negation of predicate equality, modelled by peq) and emits `a | b`,
   `a & b` (`Predicate.__or__` resolves PredicateFactory operands, which none of these are).
   `round k` is the candidate list of the k-th iteration of `while True` (the nat is the fuel; the stream is
   the concatenation over k = 0, 1, 2, ...), `yielded W fs ts k` the sub-list that passes the test
   `all_p(p)(true_set) and all_p(~p)(false_set)`, which is modelled with Python's own evaluation `ev`
   (short-circuit `and`, lazy all(), None = an exception) of `PAll p` on the list ts and `PAll (PNot p)` on fs. *)
From Coq Require Import QArith Bool List Arith String Lia.
From PP Require Import Prelude.Base Prelude.Val Prelude.Pred Prelude.Sem Lemmas.PeqFacts Lemmas.Fragments.
Import ListNotations.
Close Scope Q_scope.

(* ---------- the model ---------- *)

(* class ids of tools/corr/enc.py CLASS_LIST (the isinstance table of the world) *)
Definition is_bool_p := PIsInstance [0].
Definition is_int_p := PIsInstance [1].
Definition is_float_p := PIsInstance [2].
Definition is_str_p := PIsInstance [4].
Definition is_list_p := PIsInstance [6].
Definition is_set_p := PIsInstance [8].
Definition is_dict_p := PIsInstance [9].
Definition is_datetime_p := PIsInstance [10].

(* initial_predicates(), in source order *)
Definition initial : list pred :=
  [PFalse; PTrue; is_bool_p; is_datetime_p; is_dict_p; PIsFalsy; is_float_p; is_int_p; is_list_p;
   PIsNone; PIsNotNone; is_set_p; is_str_p; PIsTruthy].

(* the built-in type tests among them *)
Definition type_tests : list pred :=
  [is_bool_p; is_datetime_p; is_dict_p; is_float_p; is_int_p; is_list_p; is_set_p; is_str_p].

(* body of the loop of create_mutations for one pair *)
Definition mutate_pair (a b : pred) : list pred :=
  if negb (peq a b) then [POr a b; PAnd a b] else [].

(* create_mutations(candidates): all ordered pairs *)
Definition mutations (cs : list pred) : list pred :=
  flat_map (fun a => flat_map (fun b => mutate_pair a b) cs) cs.

(* `predicates` during the k-th iteration of `while True` *)
Fixpoint round (k : nat) : list pred :=
  match k with O => initial | S k' => mutations (round k') end.

(* all_p(p)(true_set) and all_p(~p)(false_set), as Python evaluates it (None = an exception escapes) *)
Definition sep_ev (W : world) (fs ts : list val) (p : pred) : option bool :=
  match ev W (PAll p) (VColl KList ts) with
  | Some true => ev W (PAll (PNot p)) (VColl KList fs)
  | o => o
  end.
Definition sep_test (W : world) (fs ts : list val) (p : pred) : bool := ob (sep_ev W fs ts p).

(* what the k-th iteration yields, in candidate order *)
Definition yielded (W : world) (fs ts : list val) (k : nat) : list pred :=
  filter (sep_test W fs ts) (round k).

(* the first n rounds of the stream *)
Definition stream_upto (W : world) (fs ts : list val) (n : nat) : list pred :=
  flat_map (yielded W fs ts) (List.seq 0 n).

(* the property's notion: p answers True on every element of ts and False on every element of fs *)
Definition separates (W : world) (p : pred) (fs ts : list val) : Prop :=
  forallb (beval W p) ts = true /\ forallb (fun x => negb (beval W p x)) fs = true.

(* ---------- the candidates never raise ---------- *)

(* the term space of all rounds: & and | over the seven atom classes of `initial` *)
Fixpoint Fcand (p : pred) : bool :=
  match p with
  | PTrue | PFalse | PIsInstance _ | PIsNone | PIsNotNone | PIsFalsy | PIsTruthy => true
  | PAnd l r | POr l r => Fcand l && Fcand r
  | _ => false
  end.

Lemma Fcand_defined W p x : Fcand p = true -> defined W p x = true.
Proof.
  induction p; cbn; intros H; try discriminate; try reflexivity.
  all: apply andb_true_iff in H as [H1 H2]; rewrite IHp1, IHp2; auto.
Qed.

Lemma Fcand_ev W p x : Fcand p = true -> ev W p x = Some (beval W p x).
Proof. intros H. apply ev_defined. apply Fcand_defined; exact H. Qed.

Lemma mutations_In cs p :
  In p (mutations cs) <->
  exists a b, In a cs /\ In b cs /\ peq a b = false /\ (p = POr a b \/ p = PAnd a b).
Proof.
  unfold mutations. rewrite in_flat_map. split.
  - intros (a & Ha & H). apply in_flat_map in H as (b & Hb & H). unfold mutate_pair in H.
    destruct (peq a b) eqn:E; cbn in H; [contradiction|].
    exists a, b. repeat split; auto. destruct H as [H|[H|[]]]; [left|right]; symmetry; exact H.
  - intros (a & b & Ha & Hb & E & H). exists a. split; [exact Ha|]. apply in_flat_map. exists b. split; [exact Hb|].
    unfold mutate_pair. rewrite E. cbn. destruct H as [H|H]; subst p; auto.
Qed.

Lemma initial_Fcand p : In p initial -> Fcand p = true.
Proof.
  assert (H : forallb Fcand initial = true) by (vm_compute; reflexivity).
  rewrite forallb_forall in H. apply H.
Qed.

Lemma round_Fcand k : forall p, In p (round k) -> Fcand p = true.
Proof.
  induction k as [|k IH]; intros p H; [apply initial_Fcand; exact H|].
  cbn [round] in H. apply mutations_In in H as (a & b & Ha & Hb & _ & [E|E]); subst p; cbn;
    rewrite (IH a Ha), (IH b Hb); reflexivity.
Qed.

(* on a candidate the test never raises, whatever the elements of the two sets are, and it computes the
   property's condition *)
Lemma sep_ev_Fcand W fs ts p :
  Fcand p = true ->
  sep_ev W fs ts p = Some (forallb (beval W p) ts && forallb (fun x => negb (beval W p x)) fs).
Proof.
  intros F. unfold sep_ev.
  assert (E1 : ev W (PAll p) (VColl KList ts) = Some (forallb (beval W p) ts)).
  { rewrite ev_defined; [reflexivity|]. cbn. apply forallb_forall. intros x _. apply Fcand_defined; exact F. }
  assert (E2 : ev W (PAll (PNot p)) (VColl KList fs) = Some (forallb (fun x => negb (beval W p x)) fs)).
  { rewrite ev_defined; [reflexivity|]. cbn. apply forallb_forall. intros x _. apply Fcand_defined; exact F. }
  rewrite E1, E2. destruct (forallb (beval W p) ts); reflexivity.
Qed.

Theorem test_total W fs ts k p :
  In p (round k) ->
  sep_ev W fs ts p = Some (forallb (beval W p) ts && forallb (fun x => negb (beval W p x)) fs).
Proof. intros H. apply sep_ev_Fcand. apply (round_Fcand k); exact H. Qed.

(* ---------- (1) safety: every round, every position ---------- *)

Theorem yielded_separates W fs ts k p :
  In p (yielded W fs ts k) ->
  forallb (beval W p) ts = true /\ forallb (fun x => negb (beval W p x)) fs = true.
Proof.
  unfold yielded. rewrite filter_In. intros [Hin Ht]. unfold sep_test in Ht.
  rewrite (test_total W fs ts k p Hin) in Ht. cbn in Ht. apply andb_true_iff in Ht. exact Ht.
Qed.

(* element-wise reading *)
Corollary yielded_separates_pointwise W fs ts k p :
  In p (yielded W fs ts k) ->
  (forall x, In x ts -> beval W p x = true /\ ev W p x = Some true) /\
  (forall x, In x fs -> beval W p x = false /\ ev W p x = Some false).
Proof.
  intros H. assert (F : Fcand p = true).
  { apply (round_Fcand k). unfold yielded in H. apply filter_In in H. apply H. }
  destruct (yielded_separates W fs ts k p H) as [H1 H2]. rewrite forallb_forall in H1, H2. split; intros x Hx.
  - rewrite (Fcand_ev W p x F), (H1 x Hx). auto.
  - specialize (H2 x Hx). apply negb_true_iff in H2. rewrite (Fcand_ev W p x F), H2. auto.
Qed.

Theorem stream_separates W fs ts n p :
  In p (stream_upto W fs ts n) -> separates W p fs ts.
Proof.
  unfold stream_upto. rewrite in_flat_map. intros (k & _ & H). exact (yielded_separates W fs ts k p H).
Qed.

(* ---------- (2) nothing that separates is skipped; the first round ---------- *)

Theorem candidate_yielded W fs ts k p :
  In p (round k) ->
  forallb (beval W p) ts = true /\ forallb (fun x => negb (beval W p x)) fs = true ->
  In p (yielded W fs ts k).
Proof.
  intros Hin [H1 H2]. unfold yielded. apply filter_In. split; [exact Hin|].
  unfold sep_test. rewrite (test_total W fs ts k p Hin), H1, H2. reflexivity.
Qed.

Theorem first_round W fs ts t :
  In t initial ->
  (forallb (beval W t) ts = true /\ forallb (fun x => negb (beval W t x)) fs = true) ->
  In t (yielded W fs ts 0).
Proof. intros H. apply (candidate_yielded W fs ts 0 t). exact H. Qed.

Lemma type_tests_initial t : In t type_tests -> In t initial.
Proof. cbn. intros H. repeat (destruct H as [H|H]; [subst t; tauto|]). contradiction. Qed.

(* when a built-in type test separates the sets, the first round yields (it among others), and therefore the
   very first predicate of the stream comes from the first round *)
Theorem first_round_type_test W fs ts t :
  In t type_tests -> separates W t fs ts ->
  In t (yielded W fs ts 0) /\ yielded W fs ts 0 <> [] /\
  forall n, exists q rest, stream_upto W fs ts (S n) = q :: rest /\ In q (yielded W fs ts 0).
Proof.
  intros Ht Hs. assert (Hy : In t (yielded W fs ts 0)) by (apply first_round; [apply type_tests_initial; exact Ht|exact Hs]).
  split; [exact Hy|]. split; [intros E; rewrite E in Hy; contradiction|].
  intros n. unfold stream_upto. cbn [List.seq flat_map].
  destruct (yielded W fs ts 0) as [|q r] eqn:E; [contradiction|].
  exists q, (r ++ flat_map (yielded W fs ts) (List.seq 1 n)). split; [reflexivity|left; reflexivity].
Qed.

(* ---------- (3) shape of the stream ---------- *)

Theorem yielded_in_round W fs ts k p : In p (yielded W fs ts k) -> In p (round k).
Proof. unfold yielded. rewrite filter_In. tauto. Qed.

Theorem stream_in_rounds W fs ts n p : In p (stream_upto W fs ts n) -> exists k, k < n /\ In p (round k).
Proof.
  unfold stream_upto. rewrite in_flat_map. intros (k & Hk & H). exists k. split.
  - apply in_seq in Hk. lia.
  - apply (yielded_in_round W fs ts); exact H.
Qed.

Theorem round_succ k p :
  In p (round (S k)) <->
  exists a b, In a (round k) /\ In b (round k) /\ peq a b = false /\ (p = POr a b \/ p = PAnd a b).
Proof. cbn [round]. apply mutations_In. Qed.

(* no pair is combined with itself or with an equal candidate *)
Lemma mutate_pair_equal a b : peq a b = true -> mutate_pair a b = [].
Proof. unfold mutate_pair. intros ->. reflexivity. Qed.

(* every round has candidates (two unequal ones, so the next round has some too): the loop never degenerates
   into an empty `for` *)
Lemma round_two_distinct k : exists a b, In a (round k) /\ In b (round k) /\ peq a b = false.
Proof.
  induction k as [|k (a & b & Ha & Hb & E)].
  - exists PFalse, PTrue. cbn. tauto.
  - exists (POr a b), (PAnd a b). repeat split.
    + apply round_succ. exists a, b. tauto.
    + apply round_succ. exists a, b. tauto.
Qed.
Theorem round_nonempty k : round k <> [].
Proof. destruct (round_two_distinct k) as (a & _ & Ha & _). intros E. rewrite E in Ha. contradiction. Qed.

Lemma round_sizes : List.length (round 0) = 14 /\ List.length (round 1) = 364.
Proof. split; vm_compute; reflexivity. Qed.

(* ---------- non-vacuity ---------- *)

Definition vint (z : Z) : val := VQ KInt (inject_Z z) (negb (Z.eqb z 0)).
Definition vstr (n : nat) : val := VColl KStr (map (fun i => VOther KStr i true) (List.seq 0 n)).
Definition vdt : val := VOther KDatetime 0 true.

(* ints against a str, None, a float, a datetime and an empty list: is_int_p (and nothing else of round 0)
   separates them *)
Definition ex_ts1 : list val := [vint 3; vint 0].
Definition ex_fs1 : list val := [vstr 2; VNone; VQ KFloat (5#2)%Q true; vdt; VColl KList []].
Example ex_first_round :
  yielded (W_ex []) ex_fs1 ex_ts1 0 = [is_int_p] /\ separates (W_ex []) is_int_p ex_fs1 ex_ts1 /\ In is_int_p type_tests.
Proof. repeat split; vm_compute; tauto. Qed.

(* an int and a str against None and a float: no single candidate does it, round 1 finds is_int_p | is_str_p *)
Definition ex_ts2 : list val := [vint 1; vstr 1].
Definition ex_fs2 : list val := [VNone; VQ KFloat (5#2)%Q true].
Example ex_second_round :
  yielded (W_ex []) ex_fs2 ex_ts2 0 = [] /\
  In (POr is_int_p is_str_p) (yielded (W_ex []) ex_fs2 ex_ts2 1) /\
  List.length (yielded (W_ex []) ex_fs2 ex_ts2 1) = 2 /\
  forallb (fun p => forallb (beval (W_ex []) p) ex_ts2 && forallb (fun x => negb (beval (W_ex []) p x)) ex_fs2)
          (yielded (W_ex []) ex_fs2 ex_ts2 1) = true.
Proof. repeat split; vm_compute; tauto. Qed.

(* True is an int: is_int_p does not separate [3] from [True], and no candidate of rounds 0 and 1 does *)
Example ex_bool_is_int :
  beval (W_ex []) is_int_p (VQ KBool 1%Q true) = true /\
  stream_upto (W_ex []) [VQ KBool 1%Q true] [vint 3] 2 = [].
Proof. split; vm_compute; reflexivity. Qed.

(* the hypothesis of round_succ is inhabited and peq really filters: is_int_p | is_str_p is a candidate of round 1,
   is_int_p | is_int_p is not *)
Example ex_round1 :
  existsb (peq (POr is_int_p is_str_p)) (round 1) = true /\
  existsb (fun p => match p with POr a b | PAnd a b => peq a b | _ => true end) (round 1) = false.
Proof. split; vm_compute; reflexivity. Qed.
