(* GenTupleOf.v — HAND-WRITTEN model of generate_true for is_tuple_of_p (predicate/generator/generate_true.py):
       def generate_tuple_of_p(tuple_of_predicate):
           predicates = tuple_of_predicate.predicates
           yield from zip(STAR (generate_true(predicate) for predicate in predicates), strict=False)     [STAR = argument unpacking]
   zip pulls one value from each component stream in turn (they share the PRNG: the draws interleave), yields the tuple
   when all have delivered and ends as soon as one of them ends; zip() of no stream at all yields nothing.
   TupleOfPredicate is not a constructor of `pred` (its field is a list): the program takes the list, the meaning of the
   predicate is Lemmas/TupleOf.v's tuple_of_call.  Tie: source fingerprints (generate_true.py, tuple_of_predicate.py) +
   the draw-replay correspondence of tools/props/c09.py. *)
From Coq Require Import QArith Bool List Arith Lia.
From PP Require Import Prelude.Base Prelude.Val Prelude.Pred Prelude.Sem Lemmas.GenDSL Lemmas.GenModel Lemmas.GenSafe Lemmas.TupleOf Lemmas.GenZip.
Import ListNotations.
Close Scope Q_scope.
Open Scope nat_scope.

Definition gen_tuple_of (fe : fenv) (W : world) (ck : kind) (ps : list pred) : gp :=
  GFun (GRound (List.length ps) (fun j => gen_true fe W ck (nth j ps PFalse)) 0 []
               (fun vs => [VColl KTuple vs]) GStop).

(* a round that delivered one value per position, each from its own component stream *)
Lemma positional_zip_all W : forall ps vs,
  Positional (fun j v => j < List.length ps -> Sat W (nth j ps PFalse) v) vs -> List.length vs = List.length ps ->
  zip_all W ps vs = Some true.
Proof.
  induction ps as [|p ps IH]; intros vs H Hl; destruct vs as [|v vs]; cbn in *; try discriminate; [reflexivity|].
  injection Hl as Hl.
  assert (Hv : ev W p v = Some true) by (apply (H 0 v eq_refl); lia).
  rewrite Hv. apply IH; [|exact Hl].
  intros m u Hm Hlt. apply (H (S m) u Hm). lia.
Qed.

(* every tuple generate_true(is_tuple_of_p(p1, ..., pn)) yields satisfies the tuple_of predicate: every oracle of draws,
   every position of the stream, components of every supported kind *)
Theorem gen_tuple_of_safe fe W ck ps : fenv_ok fe -> world_ok W -> Forall (gen_ok W ck) ps ->
  forall fuel o c, Forall (fun v => tuple_of_call W ps v = Some true) (fst (run fuel (gen_tuple_of fe W ck ps) o c)).
Proof.
  intros Hfe HW Hps fuel o c. unfold gen_tuple_of.
  apply (zip_run_safe (fun j v => Sat W (nth j ps PFalse) v)).
  - intros vs Hl Hpos. constructor; [|constructor]. unfold tuple_of_call. rewrite Hl, Nat.eqb_refl.
    apply positional_zip_all; [|exact Hl]. intros m u Hm _. apply Hpos; exact Hm.
  - intros j. destruct (Nat.lt_ge_cases j (List.length ps)) as [Hlt|Hge].
    + apply gen_true_safe; try assumption. rewrite Forall_forall in Hps. apply Hps. apply nth_In. exact Hlt.
    + rewrite nth_overflow by exact Hge. apply gen_true_safe; try assumption. exact I.
Qed.

(* every yielded value IS a tuple with one component per predicate, and each component satisfies its own predicate *)
Corollary gen_tuple_of_components fe W ck ps : fenv_ok fe -> world_ok W -> Forall (gen_ok W ck) ps ->
  forall fuel o c v, In v (fst (run fuel (gen_tuple_of fe W ck ps) o c)) ->
  exists k items, v = VColl k items /\ List.length items = List.length ps /\ Forall2 (fun p x => ev W p x = Some true) ps items.
Proof.
  intros Hfe HW Hps fuel o c v Hin.
  pose proof (gen_tuple_of_safe fe W ck ps Hfe HW Hps fuel o c) as H. rewrite Forall_forall in H. specialize (H v Hin).
  destruct v as [| | |k items]; try discriminate H.
  exists k, items. split; [reflexivity|]. apply (proj1 (tuple_of_spec W ps k items)) in H. exact H.
Qed.

(* no component predicate at all: zip() of nothing yields nothing *)
Lemma gen_tuple_of_nil fe W ck fuel o c : fst (run fuel (gen_tuple_of fe W ck []) o c) = [].
Proof. destruct fuel as [|[|f]]; reflexivity. Qed.

(* ------------------------------------------------------------------ PRODUCTIVITY (C11) *)
From PP Require Import Lemmas.GenProd.

(* one round pulls one value from each component: the bound is the number of components times the largest component bound *)
Fixpoint Bsum (ps : list pred) : nat := match ps with [] => 10 | p :: r => Bt p + Bsum r end.
Definition Btuple (ps : list pred) : nat := List.length ps * Bsum ps + 3.

Lemma Bsum_ge ps : 10 <= Bsum ps.
Proof. induction ps as [|p r IH]; cbn; [lia|]. pose proof (Bt_pos p). lia. Qed.

Lemma Bsum_nth ps : forall j, Bt (nth j ps PFalse) <= Bsum ps.
Proof.
  induction ps as [|p r IH]; intros [|j]; cbn [nth Bsum]; try (cbn; lia).
  - specialize (IH j). lia.
Qed.

Lemma prod_true_nth ck ps : Forall (fun p => prod_true ck p = true) ps -> forall j, prod_true ck (nth j ps PFalse) = true.
Proof.
  intros H j. destruct (Nat.lt_ge_cases j (List.length ps)) as [Hlt|Hge].
  - rewrite Forall_forall in H. apply H. apply nth_In. exact Hlt.
  - rewrite nth_overflow by exact Hge. reflexivity.
Qed.

(* at least one component, all of kinds without rejection sampling: at every position of the stream of tuples the next
   tuple (or the end of the stream: zip ends with its shortest component) arrives within Btuple ps steps *)
Theorem gen_tuple_of_productive fe W ck ps : ps <> [] -> Forall (fun p => prod_true ck p = true) ps ->
  G (Btuple ps) (Btuple ps) (gen_tuple_of fe W ck ps).
Proof.
  intros Hne Hps. unfold gen_tuple_of, Btuple. constructor.
  assert (Hn : 1 <= List.length ps) by (destruct ps; [congruence|cbn; lia]).
  pose proof (Bsum_ge ps) as Hb.
  assert (Hcomp : forall j, G (Bsum ps) (Bsum ps) (gen_true fe W ck (nth j ps PFalse))).
  { intros j. eapply G_up; [apply gen_true_productive; apply prod_true_nth; exact Hps|apply Bsum_nth|apply Bsum_nth]. }
  eapply G_up; [eapply (G_round_pull (Bsum ps) (Bsum ps) 1 1 (List.length ps * Bsum ps + 3) (List.length ps) _ 0 [] _ GStop);
                try lia; try reflexivity| |lia].
  - intros j _. apply Hcomp.
  - apply Hcomp.
  - intros vs _. discriminate.
  - constructor. lia.
  - nia.
Qed.

Theorem gen_tuple_of_next_always_completes fe W ck ps : ps <> [] -> Forall (fun p => prod_true ck p = true) ps ->
  forall n o c, exists r, nth_next n (Btuple ps) (gen_tuple_of fe W ck ps) o c = Some r.
Proof.
  intros Hne Hps n o c. destruct (every_next_completes _ _ _ (gen_tuple_of_productive fe W ck ps Hne Hps) n o c) as [r Hr].
  rewrite Nat.max_id in Hr. eauto.
Qed.
