(* GenSafe.v — every value the modelled generators can yield satisfies (generate_true, C09) / violates
   (generate_false, C10) the predicate, in the sense of Python's own evaluation `ev` (no exception, the right answer). *)
From Coq Require Import QArith Qround ZArith Bool List Arith Lia Lqa.
From PP Require Import Prelude.Base Prelude.Val Prelude.Pred Prelude.Sem Gen.Negate Gen.Implies Gen.Optimize
  Lemmas.PeqFacts Lemmas.Term Lemmas.GenDSL Lemmas.GenModel.
Import ListNotations.
Close Scope Q_scope.
Open Scope nat_scope.

Definition Sat (W : world) (p : pred) (v : val) : Prop := ev W p v = Some true.
Definition Unsat (W : world) (p : pred) (v : val) : Prop := ev W p v = Some false.
Definition Any (v : val) : Prop := True.

(* every program is safe for the trivial property *)
Lemma Safe_any : forall g, Safe Any g.
Proof.
  induction g; try (constructor; unfold Any; auto; fail).
  - eapply S_filter with (Q := Any); unfold Any; auto.
  - eapply S_map with (Q := Any); unfold Any; auto.
  - eapply S_take with (Q := Any); unfold Any; auto. clear. induction acc; constructor; auto.
  - eapply S_round with (Q := fun _ => Any); unfold Any; auto.
    + clear. induction buf; constructor; eauto.
    + intros vs _. clear. induction (emit vs); constructor; auto.
Qed.

Lemma Safe_emit P vs : Forall P vs -> Safe P (emit_all vs GStop).
Proof. intros H. apply Safe_emit_all; [exact H|constructor]. Qed.

(* ---------- helpers ---------- *)
Definition is_int_in (lo hi : Z) (v : val) : Prop := exists z, v = vint z /\ (lo <= z <= hi)%Z.
Definition is_float_in (lo hi : Q) (v : val) : Prop := exists q, v = vfloat q /\ (lo <= q)%Q /\ (q <= hi)%Q.

Lemma draw_ints_safe P n lo hi low high k :
  (lo <= low)%Z -> (high <= hi)%Z -> (low <= high)%Z -> (forall v, is_int_in lo hi v -> P v) -> Safe P k ->
  Safe P (draw_ints n low high k).
Proof.
  intros H1 H2 H3 HP Hk. induction n as [|n IH]; cbn; [exact Hk|].
  constructor. intros z [Hz|Hz]; [|lia].
  constructor; [|exact IH]. apply HP. exists z. split; [reflexivity|lia].
Qed.

Lemma between_safe P lo hi origin limit count k :
  (forall v, is_int_in lo hi v -> P v) -> Safe P k -> Safe P (between lo hi origin limit count k).
Proof.
  intros HP Hk. unfold between. destruct (Z.leb_spec (Z.max (origin - limit) lo) (Z.min (origin + limit) hi)); [|exact Hk].
  apply (draw_ints_safe P count lo hi); auto; lia.
Qed.

Lemma random_ints_safe P lo hi : (forall v, is_int_in lo hi v -> P v) -> Safe P (random_ints lo hi).
Proof.
  intros HP. unfold random_ints. destruct (hi <? lo)%Z; [constructor|].
  assert (Hb : Safe P (between lo hi (Z.min (Z.max 0 lo) hi) 1 1 (between lo hi (Z.min (Z.max 0 lo) hi) 10 10
                (between lo hi (Z.min (Z.max 0 lo) hi) 100 100 (between lo hi (Z.min (Z.max 0 lo) hi) MAXS 10 GStop))))).
  { repeat apply between_safe; auto. constructor. }
  constructor. constructor; exact Hb.
Qed.

Lemma random_floats_safe P lo hi :
  (lo <= hi)%Q -> (forall v, is_float_in lo hi v -> P v) -> Safe P (random_floats lo hi).
Proof.
  intros Hl HP. unfold random_floats.
  assert (Hb : Safe P (GReal lo hi (fun q => GYield (vfloat q) GStop))).
  { constructor. intros q [[H1 H2]|H]; [|exfalso; lra]. constructor; [|constructor]. apply HP. exists q. auto. }
  constructor. constructor; [apply HP; exists lo; repeat split; [apply Qle_refl|exact Hl]|].
  constructor; [apply HP; exists hi; repeat split; [exact Hl|apply Qle_refl]|]. constructor; exact Hb.
Qed.

(* filters through the predicate itself *)
Lemma passes_sat W p v : passes W p v = true -> Sat W p v.
Proof. unfold passes, Sat, ob. destruct (ev W p v) as [[|]|]; congruence. Qed.
Lemma filter_safe W p g : Safe (Sat W p) (GFun (GFilter (passes W p) g GStop)).
Proof. constructor. eapply S_filter with (Q := Any); [apply Safe_any| |constructor]. intros v _. apply passes_sat. Qed.

(* collections built from satisfying / violating elements *)
Lemma ev_all_true W q vs : Forall (Sat W q) vs -> ev_all (ev W q) vs = Some true.
Proof. induction 1 as [|v r Hv _ IH]; cbn; [reflexivity|]. rewrite Hv. exact IH. Qed.

(* random_combination_with_replacement only selects from the pool *)
Lemma select_in (P : val -> Prop) pool idx : pool <> [] -> Forall P pool -> Forall P (select pool idx).
Proof.
  intros Hne H. unfold select. induction (sortZ idx) as [|z r IH]; cbn; [constructor|]. constructor; [|exact IH].
  rewrite Forall_forall in H. apply H.
  destruct (nth_in_or_default (Z.to_nat z) pool (hd VNone pool)) as [Hin|Hd]; [exact Hin|].
  rewrite Hd. destruct pool; [contradiction|]. left. reflexivity.
Qed.
Lemma select_length pool idx : List.length (select pool idx) = List.length idx.
Proof.
  unfold select. rewrite map_length. induction idx as [|z r IH]; cbn; [reflexivity|].
  assert (H : forall l, List.length (insertZ z l) = S (List.length l)).
  { induction l as [|x l IHl]; cbn; [reflexivity|]. destruct (z <=? x)%Z; cbn; [reflexivity|]. now rewrite IHl. }
  rewrite H. now rewrite IH.
Qed.
Lemma draw_idx_safe P r n acc k : (forall idx, List.length idx = r + List.length acc -> Safe P (k idx)) -> Safe P (draw_idx r n acc k).
Proof.
  revert acc. induction r as [|r IH]; intros acc H; cbn.
  - apply H. rewrite rev_length. reflexivity.
  - constructor. intros z _. apply IH. intros idx Hl. apply H. rewrite Hl. cbn. lia.
Qed.
Lemma rcwr_safe (P Q : val -> Prop) pool r k :
  Forall Q pool -> (forall sel, Forall Q sel -> List.length sel = r -> Safe P (k sel)) -> Safe P (rcwr pool r k).
Proof.
  intros Hp Hk. unfold rcwr. destruct pool as [|x pool']; [constructor|].
  apply draw_idx_safe. intros idx Hl. apply Hk; [apply select_in; [discriminate|exact Hp]|].
  rewrite select_length, Hl. cbn. lia.
Qed.
