(* GenSafe.v — every value the modelled generators can yield satisfies (generate_true, C09) / violates
   (generate_false, C10) the predicate, in the sense of Python's own evaluation `ev` (no exception, the right answer). *)
From Coq Require Import QArith Qround ZArith Bool List Arith Lia Lqa.
From PP Require Import Prelude.Base Prelude.Val Prelude.Pred Prelude.Sem Gen.Negate Gen.Implies Gen.Optimize
  Lemmas.PeqFacts Lemmas.Term Lemmas.GenDSL Lemmas.GenModel.
Import ListNotations.
Close Scope Q_scope.
Open Scope nat_scope.

Definition Sat (W : world) (p : pred) (v : val) : Prop := ev W p v = Some true.
Definition Unsat (W : world) (p : pred) (v : val) : Prop := ev W p v = Some false.
Definition Any (v : val) : Prop := True.

(* every program is safe for the trivial property *)
Lemma Forall_any (vs : list val) : Forall Any vs.
Proof. induction vs; constructor; unfold Any; auto. Qed.
Lemma Forall_ex_any (vs : list val) : Forall (fun v => exists j : nat, (fun _ : nat => Any) j v) vs.
Proof. induction vs; constructor; [exists 0; exact I|assumption]. Qed.
Lemma Safe_any : forall g, Safe Any g.
Proof.
  induction g; try (constructor; unfold Any; auto; fail).
  - eapply S_filter with (Q := Any); unfold Any; auto.
  - eapply S_map with (Q := Any); unfold Any; auto.
  - eapply S_take with (Q := Any); auto using Forall_any.
  - eapply S_round with (Q := fun _ => Any); auto using Forall_any, Forall_ex_any.
Qed.

Lemma Safe_emit (P : val -> Prop) vs : Forall P vs -> Safe P (emit_all vs GStop).
Proof. intros H. apply Safe_emit_all; [exact H|constructor]. Qed.

(* ---------- helpers ---------- *)
Definition is_int_in (lo hi : Z) (v : val) : Prop := exists z, v = vint z /\ (lo <= z <= hi)%Z.
Definition is_float_in (lo hi : Q) (v : val) : Prop := exists q, v = vfloat q /\ (lo <= q)%Q /\ (q <= hi)%Q.

Lemma draw_ints_safe (P : val -> Prop) n lo hi low high k :
  (lo <= low)%Z -> (high <= hi)%Z -> (low <= high)%Z -> (forall v, is_int_in lo hi v -> P v) -> Safe P k ->
  Safe P (draw_ints n low high k).
Proof.
  intros H1 H2 H3 HP Hk. induction n as [|n IH]; cbn; [exact Hk|].
  constructor. intros z [Hz|Hz]; [|lia].
  constructor; [|exact IH]. apply HP. exists z. split; [reflexivity|lia].
Qed.

Lemma between_safe (P : val -> Prop) lo hi origin limit count k :
  (forall v, is_int_in lo hi v -> P v) -> Safe P k -> Safe P (between lo hi origin limit count k).
Proof.
  intros HP Hk. unfold between. destruct (Z.leb_spec (Z.max (origin - limit) lo) (Z.min (origin + limit) hi)); [|exact Hk].
  apply (draw_ints_safe P count lo hi); auto; lia.
Qed.

Lemma random_ints_safe (P : val -> Prop) lo hi : (forall v, is_int_in lo hi v -> P v) -> Safe P (random_ints lo hi).
Proof.
  intros HP. unfold random_ints. destruct (hi <? lo)%Z; [constructor|].
  assert (Hb : Safe P (between lo hi (Z.min (Z.max 0 lo) hi) 1 1 (between lo hi (Z.min (Z.max 0 lo) hi) 10 10
                (between lo hi (Z.min (Z.max 0 lo) hi) 100 100 (between lo hi (Z.min (Z.max 0 lo) hi) MAXS 10 GStop))))).
  { repeat apply between_safe; auto. constructor. }
  constructor. constructor; exact Hb.
Qed.

Lemma random_floats_safe (P : val -> Prop) lo hi :
  (lo <= hi)%Q -> (forall v, is_float_in lo hi v -> P v) -> Safe P (random_floats lo hi).
Proof.
  intros Hl HP. unfold random_floats.
  assert (Hb : Safe P (if Qle_bool hi lo then GYield (vfloat lo) GStop else GReal lo hi (fun q => GYield (vfloat q) GStop))).
  { destruct (Qle_bool hi lo).
    - constructor; [|constructor]. apply HP. exists lo. repeat split; [apply Qle_refl|exact Hl].
    - constructor. intros q [[H1 H2]|H]; [|exfalso; lra]. constructor; [|constructor]. apply HP. exists q. auto. }
  constructor. constructor; [apply HP; exists lo; repeat split; [apply Qle_refl|exact Hl]|].
  constructor; [apply HP; exists hi; repeat split; [exact Hl|apply Qle_refl]|]. constructor; exact Hb.
Qed.

(* filters through the predicate itself *)
Lemma passes_sat W p v : passes W p v = true -> Sat W p v.
Proof. unfold passes, Sat, ob. destruct (ev W p v) as [[|]|]; congruence. Qed.
Lemma filter_safe W p g : Safe (Sat W p) (GFun (GFilter (passes W p) g GStop)).
Proof. constructor. eapply S_filter with (Q := Any); [apply Safe_any| |constructor]. intros v _. apply passes_sat. Qed.

(* collections built from satisfying / violating elements *)
Lemma ev_all_true W q vs : Forall (Sat W q) vs -> ev_all (ev W q) vs = Some true.
Proof. induction 1 as [|v r Hv _ IH]; cbn; [reflexivity|]. rewrite Hv. exact IH. Qed.

(* random_combination_with_replacement only selects from the pool *)
Lemma select_in (P : val -> Prop) pool idx : pool <> [] -> Forall P pool -> Forall P (select pool idx).
Proof.
  intros Hne H. unfold select. induction (sortZ idx) as [|z r IH]; cbn; [constructor|]. constructor; [|exact IH].
  rewrite Forall_forall in H. apply H.
  destruct (nth_in_or_default (Z.to_nat z) pool (hd VNone pool)) as [Hin|Hd]; [exact Hin|].
  rewrite Hd. destruct pool; [contradiction|]. left. reflexivity.
Qed.
Lemma insertZ_length z l : List.length (insertZ z l) = S (List.length l).
Proof. induction l as [|x l IHl]; cbn; [reflexivity|]. destruct (z <=? x)%Z; cbn; [reflexivity|]. now rewrite IHl. Qed.
Lemma sortZ_length l : List.length (sortZ l) = List.length l.
Proof. unfold sortZ. induction l as [|z r IH]; cbn; [reflexivity|]. now rewrite insertZ_length, IH. Qed.
Lemma select_length pool idx : List.length (select pool idx) = List.length idx.
Proof. unfold select. now rewrite map_length, sortZ_length. Qed.
Lemma draw_idx_safe (P : val -> Prop) r n acc k : (forall idx, List.length idx = r + List.length acc -> Safe P (k idx)) -> Safe P (draw_idx r n acc k).
Proof.
  revert acc. induction r as [|r IH]; intros acc H; cbn.
  - apply H. rewrite rev_length. reflexivity.
  - constructor. intros z _. apply IH. intros idx Hl. apply H. rewrite Hl. cbn. lia.
Qed.
Lemma rcwr_safe (P Q : val -> Prop) pool r k :
  Forall Q pool -> (forall sel, Forall Q sel -> List.length sel = r -> Safe P (k sel)) -> Safe P (rcwr pool r k).
Proof.
  intros Hp Hk. unfold rcwr. destruct pool as [|x pool']; [constructor|].
  apply draw_idx_safe. intros idx Hl. apply Hk; [apply select_in; [discriminate|exact Hp]|].
  rewrite select_length, Hl. cbn. lia.
Qed.

(* ---------- what the theorems assume about the world and the term ---------- *)
(* the isinstance table says the generated kinds are instances of the classes they were generated for *)
Definition world_ok (W : world) : Prop :=
  isinst W KStr 4 = true /\ isinst W KBool 0 = true /\ isinst W KComplex 3 = true /\ isinst W KDatetime 10 = true /\
  isinst W KDict 9 = true /\ isinst W KFloat 2 = true /\ isinst W KUuid 11 = true /\ isinst W KInt 1 = true /\
  isinst W KSet 8 = true.

(* side conditions on the term: integer constants where the constants' type is int, and - the known finding about
   `|` - the left operand of a disjunction must not raise on the values the right operand's generator produces
   (stated simply as: it never raises) *)
Fixpoint gen_ok (W : world) (ck : kind) (p : pred) : Prop :=
  match p with
  | POr l r => (forall v, ev W l v <> None) /\ gen_ok W ck l /\ gen_ok W ck r
  | PAnd l r => gen_ok W ck l /\ gen_ok W ck r
  | PAll q | PAny q | PSetOf q => gen_ok W ck q
  | PGe v | PGt v | PLe v | PLt v => ck = KInt -> (inject_Z (Qfloor v) == v)%Q
  | _ => True
  end.

Lemma Sat_weaken_any W p g : (forall v, Sat W p v) -> Safe (Sat W p) g.
Proof. intros H. eapply Safe_weaken; [|apply Safe_any]. intros v _. apply H. Qed.

Lemma kind_isinst W k c ks v : type_of v = k -> isinst W k c = true -> ev W (PIsInstance (c :: ks)) v = Some true.
Proof. intros Hk Hi. cbn. unfold isinstance. cbn. rewrite Hk, Hi. reflexivity. Qed.

Lemma is_kind_type k v : is_kind k v = true -> type_of v = k.
Proof. unfold is_kind. destruct (type_of v), k; cbn; congruence. Qed.

(* the type-test generators *)
Lemma strings_safe (P : val -> Prop) : (forall v, type_of v = KStr -> P v) -> Safe P random_strings.
Proof.
  intros HP. unfold random_strings. constructor.
  assert (Hb : Safe P (GInt 0 10 (fun _ => GVal (is_kind KStr) str_dflt (fun s => GYield s GStop)))).
  { constructor. intros z _. constructor. intros v [Hv|Hv]; (constructor; [|constructor]); apply HP;
    [apply is_kind_type; exact Hv|subst; reflexivity]. }
  constructor; exact Hb.
Qed.
Lemma uuids_safe (P : val -> Prop) : (forall v, type_of v = KUuid -> P v) -> Safe P random_uuids.
Proof.
  intros HP. unfold random_uuids. constructor.
  assert (Hb : Safe P (GVal (is_kind KUuid) uuid_dflt (fun u => GYield u GStop))).
  { constructor. intros v [Hv|Hv]; (constructor; [|constructor]); apply HP; [apply is_kind_type; exact Hv|subst; reflexivity]. }
  constructor; exact Hb.
Qed.
Lemma datetimes_safe (P : val -> Prop) : (forall v, type_of v = KDatetime -> P v) -> Safe P random_datetimes.
Proof.
  intros HP. unfold random_datetimes. constructor. constructor.
  intros v [Hv|Hv]; (constructor; [|constructor]); apply HP; [apply is_kind_type; exact Hv|subst; reflexivity].
Qed.
Lemma dicts_safe (P : val -> Prop) : (forall ks, P (VColl KDict ks)) -> Safe P random_dicts.
Proof.
  intros HP. unfold random_dicts. constructor. constructor; [apply HP|].
  assert (Hb : Safe P (GTake 5 random_strings [] (fun keys => GTake 5 random_anys [] (fun vals =>
                GYield (VColl KDict (firstn (List.length vals) keys)) GStop)))).
  { eapply S_take with (Q := Any); [apply Safe_any|constructor|]. intros keys _.
    eapply S_take with (Q := Any); [apply Safe_any|constructor|]. intros vals _. constructor; [apply HP|constructor]. }
  constructor; exact Hb.
Qed.
Lemma sets_safe (P : val -> Prop) : (forall vs, P (VColl KSet vs)) -> Safe P random_sets.
Proof.
  intros HP. unfold random_sets. constructor. constructor; [apply HP|].
  assert (Hb : Safe P (GInt 0 10 (fun n => GTake (Z.to_nat n) random_anys [] (fun vs => GYield (VColl KSet vs) GStop)))).
  { constructor. intros z _. eapply S_take with (Q := Any); [apply Safe_any|constructor|].
    intros vs _. constructor; [apply HP|constructor]. }
  constructor; exact Hb.
Qed.

Lemma offsets_safe (P : val -> Prop) v sign from n k :
  (forall d, P (cv KDatetime (v + inject_Z (sign * d))%Q) \/ (d < from)%Z) -> Safe P k -> Safe P (offsets v sign from n k).
Proof.
  revert from. induction n as [|n IH]; intros from H Hk; cbn; [exact Hk|].
  constructor.
  - destruct (H from) as [Hp|Hl]; [exact Hp|lia].
  - apply IH; [|exact Hk]. intros d. destruct (H d) as [Hp|Hl]; [left; exact Hp|right; lia].
Qed.

(* ---------- comparison atoms ---------- *)
Lemma sat_ge W v k q t : (v <= q)%Q -> Sat W (PGe v) (VQ k q t).
Proof. intros H. unfold Sat. cbn. f_equal. apply Qle_bool_iff. exact H. Qed.
Lemma sat_le W v k q t : (q <= v)%Q -> Sat W (PLe v) (VQ k q t).
Proof. intros H. unfold Sat. cbn. f_equal. apply Qle_bool_iff. exact H. Qed.
Lemma sat_gt W v k q t : (v < q)%Q -> Sat W (PGt v) (VQ k q t).
Proof. intros H. unfold Sat. cbn. f_equal. unfold Qlt_bool. apply negb_true_iff. destruct (Qle_bool q v) eqn:E; [|reflexivity].
  apply Qle_bool_iff in E. exfalso. lra. Qed.
Lemma sat_lt W v k q t : (q < v)%Q -> Sat W (PLt v) (VQ k q t).
Proof. intros H. unfold Sat. cbn. f_equal. unfold Qlt_bool. apply negb_true_iff. destruct (Qle_bool v q) eqn:E; [|reflexivity].
  apply Qle_bool_iff in E. exfalso. lra. Qed.
Lemma unsat_ge W v k q t : (q < v)%Q -> Unsat W (PGe v) (VQ k q t).
Proof. intros H. unfold Unsat. cbn. f_equal. destruct (Qle_bool v q) eqn:E; [|reflexivity]. apply Qle_bool_iff in E. exfalso. lra. Qed.
Lemma unsat_gt W v k q t : (q <= v)%Q -> Unsat W (PGt v) (VQ k q t).
Proof. intros H. unfold Unsat. cbn. f_equal. unfold Qlt_bool. apply negb_false_iff. apply Qle_bool_iff. exact H. Qed.

Lemma injZ_nonneg d : (0 <= d)%Z -> (0 <= inject_Z d)%Q.
Proof. intros H. change 0%Q with (inject_Z 0). rewrite <- Zle_Qle; exact H. Qed.
Lemma injZ_pos d : (1 <= d)%Z -> (1 <= inject_Z d)%Q.
Proof. intros H. change 1%Q with (inject_Z 1). rewrite <- Zle_Qle; exact H. Qed.
Lemma injZ_neg d : (0 <= d)%Z -> (inject_Z (-1 * d) == - inject_Z d)%Q.
Proof. intros _. unfold Qeq, Qopp, inject_Z. cbn [Qnum Qden]. lia. Qed.
Lemma injZ_one d : (inject_Z (1 * d) == inject_Z d)%Q.
Proof. unfold Qeq, inject_Z. cbn [Qnum Qden]. lia. Qed.

(* a comparison generator, for the five constant sorts *)
Lemma by_sort_true_safe W ck p (P : val -> Prop) dt fl it :
  (forall v, Sat W p v -> P v) -> (ck = KDatetime -> Safe P dt) -> (ck = KFloat -> Safe P fl) -> (ck = KInt -> Safe P it) ->
  Safe P (GFun (by_sort_true W ck p dt fl it)).
Proof.
  intros HP Hd Hf Hi. constructor. unfold by_sort_true.
  destruct ck; auto; try (constructor; fail);
    (unfold generate_strings, generate_uuids; eapply Safe_weaken; [exact HP|apply filter_safe]).
Qed.
Lemma by_sort_false_safe W ck p (P : val -> Prop) dt fl it :
  (forall v, Sat W (PNot p) v -> P v) -> (ck = KDatetime -> Safe P dt) -> (ck = KFloat -> Safe P fl) -> (ck = KInt -> Safe P it) ->
  Safe P (GFun (by_sort_false W ck p dt fl it)).
Proof.
  intros HP Hd Hf Hi. constructor. unfold by_sort_false.
  destruct ck; auto; try (constructor; fail);
    (unfold generate_strings, generate_uuids; eapply Safe_weaken; [exact HP|apply filter_safe]).
Qed.

Lemma sat_not_unsat W p v : Sat W (PNot p) v -> Unsat W p v.
Proof. unfold Sat, Unsat. cbn. destruct (ev W p v) as [[|]|]; cbn; congruence. Qed.

Ltac int_case :=
  unfold ints_from, ints_upto; apply random_ints_safe; intros ? (z & -> & Hz); unfold vint.
Ltac float_case fe :=
  apply random_floats_safe; [|intros ? (q & -> & Hq1 & Hq2); unfold vfloat].
Ltac dt_case :=
  apply offsets_safe; [|constructor]; intros d; destruct (Z_lt_le_dec d 0) as [Hd|Hd]; [right; lia|]; unfold cv.

Lemma cmp_true_safe fe W ck : fenv_ok fe -> forall v, (ck = KInt -> (inject_Z (Qfloor v) == v)%Q) ->
  Safe (Sat W (PGe v)) (gen_true fe W ck (PGe v)) /\ Safe (Sat W (PGt v)) (gen_true fe W ck (PGt v)) /\
  Safe (Sat W (PLe v)) (gen_true fe W ck (PLe v)) /\ Safe (Sat W (PLt v)) (gen_true fe W ck (PLt v)).
Proof.
  intros (Hup & Hdn & Hlo & Hhi) v Hint. cbn [gen_true]. unfold zfloor.
  repeat split; apply by_sort_true_safe; auto; intros Hck.
  - dt_case. left. apply sat_ge. pose proof (injZ_nonneg d Hd). pose proof (injZ_one d). lra.
  - float_case fe; [apply Hhi|]. apply sat_ge. exact Hq1.
  - int_case. apply sat_ge. specialize (Hint Hck). assert ((inject_Z (Qfloor v) <= inject_Z z)%Q) by (rewrite <- Zle_Qle; lia). lra.
  - apply offsets_safe; [|constructor]. intros d. destruct (Z_lt_le_dec d 1) as [Hd|Hd]; [right; lia|]. left. unfold cv.
    apply sat_gt. pose proof (injZ_pos d Hd). pose proof (injZ_one d). lra.
  - float_case fe; [apply Hhi|]. apply sat_gt. pose proof (Hup v). lra.
  - int_case. apply sat_gt. specialize (Hint Hck). assert ((inject_Z (Qfloor v + 1) <= inject_Z z)%Q) by (rewrite <- Zle_Qle; lia).
    rewrite inject_Z_plus in H. assert (E1 : (inject_Z 1 == 1)%Q) by reflexivity. rewrite E1 in H. lra.
  - dt_case. left. apply sat_le. pose proof (injZ_nonneg d Hd). pose proof (injZ_neg d Hd). lra.
  - float_case fe; [apply Hlo|]. apply sat_le. exact Hq2.
  - int_case. apply sat_le. specialize (Hint Hck). assert ((inject_Z z <= inject_Z (Qfloor v))%Q) by (rewrite <- Zle_Qle; lia). lra.
  - apply offsets_safe; [|constructor]. intros d. destruct (Z_lt_le_dec d 1) as [Hd|Hd]; [right; lia|]. left. unfold cv.
    apply sat_lt. pose proof (injZ_pos d Hd). assert (Hd0 : (0 <= d)%Z) by lia. pose proof (injZ_neg d Hd0). lra.
  - float_case fe; [apply Hlo|]. apply sat_lt. pose proof (Hdn v). lra.
  - int_case. apply sat_lt. specialize (Hint Hck). assert ((inject_Z z <= inject_Z (Qfloor v - 1))%Q) by (rewrite <- Zle_Qle; lia).
    unfold Z.sub in H. rewrite inject_Z_plus in H. assert (E1 : (inject_Z (-1) == -1)%Q) by reflexivity. rewrite E1 in H. lra.
Qed.

Lemma mem_self_in' a s : In a s -> mem a s = true.
Proof. intros H. unfold mem. apply existsb_exists. exists a. split; [exact H|apply Qeq_bool_refl']. Qed.

(* powerset_of_sets only selects elements of the set *)
Lemma combs_incl : forall l r sub, In sub (combs r l) -> incl sub l.
Proof.
  induction l as [|x t IH]; intros r sub H.
  - destruct r; cbn in H; [destruct H as [<-|[]]; intros y []|contradiction].
  - destruct r as [|r']; cbn in H.
    + destruct H as [<-|[]]. intros y [].
    + apply in_app_or in H as [H|H].
      * apply in_map_iff in H as (sub' & <- & Hs). intros y [<-|Hy]; [left; reflexivity|right; exact (IH _ _ Hs y Hy)].
      * intros y Hy. right. exact (IH _ _ H y Hy).
Qed.
Lemma powerset_incl l sub : In sub (powerset l) -> incl sub l.
Proof. unfold powerset. intros H. apply in_flat_map in H as (r & _ & Hr). eapply combs_incl. exact Hr. Qed.
Lemma vsubset_vset ck sub s : incl sub s -> vsubset (map (cv ck) sub) s = true.
Proof.
  intros H. unfold vsubset. apply forallb_forall. intros v Hv. apply in_map_iff in Hv as (x & <- & Hx).
  unfold cv, vmem. apply mem_self_in'. apply H. exact Hx.
Qed.

(* ---------- generate_true: the main theorem ---------- *)
Lemma fixed_safe (P : val -> Prop) vs : Forall P vs -> Safe P (GFun (fixed vs)).
Proof. intros H. constructor. apply Safe_emit. exact H. Qed.

Lemma sat_or_l W l r v : Sat W l v -> Sat W (POr l r) v.
Proof. unfold Sat. cbn. intros ->. reflexivity. Qed.
Lemma sat_or_r W l r v : ev W l v <> None -> Sat W r v -> Sat W (POr l r) v.
Proof. unfold Sat. cbn. intros Hn Hr. destruct (ev W l v) as [[|]|]; [reflexivity|exact Hr|contradiction]. Qed.
Lemma sat_and W l r v : Sat W l v -> Sat W r v -> Sat W (PAnd l r) v.
Proof. unfold Sat. cbn. intros -> ->. reflexivity. Qed.
Lemma sat_all W q k vs : Forall (Sat W q) vs -> Sat W (PAll q) (VColl k vs).
Proof. intros H. unfold Sat. cbn. apply ev_all_true. exact H. Qed.
Lemma sat_setof W q k vs : Forall (Sat W q) vs -> Sat W (PSetOf q) (VColl k vs).
Proof. intros H. unfold Sat. cbn. apply ev_all_true. exact H. Qed.
Lemma sat_any W q k vs : vs <> [] -> Forall (Sat W q) vs -> Sat W (PAny q) (VColl k vs).
Proof. intros Hne H. destruct H as [|v r Hv _]; [contradiction|]. unfold Sat. cbn. rewrite Hv. reflexivity. Qed.
Lemma dedupv_incl (P : val -> Prop) vs : Forall P vs -> Forall P (dedupv vs).
Proof. induction 1 as [|v r Hv _ IH]; cbn; [constructor|]. destruct (existsb (pyeq v) r); [exact IH|constructor; assumption]. Qed.

Lemma all_true_safe W q g : Safe (Sat W q) g ->
  Safe (Sat W (PAll q))
    (GFun (GYield (VColl KList [])
      (let body := GInt 1 10 (fun z => let n := Z.to_nat z in
        GTake n g [] (fun vs => match vs with [] => GAbort | _ =>
          rcwr vs n (fun c1 => GYield (VColl KTuple c1)
            (GTake n g [] (fun vs2 => rcwr vs2 n (fun c2 =>
              (fun k => if all_hashable c2 then GYield (VColl KSet c2) k else k)
                (GTake n g [] (fun vs3 => rcwr vs3 n (fun c3 => GYield (VColl KList c3) GStop))))))) end)) in
       GLoop body body))).
Proof.
  intros Hg. cbv zeta. constructor. constructor; [apply sat_all; constructor|].
  assert (Hb : Safe (Sat W (PAll q)) (GInt 1 10 (fun z =>
        GTake (Z.to_nat z) g [] (fun vs => match vs with [] => GAbort | _ =>
          rcwr vs (Z.to_nat z) (fun c1 => GYield (VColl KTuple c1)
            (GTake (Z.to_nat z) g [] (fun vs2 => rcwr vs2 (Z.to_nat z) (fun c2 =>
              (fun k => if all_hashable c2 then GYield (VColl KSet c2) k else k)
                (GTake (Z.to_nat z) g [] (fun vs3 => rcwr vs3 (Z.to_nat z) (fun c3 => GYield (VColl KList c3) GStop))))))) end)))).
  { constructor. intros z _. eapply S_take with (Q := Sat W q); [exact Hg|constructor|]. intros vs Hvs.
    destruct vs as [|v0 vs']; [constructor|]. eapply rcwr_safe; [exact Hvs|]. intros c1 Hc1 _.
    constructor; [apply sat_all; exact Hc1|].
    eapply S_take with (Q := Sat W q); [exact Hg|constructor|]. intros vs2 Hvs2.
    eapply rcwr_safe; [exact Hvs2|]. intros c2 Hc2 _.
    assert (Hrest : Safe (Sat W (PAll q)) (GTake (Z.to_nat z) g [] (fun vs3 => rcwr vs3 (Z.to_nat z) (fun c3 => GYield (VColl KList c3) GStop)))).
    { eapply S_take with (Q := Sat W q); [exact Hg|constructor|]. intros vs3 Hvs3.
      eapply rcwr_safe; [exact Hvs3|]. intros c3 Hc3 _. constructor; [apply sat_all; exact Hc3|constructor]. }
    destruct (all_hashable c2); [constructor; [apply sat_all; exact Hc2|exact Hrest]|exact Hrest]. }
  constructor; exact Hb.
Qed.

Theorem gen_true_safe fe W ck : fenv_ok fe -> world_ok W ->
  forall p, gen_ok W ck p -> Safe (Sat W p) (gen_true fe W ck p).
Proof.
  intros Hfe (Wstr & Wbool & Wcplx & Wdt & Wdict & Wfloat & Wuuid & Wint & Wset).
  induction p; intros Hok; cbn [gen_ok] in Hok.
  all: try (cbn [gen_true]; repeat constructor; fail).
  - (* And *) destruct Hok as [Hl Hr]. cbn [gen_true].
    assert (Hmain : Safe (Sat W (PAnd p1 p2))
              (GFun (GSeq (GFilter (passes W p2) (gen_true fe W ck p1) GStop) (GFilter (passes W p1) (gen_true fe W ck p2) GStop)))).
    { constructor. constructor.
      - eapply S_filter with (Q := Sat W p1); [apply IHp1; exact Hl| |constructor].
        intros v H1 H2. apply sat_and; [exact H1|apply passes_sat; exact H2].
      - eapply S_filter with (Q := Sat W p2); [apply IHp2; exact Hr| |constructor].
        intros v H2 H1. apply sat_and; [apply passes_sat; exact H1|exact H2]. }
    destruct (optimize W (4 * w (PAnd p1 p2) + 3) (PAnd p1 p2)) as [q tr| |]; try exact Hmain.
    destruct q; try exact Hmain. repeat constructor.
  - (* Or *) destruct Hok as (Htot & Hl & Hr). cbn [gen_true]. constructor.
    eapply S_round with (Q := fun j => match j with O => Sat W p1 | _ => Sat W p2 end).
    + intros [|j]; [apply IHp1; exact Hl|apply IHp2; exact Hr].
    + constructor.
    + intros vs Hvs. eapply Forall_impl; [|exact Hvs]. intros v ([|j] & Hv); [apply sat_or_l; exact Hv|apply sat_or_r; [apply Htot|exact Hv]].
    + constructor.
  - (* Eq *) cbn [gen_true]. constructor.
    assert (Hb : Safe (Sat W (PEq f_v)) (GYield (cv ck f_v) GStop)).
    { constructor; [|constructor]. unfold Sat, cv. cbn. now rewrite Qeq_bool_refl'. }
    constructor; exact Hb.
  - (* Ne *) cbn [gen_true]. constructor. constructor; [|constructor]. unfold Sat, vbool. cbn. f_equal.
    destruct (Qeq_bool f_v 0) eqn:E; cbn.
    + apply Qeq_bool_iff in E. apply negb_true_iff. destruct (Qeq_bool 1 f_v) eqn:E2; [|reflexivity].
      apply Qeq_bool_iff in E2. exfalso. lra.
    + apply negb_true_iff. rewrite Qeq_bool_sym'. exact E.
  - (* Ge *) apply (cmp_true_safe fe W ck Hfe f_v Hok).
  - (* Gt *) apply (cmp_true_safe fe W ck Hfe f_v Hok).
  - (* Le *) apply (cmp_true_safe fe W ck Hfe f_v Hok).
  - (* Lt *) apply (cmp_true_safe fe W ck Hfe f_v Hok).
  - (* In *) cbn [gen_true]. apply fixed_safe. apply Forall_forall. intros v Hv. apply in_map_iff in Hv as (x & <- & Hx).
    unfold Sat, cv. cbn. f_equal. apply mem_self_in'. exact Hx.
  - (* NotIn *) cbn [gen_true]. destruct f_v; [repeat constructor|].
    destruct ck; try (repeat constructor; fail); unfold generate_ints, generate_strings; apply filter_safe.
  - (* IsInstance *) cbn [gen_true]. destruct f_klass as [|c ks]; [repeat constructor|].
    repeat match goal with |- context [Nat.eqb c ?n] => destruct (Nat.eqb_spec c n); [subst|] end; try (repeat constructor; fail).
    + apply strings_safe. intros v Hv. eapply kind_isinst; [exact Hv|eassumption].
    + constructor. assert (Hb : Safe (Sat W (PIsInstance (0 :: ks))) (GYield (vbool false) (GYield (vbool true) GStop))).
      { constructor; [eapply kind_isinst; [reflexivity|eassumption]|]. constructor; [eapply kind_isinst; [reflexivity|eassumption]|constructor]. }
      constructor; exact Hb.
    + unfold random_complex. constructor. constructor; [eapply kind_isinst; [reflexivity|eassumption]|constructor].
    + apply datetimes_safe. intros v Hv. eapply kind_isinst; [exact Hv|eassumption].
    + apply dicts_safe. intros ks'. eapply kind_isinst; [reflexivity|eassumption].
    + unfold default_floats. apply random_floats_safe; [lra|]. intros v (q & -> & _). eapply kind_isinst; [reflexivity|eassumption].
    + apply uuids_safe. intros v Hv. eapply kind_isinst; [exact Hv|eassumption].
    + apply random_ints_safe. intros v (z & -> & _). eapply kind_isinst; [reflexivity|eassumption].
    + apply sets_safe. intros vs. eapply kind_isinst; [reflexivity|eassumption].
  - (* IsNotNone *) cbn [gen_true]. unfold generate_anys. apply filter_safe.
  - (* All *) cbn [gen_true]. apply all_true_safe. apply IHp. exact Hok.
  - (* Any *) cbn [gen_true]. constructor. eapply S_take with (Q := Sat W p); [apply IHp; exact Hok|constructor|].
    intros vs Hvs. destruct vs as [|v0 vs']; [constructor|].
    eapply rcwr_safe; [exact Hvs|]. intros c1 Hc1 Hl1. constructor.
    { apply sat_any; [destruct c1; [discriminate|discriminate]|exact Hc1]. }
    eapply rcwr_safe; [exact Hvs|]. intros c2 Hc2 Hl2.
    destruct (all_hashable c2); [|constructor]. constructor; [|constructor].
    apply sat_any; [destruct c2; [discriminate|discriminate]|exact Hc2].
  - (* Subset *) cbn [gen_true]. apply fixed_safe. apply Forall_forall. intros v Hv. apply in_map_iff in Hv as (sub & <- & Hs).
    unfold Sat, vset. cbn. f_equal. apply vsubset_vset. apply powerset_incl. exact Hs.
  - (* RealSubset *) cbn [gen_true]. apply fixed_safe. apply Forall_forall. intros v Hv. apply filter_In in Hv as [Hv Hf].
    apply in_map_iff in Hv as (sub & <- & Hs). unfold Sat, vset in *. cbn in *. f_equal.
    rewrite (vsubset_vset ck sub f_v (powerset_incl _ _ Hs)). exact Hf.
  - (* HasKey *) cbn [gen_true]. constructor. eapply S_round with (Q := fun _ => Any).
    + intros j. apply Safe_any.
    + constructor.
    + intros vs _. constructor; [|constructor].
      unfold Sat, cv. cbn. f_equal. rewrite existsb_app. cbn. rewrite Qeq_bool_refl'. now rewrite orb_true_r.
    + constructor.
  - (* SetOf *) cbn [gen_true]. constructor.
    assert (Hb : Safe (Sat W (PSetOf p)) (GInt 0 10 (fun z => GTake (Z.to_nat z) (gen_true fe W ck p) [] (fun vs =>
          if all_hashable vs && Nat.eqb (List.length (dedupv vs)) (Z.to_nat z) then GYield (VColl KTuple (dedupv vs)) GStop else GStop)))).
    { constructor. intros z _. eapply S_take with (Q := Sat W p); [apply IHp; exact Hok|constructor|]. intros vs Hvs.
      destruct (all_hashable vs && Nat.eqb (List.length (dedupv vs)) (Z.to_nat z)); [|constructor].
      constructor; [|constructor]. apply sat_setof. apply dedupv_incl. exact Hvs. }
    constructor; exact Hb.
Qed.

(* ---------- generate_false ---------- *)
Fixpoint gen_ok_false (W : world) (ck : kind) (p : pred) : Prop :=
  match p with
  | PAnd l r => (forall v, ev W l v <> None) /\ gen_ok_false W ck l /\ gen_ok_false W ck r
  | POr l r => (forall v, ev W l v <> None) /\ (forall v, ev W r v <> None) /\ gen_ok_false W ck l /\ gen_ok_false W ck r
  | PAll q | PSetOf q => gen_ok_false W ck q
  | PGe v | PGt v => ck = KInt -> (inject_Z (Qfloor v) == v)%Q
  | _ => True
  end.

Lemma filter_not_safe W p g : Safe (Unsat W p) (GFun (GFilter (passes W (PNot p)) g GStop)).
Proof. eapply Safe_weaken; [|apply filter_safe]. intros v. apply sat_not_unsat. Qed.
Lemma unsat_all W q k v r : Unsat W q v -> Unsat W (PAll q) (VColl k (v :: r)).
Proof. intros H. unfold Unsat. cbn. rewrite H. reflexivity. Qed.
Lemma unsat_setof W q k v r : Unsat W q v -> Unsat W (PSetOf q) (VColl k (v :: r)).
Proof. intros H. unfold Unsat. cbn. rewrite H. reflexivity. Qed.

Lemma cmp_false_safe fe W ck : fenv_ok fe -> forall v, (ck = KInt -> (inject_Z (Qfloor v) == v)%Q) ->
  Safe (Unsat W (PGe v)) (gen_false fe W ck (PGe v)) /\ Safe (Unsat W (PGt v)) (gen_false fe W ck (PGt v)).
Proof.
  intros (Hup & Hdn & Hlo & Hhi) v Hint. cbn [gen_false]. unfold zfloor.
  split; apply by_sort_false_safe; auto using sat_not_unsat; intros Hck.
  - apply offsets_safe; [|constructor]. intros d. destruct (Z_lt_le_dec d 1) as [Hd|Hd]; [right; lia|]. left. unfold cv.
    apply unsat_ge. pose proof (injZ_pos d Hd). assert (Hd0 : (0 <= d)%Z) by lia. pose proof (injZ_neg d Hd0). lra.
  - float_case fe; [apply Hlo|]. apply unsat_ge. pose proof (Hdn v). lra.
  - int_case. apply unsat_ge. specialize (Hint Hck). assert ((inject_Z z <= inject_Z (Qfloor v - 1))%Q) by (rewrite <- Zle_Qle; lia).
    unfold Z.sub in H. rewrite inject_Z_plus in H. assert (E1 : (inject_Z (-1) == -1)%Q) by reflexivity. rewrite E1 in H. lra.
  - dt_case. left. apply unsat_gt. pose proof (injZ_nonneg d Hd). pose proof (injZ_neg d Hd). lra.
  - float_case fe; [apply Hlo|]. apply unsat_gt. exact Hq2.
  - int_case. apply unsat_gt. specialize (Hint Hck). assert ((inject_Z z <= inject_Z (Qfloor v))%Q) by (rewrite <- Zle_Qle; lia). lra.
Qed.

Theorem gen_false_safe fe W ck : fenv_ok fe ->
  forall p, gen_ok_false W ck p -> Safe (Unsat W p) (gen_false fe W ck p).
Proof.
  intros Hfe. induction p; intros Hok; cbn [gen_ok_false] in Hok.
  all: try (cbn [gen_false]; repeat constructor; fail).
  all: try (cbn [gen_false]; unfold generate_anys; apply filter_not_safe).
  all: try (apply (cmp_false_safe fe W ck Hfe f_v Hok)).
  - (* False *) cbn [gen_false]. eapply Safe_weaken; [|apply Safe_any]. intros v _. reflexivity.
  - (* And *) destruct Hok as (Htot & Hl & Hr). cbn [gen_false].
    assert (Hmain : Safe (Unsat W (PAnd p1 p2)) (GFun (GSeq (gen_false fe W ck p1) (gen_false fe W ck p2)))).
    { constructor. constructor.
      - eapply Safe_weaken; [|apply IHp1; exact Hl]. intros v Hv. unfold Unsat in *. cbn. rewrite Hv. reflexivity.
      - eapply Safe_weaken; [|apply IHp2; exact Hr]. intros v Hv. unfold Unsat in *. cbn.
        specialize (Htot v). destruct (ev W p1 v) as [[|]|]; [exact Hv|reflexivity|contradiction]. }
    destruct (optimize W (4 * w (PAnd p1 p2) + 3) (PAnd p1 p2)) as [q tr| |]; try exact Hmain.
    destruct q; try exact Hmain. repeat constructor.
  - (* Or *) destruct Hok as (Htl & Htr & Hl & Hr). cbn [gen_false]. constructor. constructor.
    + eapply S_filter with (Q := Unsat W p1); [apply IHp1; exact Hl| |constructor].
      intros v H1 H2. unfold Unsat in *. cbn. rewrite H1. unfold passes, ob in H2. specialize (Htr v).
      destruct (ev W p2 v) as [[|]|]; [discriminate|reflexivity|contradiction].
    + eapply S_filter with (Q := Unsat W p2); [apply IHp2; exact Hr| |constructor].
      intros v H2 H1. unfold Unsat in *. cbn. unfold passes, ob in H1. specialize (Htl v).
      destruct (ev W p1 v) as [[|]|]; [discriminate|exact H2|contradiction].
  - (* Ne *) cbn [gen_false]. constructor. constructor; [|constructor]. unfold Unsat, cv. cbn. now rewrite Qeq_bool_refl'.
  - (* In *) cbn [gen_false]. destruct f_v; [repeat constructor|].
    destruct ck; try (repeat constructor; fail); unfold generate_ints, generate_strings; apply filter_not_safe.
  - (* IsNone *) cbn [gen_false]. unfold generate_anys. eapply Safe_weaken; [|apply filter_safe].
    intros v Hv. unfold Sat, Unsat in *. cbn in *. destruct v; cbn in *; congruence.
  - (* IsFalsy *) cbn [gen_false]. unfold generate_anys. eapply Safe_weaken; [|apply filter_safe].
    intros v Hv. unfold Sat, Unsat in *. cbn in *. injection Hv as ->. reflexivity.
  - (* All *) cbn [gen_false]. constructor.
    assert (Hb : Safe (Unsat W (PAll p)) (GInt 1 10 (fun z => GTake (Z.to_nat z) (gen_false fe W ck p) [] (fun vs =>
              match vs with [] => GAbort | _ => rcwr vs (Z.to_nat z) (fun c1 => GYield (VColl KTuple c1) GStop) end)))).
    { constructor. intros z Hz. eapply S_take with (Q := Unsat W p); [apply IHp; exact Hok|constructor|]. intros vs Hvs.
      destruct vs as [|v0 vs']; [constructor|]. eapply rcwr_safe; [exact Hvs|]. intros c1 Hc1 Hl1.
      constructor; [|constructor]. destruct Hc1 as [|v r Hv _].
      - (* the combination has as many elements as were asked for: at least one *) exfalso. cbn in Hl1.
        destruct Hz as [Hz|Hz]; [|lia]. assert (Z.to_nat z <> 0) by lia. congruence.
      - apply unsat_all. exact Hv. }
    constructor; exact Hb.
  - (* SetOf *) cbn [gen_false]. constructor. eapply S_take with (Q := Unsat W p); [apply IHp; exact Hok|constructor|].
    intros vs Hvs. destruct vs as [|v0 vs']; [constructor|]. eapply rcwr_safe; [exact Hvs|]. intros c1 Hc1 Hl1.
    constructor; [|constructor]. destruct Hc1 as [|v r Hv _]; [discriminate Hl1|]. apply unsat_setof. exact Hv.
Qed.
