(* GenDSL.v — a small language of generator programs (what Python generators over `random` do, as data), its
   one-step operational semantics against an oracle of random draws, the run function used by the replay
   correspondence, and the two generic theorems: SAFETY (every value a safe program yields satisfies P) and
   PRODUCTIVITY (a bounded program reaches a yield or the end of the stream within a computable number of steps,
   whatever the oracle says).  Nothing here mentions a particular predicate kind. *)
From Coq Require Import QArith ZArith Bool List Arith Lia.
From PP Require Import Prelude.Base Prelude.Val.
Import ListNotations.
Close Scope Q_scope.
Open Scope nat_scope.

(* draws: every random choice of the implementation is one of these *)
Record oracle := { oz : nat -> Z; oq : nat -> Q; ov : nat -> val }.

Inductive gp : Type :=
| GStop                                                   (* end of this block / generator *)
| GAbort                                                  (* `return` from inside a loop: ends the enclosing generator function *)
| GYield (v : val) (k : gp)                               (* yield v *)
| GTick (k : gp)                                          (* internal work without a yield *)
| GInt (lo hi : Z) (k : Z -> gp)                          (* random.randint(lo, hi) *)
| GReal (lo hi : Q) (k : Q -> gp)                         (* random.uniform(lo, hi) *)
| GVal (ok : val -> bool) (dflt : val) (k : val -> gp)    (* an opaque library draw (random string, uuid4(), now()) known to satisfy ok *)
| GSeq (g k : gp)                                         (* yield from g; then k *)
| GLoop (body cur : gp)                                   (* while True: body   (cur = what is left of the current turn) *)
| GFun (g : gp)                                           (* the body of a generator function: a `return` inside ends it *)
| GFilter (f : val -> bool) (g k : gp)                    (* yield from (x for x in g if f(x)); then k *)
| GMap (f : val -> val) (g k : gp)                        (* yield from (f(x) for x in g); then k *)
| GTake (n : nat) (g : gp) (acc : list val) (k : list val -> gp)   (* vs = take(n, g); continue with k vs *)
| GRound (n : nat) (gs : nat -> gp) (i : nat) (buf : list val) (emit : list val -> list val) (k : gp).
     (* zip / interleave over gs 0..n-1: pull one value from each in turn; when all n delivered, yield `emit buf`
        element by element and start the next round; when one of them ends, the whole thing ends (then k) *)

Definition clampZ (lo hi z : Z) : Z := Z.max lo (Z.min hi z).
Definition clampQ (lo hi q : Q) : Q := if Qle_bool q lo then lo else if Qle_bool hi q then hi else q.

Inductive event := EYield (v : val) | ETick | EStop | EAbort.

Fixpoint emit_all (vs : list val) (k : gp) : gp :=
  match vs with [] => k | v :: r => GYield v (emit_all r k) end.

(* one step; c counts the draws consumed so far *)
Fixpoint step (g : gp) (o : oracle) (c : nat) {struct g} : event * gp * nat :=
  match g with
  | GStop => (EStop, GStop, c)
  | GAbort => (EAbort, GAbort, c)
  | GYield v k => (EYield v, k, c)
  | GTick k => (ETick, k, c)
  | GInt lo hi k => (ETick, k (clampZ lo hi (oz o c)), S c)
  | GReal lo hi k => (ETick, k (clampQ lo hi (oq o c)), S c)
  | GVal ok d k => (ETick, k (if ok (ov o c) then ov o c else d), S c)
  | GSeq g1 k =>
      let '(e, g1', c') := step g1 o c in
      match e with EStop => (ETick, k, c') | EAbort => (EAbort, GAbort, c') | _ => (e, GSeq g1' k, c') end
  | GLoop body cur =>
      let '(e, cur', c') := step cur o c in
      match e with EStop => (ETick, GLoop body body, c') | EAbort => (EStop, GStop, c') | _ => (e, GLoop body cur', c') end
  | GFun g1 =>
      let '(e, g1', c') := step g1 o c in
      match e with EStop | EAbort => (EStop, GStop, c') | _ => (e, GFun g1', c') end
  | GFilter f g1 k =>
      let '(e, g1', c') := step g1 o c in
      match e with
      | EStop | EAbort => (ETick, k, c')
      | EYield v => if f v then (EYield v, GFilter f g1' k, c') else (ETick, GFilter f g1' k, c')
      | ETick => (ETick, GFilter f g1' k, c')
      end
  | GMap f g1 k =>
      let '(e, g1', c') := step g1 o c in
      match e with
      | EStop | EAbort => (ETick, k, c')
      | EYield v => (EYield (f v), GMap f g1' k, c')
      | ETick => (ETick, GMap f g1' k, c')
      end
  | GTake n g1 acc k =>
      match n with
      | O => (ETick, k (rev acc), c)
      | S n' =>
          let '(e, g1', c') := step g1 o c in
          match e with
          | EStop | EAbort => (ETick, k (rev acc), c')
          | EYield v => (ETick, GTake n' g1' (v :: acc) k, c')
          | ETick => (ETick, GTake n g1' acc k, c')
          end
      end
  | GRound n gs i buf emit k =>
      if Nat.eqb n 0 then (ETick, k, c) else
      if Nat.leb n i then (ETick, emit_all (emit (rev buf)) (GRound n gs 0 [] emit k), c)
      else
        let '(e, gi', c') := step (gs i) o c in
        let gs' := fun j => if Nat.eqb j i then gi' else gs j in
        match e with
        | EStop | EAbort => (ETick, k, c')
        | EYield v => (ETick, GRound n gs' (S i) (v :: buf) emit k, c')
        | ETick => (ETick, GRound n gs' i buf emit k, c')
        end
  end.

(* run for `fuel` steps: the values yielded, how the run ended, and the number of steps since the last yield *)
Inductive status := Running | Stopped.
Fixpoint run (fuel : nat) (g : gp) (o : oracle) (c : nat) : list val * status :=
  match fuel with
  | O => ([], Running)
  | S f =>
      let '(e, g', c') := step g o c in
      match e with
      | EStop | EAbort => ([], Stopped)
      | EYield v => let '(vs, s) := run f g' o c' in (v :: vs, s)
      | ETick => run f g' o c'
      end
  end.

(* the first n values (what `take(n, gen)` sees), with a step budget *)
Fixpoint first_n (fuel n : nat) (g : gp) (o : oracle) (c : nat) : list val :=
  match n, fuel with
  | O, _ | _, O => []
  | S n', S f =>
      let '(e, g', c') := step g o c in
      match e with
      | EStop | EAbort => []
      | EYield v => v :: first_n f n' g' o c'
      | ETick => first_n f n g' o c'
      end
  end.

(* ------------------------------------------------------------------ SAFETY *)
(* Safe P g: every value g can ever yield satisfies P, for every oracle *)
Definition Positional (Q : nat -> val -> Prop) (vs : list val) : Prop := forall m v, nth_error vs m = Some v -> Q m v.

Lemma Positional_nil (Q : nat -> val -> Prop) : Positional Q [].
Proof. intros [|m] v H; discriminate. Qed.

Lemma Positional_snoc (Q : nat -> val -> Prop) vs v : Positional Q vs -> Q (List.length vs) v -> Positional Q (vs ++ [v]).
Proof.
  intros H Hv m u Hm. destruct (Nat.lt_ge_cases m (List.length vs)) as [Hlt|Hge].
  - rewrite nth_error_app1 in Hm by exact Hlt. apply H; exact Hm.
  - rewrite nth_error_app2 in Hm by exact Hge. destruct (m - List.length vs) as [|d] eqn:E.
    + cbn in Hm. injection Hm as <-. replace m with (List.length vs) by lia. exact Hv.
    + cbn in Hm. destruct d; discriminate.
Qed.

Lemma Positional_Forall (Q : nat -> val -> Prop) (P : val -> Prop) vs : (forall m v, Q m v -> P v) -> Positional Q vs -> Forall P vs.
Proof.
  intros HQ H. apply Forall_forall. intros v Hin. apply In_nth_error in Hin as [m Hm]. eapply HQ. apply H. exact Hm.
Qed.

Inductive Safe (P : val -> Prop) : gp -> Prop :=
| S_stop : Safe P GStop
| S_yield v k : P v -> Safe P k -> Safe P (GYield v k)
| S_tick k : Safe P k -> Safe P (GTick k)
| S_int lo hi k : (forall z, (lo <= z <= hi)%Z \/ (hi < lo)%Z -> Safe P (k z)) -> Safe P (GInt lo hi k)
| S_real lo hi k : (forall q, ((lo <= q)%Q /\ (q <= hi)%Q) \/ (hi < lo)%Q -> Safe P (k q)) -> Safe P (GReal lo hi k)
| S_val ok d k : (forall v, ok v = true \/ v = d -> Safe P (k v)) -> Safe P (GVal ok d k)
| S_seq g k : Safe P g -> Safe P k -> Safe P (GSeq g k)
| S_abort : Safe P GAbort
| S_loop body cur : Safe P body -> Safe P cur -> Safe P (GLoop body cur)
| S_fun g : Safe P g -> Safe P (GFun g)
| S_filter (Q : val -> Prop) f g k : Safe Q g -> (forall v, Q v -> f v = true -> P v) -> Safe P k -> Safe P (GFilter f g k)
| S_map (Q : val -> Prop) f g k : Safe Q g -> (forall v, Q v -> P (f v)) -> Safe P k -> Safe P (GMap f g k)
| S_take (Q : val -> Prop) n g acc k :
    Safe Q g -> Forall Q acc -> (forall vs, Forall Q vs -> Safe P (k vs)) -> Safe P (GTake n g acc k)
| S_round (Q : nat -> val -> Prop) n gs i buf emit k :
    (forall j, Safe (Q j) (gs j)) -> Forall (fun v => exists j, Q j v) buf ->
    (forall vs, Forall (fun v => exists j, Q j v) vs -> Forall P (emit vs)) -> Safe P k -> Safe P (GRound n gs i buf emit k)
| S_zip (Q : nat -> val -> Prop) n gs i buf emit k :
    (* POSITIONAL: the m-th value of a round was pulled from generator m (what zip needs: tuple_of) *)
    (forall j, Safe (Q j) (gs j)) -> List.length buf = i -> Positional Q (rev buf) ->
    (forall vs, Positional Q vs -> Forall P (emit vs)) -> Safe P k -> Safe P (GRound n gs i buf emit k).

Lemma Safe_emit_all P vs k : Forall P vs -> Safe P k -> Safe P (emit_all vs k).
Proof. induction 1; cbn; eauto using Safe. Qed.

Lemma clampZ_range lo hi z : ((lo <= clampZ lo hi z <= hi) \/ (hi < lo))%Z.
Proof. unfold clampZ. lia. Qed.
Lemma clampQ_range lo hi q : ((lo <= clampQ lo hi q)%Q /\ (clampQ lo hi q <= hi)%Q) \/ (hi < lo)%Q.
Proof.
  unfold clampQ. destruct (Qlt_le_dec hi lo) as [Hl|Hl]; [right; exact Hl|left].
  destruct (Qle_bool q lo) eqn:E1.
  - split; [apply Qle_refl|exact Hl].
  - destruct (Qle_bool hi q) eqn:E2.
    + split; [exact Hl|apply Qle_refl].
    + split.
      * apply Qnot_lt_le. intros Hc. apply Qlt_le_weak in Hc. apply Qle_bool_iff in Hc. congruence.
      * apply Qnot_lt_le. intros Hc. apply Qlt_le_weak in Hc. apply Qle_bool_iff in Hc. congruence.
Qed.

Ltac sub_step IH :=
  match goal with
  | E : context [step ?g ?o ?c] |- _ =>
      let e1 := fresh "e1" in let g1 := fresh "g1" in let c1 := fresh "c1" in let E1 := fresh "E1" in
      destruct (step g o c) as [[e1 g1] c1] eqn:E1;
      let Hv := fresh "Hv" in let Hs := fresh "Hs" in
      destruct (IH _ _ _ _ _ E1) as [Hv Hs]
  end.

Theorem step_safe P g : Safe P g -> forall o c e g' c', step g o c = (e, g', c') ->
  (forall v, e = EYield v -> P v) /\ Safe P g'.
Proof.
  induction 1; intros o c e g' c' E; cbn in E.
  (* stop, abort, tick, real *)
  all: try solve [injection E as <- <- <-; split; [try discriminate|]; eauto using Safe].
  (* yield *)
  all: try solve [injection E as <- <- <-; split; [intros ? [= <-]; assumption|assumption]].
  (* int, val *)
  all: try solve [injection E as <- <- <-; split; [discriminate|]; apply H; apply clampZ_range].
  all: try solve [injection E as <- <- <-; split; [discriminate|]; apply H; apply clampQ_range].
  all: try solve [injection E as <- <- <-; split; [discriminate|]; apply H; destruct (ok (ov o c)) eqn:Eo; auto].
  (* seq, loop, fun *)
  all: try solve [ first [sub_step IHSafe1 | sub_step IHSafe2 | sub_step IHSafe];
                   destruct e1; injection E as <- <- <-; split; try discriminate; eauto using Safe;
                   intros ? [= <-]; apply Hv; reflexivity ].
  (* filter *)
  all: try solve [ sub_step IHSafe1; destruct e1 as [v| | |];
                   [ destruct (f v) eqn:Ef; injection E as <- <- <-; (split; [|econstructor; eassumption]); try discriminate;
                     intros ? [= <-]; apply H0; [apply Hv; reflexivity|exact Ef]
                   | injection E as <- <- <-; split; [discriminate|econstructor; eassumption]
                   | injection E as <- <- <-; split; [discriminate|assumption]
                   | injection E as <- <- <-; split; [discriminate|assumption] ] ].
  (* map *)
  all: try solve [ sub_step IHSafe1; destruct e1 as [v| | |]; injection E as <- <- <-;
                   [ split; [|econstructor; eassumption]; intros ? [= <-]; apply H0; apply Hv; reflexivity
                   | split; [discriminate|econstructor; eassumption]
                   | split; [discriminate|assumption]
                   | split; [discriminate|assumption] ] ].
  (* take *)
  all: try solve [ destruct n as [|n'];
                   [ injection E as <- <- <-; split; [discriminate|]; apply H1; apply Forall_rev; assumption
                   | sub_step IHSafe; destruct e1 as [v| | |]; injection E as <- <- <-; (split; [discriminate|]);
                     [ econstructor; try eassumption; constructor; [apply Hv; reflexivity|assumption]
                     | econstructor; eassumption
                     | apply H1; apply Forall_rev; assumption
                     | apply H1; apply Forall_rev; assumption ] ] ].
  (* round *)
  - destruct (Nat.eqb n 0); [injection E as <- <- <-; split; [discriminate|assumption]|].
    destruct (Nat.leb n i).
    + injection E as <- <- <-. split; [discriminate|]. apply Safe_emit_all; [apply H2; apply Forall_rev; assumption|].
      eapply S_round with (Q := Q); eauto.
    + destruct (step (gs i) o c) as [[e1 g1] c1] eqn:E1. destruct (H0 i _ _ _ _ _ E1) as [Hv Hs].
      assert (Hgs : forall j, Safe (Q j) (if Nat.eqb j i then g1 else gs j)).
      { intros j. destruct (Nat.eqb_spec j i); [subst; exact Hs|apply H]. }
      destruct e1 as [v| | |]; injection E as <- <- <-; (split; [discriminate|]).
      * eapply S_round with (Q := Q); try eassumption. constructor; [exists i; apply Hv; reflexivity|assumption].
      * eapply S_round with (Q := Q); eassumption.
      * assumption.
      * assumption.
  (* zip: the same steps, the positional invariant *)
  - destruct (Nat.eqb n 0); [injection E as <- <- <-; split; [discriminate|assumption]|].
    destruct (Nat.leb n i).
    + injection E as <- <- <-. split; [discriminate|]. apply Safe_emit_all; [apply H3; assumption|].
      eapply S_zip with (Q := Q); eauto using Positional_nil.
    + destruct (step (gs i) o c) as [[e1 g1] c1] eqn:E1. destruct (H0 i _ _ _ _ _ E1) as [Hv Hs].
      assert (Hgs : forall j, Safe (Q j) (if Nat.eqb j i then g1 else gs j)).
      { intros j. destruct (Nat.eqb_spec j i); [subst; exact Hs|apply H]. }
      destruct e1 as [v| | |]; injection E as <- <- <-; (split; [discriminate|]).
      * eapply S_zip with (Q := Q); try eassumption; [cbn; congruence|].
        cbn [rev]. apply Positional_snoc; [assumption|]. rewrite rev_length. subst i. apply Hv; reflexivity.
      * eapply S_zip with (Q := Q); eassumption.
      * assumption.
      * assumption.
Qed.

Theorem run_safe P : forall fuel g o c, Safe P g -> Forall P (fst (run fuel g o c)).
Proof.
  induction fuel as [|f IH]; intros g o c H; cbn; [constructor|].
  destruct (step g o c) as [[e g'] c'] eqn:E. destruct (step_safe P g H o c e g' c' E) as [Hv Hs].
  destruct e as [v| | |]; cbn.
  - specialize (IH g' o c' Hs). destruct (run f g' o c'). cbn in *. constructor; [apply Hv; reflexivity|exact IH].
  - apply IH; exact Hs.
  - constructor.
  - constructor.
Qed.

Lemma Safe_weaken (P Q : val -> Prop) g : (forall v, P v -> Q v) -> Safe P g -> Safe Q g.
Proof.
  intros HPQ H. induction H; try (constructor; auto; fail).
  - eapply S_filter; eauto.
  - eapply S_map; eauto.
  - eapply S_take; eauto.
  - eapply S_round; eauto. intros vs Hvs. eapply Forall_impl; [|apply H2; exact Hvs]. auto.
  - eapply S_zip; eauto. intros vs Hvs. eapply Forall_impl; [|apply H3; exact Hvs]. auto.
Qed.

(* ------------------------------------------------------------------ PRODUCTIVITY *)
(* MustYield g: every run of g produces a yield (or a `return`) before it ends normally, whatever the oracle *)
Inductive MustYield : gp -> Prop :=
| MY_yield v k : MustYield (GYield v k)
| MY_abort : MustYield GAbort
| MY_tick k : MustYield k -> MustYield (GTick k)
| MY_int lo hi k : (forall z, MustYield (k z)) -> MustYield (GInt lo hi k)
| MY_real lo hi k : (forall q, MustYield (k q)) -> MustYield (GReal lo hi k)
| MY_val ok d k : (forall v, MustYield (k v)) -> MustYield (GVal ok d k)
| MY_seq_l g k : MustYield g -> MustYield (GSeq g k)
| MY_seq_r g k : MustYield k -> MustYield (GSeq g k)
| MY_take n g acc k : (forall vs, MustYield (k vs)) -> MustYield (GTake n g acc k).

(* G a b g: the next event of g (a yield, or the end of the stream) comes within `a` steps, and after every later
   yield the following event comes within `b` steps - for every oracle.  Defined on the syntax.  Rejection sampling
   (GFilter) has no rule: it has no such bound. *)
Inductive G : nat -> nat -> gp -> Prop :=
| G_stop a b : 1 <= a -> G a b GStop
| G_abort a b : 1 <= a -> G a b GAbort
| G_yield a b v k : 1 <= a -> G b b k -> G a b (GYield v k)
| G_tick a b k : G a b k -> G (S a) b (GTick k)
| G_int a b lo hi k : (forall z, (lo <= z <= hi)%Z \/ (hi < lo)%Z -> G a b (k z)) -> G (S a) b (GInt lo hi k)
| G_real a b lo hi k : (forall q, G a b (k q)) -> G (S a) b (GReal lo hi k)
| G_val a b ok d k : (forall v, G a b (k v)) -> G (S a) b (GVal ok d k)
| G_seq a b a' b' B g k : G a b g -> G a' b' k -> b + a' <= B -> b' <= B -> G (a + a') B (GSeq g k)
| G_fun a b g : G a b g -> G a b (GFun g)
| G_map a b a' b' B f g k : G a b g -> G a' b' k -> b + a' <= B -> b' <= B -> G (a + a') B (GMap f g k)
| G_loop1 a b a0 b0 B body cur :      (* the current turn may end without a further yield *)
    G a b cur -> G a0 b0 body -> MustYield body -> b + a0 <= B -> b0 + a0 <= B -> a0 <= B -> G (a + a0) B (GLoop body cur)
| G_loop2 a b a0 b0 B body cur :      (* the current turn yields before it ends *)
    G a b cur -> MustYield cur -> G a0 b0 body -> MustYield body -> b + a0 <= B -> b0 + a0 <= B -> a0 <= B -> G a B (GLoop body cur)
| G_take a cc a' b' n g acc k :
    G a cc g -> a <= cc -> (forall vs, G a' b' (k vs)) -> G (a + n * cc + 1 + a') b' (GTake n g acc k)
| G_round_pull a cc a' b' B n gs i buf emit k :      (* zip / interleave: still pulling from generator i *)
    i < n -> List.length buf = i -> (forall j, j <> i -> G cc cc (gs j)) -> G a cc (gs i) -> a <= cc ->
    (forall vs, List.length vs = n -> emit vs <> []) -> G a' b' k -> n * cc + 2 + a' <= B -> b' <= B ->
    G (a + (n - 1 - i) * cc + 2 + a') B (GRound n gs i buf emit k)
| G_round_emit cc a' b' B n gs buf emit k :           (* all n delivered: the round is emitted next *)
    1 <= n -> List.length buf = n -> (forall j, G cc cc (gs j)) ->
    (forall vs, List.length vs = n -> emit vs <> []) -> G a' b' k -> n * cc + 2 + a' <= B -> b' <= B ->
    G 2 B (GRound n gs n buf emit k)
| G_mono a b a' b' g : G a b g -> a <= a' -> b <= b' -> G a' b' g.

Lemma G_pos a b g : G a b g -> 1 <= a.
Proof. induction 1; try lia; nia. Qed.

(* a program that must yield does not end (normally) as its next event *)
Lemma MustYield_no_stop g : MustYield g -> forall o c g' c', step g o c <> (EStop, g', c').
Proof.
  induction 1; intros o c g' c' E; cbn in E; try discriminate.
  - destruct (step g o c) as [[e1 g1] c1] eqn:E1. destruct e1; discriminate.
  - destruct (step g o c) as [[e1 g1] c1] eqn:E1. destruct e1; discriminate.
  - destruct n; [discriminate|]. destruct (step g o c) as [[e1 g1] c1] eqn:E1. destruct e1; discriminate.
Qed.

Lemma MustYield_tick g : MustYield g -> forall o c g' c', step g o c = (ETick, g', c') -> MustYield g'.
Proof.
  induction 1; intros o c g' c' E; cbn in E; try discriminate.
  - injection E as <- <-. assumption.
  - injection E as <- <-. apply H.
  - injection E as <- <-. apply H.
  - injection E as <- <-. apply H.
  - destruct (step g o c) as [[e1 g1] c1] eqn:E1. destruct e1; try discriminate.
    + injection E as <- <-. apply MY_seq_l. eapply IHMustYield; eassumption.
    + (* g stopped although it must yield: impossible *) exfalso. eapply MustYield_no_stop; eassumption.
  - destruct (step g o c) as [[e1 g1] c1] eqn:E1. destruct e1; try discriminate.
    + injection E as <- <-. apply MY_seq_r. assumption.
    + injection E as <- <-. assumption.
  - destruct n as [|n'].
    + injection E as <- <-. apply H.
    + destruct (step g o c) as [[e1 g1] c1] eqn:E1. destruct e1; injection E as <- <-; try (constructor; assumption); apply H.
Qed.

(* ticks before the next event, with a budget: None = budget exhausted *)
Fixpoint next_event (fuel : nat) (g : gp) (o : oracle) (c : nat) : option (event * gp * nat) :=
  match fuel with
  | O => None
  | S f => let '(e, g', c') := step g o c in
           match e with ETick => next_event f g' o c' | _ => Some (e, g', c') end
  end.

Lemma G_emit_all a b vs k : 1 <= a -> 1 <= b -> G b b k -> G a b k -> G a b (emit_all vs k).
Proof.
  intros Ha Hb Hk Hk'. destruct vs as [|v r]; cbn; [exact Hk'|]. constructor; [exact Ha|].
  induction r as [|x r IH]; cbn; [exact Hk|]. constructor; [exact Hb|exact IH].
Qed.

Theorem G_step a b g : G a b g -> forall o c e g' c', step g o c = (e, g', c') ->
  match e with
  | ETick => exists a', a = S a' /\ G a' b g'
  | EYield _ => G b b g'
  | _ => True
  end.
Proof.
  induction 1; intros o c e g' c' E; cbn in E.
  - injection E as <- <- <-. exact I.
  - injection E as <- <- <-. exact I.
  - injection E as <- <- <-. assumption.
  - injection E as <- <- <-. eauto.
  - injection E as <- <- <-. exists a. split; [reflexivity|]. apply H. apply clampZ_range.
  - injection E as <- <- <-. eauto.
  - injection E as <- <- <-. eauto.
  - (* seq *) destruct (step g o c) as [[e1 g1] c1] eqn:E1. specialize (IHG1 _ _ _ _ _ E1). pose proof (G_pos _ _ _ H).
    destruct e1 as [v| | |]; injection E as <- <- <-.
    + eapply G_mono; [eapply G_seq; eauto|lia|lia].
    + destruct IHG1 as (a1 & -> & Hg). exists (a1 + a'). split; [lia|]. eapply G_seq; eauto.
    + exists (a - 1 + a'). split; [lia|]. eapply G_mono; [eassumption|lia|lia].
    + exact I.
  - (* fun *) destruct (step g o c) as [[e1 g1] c1] eqn:E1. specialize (IHG _ _ _ _ _ E1).
    destruct e1 as [v| | |]; injection E as <- <- <-; try exact I.
    + constructor. assumption.
    + destruct IHG as (a1 & -> & Hg). exists a1. split; [reflexivity|constructor; assumption].
  - (* map *) destruct (step g o c) as [[e1 g1] c1] eqn:E1. specialize (IHG1 _ _ _ _ _ E1). pose proof (G_pos _ _ _ H).
    destruct e1 as [v| | |]; injection E as <- <- <-.
    + eapply G_mono; [eapply G_map; eauto|lia|lia].
    + destruct IHG1 as (a1 & -> & Hg). exists (a1 + a'). split; [lia|]. eapply G_map; eauto.
    + exists (a - 1 + a'). split; [lia|]. eapply G_mono; [eassumption|lia|lia].
    + exists (a - 1 + a'). split; [lia|]. eapply G_mono; [eassumption|lia|lia].
  - (* loop1 *) destruct (step cur o c) as [[e1 g1] c1] eqn:E1. specialize (IHG1 _ _ _ _ _ E1). pose proof (G_pos _ _ _ H).
    destruct e1 as [v| | |]; injection E as <- <- <-.
    + eapply G_mono; [eapply (G_loop1 b b a0 b0 B); eauto|lia|lia].
    + destruct IHG1 as (a1 & -> & Hg). exists (a1 + a0). split; [lia|]. eapply G_loop1; eauto.
    + exists (a - 1 + a0). split; [lia|]. eapply G_mono; [eapply (G_loop2 a0 b0 a0 b0 B); eauto|lia|lia].
    + exact I.
  - (* loop2 *) destruct (step cur o c) as [[e1 g1] c1] eqn:E1. specialize (IHG1 _ _ _ _ _ E1).
    destruct e1 as [v| | |]; injection E as <- <- <-.
    + eapply G_mono; [eapply (G_loop1 b b a0 b0 B); eauto|lia|lia].
    + destruct IHG1 as (a1 & -> & Hg). exists a1. split; [reflexivity|]. eapply (G_loop2 a1 b a0 b0 B); eauto. eapply (MustYield_tick cur); [assumption|exact E1].
    + exfalso. eapply (MustYield_no_stop cur); [assumption|exact E1].
    + exact I.
  - (* take *) pose proof (G_pos _ _ _ H). destruct n as [|n'].
    + injection E as <- <- <-. exists (a + a'). split; [lia|]. eapply G_mono; [apply H1|lia|lia].
    + destruct (step g o c) as [[e1 g1] c1] eqn:E1. specialize (IHG _ _ _ _ _ E1).
      destruct e1 as [v| | |]; injection E as <- <- <-.
      * exists (a - 1 + S n' * cc + 1 + a'). split; [lia|].
        eapply G_mono; [eapply (G_take cc cc a' b' n'); eauto|cbn; lia|lia].
      * destruct IHG as (a1 & -> & Hg). exists (a1 + S n' * cc + 1 + a'). split; [lia|]. eapply G_take; eauto. lia.
      * exists (a - 1 + S n' * cc + 1 + a'). split; [lia|]. eapply G_mono; [apply H1|lia|lia].
      * exists (a - 1 + S n' * cc + 1 + a'). split; [lia|]. eapply G_mono; [apply H1|lia|lia].
  - (* round, pulling *) pose proof (G_pos _ _ _ H3) as Hpa.
    destruct (Nat.eqb_spec n 0) as [Hn0|Hn0]; [lia|]. destruct (Nat.leb_spec n i) as [Hle|Hlt]; [lia|].
    destruct (step (gs i) o c) as [[e1 g1] c1] eqn:E1. specialize (IHG1 _ _ _ _ _ E1).
    assert (Hothers : forall g1', forall j, j <> i -> G cc cc (if Nat.eqb j i then g1' else gs j)).
    { intros g1' j Hj. destruct (Nat.eqb_spec j i); [contradiction|]. apply H1. exact Hj. }
    destruct e1 as [v| | |]; injection E as <- <- <-.
    + (* the generator delivered: next generator, or the round is complete *)
      exists (a - 1 + (n - 1 - i) * cc + 2 + a'). split; [lia|].
      destruct (Nat.eq_dec (S i) n) as [Hlast|Hmore].
      * subst n. eapply G_mono; [eapply (G_round_emit cc a' b' B (S i)); eauto; try lia|lia|lia].
        all: try (cbn; lia).
        all: intros j; destruct (Nat.eqb_spec j i); [subst; exact IHG1|apply H1; assumption].
      * eapply G_mono; [eapply (G_round_pull cc cc a' b' B n _ (S i)); eauto; try lia|nia|lia].
        all: try (cbn; lia).
        all: try (intros j Hj; destruct (Nat.eqb_spec j i); [subst; exact IHG1|apply H1; assumption]).
        all: try (destruct (Nat.eqb_spec (S i) i); [lia|]; apply H1; lia).
    + destruct IHG1 as (a1 & -> & Hg). exists (a1 + (n - 1 - i) * cc + 2 + a'). split; [lia|].
      eapply G_round_pull; eauto; try lia. rewrite Nat.eqb_refl. exact Hg.
    + exists (a - 1 + (n - 1 - i) * cc + 2 + a'). split; [lia|]. eapply (G_mono a' b'); [assumption|nia|lia].
    + exists (a - 1 + (n - 1 - i) * cc + 2 + a'). split; [lia|]. eapply (G_mono a' b'); [assumption|nia|lia].
  - (* round, emitting *)
    destruct (Nat.eqb_spec n 0) as [Hn0|Hn0]; [lia|]. destruct (Nat.leb_spec n n) as [Hle|Hlt]; [|lia].
    injection E as <- <- <-. exists 1. split; [reflexivity|].
    assert (Hrestart : G B B (GRound n gs 0 [] emit k)).
    { eapply G_mono; [eapply (G_round_pull cc cc a' b' B n gs 0); eauto; try lia|nia|lia]. }
    assert (Hne : emit (rev buf) <> []) by (apply H3; rewrite rev_length; assumption).
    destruct (emit (rev buf)) as [|v r]; [contradiction|]. cbn. constructor; [lia|].
    clear Hne. induction r as [|x r IHr]; cbn; [exact Hrestart|]. constructor; [pose proof (G_pos _ _ _ Hrestart); lia|exact IHr].
  - (* mono *) specialize (IHG _ _ _ _ _ E). destruct e as [v| | |]; try exact I.
    + eapply G_mono; [eassumption|lia|lia].
    + destruct IHG as (a1 & -> & Hg). exists (a1 + (a' - S a1)). split; [lia|]. eapply G_mono; [eassumption|lia|lia].
Qed.

(* within `a` steps the next event arrives: a yield (after which the residual program is again bounded) or the end *)
Theorem next_event_within a b g : G a b g -> forall o c,
  exists e g' c', next_event a g o c = Some (e, g', c') /\ e <> ETick /\
                  (forall v, e = EYield v -> G b b g').
Proof.
  revert g. induction a as [|a IH]; intros g H o c; [pose proof (G_pos _ _ _ H); lia|].
  cbn. destruct (step g o c) as [[e g'] c'] eqn:E. pose proof (G_step _ _ _ H _ _ _ _ _ E) as Hs.
  destruct e as [v| | |].
  - exists (EYield v), g', c'. repeat split; [discriminate|intros ? _; exact Hs].
  - destruct Hs as (a1 & [= ->] & Hg). apply IH. exact Hg.
  - exists EStop, g', c'. repeat split; discriminate.
  - exists EAbort, g', c'. repeat split; discriminate.
Qed.

(* hence: asking for the next value ALWAYS completes within max(a, b) steps, at every position of the stream *)
Fixpoint nth_next (n : nat) (B : nat) (g : gp) (o : oracle) (c : nat) : option (event * gp * nat) :=
  match n with
  | O => next_event B g o c
  | S n' => match next_event B g o c with
            | Some (EYield _, g', c') => nth_next n' B g' o c'
            | r => r
            end
  end.
Theorem every_next_completes a b g : G a b g -> forall n o c,
  exists r, nth_next n (Nat.max a b) g o c = Some r.
Proof.
  intros H n. assert (Hm : G (Nat.max a b) (Nat.max a b) g) by (eapply G_mono; [eassumption|lia|lia]).
  clear H. revert g Hm. induction n as [|n IH]; intros g Hm o c; cbn.
  - destruct (next_event_within _ _ _ Hm o c) as (e & g' & c' & -> & _). eauto.
  - destruct (next_event_within _ _ _ Hm o c) as (e & g' & c' & -> & _ & Hy).
    destruct e as [v| | |]; eauto.
Qed.
