(* ParserC14.v — the statements of Props/C14.v assembled from ParserLang / ParserGroups / ParserValid, each with a
   concrete non-vacuity example. *)
From Coq Require Import Bool List String ZArith.
From PP Require Import Prelude.Base Prelude.Val Prelude.Pred Prelude.Sem Lemmas.Fragments
  Lemmas.ParserLang Lemmas.ParserGroups Lemmas.ParserValid.
Import ListNotations.
Close Scope Q_scope.
Open Scope list_scope.

Lemma language_is_decided :
  forall ts : list token, (in_lang ts = true <-> Lang ts) /\ (in_lang ts = false -> forall t, yield t <> ts).
Proof. intros ts. split; [apply in_lang_spec|apply not_in_lang_no_reading]. Qed.

Lemma every_reading_is_order_faithful :
  forall t : ptree,
    Fprop (transform t) = true /\
    inorder (transform t) = strip_parens (yield t) /\
    pnames (transform t) = tnames (yield t).
Proof. intros t. split; [apply transform_prop|]. split; [apply faithful_order|apply names_preserved]. Qed.

Lemma fully_parenthesised_one_reading :
  forall p : pred, Fprop p = true ->
    (forall t : ptree, yield t = show p -> transform t = p) /\ (exists t, yield t = show p /\ transform t = p).
Proof. intros p H. split; [apply fully_parenthesised_unique, H|apply show_has_reading, H]. Qed.

Lemma grammar_is_ambiguous :
  (exists t1 t2, yield t1 = [TNot; TName "p"; TAnd; TName "q"] /\ yield t2 = yield t1 /\
                 exists env, psem env (transform t1) <> psem env (transform t2)) /\
  (exists t1 t2, yield t1 = [TName "p"; TOr; TName "q"; TAnd; TName "r"] /\ yield t2 = yield t1 /\
                 exists env, psem env (transform t1) <> psem env (transform t2)).
Proof.
  split.
  - exists (TBin BAnd (TNeg (TVar "p")) (TVar "q")), (TNeg (TBin BAnd (TVar "p") (TVar "q"))).
    split; [reflexivity|]. split; [reflexivity|]. exists (fun s => String.eqb s "p"). vm_compute. discriminate.
  - exists (TBin BOr (TVar "p") (TBin BAnd (TVar "q") (TVar "r"))), (TBin BAnd (TBin BOr (TVar "p") (TVar "q")) (TVar "r")).
    split; [reflexivity|]. split; [reflexivity|]. exists (fun s => String.eqb s "p"). vm_compute. discriminate.
Qed.

Lemma validator_complete_and_faithful :
  (forall ts p t t',
      yield t = ts -> transform t = p -> not_tight t = true ->
      yield t' = ts -> prec_reading t' = true -> (forall env, psem env p = psem env (transform t')) ->
      reads_ok ts p = true) /\
  (forall ts p, reads_ok ts p = true ->
      Lang ts /\ Fprop p = true /\ inorder p = strip_parens ts /\ pnames p = tnames ts).
Proof. split; [exact reads_ok_complete|exact reads_ok_faithful]. Qed.

Lemma psem_is_beval :
  forall (W : world) (t : ptree) (x : val), psem (env W) (transform t) = beval W (transform t) x.
Proof. intros W t x. apply psem_beval, transform_prop. Qed.

(* ---- non-vacuity examples ---- *)

(* the text  ~ foo & ( q | true )  and one of its derivations *)
Local Definition ex_t := TBin BAnd (TNeg (TVar "foo")) (TGroup (TBin BOr (TVar "q") TTru)).
Local Definition ex_ts := [TNot; TName "foo"; TAnd; TLParen; TName "q"; TOr; TTrue; TRParen].

Example ex_grammar_language : yield ex_t = ex_ts /\ Lang ex_ts /\ in_lang ex_ts = true /\ in_lang (ex_ts ++ [TRParen]) = false.
Proof.
  split; [reflexivity|]. split; [apply (grammar_sound ex_t)|]. split; vm_compute; reflexivity.
Qed.

Example ex_order_faithful :
  transform ex_t = PAnd (PNot (PNamed "foo")) (POr (PNamed "q") PTrue) /\
  inorder (transform ex_t) = [TNot; TName "foo"; TAnd; TName "q"; TOr; TTrue] /\
  pnames (transform ex_t) = ["foo"%string; "q"%string].
Proof. repeat split; reflexivity. Qed.

Example ex_group_subtree :
  exists q, subterm q (transform ex_t) /\ inorder q = [TName "q"; TOr; TTrue].
Proof.
  destruct (text_group_is_subterm ex_t [TNot; TName "foo"; TAnd] [TName "q"; TOr; TTrue] []) as [q [S [I _]]].
  - reflexivity.
  - apply (yield_balanced (TBin BOr (TVar "q") TTru)).
  - exists q. split; [exact S|exact I].
Qed.

Example ex_not_subderivation :
  subtree (TNeg (TVar "foo")) ex_t /\ subterm (PNot (PNamed "foo")) (transform ex_t).
Proof. split; [apply st_binl, st_refl|apply sb_andl, sb_refl]. Qed.

Example ex_fully_parenthesised :
  show (POr (PNot (PNamed "p")) (PAnd (PNamed "q") PFalse)) =
    [TLParen; TLParen; TNot; TName "p"; TRParen; TOr; TLParen; TName "q"; TAnd; TFalse; TRParen; TRParen] /\
  List.length (readings (show (POr (PNot (PNamed "p")) (PAnd (PNamed "q") PFalse)))) = 1.
Proof. split; vm_compute; reflexivity. Qed.

(* the unparenthesised text of the same predicate has 5 derivations *)
Example ex_unparenthesised_is_ambiguous :
  List.length (readings [TNot; TName "p"; TOr; TName "q"; TAnd; TFalse]) = 5.
Proof. vm_compute. reflexivity. Qed.
