(* GenFindings.v — refutation witnesses (vm_compute) for the known findings about the generators (13, 14, 15 of
   /verif/known_findings.json): without the premise gen_ok / gen_ok_false / prod_true the statements of C09, C10, C11
   are false of the faithful model, at the listed inputs.  (Finding 12, dict_of, is outside the `pred` type.) *)
From Coq Require Import QArith ZArith Bool List String.
From PP Require Import Prelude.Base Prelude.Val Prelude.Pred Prelude.Sem Lemmas.Fragments Lemmas.GenDSL Lemmas.GenModel.
Import ListNotations.
Open Scope Q_scope.

Definition fe0 : fenv := {| nup := fun v => v + 1; ndown := fun v => v - 1; dlo := fun u => u - 1000000; dhi := fun l => l + 1000000 |}.
Definition o0 : oracle := {| oz := fun _ => 0%Z; oq := fun _ => 0; ov := fun _ => VNone |}.
Definition omax : oracle := {| oz := fun _ => 1000%Z; oq := fun _ => 0; ov := fun _ => VNone |}.   (* randint pinned to its upper limit *)
Definition W := W_ex [].

(* 13: generate_true(ge_p(3) | is_str_p) yields a string, on which the predicate raises *)
Definition p13 := POr (PGe 3) (PIsInstance [4%nat]).
Lemma finding_13_refuted :
  exists v, In v (first_n 200 4 (gen_true fe0 W KInt p13) o0 0) /\ ev W p13 v = None.
Proof. exists (VColl KStr []). split; [vm_compute; auto|vm_compute; reflexivity]. Qed.

(* 14: generate_false(is_empty_p & ge_p(3)) yields ge_p's counterexamples (ints), on which is_empty_p raises *)
Definition p14 := PAnd PIsEmpty (PGe 3).
Lemma finding_14_refuted :
  exists v, In v (first_n 400 6 (gen_false fe0 W KInt p14) o0 0) /\ ev W p14 v = None.
Proof. exists (VQ KInt 0 false). split; [vm_compute; auto 10|vm_compute; reflexivity]. Qed.

(* 15: rejection sampling has no bound for every oracle: with randint pinned to its upper limit
   generate_true(is_set_of_p(is_bool_p)) makes 3000 steps without a value and without ending *)
Definition p15 := PSetOf (PIsInstance [0%nat]).
Lemma finding_15_refuted : run 3000 (gen_true fe0 W KInt p15) omax 0 = ([], Running).
Proof. vm_compute. reflexivity. Qed.
