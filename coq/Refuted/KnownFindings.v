(* KnownFindings.v — one `…_refuted` lemma per entry of /verif/known_findings.json: the unrestricted
   statement (without the "empty trace" premise) is false of the faithful model, with the listed witness.
   Each witness is also replayed on the implementation by ./check (KNOWN-FINDING lines). *)
From Coq Require Import QArith Bool List String.
From PP Require Import Prelude.Base Prelude.Val Prelude.Pred Prelude.Sem Gen.Negate Gen.Implies Gen.Optimize Lemmas.Fragments.
Import ListNotations.
Open Scope Q_scope.
Open Scope string_scope.

Definition refutes (W : world) (p : pred) (x : val) (site : nat) : Prop :=
  exists q, optimize W 100 p = Ok q [site] /\ defined W p x = true /\
            (beval W q x <> beval W p x \/ defined W q x = false).

Ltac witness := eexists; split; [vm_compute; reflexivity|]; split; [vm_compute; reflexivity|]; vm_compute; intuition congruence.

Definition P := PNamed "p". Definition Qv := PNamed "q".
Definition anyx := VNone.

Lemma finding_1_refuted : refutes (W_ex ["p"]) (PXor P (PAnd (PNot P) Qv)) anyx 1.
Proof. witness. Qed.
Lemma finding_2_refuted : refutes (W_ex ["p"]) (PXor P (PAnd Qv (PNot P))) anyx 2.
Proof. witness. Qed.
Lemma finding_3_refuted : refutes (W_ex ["p"; "q"]) (PXor P (POr P Qv)) anyx 3.
Proof. witness. Qed.
Lemma finding_4_refuted : refutes (W_ex ["p"; "q"]) (PXor P (POr Qv P)) anyx 4.
Proof. witness. Qed.
Lemma finding_5_refuted : refutes (W_ex ["p"; "q"]) (PXor (POr P Qv) P) anyx 5.
Proof. witness. Qed.
Lemma finding_6_refuted : refutes (W_ex ["p"; "q"]) (PXor (POr Qv P) P) anyx 6.
Proof. witness. Qed.
(* fn_p(x > 2) & eq_p(3) -> always_true_p, at x = 0 *)
Lemma finding_7_refuted : refutes (W_ex []) (PAnd (PFn 0) (PEq 3)) (VQ KInt 0 false) 7.
Proof. witness. Qed.
(* is_int_p & is_bool_p -> always_false_p, at x = True *)
Lemma finding_8_refuted : refutes (W_ex []) (PAnd (PIsInstance [1%nat]) (PIsInstance [0%nat])) (VQ KBool 1 true) 8.
Proof. witness. Qed.
(* is_subset_p({1,2}) & is_subset_p({3}) -> always_false_p, at x = set() *)
Lemma finding_9_refuted : refutes (W_ex []) (PAnd (PSubset [1; 2]) (PSubset [3])) (VColl KSet []) 9.
Proof. witness. Qed.
(* any_p(always_true_p) -> always_true_p, at x = [] *)
Lemma finding_10_refuted : refutes (W_ex []) (PAny PTrue) (VColl KList []) 10.
Proof. witness. Qed.
(* eq_p(1) | eq_p(2) -> in_p(1, 2), which is undefined (TypeError) at x = [1] *)
Lemma finding_11_refuted : refutes (W_ex []) (POr (PEq 1) (PEq 2)) (VColl KList [VQ KInt 1 true]) 11.
Proof. witness. Qed.
