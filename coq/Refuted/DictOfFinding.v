(* DictOfFinding.v — known finding 12 as a refutation witness (vm_compute) on the faithful model: without `Compat` the
   statement "every dict generate_true(is_dict_of_p(...)) yields satisfies the predicate" is false.
   is_dict_of_p((eq_p(1), eq_p(5)), (ge_p(0), ge_p(7))): the key 1 meant for the first entry also satisfies the second
   entry's key predicate, and its value 5 does not satisfy the second entry's value predicate.
   (the listed witness is_dict_of_p(("a", is_int_p), (is_str_p, is_str_p)) has the same shape with str keys) *)
From Coq Require Import QArith ZArith Bool List.
From PP Require Import Prelude.Base Prelude.Val Prelude.Pred Prelude.Sem Lemmas.GenDSL Lemmas.GenModel Lemmas.DictOf Lemmas.GenDictOf
                       Lemmas.GenExamples.
Import ListNotations.
Open Scope Q_scope.

Definition kvs12 : list kvpred := [(PEq 1, PEq 5); (PGe 0, PGe 7)].

Lemma finding_12_refuted :
  exists d, In (venc_dict d) (fst (run 80 (gen_dict_of fe1 W1 KInt kvs12) o1 0)) /\ dict_of_items W1 kvs12 d = Some false.
Proof.
  exists [(VQ KInt 1 true, VQ KInt 5 true); (VQ KInt 0 false, VQ KInt 7 true)].
  split; [vm_compute; auto|vm_compute; reflexivity].
Qed.
