(* C14 — parse_expression accepts exactly the expression language and reads it faithfully.

   Model (hand-written, Lemmas/ParserLang.v; tied to /repo by the source fingerprint and the correspondence run of
   tools/props/c14.py): `ptree` = the derivations of the Lark grammar in predicate/parser.py (one constructor per
   rule), `yield t` = the token string a derivation derives, `transform t` = what _PredicateTransformer returns for
   it, `Lang` = the expression language (operands separated by & | ^; an operand is a name, true, false,
   a parenthesised expression, or ~ followed by an operand).  Token strings are the input domain: lexing
   (WORD = [A-Za-z]+, spaces ignored, keywords before names) is covered by the correspondence run and the search.

   What is a THEOREM (all token strings, all derivations, no bound): C14_grammar_is_the_language,
   C14_every_reading_is_order_faithful, C14_groups_are_subtrees, C14_not_applies_to_its_subderivation,
   C14_fully_parenthesised_text_has_one_reading, C14_language_is_decided, C14_validator_is_sound(_and_complete).
   What is NOT a theorem about the repo (PARTIAL): which of several derivations Lark's Earley resolver returns.
   That clause ("& and ^ bind tighter than |", "~ applies only to its operand") is decided by running the verified
   validator `reads_ok` on the implementation's actual output for every token string up to a bound. *)
From Coq Require Import Bool List String ZArith.
From PP Require Import Prelude.Base Prelude.Val Prelude.Pred Prelude.Sem Lemmas.Fragments
  Lemmas.ParserLang Lemmas.ParserGroups Lemmas.ParserValid Lemmas.ParserC14.
Import ListNotations.
Close Scope Q_scope.
Open Scope list_scope.

(* (a) For every token string: the grammar of parser.py derives it (by some derivation) exactly when it is in the
   expression language.  Quantified over all token strings of any length and all names. *)
Theorem C14_grammar_is_the_language :
  forall ts : list token, (exists t : ptree, yield t = ts) <-> Lang ts.
Proof. exact grammar_is_language. Qed.
Print Assumptions C14_grammar_is_the_language.

(* ... and the language is decidable by the executable `in_lang`, which the correspondence run compares with
   accept/reject of the implementation; a string outside the language has no derivation at all, so a Lark that
   returns only derivations of its grammar cannot return a predicate for it. *)
Theorem C14_language_is_decided :
  forall ts : list token, (in_lang ts = true <-> Lang ts) /\ (in_lang ts = false -> forall t, yield t <> ts).
Proof. exact language_is_decided. Qed.
Print Assumptions C14_language_is_decided.

(* (b) For EVERY derivation t the grammar admits (whichever one Lark returns): the result is a propositional
   predicate whose leaves and operators, read left to right, are the text with the parentheses removed, and whose
   variable names are exactly the names of the text, in order. *)
Theorem C14_every_reading_is_order_faithful :
  forall t : ptree,
    Fprop (transform t) = true /\
    inorder (transform t) = strip_parens (yield t) /\
    pnames (transform t) = tnames (yield t).
Proof. exact every_reading_is_order_faithful. Qed.
Print Assumptions C14_every_reading_is_order_faithful.

(* (b) Every parenthesised group of the TEXT — any way of writing the text as a ( m ) b with m balanced — is, in
   every derivation, a sub-tree of the result whose in-order reading is m without its parentheses. *)
Theorem C14_groups_are_subtrees :
  forall (t : ptree) (a m b : list token),
    yield t = a ++ TLParen :: m ++ TRParen :: b -> balanced m ->
    exists q, subterm q (transform t) /\ inorder q = strip_parens m /\ pnames q = tnames m.
Proof. exact text_group_is_subterm. Qed.
Print Assumptions C14_groups_are_subtrees.

(* (b) Wherever a derivation applies the rule  not_expression: "~" predicate  to a sub-derivation s, the result
   contains NotPredicate of exactly the reading of s, and the text there is "~" followed by the text of s.
   (Which s that is for a text like  ~p & q  is Lark's choice: see C14_grammar_is_ambiguous and the validator.) *)
Theorem C14_not_applies_to_its_subderivation :
  forall s t : ptree, subtree (TNeg s) t ->
    yield (TNeg s) = TNot :: yield s /\ subterm (PNot (transform s)) (transform t).
Proof. exact not_applies_to_what_follows. Qed.
Print Assumptions C14_not_applies_to_its_subderivation.

(* (c) Fully parenthesised text has exactly one reading: for every propositional predicate p, EVERY derivation of
   the rendering `show p` (every ~ and every binary operator in its own parentheses) is transformed to p; and
   there is such a derivation. *)
Theorem C14_fully_parenthesised_text_has_one_reading :
  forall p : pred, Fprop p = true ->
    (forall t : ptree, yield t = show p -> transform t = p) /\ (exists t, yield t = show p /\ transform t = p).
Proof. exact fully_parenthesised_one_reading. Qed.
Print Assumptions C14_fully_parenthesised_text_has_one_reading.

(* The grammar is ambiguous exactly where the property needs Lark's help:  ~ p & q  and  p | q & r  each have two
   derivations with different truth tables.  (Facts about the grammar; what Lark returns is checked by the run.) *)
Theorem C14_grammar_is_ambiguous :
  (exists t1 t2, yield t1 = [TNot; TName "p"; TAnd; TName "q"] /\ yield t2 = yield t1 /\
                 exists env, psem env (transform t1) <> psem env (transform t2)) /\
  (exists t1 t2, yield t1 = [TName "p"; TOr; TName "q"; TAnd; TName "r"] /\ yield t2 = yield t1 /\
                 exists env, psem env (transform t1) <> psem env (transform t2)).
Proof. exact grammar_is_ambiguous. Qed.
Print Assumptions C14_grammar_is_ambiguous.

(* The validator.  For every token string ts and every predicate p: if reads_ok ts p = true then
   (1) p is the transformer's image of a derivation of ts in which every ~ applies to an operand (a name, a constant,
       a parenthesised group or another ~), never to an unparenthesised binary expression, and
   (2) under EVERY assignment p has the value of a reading of ts in which ~ binds tightest and no & or ^ has an
       unparenthesised | as an operand. *)
Theorem C14_validator_is_sound :
  forall (ts : list token) (p : pred), reads_ok ts p = true ->
    (exists t, yield t = ts /\ transform t = p /\ not_tight t = true) /\
    (exists t', yield t' = ts /\ prec_reading t' = true /\ forall env, psem env p = psem env (transform t')).
Proof. exact reads_ok_sound. Qed.
Print Assumptions C14_validator_is_sound.

(* ... and it rejects nothing that satisfies (1) and (2); an accepted pair has all the properties of (a) and (b). *)
Theorem C14_validator_is_complete_and_faithful :
  (forall ts p t t',
      yield t = ts -> transform t = p -> not_tight t = true ->
      yield t' = ts -> prec_reading t' = true -> (forall env, psem env p = psem env (transform t')) ->
      reads_ok ts p = true) /\
  (forall ts p, reads_ok ts p = true ->
      Lang ts /\ Fprop p = true /\ inorder p = strip_parens ts /\ pnames p = tnames ts).
Proof. exact validator_complete_and_faithful. Qed.
Print Assumptions C14_validator_is_complete_and_faithful.

(* psem is the evaluator of all other properties (C01, C15, C20) on the fragment the parser returns *)
Theorem C14_psem_is_beval :
  forall (W : world) (t : ptree) (x : val), psem (env W) (transform t) = beval W (transform t) x.
Proof. exact psem_is_beval. Qed.
Print Assumptions C14_psem_is_beval.

(* non-vacuity: a text with every token kind, a multi-letter name and nested groups; its precedence reading is
   accepted by the validator, the reading with | tighter than & and the reading with a wide ~ are rejected *)
Example C14_nonvacuous :
  let ts := [TNot; TName "foo"; TAnd; TName "q"; TOr; TLParen; TTrue; TXor; TName "bar"; TRParen; TAnd; TFalse] in
  let good := POr (PAnd (PNot (PNamed "foo")) (PNamed "q")) (PAnd (PXor PTrue (PNamed "bar")) PFalse) in
  let loose_and := PAnd (PAnd (PNot (PNamed "foo")) (POr (PNamed "q") (PXor PTrue (PNamed "bar")))) PFalse in
  let wide_not := POr (PNot (PAnd (PNamed "foo") (PNamed "q"))) (PAnd (PXor PTrue (PNamed "bar")) PFalse) in
  in_lang ts = true /\ reads_ok ts good = true /\ prec_parse ts = Some good /\
  reads_code ts loose_and = 3 /\ reads_code ts wide_not = 2 /\
  show (PAnd (PNot (PNamed "p")) (PNamed "q")) =
    [TLParen; TLParen; TNot; TName "p"; TRParen; TAnd; TName "q"; TRParen].
Proof. cbv zeta. repeat split; vm_compute; reflexivity. Qed.

Print Assumptions C14_nonvacuous.