(* C13 — the basic Boolean laws are applied at the root for every atom.
   `optimize`/`negate` are Gen/Optimize.v, Gen/Negate.v, regenerated from the source on every run. *)
From Coq Require Import QArith Bool List String Arith.
From PP Require Import Prelude.Base Prelude.Val Prelude.Pred Prelude.Sem Gen.Negate Gen.Implies Gen.Optimize
  Lemmas.Laws Lemmas.LawsAtoms Lemmas.LawsAll Lemmas.Fragments.
Import ListNotations.

(* For every world, every recursion budget of at least 8, and every atomic predicate p of every class with
   arbitrary parameters (constants, bounds, sets of any size, classes, functions, patterns, keys, names):
   all 28 law instances of `law_statement` (Lemmas/Laws.v) hold: the optimizer returns, with an empty
   trace, a predicate == to the expected one (always_false_p, always_true_p, optimize(p), optimize(~p)),
   in either operand order, with ~p and with negate(p).
   The only excluded atom is is_subset_p(set()), for which p & p runs through known finding 9. *)
Theorem C13_basic_laws_at_the_root_for_every_atom :
  forall (W : world) (n : nat) (p : pred), law_atom_ok p = true -> law_statement W n p.
Proof. exact laws_all. Qed.
Print Assumptions C13_basic_laws_at_the_root_for_every_atom.

(* the excluded case is a genuine failure of the law (known finding 9): p & p is always_false_p, not p *)
Lemma C13_subset_empty_refuted :
  optimize (W_ex []) 10 (PAnd (PSubset []) (PSubset [])) = Ok PFalse [9%nat]
  /\ optimize (W_ex []) 10 (PSubset []) = Ok (PSubset []) [].
Proof. split; vm_compute; reflexivity. Qed.

Print Assumptions C13_subset_empty_refuted.
(* non-vacuity: the statement's hypothesis holds for atoms with parameters, and the laws say something *)
Example C13_nonvacuous :
  law_atom_ok (PGeLe 1 5) = true /\ law_atom_ok (PIn [1%Q; 2%Q; 2%Q]) = true /\
  optimize (W_ex []) 9 (PXor (PIn [1%Q; 2%Q]) PTrue) = Ok (PNotIn [1%Q; 2%Q]) [].
Proof. repeat split; vm_compute; reflexivity. Qed.

Print Assumptions C13_nonvacuous.