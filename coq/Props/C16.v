(* C16 — self-referential predicates (this_p / root_p / lazy_p(name)) denote their own recursive definition in any scope.
   Statements only; the model and the proofs are in Lemmas/Scope.v (resolver over scope stacks) and
   Lemmas/ScopeEval.v (evaluation with the library's own frames and the cached_property of every reference node).
   MODELLED, not verified: CPython's frame chain (a stack is a list of frames = ordered f_locals, innermost first);
   tied on every run by the frame-dump correspondence of tools/props/c16.py and by source fingerprints. *)
From Coq Require Import QArith Bool List Arith String.
From PP Require Import Prelude.Base Prelude.Val Prelude.Pred Prelude.Sem Lemmas.Scope Lemmas.ScopeEval.
Import ListNotations.
Close Scope Q_scope.
Open Scope string_scope.
Open Scope list_scope.
Open Scope nat_scope.

(* (a) RESOLUTION, this_p.  For every stack pre ++ [defining frame] ++ post, whatever the frames and however many of
   them (call depth, library frames, enclosing functions, modules): if the defining frame binds `name` to P, P's tree
   reaches the reference node through All/And/Comp/Or, and every local searched EARLIER (all of the nearer frames, the
   locals before `name` in the defining frame) either does not mention this node at all (unrelated predicates, OTHER
   self-referential predicates: their nodes are different nodes) or is P itself (a helper's parameter), then the node
   resolves to P.  Nothing is required of later locals or outer frames. *)
Theorem C16_this_resolves_to_its_definition :
  forall (pre post : stack) (l1 l2 : frame) (name : string) (P node : pred),
    name <> "self" -> peq P node = false -> in_tree P node = true ->
    (forall k v, In (k, OPred v) (List.concat pre ++ l1) -> mentions v node = false \/ v = P) ->
    find_this (pre ++ (l1 ++ (name, OPred P) :: l2) :: post) node = Some P.
Proof. exact find_this_resolves_among_unrelated. Qed.
Print Assumptions C16_this_resolves_to_its_definition.

(* root_p: the side condition "P is not itself part of a larger predicate in scope", made precise by the reversed
   iteration: no candidate in a nearer frame and none bound AFTER P in the defining frame (harmless = not a candidate,
   or bound to P itself).  Locals bound before P and outer frames do not matter. *)
Theorem C16_root_resolves_to_its_definition :
  forall (pre post : stack) (l1 l2 : frame) (name : string) (P node : pred),
    name <> "self" -> peq P node = false -> in_tree P node = true ->
    (forall b, In b (List.concat pre) -> harmless node P b) ->
    (forall b, In b l2 -> harmless node P b) ->
    find_root (pre ++ (l1 ++ (name, OPred P) :: l2) :: post) node = Some P.
Proof. exact find_root_resolves. Qed.
Print Assumptions C16_root_resolves_to_its_definition.

(* ... and when a larger predicate Q containing the node IS bound later in the same frame, root_p denotes Q *)
Theorem C16_root_prefers_the_later_larger_predicate :
  forall (pre post : stack) (l1 l2 l3 : frame) (nameP nameQ : string) (P Q node : pred),
    nameQ <> "self" -> peq Q node = false -> in_tree Q node = true ->
    (forall b, In b (List.concat pre) -> harmless node Q b) ->
    (forall b, In b l3 -> harmless node Q b) ->
    find_root (pre ++ (l1 ++ (nameP, OPred P) :: l2 ++ (nameQ, OPred Q) :: l3) :: post) node = Some Q.
Proof. exact find_root_prefers_later_binding. Qed.
Print Assumptions C16_root_prefers_the_later_larger_predicate.

(* lazy_p(name): the nearest PREDICATE-valued binding of the name (name <> self); nearer locals of that name holding data
   (the library's own x / iterable, a helper's variable) are skipped (D10b repair) *)
Theorem C16_lazy_resolves_to_nearest_binding :
  forall (pre post : stack) (l1 l2 : frame) (name : string) (o : obj),
    name <> "self" -> is_predicate o = true ->
    (forall b, In b (List.concat pre ++ l1) -> fst b <> name \/ is_predicate (snd b) = false) ->
    find_by_ref (pre ++ (l1 ++ (name, o) :: l2) :: post) name = Some o.
Proof. exact find_by_ref_resolves. Qed.
Print Assumptions C16_lazy_resolves_to_nearest_binding.

(* the library's own frames (Or/And/All/generator/Comp/This...__call__) between the user's scope and the reference are
   invisible to this_p, root_p and lazy_p(name), whatever the name; `home` is the namespace a lazy_p node falls back to *)
Theorem C16_library_frames_are_transparent :
  forall (home fr : frame) (stk : stack) (node : pred),
    lib_frame fr = true -> is_ref node = true -> fresh_resolve home (fr :: stk) node = fresh_resolve home stk node.
Proof. exact fresh_resolve_lib. Qed.
Print Assumptions C16_library_frames_are_transparent.

(* D27 repair: a frame that runs the library's own code is skipped by all three finders WHATEVER it holds - also the
   predicate-valued loop variables of is_tuple_of_p / is_dict_of_p (p, key_p, value_p), which the theorem above does not
   cover (lib_frame asks for `self` and data only).  A real frame chain is a list of (runs library code?, f_locals);
   find_*_f are the finders of the code: the finders of the theorems above on the chain without its library frames. *)
Theorem C16_library_frames_are_skipped_whatever_they_hold :
  forall (fr : frame) (fs : fstack) (node : pred) (ref : string),
    find_this_f ((true, fr) :: fs) node = find_this_f fs node /\
    find_root_f ((true, fr) :: fs) node = find_root_f fs node /\
    find_by_ref_f ((true, fr) :: fs) ref = find_by_ref_f fs ref.
Proof. exact library_frames_are_skipped. Qed.
Print Assumptions C16_library_frames_are_skipped_whatever_they_hold.
Example C16_tuple_of_loop_variable_no_longer_captures :
  let P := recp is_int (PThis 1) in
  let user := [("P", OPred P)] in
  find_this (tuple_of_genexpr P :: [user]) (PThis 1) = Some (PAnd is_list (PAll P)) /\
  find_this_f [(true, tuple_of_genexpr P); (false, user)] (PThis 1) = Some P /\
  find_root_f [(true, tuple_of_genexpr P); (false, user)] (PThis 1) = Some P /\
  find_by_ref ([(".0", OData true); ("p", OPred (PAnd is_list (PAll (recp is_int (PLazy "p"))))); ("v", OData true)]
               :: [[("p", OPred (recp is_int (PLazy "p")))]]) "p" = Some (OPred (PAnd is_list (PAll (recp is_int (PLazy "p"))))) /\
  find_by_ref_f [(true, [(".0", OData true); ("p", OPred (PAnd is_list (PAll (recp is_int (PLazy "p"))))); ("v", OData true)]);
                 (false, [("p", OPred (recp is_int (PLazy "p")))])] "p" = Some (OPred (recp is_int (PLazy "p"))).
Proof. exact tuple_of_loop_variable_no_longer_captures. Qed.
Print Assumptions C16_tuple_of_loop_variable_no_longer_captures.

(* D10 repair: when no frame of the caller's stack binds a predicate under the name, lazy_p(name) finds what the module
   that wrote lazy_p(name) binds to it (home = that module's globals, consulted with dict.get) *)
Theorem C16_lazy_falls_back_to_defining_namespace :
  forall (home h1 h2 : frame) (stk : stack) (name : string) (o : obj),
    find_by_ref stk name = None ->
    home = h1 ++ (name, o) :: h2 -> (forall b, In b h1 -> fst b <> name) ->
    fresh_resolve home stk (PLazy name) = Some o.
Proof. exact lazy_falls_back_to_home. Qed.
Print Assumptions C16_lazy_falls_back_to_defining_namespace.

(* hence a module-level P = base | (guard & all_p(lazy_p("P"))) (the shape of is_json_p) means its recursive definition from
   EVERY caller whose stack binds no predicate under that name: any function of any module, at any depth *)
Theorem C16_module_level_lazy_predicate_works_from_any_caller :
  forall (W : world) (home h1 h2 : frame) (base guard : pred) (name : string),
    ref_free base = true -> ref_free guard = true ->
    home = h1 ++ (name, OPred (recpred base guard (PLazy name))) :: h2 -> (forall b, In b h1 -> fst b <> name) ->
    forall x stk c fuel,
      find_by_ref stk name = None ->
      cache_ok c (PLazy name) (recpred base guard (PLazy name)) -> 4 * vdepth x + 3 <= fuel ->
      fst (reval W home fuel stk c (recpred base guard (PLazy name)) x) = of_ev (spec W base guard x).
Proof. exact module_level_lazy_meaning. Qed.
Print Assumptions C16_module_level_lazy_predicate_works_from_any_caller.

(* (b) MEANING.  P = base | (guard & all_p(ref)), ref a this_p / root_p / lazy_p(name) node that the caller's stack
   resolves to P.  For every world, every reference-free base and guard (raising atoms included), EVERY finitely
   nested x, every such stack, every state of the node's cached_property (never read / already holding P), fuel linear
   in the nesting depth of x: P(x) is the recursive definition `spec` (Python's evaluation order, exceptions included);
   afterwards the node holds P and no other node's cache was touched. *)
Theorem C16_recursive_meaning :
  forall (W : world) (home : frame) (base guard node : pred),
    ref_free base = true -> ref_free guard = true -> is_ref node = true ->
    forall x stk c fuel,
      fresh_resolve home stk node = Some (OPred (recpred base guard node)) ->
      cache_ok c node (recpred base guard node) -> 4 * vdepth x + 3 <= fuel ->
      exists c', reval W home fuel stk c (recpred base guard node) x = (of_ev (spec W base guard x), c')
                 /\ cache_ok c' node (recpred base guard node) /\ only_touches c c' node.
Proof. exact recursive_meaning. Qed.
Print Assumptions C16_recursive_meaning.

(* the property's sentence: base a total test b, guard "x is a list":
   P(x) = b(x) or (x is a list and all elements satisfy P), and P decides the inductively defined language `denotes b` *)
Theorem C16_recursive_meaning_boolean :
  forall (W : world) (home : frame) (base guard node : pred) (b : val -> bool),
    ref_free base = true -> ref_free guard = true -> is_ref node = true ->
    (forall y, ev W base y = Some (b y)) -> (forall y, ev W guard y = Some (is_listv y)) ->
    forall x stk c fuel,
      fresh_resolve home stk node = Some (OPred (recpred base guard node)) ->
      cache_ok c node (recpred base guard node) -> 4 * vdepth x + 3 <= fuel ->
      fst (reval W home fuel stk c (recpred base guard node) x)
      = RBool (b x || (is_listv x && forallb (denotes b) (items_of x)))
      /\ forall y, fst (reval W home (4 * vdepth y + 3) stk c (recpred base guard node) y) = RBool (denotes b y).
Proof. exact recursive_meaning_bool. Qed.
Print Assumptions C16_recursive_meaning_boolean.

(* whatever the order of first calls of two self-referential predicates living on the same stack *)
Theorem C16_order_of_first_calls_is_irrelevant :
  forall (W : world) (home : frame) (ba ga na bb gb nb : pred) stk c x y fa fb,
    ref_free ba = true -> ref_free ga = true -> is_ref na = true ->
    ref_free bb = true -> ref_free gb = true -> is_ref nb = true ->
    peq na nb = false -> peq nb na = false ->
    fresh_resolve home stk na = Some (OPred (recpred ba ga na)) -> fresh_resolve home stk nb = Some (OPred (recpred bb gb nb)) ->
    cache_ok c na (recpred ba ga na) -> cache_ok c nb (recpred bb gb nb) ->
    4 * vdepth x + 3 <= fa -> 4 * vdepth y + 3 <= fb ->
    run_calls W (Nat.max fa fb) c [(home, stk, recpred ba ga na, x); (home, stk, recpred bb gb nb, y)]
      = [of_ev (spec W ba ga x); of_ev (spec W bb gb y)] /\
    run_calls W (Nat.max fa fb) c [(home, stk, recpred bb gb nb, y); (home, stk, recpred ba ga na, x)]
      = [of_ev (spec W bb gb y); of_ev (spec W ba ga x)].
Proof. exact order_of_first_calls. Qed.
Print Assumptions C16_order_of_first_calls_is_irrelevant.

(* (c) a reference that cannot be resolved raises ValueError, never a Boolean; so does P as soon as its recursion
   reaches the reference; and (cached_property) a failed first lookup is permanent *)
Theorem C16_unresolved_reference_raises_ValueError :
  forall (W : world) (home : frame) (node : pred) stk c x fuel,
    is_ref node = true -> lookup c node = None ->
    fresh_resolve home (call_frame node x :: stk) node = None ->
    fst (reval W home (S fuel) stk c node x) = RValueError.
Proof. exact unresolved_reference_raises. Qed.
Print Assumptions C16_unresolved_reference_raises_ValueError.

Theorem C16_unresolved_recursive_predicate_raises_ValueError :
  forall (W : world) (home : frame) (base guard node : pred) stk c k i items fuel,
    ref_free base = true -> ref_free guard = true -> is_ref node = true ->
    lookup c node = None -> fresh_resolve home stk node = None ->
    ev W base (VColl k (i :: items)) = Some false -> ev W guard (VColl k (i :: items)) = Some true ->
    fst (reval W home (S (S (S (S fuel)))) stk c (recpred base guard node) (VColl k (i :: items))) = RValueError.
Proof. exact unresolved_recursive_predicate_raises. Qed.
Print Assumptions C16_unresolved_recursive_predicate_raises_ValueError.

Theorem C16_failed_lookup_is_permanent :
  forall (W : world) (home : frame) (node : pred) stk c x fuel,
    is_ref node = true -> lookup c node = Some None -> fst (reval W home (S fuel) stk c node x) = RValueError.
Proof. exact failed_lookup_is_permanent. Qed.
Print Assumptions C16_failed_lookup_is_permanent.

(* non-vacuity: concrete stacks (two recursive predicates + a larger one in one function, helper frames, library
   frames, a star-importing module frame), concrete nested inputs *)
Example C16_nonvacuous_resolution :
  find_this ex_stack (PThis 1) = Some (recp is_str (PThis 1)) /\
  find_this ex_stack (PThis 0) = Some (recp is_int (PThis 0)) /\
  find_this ex_stack (PThis 2) = None.
Proof. exact find_this_nonvacuous. Qed.
Print Assumptions C16_nonvacuous_resolution.
Example C16_nonvacuous_meaning :
  run_calls Wex 20 []
    [ ([], user_stack, Pex, vlist [vstr; vlist [vstr; vlist []]]); ([], user_stack, Pex, vlist [vstr; vlist [vint]]);
      ([], user_stack, Aex, vlist [vint; vlist [vint]]); ([], user_stack, Aex, vlist [vstr]);
      ([], [], Pex, vlist [vstr; vlist [vstr]]) ]
  = [RBool true; RBool false; RBool true; RBool false; RBool true].
Proof. exact recursive_meaning_nonvacuous. Qed.
Print Assumptions C16_nonvacuous_meaning.
Example C16_nonvacuous_lazy :
  run_calls Wex 20 []
    [ ([], [[("P", OPred (Lex "P"))]], Lex "P", vlist [vstr; vlist [vstr]]);
      ([], [[("x", OPred (Lex "x"))]], Lex "x", vlist [vstr; vlist [vint]]);
      ([("is_str_p", OPred is_str); ("J", OPred (Lex "J"))], [[("v", OData true)]], Lex "J", vlist [vstr; vlist [vstr]]);
      ([], [[("v", OData true)]], Lex "K", vlist [vstr]) ]
  = [RBool true; RBool false; RBool true; RValueError].
Proof. exact lazy_nonvacuous. Qed.
Print Assumptions C16_nonvacuous_lazy.
Example C16_nonvacuous_unresolved :
  run_calls Wex 20 [] [ ([], [], Pex, vstr); ([], [], Pex, vlist []); ([], [], Pex, vlist [vstr]); ([], user_stack, Pex, vlist [vstr]) ]
  = [RBool true; RBool true; RValueError; RValueError].
Proof. exact unresolved_nonvacuous. Qed.

Print Assumptions C16_nonvacuous_unresolved.