(* C09 — every value produced by generate_true(p) satisfies p.
   `gen_true` (Lemmas/GenModel.v) is the HAND-WRITTEN model of predicate/generator/{generate_true,helpers}.py in the
   generator language of Lemmas/GenDSL.v; tie: source fingerprints + the draw-replay correspondence of tools/props/c09.py
   (the implementation's recorded random draws are fed to this very program and the streams compared). *)
From Coq Require Import QArith Bool List.
From PP Require Import Prelude.Base Prelude.Val Prelude.Pred Prelude.Sem Lemmas.GenDSL Lemmas.GenModel Lemmas.GenSafe.
Import ListNotations.

(* For every float environment satisfying the four IEEE facts of `fenv_ok` (v < nextafter(v,+inf), nextafter(v,-inf) < v,
   derived bounds lie on the right side), every world whose isinstance table agrees with the generated kinds, every
   constant type ck (int with bounds of ANY magnitude - Z is unbounded -, float, str, datetime, UUID), every supported
   predicate p satisfying `gen_ok` (integer constants where ck is int; the left operand of a `|` never raises: see the
   known finding), every oracle of random draws (= every seed), every position of the stream (every number of steps):
   each value yielded makes Python's evaluation of p return True, without an exception. *)
Theorem C09_generate_true_values_satisfy :
  forall fe W ck, fenv_ok fe -> world_ok W -> forall p, gen_ok W ck p ->
  forall fuel o c, Forall (fun v => ev W p v = Some true) (fst (run fuel (gen_true fe W ck p) o c)).
Proof. intros fe W ck Hfe HW p Hok fuel o c. apply run_safe. apply gen_true_safe; assumption. Qed.
Print Assumptions C09_generate_true_values_satisfy.

(* the integer and float helpers, for bounds of any sign and magnitude *)
Theorem C09_int_and_float_helpers_stay_within_their_bounds :
  (forall lo hi fuel o c, Forall (fun v => exists z, v = vint z /\ (lo <= z <= hi)%Z) (fst (run fuel (random_ints lo hi) o c))) /\
  (forall lo hi fuel o c, (lo <= hi)%Q ->
      Forall (fun v => exists q, v = vfloat q /\ (lo <= q)%Q /\ (q <= hi)%Q) (fst (run fuel (random_floats lo hi) o c))).
Proof.
  split; intros; apply run_safe; [apply random_ints_safe|apply random_floats_safe; [assumption|]]; auto.
Qed.
Print Assumptions C09_int_and_float_helpers_stay_within_their_bounds.
