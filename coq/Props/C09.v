(* C09 — every value produced by generate_true(p) satisfies p.
   `gen_true` (Lemmas/GenModel.v) is the HAND-WRITTEN model of predicate/generator/{generate_true,helpers}.py in the
   generator language of Lemmas/GenDSL.v; tie: source fingerprints + the draw-replay correspondence of tools/props/c09.py
   (the implementation's recorded random draws are fed to this very program and the streams compared). *)
From Coq Require Import QArith Bool List.
From PP Require Import Prelude.Base Prelude.Val Prelude.Pred Prelude.Sem Lemmas.GenDSL Lemmas.GenModel Lemmas.GenSafe Lemmas.TupleOf
                       Lemmas.GenProd Lemmas.GenTupleOf Lemmas.GenExamples Lemmas.DictOf Lemmas.GenDictOf
                       Lemmas.GenDictExamples.
Import ListNotations.

(* For every float environment satisfying the four IEEE facts of `fenv_ok` (v < nextafter(v,+inf), nextafter(v,-inf) < v,
   derived bounds lie on the right side), every world whose isinstance table agrees with the generated kinds, every
   constant type ck (int with bounds of ANY magnitude - Z is unbounded -, float, str, datetime, UUID), every supported
   predicate p satisfying `gen_ok` (integer constants where ck is int; the left operand of a `|` never raises: see the
   known finding), every oracle of random draws (= every seed), every position of the stream (every number of steps):
   each value yielded makes Python's evaluation of p return True, without an exception. *)
Theorem C09_generate_true_values_satisfy :
  forall fe W ck, fenv_ok fe -> world_ok W -> forall p, gen_ok W ck p ->
  forall fuel o c, Forall (fun v => ev W p v = Some true) (fst (run fuel (gen_true fe W ck p) o c)).
Proof. intros fe W ck Hfe HW p Hok fuel o c. apply run_safe. apply gen_true_safe; assumption. Qed.
Print Assumptions C09_generate_true_values_satisfy.

(* the integer and float helpers, for bounds of any sign and magnitude *)
Theorem C09_int_and_float_helpers_stay_within_their_bounds :
  (forall lo hi fuel o c, Forall (fun v => exists z, v = vint z /\ (lo <= z <= hi)%Z) (fst (run fuel (random_ints lo hi) o c))) /\
  (forall lo hi fuel o c, (lo <= hi)%Q ->
      Forall (fun v => exists q, v = vfloat q /\ (lo <= q)%Q /\ (q <= hi)%Q) (fst (run fuel (random_floats lo hi) o c))).
Proof.
  split; intros; apply run_safe; [apply random_ints_safe|apply random_floats_safe; [assumption|]]; auto.
Qed.
Print Assumptions C09_int_and_float_helpers_stay_within_their_bounds.

(* is_tuple_of_p(p1, ..., pn) (not a constructor of `pred`: its own program gen_tuple_of = zip of the component streams, whose
   draws interleave): every tuple yielded, for every oracle and at every position, has exactly one component per predicate
   and each component satisfies ITS OWN predicate (tuple_of_call is Lemmas/TupleOf.v's model of TupleOfPredicate.__call__) *)
Theorem C09_tuple_of_values_satisfy :
  forall fe W ck ps, fenv_ok fe -> world_ok W -> Forall (gen_ok W ck) ps ->
  forall fuel o c, Forall (fun v => tuple_of_call W ps v = Some true) (fst (run fuel (gen_tuple_of fe W ck ps) o c)).
Proof. exact gen_tuple_of_safe. Qed.
Print Assumptions C09_tuple_of_values_satisfy.
Theorem C09_tuple_of_components_in_order :
  forall fe W ck ps, fenv_ok fe -> world_ok W -> Forall (gen_ok W ck) ps ->
  forall fuel o c v, In v (fst (run fuel (gen_tuple_of fe W ck ps) o c)) ->
  exists k items, v = VColl k items /\ List.length items = List.length ps /\ Forall2 (fun p x => ev W p x = Some true) ps items.
Proof. exact gen_tuple_of_components. Qed.
Print Assumptions C09_tuple_of_components_in_order.

(* is_dict_of_p((k1, v1), ..., (kn, vn)) (its own program gen_dict_of: the 2n component streams zipped, each round turned
   into a dict; meaning = Lemmas/DictOf.v's model of DictOfPredicate.__call__ on the dict's items).
   PARTIAL, and named so: the full statement ("every yielded dict satisfies the predicate", for all entries) is FALSE of
   the faithful model - Refuted/DictOfFinding.v, known finding 12: the entries are generated independently, so a key meant
   for one entry may also satisfy another entry's key predicate while its value does not satisfy that entry's value
   predicate.  What is proved: under `Compat` (a key meant for one entry is rejected, without an exception, by every other
   entry's key predicate, and differs from the keys meant for the other entries - e.g. distinct literal keys) every dict
   yielded, for every oracle and at every position, satisfies the predicate. *)
Theorem C09_dict_of_values_satisfy_partial :
  forall fe W ck kvs, fenv_ok fe -> world_ok W ->
  Forall (fun kv => gen_ok W ck (fst kv) /\ gen_ok W ck (snd kv)) kvs -> Compat W kvs ->
  forall fuel o c, Forall (fun v => exists d, v = venc_dict d /\ dict_of_items W kvs d = Some true)
                          (fst (run fuel (gen_dict_of fe W ck kvs) o c)).
Proof. exact gen_dict_of_safe. Qed.
Print Assumptions C09_dict_of_values_satisfy_partial.
(* what "satisfies" means there: an empty dict only for no entries; every item accepted by some entry; no entry
   contradicted by any item *)
Theorem C09_dict_of_meaning :
  forall W kvs items, dict_of_items W kvs items = Some true <->
    (items = [] -> kvs = []) /\
    Forall (fun it => any_of (fun kv => kv_and W kv it) kvs = Some true) items /\
    Forall (fun kv => Forall (fun it => kv_viol W kv it = Some false) items) kvs.
Proof. exact dict_of_true. Qed.
Print Assumptions C09_dict_of_meaning.
Theorem C09_dict_of_hypotheses_nonvacuous :
  fenv_ok fe1 /\ world_ok W1 /\ Forall (fun kv => gen_ok W1 KInt (fst kv) /\ gen_ok W1 KInt (snd kv)) kvs_ok /\ Compat W1 kvs_ok /\
  fst (run 80 (gen_dict_of fe1 W1 KInt kvs_ok) o1 0) <> [].
Proof. exact dict_of_hypotheses_nonvacuous. Qed.
Print Assumptions C09_dict_of_hypotheses_nonvacuous.

(* the hypotheses above are satisfiable, and the streams they speak about are not empty *)
Theorem C09_hypotheses_nonvacuous :
  fenv_ok fe1 /\ world_ok W1 /\ gen_ok W1 KInt ex_true /\ gen_ok_false W1 KInt (PGe 3) /\ Forall (gen_ok W1 KInt) ex_tuple /\
  fst (run 60 (gen_true fe1 W1 KInt ex_true) o1 0) <> [] /\
  fst (run 60 (gen_false fe1 W1 KInt (PGe 3)) o1 0) <> [] /\
  fst (run 60 (gen_tuple_of fe1 W1 KInt ex_tuple) o1 0) <> [] /\
  ex_tuple <> [] /\ Forall (fun p => prod_true KInt p = true) ex_tuple.
Proof. exact generator_hypotheses_nonvacuous. Qed.
Print Assumptions C09_hypotheses_nonvacuous.
