(* C10 — every value produced by generate_false(p) violates p.  Same model and tie as C09 (`gen_false`). *)
From Coq Require Import QArith Bool List.
From PP Require Import Prelude.Base Prelude.Val Prelude.Pred Prelude.Sem Lemmas.GenDSL Lemmas.GenModel Lemmas.GenSafe Lemmas.GenExamples.
Import ListNotations.

(* For every float environment with the IEEE facts, every world, constant type, supported predicate satisfying
   `gen_ok_false` (integer constants where ck is int; operands of & and | that are evaluated on the other operand's
   counterexamples never raise), every oracle and every position of the stream: each value yielded makes Python's
   evaluation of p return False, without an exception. *)
Theorem C10_generate_false_values_violate :
  forall fe W ck, fenv_ok fe -> forall p, gen_ok_false W ck p ->
  forall fuel o c, Forall (fun v => ev W p v = Some false) (fst (run fuel (gen_false fe W ck p) o c)).
Proof. intros fe W ck Hfe p Hok fuel o c. apply run_safe. apply gen_false_safe; assumption. Qed.
Print Assumptions C10_generate_false_values_violate.

(* the hypotheses are satisfiable and the stream they speak about is not empty *)
Theorem C10_hypotheses_nonvacuous :
  fenv_ok fe1 /\ world_ok W1 /\ gen_ok_false W1 KInt (PGe 3) /\ fst (run 60 (gen_false fe1 W1 KInt (PGe 3)) o1 0) <> [].
Proof. exact generate_false_hypotheses_nonvacuous. Qed.
Print Assumptions C10_hypotheses_nonvacuous.
