(* C07 — connectives and quantifiers evaluate truth-functionally, left to right.
   `run` (Lemmas/Trace.v) is the instrumented evaluator: value + the sequence of user-function calls. *)
From Coq Require Import QArith Bool List String.
From PP Require Import Prelude.Base Prelude.Val Prelude.Pred Prelude.Sem Lemmas.Trace.
Import ListNotations.

(* for every world (arbitrary behaviour of the instrumented atoms, including raising), all operands and inputs *)
Theorem C07_truth_functional_values :
  forall W l r x a b, value W l x = Some a -> value W r x = Some b ->
    value W (PAnd l r) x = Some (a && b) /\ value W (POr l r) x = Some (a || b) /\
    value W (PXor l r) x = Some (xorb a b) /\ value W (PNot l) x = Some (negb a).
Proof. intros. repeat split; [eapply and_value|eapply or_value|eapply xor_value|eapply not_value]; eauto. Qed.
Print Assumptions C07_truth_functional_values.

Theorem C07_left_to_right_short_circuit :
  forall W l r x,
    trace W (PAnd l r) x = trace W l x ++ (match value W l x with Some true => trace W r x | _ => [] end) /\
    trace W (POr l r) x = trace W l x ++ (match value W l x with Some false => trace W r x | _ => [] end) /\
    trace W (PXor l r) x = trace W l x ++ (match value W l x with Some _ => trace W r x | None => [] end) /\
    trace W (PNot l) x = trace W l x.
Proof. intros. repeat split; [apply and_trace|apply or_trace|apply xor_trace|apply not_trace]. Qed.
Print Assumptions C07_left_to_right_short_circuit.

(* a type guard on the left protects the operand on the right, whatever it would do (raise included) *)
Theorem C07_guard_protects_right_operand :
  forall W l r x,
    (value W l x = Some false -> run W (PAnd l r) x = (Some false, trace W l x)) /\
    (value W l x = Some true -> run W (POr l r) x = (Some true, trace W l x)).
Proof. intros. split; [apply and_guard|apply or_guard]. Qed.
Print Assumptions C07_guard_protects_right_operand.

Theorem C07_quantifiers :
  forall W q k,
    run W (PAll q) (VColl k []) = (Some true, []) /\ run W (PAny q) (VColl k []) = (Some false, []) /\
    (forall items, Forall (fun i => value W q i = Some true) items -> run W (PAll q) (VColl k items) = (Some true, traces W q items)) /\
    (forall pre c post, Forall (fun i => value W q i = Some true) pre -> value W q c = Some false ->
        run W (PAll q) (VColl k (pre ++ c :: post)) = (Some false, traces W q pre ++ trace W q c)) /\
    (forall items, Forall (fun i => value W q i = Some false) items -> run W (PAny q) (VColl k items) = (Some false, traces W q items)) /\
    (forall pre c post, Forall (fun i => value W q i = Some false) pre -> value W q c = Some true ->
        run W (PAny q) (VColl k (pre ++ c :: post)) = (Some true, traces W q pre ++ trace W q c)).
Proof.
  intros. repeat split; [intros; apply all_holds; assumption|intros; apply all_stops; assumption
                        |intros; apply any_fails; assumption|intros; apply any_stops; assumption].
Qed.
Print Assumptions C07_quantifiers.

Theorem C07_comp_and_tee :
  forall W f q x,
    (forall y, comp_sem W f x = Some y -> run W (PComp f q) x = (value W q y, CallComp f x :: trace W q y)) /\
    (forall b, fn_sem W f x = Some b -> run W (PTee f) x = (Some true, [CallFn f x])).
Proof. intros. split; intros; [apply comp_run|eapply tee_run]; eauto. Qed.
Print Assumptions C07_comp_and_tee.

(* the instrumented evaluator is the evaluator used by every other property once the trace is erased *)
Theorem C07_value_is_python_evaluation : forall W p x, value W p x = ev W p x.
Proof. exact value_is_ev. Qed.
Print Assumptions C07_value_is_python_evaluation.
