(* C20 — the CLI prints the truth table / JSON of the expression it was given.
   `cli_table W parsed opt s0` / `cli_json W fname parsed opt` (Lemmas/Cli.v) are main.py's `table` and `json`
   commands as the composition of
     - the parser's RESULT (`parsed : option pred`; None = the text was rejected; text -> tree itself is C14's),
     - the optimizer REGENERATED from predicate/optimizer/*.py on every run (Gen/Optimize.v), run with the fuel
       `4 * w p + 3` that C12's theorem shows sufficient,
     - truth_table / get_named_predicates over the store of variable objects (Lemmas/TTModel.v, C15),
     - to_json (Lemmas/ToJson.v, C18),
     - main.py's own formatting helpers (hand-written in Cli.v; tie: fingerprint of main.py + running the real CLI).
   `Fprop p` = p is built from variables, true, false, ~, &, |, ^ (what the parser can return).
   `s0` is the initial `.v` of every variable object, `W` the world (its `env` = the values of named variables);
   all theorems are quantified over both, and over every propositional term of any size. *)
From Coq Require Import QArith Bool List Arith String Lia Sorting.Sorted.
From PP Require Import Prelude.Base Prelude.Val Prelude.Pred Prelude.Sem Gen.Negate Gen.Implies Gen.Optimize
  Lemmas.Fragments Lemmas.OptEnv Lemmas.Term Lemmas.TTModel Lemmas.TTProofs Lemmas.TTSem Lemmas.ToJson Lemmas.Cli.
Import ListNotations.
Close Scope Q_scope.
Open Scope string_scope.

(* (1) `table` without --optimize: exactly the text `table_text p` ... *)
Theorem C20_table_prints_the_table_of_the_expression :
  forall (W : world) (p : pred) (s0 : store), Fprop p = true ->
    cli_table W (Some p) false s0 = Stdout (table_text p).
Proof. exact cli_table_plain. Qed.
Print Assumptions C20_table_prints_the_table_of_the_expression.

(* ... and that text is: a header with the distinct variable names in sorted order, then one line per assignment
   in ascending binary order (2^n lines, the k-th line carrying the bits of k), whose last column is the value of
   the expression under that assignment (spec_table's second component is `psem (assign names a) p`, which
   C15_psem_is_the_predicate_semantics / Cli.spec_row_value identify with the evaluator of Prelude/Sem.v) *)
Theorem C20_shape_of_the_printed_table :
  forall p, Fprop p = true ->
  let ns := names (nm_of p) (tree_of p) in
  table_text p = header_line ns :: map row_line (spec_table (nm_of p) (tree_of p)) /\
  StronglySorted slt ns /\ NoDup ns /\ (forall x, In x ns <-> In x (pnames p)) /\
  List.length (spec_table (nm_of p) (tree_of p)) = 2 ^ List.length ns /\
  map bits_val (map fst (spec_table (nm_of p) (tree_of p))) = List.seq 0 (2 ^ List.length ns).
Proof. exact table_text_shape. Qed.
Print Assumptions C20_shape_of_the_printed_table.

Theorem C20_last_column_is_the_value_of_the_expression :
  forall (W : world) p a x, Fprop p = true ->
    psem (assign (names (nm_of p) (tree_of p)) a) (nm_of p) (tree_of p)
    = beval (with_env W (assign (names (nm_of p) (tree_of p)) a)) p x.
Proof. exact spec_row_value. Qed.
Print Assumptions C20_last_column_is_the_value_of_the_expression.

(* (2) `table --optimize`: the optimizer terminates within the fuel; a table is printed, it is the table of the
   optimised predicate q, q is propositional, and - unless a rule listed in known_findings.json fired (tr <> []) -
   every printed value is the value of the ORIGINAL expression under every assignment that agrees with the row on
   the variables q still mentions (variables the optimizer removed may take any value) *)
Theorem C20_optimized_table_has_the_same_boolean_function :
  forall (W : world) p s0, Fprop p = true ->
  exists q tr, optimize W (4 * w p + 3) p = Sem.Ok q tr /\
    (tr = [] -> Fprop q = true /\ cli_table W (Some p) true s0 = Stdout (table_text q) /\
       forall a e x, (forall n, In n (pnames q) -> e n = assign (names (nm_of q) (tree_of q)) a n) ->
          psem (assign (names (nm_of q) (tree_of q)) a) (nm_of q) (tree_of q) = beval (with_env W e) p x).
Proof. exact cli_table_optimized. Qed.
Print Assumptions C20_optimized_table_has_the_same_boolean_function.

(* (3) `json`: the rendering of the parsed tree; with --optimize the rendering of a predicate with the same Boolean
   function under every valuation of the variables *)
Theorem C20_json_prints_the_rendering_of_the_parsed_tree :
  forall (W : world) fname p, cli_json W fname (Some p) false = JOut (to_json fname p).
Proof. exact cli_json_plain. Qed.
Print Assumptions C20_json_prints_the_rendering_of_the_parsed_tree.

Theorem C20_optimized_json_has_the_same_boolean_function :
  forall (W : world) fname p, Fprop p = true ->
  exists q tr, optimize W (4 * w p + 3) p = Sem.Ok q tr /\ cli_json W fname (Some p) true = JOut (to_json fname q) /\
    (tr = [] -> Fprop q = true /\ forall e x, beval (with_env W e) q x = beval (with_env W e) p x).
Proof. exact cli_json_optimized. Qed.
Print Assumptions C20_optimized_json_has_the_same_boolean_function.

(* (4) rejected text: the message, never a table or a JSON document *)
Theorem C20_rejected_text_prints_nothing :
  forall (W : world) fname opt s0, cli_table W None opt s0 = CouldNotParse /\ cli_json W fname None opt = JCouldNotParse.
Proof. exact cli_rejects. Qed.
Print Assumptions C20_rejected_text_prints_nothing.

Theorem C20_nonvacuous :
  cli_table (W_ex []) (Some (PAnd (PNamed "q") (POr (PNamed "p") (PNot (PNamed "q"))))) false (fun _ => true)
  = Stdout ["p q
"; "0 0:   0
"; "0 1:   0
"; "1 0:   0
"; "1 1:   1
"].
Proof. exact cli_nonvacuous. Qed.
Print Assumptions C20_nonvacuous.
