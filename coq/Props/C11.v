(* C11 — generators are productive: next() yields or stops, never spins.
   Model: the step semantics of Lemmas/GenDSL.v; one step = one unit of work (a draw, a loop turn, a rejected or
   buffered candidate).  `G a b g`: the next event (a yield or the end of the stream) arrives within `a` steps and,
   after every yield, the following one within `b` steps, for EVERY oracle of random draws. *)
From Coq Require Import QArith ZArith Bool List.
From PP Require Import Prelude.Base Prelude.Val Prelude.Pred Prelude.Sem Lemmas.GenDSL Lemmas.GenYield Lemmas.GenModel Lemmas.GenProd Lemmas.GenSat Lemmas.GenTupleOf.
Import ListNotations.
Close Scope Q_scope.

(* the helpers: a bound that does not depend on the bounds given (0, beyond +-sys.maxsize, 1e300 ... are all instances) *)
Theorem C11_helpers_are_productive_for_bounds_of_any_magnitude :
  (forall lo hi, G 4 4 (random_ints lo hi)) /\ (forall lo hi, G 4 4 (random_floats lo hi)) /\
  G 6 6 random_strings /\ G 4 4 random_uuids /\ G 2 2 random_datetimes /\ G 1 1 random_complex /\
  G 21 21 random_anys /\ G 166 166 random_dicts /\ G 470 470 random_sets.
Proof.
  repeat split; [exact random_ints_productive|exact random_floats_productive|exact random_strings_productive|
                 exact random_uuids_productive|exact random_datetimes_productive|exact random_complex_productive|
                 exact random_anys_productive|exact random_dicts_productive|exact random_sets_productive].
Qed.
Print Assumptions C11_helpers_are_productive_for_bounds_of_any_magnitude.

(* generate_true / generate_false for the kinds without rejection sampling: at EVERY position of the stream, asking for
   the next value completes within Bt p (Bf p) steps - a function of the predicate's structure only *)
Theorem C11_generate_true_next_always_completes :
  forall fe W ck p, prod_true ck p = true -> forall n o c, exists r, nth_next n (Bt p) (gen_true fe W ck p) o c = Some r.
Proof.
  intros fe W ck p Hp n o c. destruct (every_next_completes _ _ _ (gen_true_productive fe W ck p Hp) n o c) as [r Hr].
  rewrite Nat.max_id in Hr. eauto.
Qed.
Print Assumptions C11_generate_true_next_always_completes.
Theorem C11_generate_false_next_always_completes :
  forall fe W ck p, prod_false ck p = true -> forall n o c, exists r, nth_next n (Bf p) (gen_false fe W ck p) o c = Some r.
Proof.
  intros fe W ck p Hp n o c. destruct (every_next_completes _ _ _ (gen_false_productive fe W ck p Hp) n o c) as [r Hr].
  rewrite Nat.max_id in Hr. eauto.
Qed.
Print Assumptions C11_generate_false_next_always_completes.

(* unsatisfiable requests end at once, whatever the oracle says *)
Theorem C11_unsatisfiable_requests_give_an_empty_stream :
  forall fe W ck o,
  run 50 (gen_true fe W ck PFalse) o 0 = ([], Stopped) /\ run 50 (gen_false fe W ck PTrue) o 0 = ([], Stopped) /\
  run 50 (gen_true fe W ck (PAny PFalse)) o 0 = ([], Stopped) /\ run 50 (gen_false fe W ck (PSetOf PTrue)) o 0 = ([], Stopped).
Proof. exact empty_streams. Qed.
Print Assumptions C11_unsatisfiable_requests_give_an_empty_stream.

(* a satisfiable request yields at least one value: for the kinds with a bound, under the syntactic conditions
   sat_true / sat_false (a non-empty member set, a supported class, an orderable constant type, a satisfiable element
   predicate under any_p / a falsifiable one under all_p and set-of), the FIRST event of the stream that is not internal
   work is a yield, and it arrives within Bt p (Bf p) steps - for every oracle of random draws *)
Theorem C11_satisfiable_generate_true_request_yields_a_first_value :
  forall fe W ck p, prod_true ck p = true -> sat_true ck p = true ->
  forall o c, exists v g' c', next_event (Bt p) (gen_true fe W ck p) o c = Some (EYield v, g', c').
Proof. exact satisfiable_true_request_yields. Qed.
Print Assumptions C11_satisfiable_generate_true_request_yields_a_first_value.
Theorem C11_satisfiable_generate_false_request_yields_a_first_value :
  forall fe W ck p, prod_false ck p = true -> sat_false ck p = true ->
  forall o c, exists v g' c', next_event (Bf p) (gen_false fe W ck p) o c = Some (EYield v, g', c').
Proof. exact satisfiable_false_request_yields. Qed.
Print Assumptions C11_satisfiable_generate_false_request_yields_a_first_value.
Theorem C11_satisfiability_conditions_nonvacuous :
  sat_true KInt (PAny (PGe 3)) = true /\ prod_true KInt (PAny (PGe 3)) = true /\
  sat_false KFloat (PAll (PGe 3)) = true /\ prod_false KFloat (PAll (PGe 3)) = true /\
  sat_true KInt (PIsInstance [9]) = true /\ sat_true KInt (PIn []) = false /\ sat_false KInt PTrue = false.
Proof. exact sat_examples. Qed.
Print Assumptions C11_satisfiability_conditions_nonvacuous.

(* is_tuple_of_p(p1, ..., pn), n >= 1, components of kinds without rejection sampling: at every position of the stream of
   tuples the next tuple (or the end of the stream: zip ends with its shortest component) arrives within
   Btuple ps = n * (10 + sum of the components' bounds) + 3 steps, for every oracle *)
Theorem C11_tuple_of_next_always_completes :
  forall fe W ck ps, ps <> [] -> Forall (fun p => prod_true ck p = true) ps ->
  forall n o c, exists r, nth_next n (Btuple ps) (gen_tuple_of fe W ck ps) o c = Some r.
Proof. exact gen_tuple_of_next_always_completes. Qed.
Print Assumptions C11_tuple_of_next_always_completes.

(* PARTIAL (named): the kinds that go through a filter (not_in_p, is_not_none_p, str/UUID bounds, &, set-of;
   generate_false of eq/in/none/falsy/type tests/|) are rejection sampling: no bound holds for every oracle (known
   finding 15).  For them only safety (C09/C10) is proved; the search measures their work under the real PRNG. *)
