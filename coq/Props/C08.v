(* C08 — every built-in atomic predicate computes the relation it is named after.
   The evaluator `ev` (Prelude/Sem.v) and the constants/factories (Lemmas/Std.v) are the HAND-WRITTEN model of the
   classes' __call__ and of standard_predicates.py; the deciding tie for this property is the correspondence run
   (every exported name x parameter grid x a 40-value cross-type domain, model vs implementation) plus the source
   fingerprints.  The theorems state what the model computes, for all parameters and all values. *)
From Coq Require Import QArith Bool List String.
From PP Require Import Prelude.Base Prelude.Val Prelude.Pred Prelude.Sem Lemmas.Std Lemmas.AtomsSpec Lemmas.TupleOf Lemmas.DictOf.
Import ListNotations.
Open Scope Q_scope.

Theorem C08_comparisons : forall W v x,
  ev W (ge_p v) x = cmp_spec q_ge x v /\ ev W (gt_p v) x = cmp_spec q_gt x v /\
  ev W (le_p v) x = cmp_spec q_le x v /\ ev W (lt_p v) x = cmp_spec q_lt x v /\
  ev W (eq_p v) x = Some (veq x v) /\ ev W (ne_p v) x = Some (negb (veq x v)).
Proof. exact comparisons_spec. Qed.
Print Assumptions C08_comparisons.
Theorem C08_exactly_at_the_bounds : forall W v k t,
  ev W (ge_p v) (VQ k v t) = Some true /\ ev W (le_p v) (VQ k v t) = Some true /\
  ev W (gt_p v) (VQ k v t) = Some false /\ ev W (lt_p v) (VQ k v t) = Some false /\
  ev W (eq_p v) (VQ k v t) = Some true /\ ev W (ne_p v) (VQ k v t) = Some false.
Proof. exact comparisons_at_the_bound. Qed.
Print Assumptions C08_exactly_at_the_bounds.
Theorem C08_ranges : forall W lo hi x,
  ev W (ge_le_p lo hi) x = ev W (PAnd (ge_p lo) (le_p hi)) x /\ ev W (ge_lt_p lo hi) x = ev W (PAnd (ge_p lo) (lt_p hi)) x /\
  ev W (gt_le_p lo hi) x = ev W (PAnd (gt_p lo) (le_p hi)) x /\ ev W (gt_lt_p lo hi) x = ev W (PAnd (gt_p lo) (lt_p hi)) x.
Proof. exact ranges_spec. Qed.
Print Assumptions C08_ranges.
Theorem C08_membership : forall W s x,
  ev W (in_p s) x = (if hashable x then Some (vmem x s) else None) /\ ev W (not_in_p s) x = option_map negb (ev W (in_p s) x).
Proof. exact membership_spec. Qed.
Print Assumptions C08_membership.
Theorem C08_opposites_are_complementary : forall W x v s,
  ev W (ne_p v) x = option_map negb (ev W (eq_p v) x) /\ ev W (not_in_p s) x = option_map negb (ev W (in_p s) x) /\
  ev W is_not_none_p x = option_map negb (ev W is_none_p x) /\ ev W is_not_empty_p x = option_map negb (ev W is_empty_p x) /\
  ev W is_truthy_p x = option_map negb (ev W is_falsy_p x).
Proof. exact opposites. Qed.
Print Assumptions C08_opposites_are_complementary.
Theorem C08_subset_family : forall W s items,
  let x := VColl KSet items in
  ev W (is_subset_p s) x = Some (vsubset items s) /\ ev W (is_superset_p s) x = Some (vsuperset items s) /\
  ev W (is_real_subset_p s) x = Some (vsubset items s && negb (vsuperset items s)) /\
  ev W (is_real_superset_p s) x = Some (vsuperset items s && negb (vsubset items s)) /\
  (beval W (is_real_subset_p s) x = true -> beval W (is_subset_p s) x = true) /\
  (beval W (is_real_superset_p s) x = true -> beval W (is_superset_p s) x = true) /\
  (vsubset items s = true -> vsuperset items s = true ->
     beval W (is_real_subset_p s) x = false /\ beval W (is_real_superset_p s) x = false).
Proof. exact subset_family_spec. Qed.
Print Assumptions C08_subset_family.
Theorem C08_type_tests_are_isinstance : forall W x ks, ev W (is_instance_p ks) x = Some (existsb (isinst W (type_of x)) ks).
Proof. exact type_tests_spec. Qed.
Print Assumptions C08_type_tests_are_isinstance.
Theorem C08_collections : forall W k items n key,
  ev W is_empty_p (VColl k items) = Some (match items with [] => true | _ => false end) /\
  ev W (has_length_p n) (VColl k items) = Some (Qeq_bool (inject_Z (Z.of_nat (List.length items))) n) /\
  ev W (has_key_p key) (VColl KDict items) = Some (existsb (fun i => veq i key) items) /\
  ev W is_empty_p VNone = None /\ ev W (has_key_p key) (VColl KList items) = None.
Proof. exact collections_spec. Qed.
Print Assumptions C08_collections.
Theorem C08_of_forms : forall W p x,
  ev W (is_list_of_p p) x = ev W (PAnd is_list_p (all_p p)) x /\ ev W (is_iterable_of_p p) x = ev W (PAnd is_iterable_p (all_p p)) x /\
  ev W (is_single_or_list_of_p p) x = ev W (POr (PAnd is_list_p (all_p p)) p) x /\
  (forall k items, ev W (is_set_of_p p) (VColl k items) = ev_all (ev W p) items) /\
  (forall k items, ev W (all_p p) (VColl k items) = ev_all (ev W p) items) /\
  (forall k items, ev W (any_p p) (VColl k items) = ev_any (ev W p) items).
Proof. exact of_forms_spec. Qed.
Print Assumptions C08_of_forms.
Theorem C08_named_constants_and_sign_tests :
  (neg_p = PLt 0 /\ zero_p = PEq 0 /\ pos_p = PGt 0 /\ eq_true_p = PEq 1 /\ eq_false_p = PEq 0 /\
   is_int_p = PIsInstance [1%nat] /\ is_bool_p = PIsInstance [0%nat] /\ is_str_p = PIsInstance [4%nat] /\
   is_list_p = PIsInstance [6%nat] /\ is_set_p = PIsInstance [8%nat] /\ is_dict_p = PIsInstance [9%nat]) /\
  (forall W k q t, ev W neg_p (VQ k q t) = Some (Qlt_bool q 0) /\ ev W zero_p (VQ k q t) = Some (Qeq_bool q 0) /\
                   ev W pos_p (VQ k q t) = Some (Qlt_bool 0 q)).
Proof. split; [exact named_constants|exact sign_tests_spec]. Qed.
Print Assumptions C08_named_constants_and_sign_tests.

(* is_tuple_of_p(p1 .. pn) (Lemmas/TupleOf.v: the class has a LIST of predicates, so it is modelled beside `pred`): True exactly
   on iterables of the same length whose i-th element satisfies the i-th predicate; False at once on another length; False
   when some element fails and no earlier one raised; TypeError (None) on what is not iterable *)
Theorem C08_tuple_of : forall W ps,
  (forall k items, (tuple_of_call W ps (VColl k items) = Some true <->
        List.length items = List.length ps /\ Forall2 (fun p v => ev W p v = Some true) ps items) /\
     (List.length items <> List.length ps -> tuple_of_call W ps (VColl k items) = Some false)) /\
  (forall vs, List.length vs = List.length ps ->
     (zip_all W ps vs = Some false <->
        exists i p v, nth_error ps i = Some p /\ nth_error vs i = Some v /\ ev W p v = Some false /\
                      forall j q u, (j < i)%nat -> nth_error ps j = Some q -> nth_error vs j = Some u -> ev W q u = Some true)) /\
  (forall x, (forall k items, x <> VColl k items) -> tuple_of_call W ps x = None).
Proof.
  intros W ps. split; [intros k items; exact (tuple_of_spec W ps k items)|].
  split; [exact (tuple_of_false_or_raises W ps)|exact (tuple_of_not_iterable W ps)].
Qed.
Print Assumptions C08_tuple_of.

(* is_dict_of_p((k1, v1) .. (kn, vn)) (Lemmas/DictOf.v: a list of (key predicate, value predicate) pairs; a dict is its items in
   insertion order): True exactly when the dict is empty only for no pair at all, every item is accepted by some pair (the
   pairs before it answering False without raising) and no pair whose key predicate accepts an item's key is contradicted by
   that item's value (every check answering); an accepted item has its key satisfying the key predicate and its value the
   value predicate of one and the same pair *)
Theorem C08_dict_of : forall W kvs items,
  (dict_of_items W kvs items = Some true <->
     (items = [] -> kvs = []) /\
     Forall (fun it => any_of (fun kv => kv_and W kv it) kvs = Some true) items /\
     Forall (fun kv => Forall (fun it => kv_viol W kv it = Some false) items) kvs) /\
  (forall it, any_of (fun kv => kv_and W kv it) kvs = Some true ->
     exists kv, In kv kvs /\ ev W (fst kv) (fst it) = Some true /\ ev W (snd kv) (snd it) = Some true).
Proof. intros W kvs items. split; [exact (dict_of_true W kvs items)|intros it; exact (accepted_means W kvs it)]. Qed.
Print Assumptions C08_dict_of.
