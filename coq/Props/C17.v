(* C17 — to_dot renders a graph isomorphic to the predicate tree, with truthful labels.

   Model: Lemmas/DotGraph.v — `to_value`/`render`/`to_dot` of predicate/formatter/format_dot.py over the term type
   `pred`, with graphviz.Digraph modelled as recorded data (next_id, nodes, edges) and labels as structured values.
   It is hand-written and tied to /repo by the C17 correspondence run (model graph vs the parsed `Digraph.body` of the
   real to_dot on every supported kind, trees up to 5 nodes, show_optimized on/off) and a source fingerprint.
   Specification: `label_of`/`label_tree`/`size`/`supported` (DotGraph.v §2, written from the property text) and the
   independent reader `decode`, which returns Some t only if the recorded nodes and solid edges are exactly the ordered
   tree t (distinct ids, #edges = #nodes-1, one parent per node, none for the root, every node used).
   Not modelled: dashed self-reference edges (render_lazy_references walks Python frames) and DictOfPredicate (not a
   constructor of `pred`); both are covered by the implementation-side search only. *)
From Coq Require Import QArith Bool List Arith String.
From PP Require Import Prelude.Base Prelude.Val Prelude.Pred Prelude.Sem Gen.Negate Gen.Implies Gen.Optimize
  Lemmas.DotGraph Lemmas.DotTree Lemmas.DotOpt.
Import ListNotations.
Local Close Scope Q_scope.
Local Open Scope nat_scope.

(* For EVERY predicate term p all of whose nodes are of a supported kind (any size, any constants, any operand
   nesting) and EVERY value n0 of the shared node counter: rendering succeeds and the recorded cluster reads back
   as exactly label_tree p — one node per sub-predicate with ids n0 .. n0+size p-1 (pairwise distinct), one solid edge per
   parent-child link, same shape and operand order, each node showing its operator and constants, a range node
   its lower bound on the left, its upper bound on the right and "<" or "≤" per end — and the counter is left at
   n0 + size p. *)
Theorem C17_cluster_is_the_predicate_tree :
  forall (p : pred) (n0 : nat), supported p = true ->
    exists g, render p n0 = Ret g
      /\ decode g = Some (label_tree p)
      /\ map node_id (nodes g) = List.seq n0 (size p)
      /\ NoDup (map node_id (nodes g))
      /\ S (List.length (edges g)) = size p
      /\ forallb is_solid (edges g) = true
      /\ next_id g = n0 + size p.
Proof. exact render_decodes. Qed.
Print Assumptions C17_cluster_is_the_predicate_tree.

(* the same in one equation *)
Theorem C17_decode_render :
  forall (p : pred) (n0 : nat), supported p = true -> decode_result (render p n0) = Some (label_tree p).
Proof. exact decode_render. Qed.
Print Assumptions C17_decode_render.

(* For EVERY p and n0: if some node of p is of a kind to_dot does not know (or is an is_instance_p() naming no
   class), no graph is produced but an exception value; it is ValueError whenever every is_instance node names a class. *)
Theorem C17_unknown_kind_is_ValueError :
  forall (p : pred) (n0 : nat), supported p = false ->
    exists e, render p n0 = Raise e /\ (inst_nonempty p = true -> e = ValueError).
Proof. exact render_unsupported. Qed.
Print Assumptions C17_unknown_kind_is_ValueError.

Theorem C17_graph_iff_supported :
  forall (p : pred) (n0 : nat), (exists g, render p n0 = Ret g) <-> supported p = true.
Proof. exact render_ret_iff_supported. Qed.
Print Assumptions C17_graph_iff_supported.

(* show_optimized=True, for EVERY pair of supported terms p and q (q stands for optimize(p)): the second cluster
   is q's tree, drawn from where the counter stopped, so the two id sets are disjoint. *)
Theorem C17_two_clusters_disjoint_ids :
  forall (p q : pred), supported p = true -> supported q = true ->
    exists g1 g2, to_dot p (Some q) = Ret (g1, Some g2)
      /\ decode g1 = Some (label_tree p)
      /\ decode g2 = Some (label_tree q)
      /\ map node_id (nodes g1) = List.seq 0 (size p)
      /\ map node_id (nodes g2) = List.seq (size p) (size q)
      /\ (forall i, In i (map node_id (nodes g1)) -> ~ In i (map node_id (nodes g2)))
      /\ NoDup (map node_id (nodes g1) ++ map node_id (nodes g2)).
Proof. exact to_dot_two_clusters. Qed.
Print Assumptions C17_two_clusters_disjoint_ids.

(* ... and an unknown kind in the original or in the optimized tree is reported by an exception value (ValueError) *)
Theorem C17_two_clusters_unknown_kind :
  forall (p : pred) (oq : option pred),
    (supported p = false \/ exists q, oq = Some q /\ supported q = false) ->
    exists e, to_dot p oq = Raise e
      /\ (inst_nonempty p = true -> (forall q, oq = Some q -> inst_nonempty q = true) -> e = ValueError).
Proof. exact to_dot_unsupported. Qed.
Print Assumptions C17_two_clusters_unknown_kind.

(* the instance with the optimizer regenerated from /repo: for every world, fuel, p and result q of optimize *)
Theorem C17_with_generated_optimize :
  forall (W : world) (fuel : nat) (p q : pred) (tr : list site),
    optimize W fuel p = Ok q tr -> supported p = true ->
    (supported q = true ->
       exists g1 g2, to_dot p (Some q) = Ret (g1, Some g2)
         /\ decode g1 = Some (label_tree p) /\ decode g2 = Some (label_tree q)
         /\ map node_id (nodes g1) = List.seq 0 (size p)
         /\ map node_id (nodes g2) = List.seq (size p) (size q)
         /\ NoDup (map node_id (nodes g1) ++ map node_id (nodes g2)))
    /\ (supported q = false ->
       exists e, to_dot p (Some q) = Raise e /\ (inst_nonempty q = true -> e = ValueError)).
Proof. exact to_dot_with_optimize. Qed.
Print Assumptions C17_with_generated_optimize.

(* non-vacuity: a 15-node tree with every shape and all four range kinds, counter starting at 3 *)
Example C17_nonvacuous :
  supported ex_p = true /\ size ex_p = 15 /\ decode_result (render ex_p 3) = Some (label_tree ex_p).
Proof. split; [exact (proj1 ex_supported)|split; [exact (proj2 ex_supported)|exact ex_render_decodes]]. Qed.
Print Assumptions C17_nonvacuous.
