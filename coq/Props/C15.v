(* C15 — truth_table(p) is the complete, ordered, history-independent evaluation of p.

   The statements are about the executable model Lemmas/TTModel.v of predicate/truth_table.py (hand-written, tied to
   the source by the C15 correspondence run and a source fingerprint).  In that model
     - a NamedPredicate is an OBJECT `l : loc`; `nm l` is its name, `s l` (s : store) the current value of its
       mutable field `v`; the same object may sit at several leaves, different objects may have the same name;
     - `truth_table_list nm t s0` is list(truth_table(t)) started with the heap in state s0:
       (rows produced, exception raised if any, heap at the end);
     - `next nm t st s` is one next() on the generator: (result, new generator state, new heap);
     - `names nm t` = sorted(set(names at the leaves)), `all_rows n` = sorted(gray_product( *repeat((False,True), n))),
       `psem env nm t` = the propositional value of t when the variable NAMED x has value env x,
       `assign ns a` = the assignment "i-th name of ns := i-th bit of a",
       `spec_table nm t = map (fun a => (a, psem (assign (names nm t) a) nm t)) (all_rows (length (names nm t)))`.
   Names are Coq strings ordered by String.compare (bytewise = Python's code-point order on UTF-8/ASCII). *)
From Coq Require Import QArith Bool String Arith Sorted List.
From PP Require Import Prelude.Base Prelude.Val Prelude.Pred Prelude.Sem Lemmas.TTModel Lemmas.TTProofs Lemmas.TTSem.
Import ListNotations.
Close Scope Q_scope.

(* MAIN.  For ALL name maps (any sharing of objects, any repetition of names), ALL trees built from variables,
   constants and connectives (any size) and ALL initial stores (= every history of earlier calls and of other
   predicates over the same variable objects): no exception, and the rows are exactly the specification table. *)
Theorem C15_truth_table_is_the_specification_table :
  forall (nm : loc -> name) (t : ptree) (s0 : store),
    prop_tree t = true ->
    exists s1, truth_table_list nm t s0 = (spec_table nm t, None, s1).
Proof. exact truth_table_correct. Qed.
Print Assumptions C15_truth_table_is_the_specification_table.

(* the same, said as independence: any two initial stores give the same rows *)
Theorem C15_result_does_not_depend_on_prior_values :
  forall nm t s0 s0', prop_tree t = true ->
    fst (fst (truth_table_list nm t s0)) = fst (fst (truth_table_list nm t s0')) /\
    snd (fst (truth_table_list nm t s0)) = None.
Proof. exact truth_table_history_independent. Qed.
Print Assumptions C15_result_does_not_depend_on_prior_values.

(* shape of the table, for all nm, t: the names are strictly ascending, duplicate-free and exactly the names of the
   variable objects at the leaves; there are 2^n rows; their assignments are all_rows n, i.e. read as binary numbers
   0,1,...,2^n-1 in this order; each n-bit assignment occurs, and occurs once *)
Theorem C15_table_shape :
  forall nm t,
    StronglySorted slt (names nm t) /\ NoDup (names nm t) /\
    (forall x, In x (names nm t) <-> exists l, In l (locs t) /\ nm l = x) /\
    length (spec_table nm t) = 2 ^ length (names nm t) /\
    map fst (spec_table nm t) = all_rows (length (names nm t)) /\
    map bits_val (map fst (spec_table nm t)) = List.seq 0 (2 ^ length (names nm t)) /\
    NoDup (map fst (spec_table nm t)) /\
    (forall a, In a (map fst (spec_table nm t)) <-> length a = length (names nm t)).
Proof. exact spec_table_shape. Qed.
Print Assumptions C15_table_shape.

(* slt is String.ltb *)
Theorem C15_name_order_is_string_order : forall a b, slt a b <-> String.ltb a b = true.
Proof. exact slt_ltb. Qed.
Print Assumptions C15_name_order_is_string_order.

(* list(g) is "call next(g) until it stops": the two models of the generator agree, for every state and store *)
Theorem C15_list_is_repeated_next :
  forall nm t st s,
    drain nm t st s =
    match next nm t st s with
    | (Yield r, st', s') => let '(rows, e, s'') := drain nm t st' s' in (r :: rows, e, s'')
    | (Stop, _, s') => ([], None, s')
    | (Throw e, _, s') => ([], Some e, s')
    end.
Proof. exact drain_unfold. Qed.
Print Assumptions C15_list_is_repeated_next.

(* STEP-WISE.  After ANY prefix `done` of the rows has been produced, and with the store in ANY state s (left by
   the earlier rows, by other generators over the same objects, or overwritten by any other code), the next pull
   yields the next row with the right value: every row re-writes every variable before reading. *)
Theorem C15_next_row_right_after_any_interference :
  forall nm t done c rest (s : store),
    prop_tree t = true ->
    all_rows (length (names nm t)) = (done ++ c :: rest)%list ->
    exists s', next nm t (GRun (names nm t) (c :: rest)) s
               = (Yield (c, psem (assign (names nm t) c) nm t), GRun (names nm t) rest, s').
Proof. exact next_row_after_interference. Qed.
Print Assumptions C15_next_row_right_after_any_interference.

(* every pull, in every reachable generator state (fresh, suspended, finished; accepted or rejected tree), from
   every store, returns what the store-free specification `pure_next` says *)
Theorem C15_every_pull_is_store_independent :
  forall nm t st (s : store), wf nm t st ->
    exists s', next nm t st s = (fst (pure_next nm t st), snd (pure_next nm t st), s') /\
               wf nm t (snd (pure_next nm t st)).
Proof. exact next_pure. Qed.
Print Assumptions C15_every_pull_is_store_independent.

(* INTERLEAVING.  Any family of fresh truth_table generators (i |-> trees i, sharing objects and names at
   will), one heap in any initial state, ANY finite schedule of next() calls on any of them and of arbitrary heap
   mutations `EMutate f` in between: the results generator i hands out are, in order, the rows of its own
   specification table, then StopIteration for ever (ValueError then StopIteration if its tree is rejected). *)
Theorem C15_interleaved_generators :
  forall nm (trees : nat -> ptree) (s0 : store) (ev : list event) (i : nat),
    map snd (filter (fun e => Nat.eqb (fst e) i) (run_sched nm (fun k => (trees k, GStart)) s0 ev))
    = map (expected nm (trees i)) (List.seq 0 (pulls_of i ev)).
Proof. exact interleaved_truth_tables. Qed.
Print Assumptions C15_interleaved_generators.

(* REJECTION.  A tree containing anything other than variables, constants and connectives, anywhere: ValueError at
   the first pull, no row before it, no variable written. *)
Theorem C15_non_propositional_rejected :
  forall nm t s0, prop_tree t = false ->
    truth_table_list nm t s0 = ([], Some ValueError, s0) /\
    next nm t GStart s0 = (Throw ValueError, GDone, s0).
Proof. exact truth_table_rejects. Qed.
Print Assumptions C15_non_propositional_rejected.

(* "p evaluated under that assignment" is the framework's semantics of predicates: forgetting object identities,
   psem is beval (Prelude/Sem.v) in any world whose environment is the assignment, at any argument x *)
Theorem C15_psem_is_the_predicate_semantics :
  forall (W : world) nm t (x : val), prop_tree t = true -> beval W (to_pred nm t) x = psem (env W) nm t.
Proof. exact psem_beval. Qed.
Print Assumptions C15_psem_is_the_predicate_semantics.

(* non-vacuity: 3 names over 4 objects (two distinct objects named "p", object "q" at two leaves), dirty store *)
Example C15_nonvacuous :
  prop_tree ex_tree = true /\ names ex_nm ex_tree = ["p"; "q"; "r"]%string /\
  fst (truth_table_list ex_nm ex_tree ex_dirty) =
    ([([false; false; false], false); ([false; false; true], true);
      ([false; true; false], false); ([false; true; true], true);
      ([true; false; false], true); ([true; false; true], true);
      ([true; true; false], true); ([true; true; true], false)], None) /\
  fst (truth_table_list ex_nm ex_tree ex_dirty) = (spec_table ex_nm ex_tree, None) /\
  fst (truth_table_list ex_nm ex_tree (fun _ => true)) = (spec_table ex_nm ex_tree, None).
Proof. exact truth_table_correct_nonvacuous. Qed.
Print Assumptions C15_nonvacuous.
