(* C05 — implies(p, q) is sound, and exact on the atom pairs it understands.
   `implies` is Gen/Implies.v, regenerated from predicate/implies.py on every run. *)
From Coq Require Import QArith Bool List String.
From PP Require Import Prelude.Base Prelude.Val Prelude.Pred Prelude.Sem Gen.Negate Gen.Implies Lemmas.NegImp.
Import ListNotations.
Open Scope Q_scope.

(* (a) soundness, for every pair of predicates of every class: whenever implies says True, every value
       (on which both are defined) that satisfies p satisfies q *)
Theorem C05_implies_sound :
  forall (W : world) (p q : pred), implies p q = true ->
    forall x, defined W p x = true -> defined W q x = true -> beval W p x = true -> beval W q x = true.
Proof. exact implies_sound. Qed.
Print Assumptions C05_implies_sound.

(* (b) completeness over the dense unbounded order Q on the pairs it understands *)
Theorem C05_implies_complete_on_understood_pairs :
  forall (W : world),
    (forall a b, entails W (PGe a) (PGe b) -> implies (PGe a) (PGe b) = true) /\
    (forall a b, entails W (PGe a) (PGt b) -> implies (PGe a) (PGt b) = true) /\
    (forall a b, entails W (PGt a) (PGe b) -> implies (PGt a) (PGe b) = true) /\
    (forall a b, entails W (PGt a) (PGt b) -> implies (PGt a) (PGt b) = true) /\
    (forall a b, entails W (PEq a) (PGe b) -> implies (PEq a) (PGe b) = true) /\
    (forall a b, entails W (PEq a) (PGt b) -> implies (PEq a) (PGt b) = true) /\
    (forall a b, entails W (PEq a) (PEq b) -> implies (PEq a) (PEq b) = true) /\
    (forall a b, entails W (PEq a) (PNe b) -> implies (PEq a) (PNe b) = true) /\
    (forall a s, entails W (PEq a) (PIn s) -> implies (PEq a) (PIn s) = true) /\
    (forall a s, entails W (PEq a) (PNotIn s) -> implies (PEq a) (PNotIn s) = true) /\
    (forall s t, entails W (PIn s) (PIn t) -> implies (PIn s) (PIn t) = true).
Proof.
  intros W. repeat split.
  - exact (complete_ge_ge W). - exact (complete_ge_gt W). - exact (complete_gt_ge W). - exact (complete_gt_gt W).
  - exact (complete_eq_ge W). - exact (complete_eq_gt W). - exact (complete_eq_eq W). - exact (complete_eq_ne W).
  - exact (complete_eq_in W). - exact (complete_eq_notin W). - exact (complete_in_in W).
Qed.
Print Assumptions C05_implies_complete_on_understood_pairs.

(* (c) what it always recognises *)
Theorem C05_implies_always_recognises :
  (forall q, implies PFalse q = true) /\
  (forall l r, implies (PAnd l r) l = true /\ implies (PAnd l r) r = true) /\
  (forall s, implies (PRealSubset s) (PSubset s) = true) /\
  (forall s, implies (PRealSuperset s) (PSuperset s) = true).
Proof.
  split; [exact implies_false|]. split; [intros l r; split; [apply implies_and_left|apply implies_and_right]|].
  split; [exact implies_real_subset|exact implies_real_superset].
Qed.
Print Assumptions C05_implies_always_recognises.
