(* C01 — optimize() preserves the Boolean function of a propositional predicate.
   `optimize` is Gen/Optimize.v, regenerated from predicate/optimizer/*.py on every run. *)
From Coq Require Import QArith Bool List String.
From PP Require Import Prelude.Base Prelude.Val Prelude.Pred Prelude.Sem Gen.Negate Gen.Implies Gen.Optimize
  Lemmas.Fragments Lemmas.OptSound Lemmas.OptProp.
From PP Require Import Refuted.KnownFindings.  (* the refutation witnesses of the listed known findings *)
Import ListNotations.

(* For every tree over named variables, true, false, &, |, ^, ~ (any depth, any repetition of sub-terms,
   either operand order), every recursion budget, every assignment `env W` of the variables (and every
   input x, which a propositional predicate ignores): if the optimizer returns q without going through a
   rule listed in known_findings.json (empty trace), then q is again propositional and has exactly the
   truth value of the original.  Totality (some budget always suffices) is C12. *)
Theorem C01_optimize_preserves_propositional_function :
  forall (W : world) (fuel : nat) (p q : pred),
    Fprop p = true -> optimize W fuel p = Ok q [] ->
    Fprop q = true /\ forall x, beval W q x = beval W p x.
Proof. exact optimize_sound_prop. Qed.
Print Assumptions C01_optimize_preserves_propositional_function.

(* non-vacuity: a depth-4 tree with every connective is optimised, with an empty trace, to a different term *)
Example C01_nonvacuous :
  let p := PAnd (POr (PNot (PNamed "p")) (PNamed "q")) (PXor (PNamed "p") (PAnd PTrue (PNot (PNot (PNamed "r"))))) in
  Fprop p = true /\ exists q, optimize (W_ex []) 100 p = Ok q [] /\ peq q p = false.
Proof. cbv zeta. split; [reflexivity|]. eexists. split; [vm_compute; reflexivity|vm_compute; reflexivity]. Qed.

Print Assumptions C01_nonvacuous.