(* C12 — optimize() always terminates (and analysis functions never mutate their input).
   `optimize` is Gen/Optimize.v, regenerated from predicate/optimizer/*.py on every run; every call of an
   optimizer function in the model consumes one unit of the budget, so the budget bounds the recursion depth. *)
From Coq Require Import QArith Bool List String Arith Lia.
From PP Require Import Prelude.Base Prelude.Val Prelude.Pred Prelude.Sem Gen.Negate Gen.Implies Gen.Optimize
  Lemmas.OptBase Lemmas.OptSound Lemmas.Term Lemmas.TermMain.
Import ListNotations.
Close Scope Q_scope.

(* For every finite predicate tree of every class (constants are rationals, hence mutually comparable; function
   atoms are total) and every world: optimize returns a predicate - not an exception (Crash), not unbounded
   recursion (OutOfFuel) - within a recursion depth linear in the weighted size w of the tree (every node
   counts 1, ne_p / not_in_p / is_not_none_p count 2), and the result is no heavier than the input. *)
Theorem C12_optimize_terminates_with_linear_depth :
  forall (W : world) (p : pred),
    exists q tr, optimize W (4 * w p + 3) p = Ok q tr /\ w q <= w p.
Proof. exact optimize_terminates. Qed.
Print Assumptions C12_optimize_terminates_with_linear_depth.

(* termination and soundness together: the returned predicate, when no known-finding rule fired, agrees with
   the input wherever the input is defined *)
Theorem C12_optimize_total_and_sound :
  forall (W : world) (p : pred),
    exists q tr, optimize W (4 * w p + 3) p = Ok q tr /\
      (tr = [] -> forall x, defined W p x = true -> defined W q x = true /\ beval W q x = beval W p x).
Proof.
  intros W p. destruct (optimize_terminates W p) as (q & tr & E & _). exists q, tr. split; [exact E|].
  intros -> x D. exact (optimize_sound W _ p q E x D).
Qed.
Print Assumptions C12_optimize_total_and_sound.

(* PARTIAL (named): the polynomial bound on the number of steps is not proved.  What is proved is the linear
   recursion depth above and, for every entry point, that each recursive call is made on an argument whose
   budget requirement is strictly smaller (Lemmas/TermMain.v); the number of calls is measured by the C12
   search (call counts on adversarial families against a quadratic envelope), which is a test, not a proof. *)

(* non-mutation: the model is a pure function, and py2coq refuses every mutating construct in the
   translated files (augmented assignment, attribute/subscript stores, del, loops with side effects), so a
   mutation in optimizer/negate/implies breaks the translation; the snapshot harness in the C12 search
   exhibits it on the implementation. *)

Example C12_nonvacuous :
  exists q tr, optimize (W_ex_t) (4 * w (PXor (PAnd (PNamed "a") (PNamed "b")) (POr (PNamed "c") (PNamed "a"))) + 3)
                 (PXor (PAnd (PNamed "a") (PNamed "b")) (POr (PNamed "c") (PNamed "a"))) = Ok q tr.
Proof. eexists. eexists. vm_compute. reflexivity. Qed.

Print Assumptions C12_nonvacuous.