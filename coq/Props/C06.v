(* C06 — predicate equality is a congruence.  `peq` is the model of `==` (dataclass equality of every class,
   commutative for & | ^) in Prelude/Sem.v; it is tied to the implementation by the C06 correspondence run
   (p == q on all pairs of a constructor x parameter grid).  `can_optimize` is Gen/Optimize.v. *)
From Coq Require Import QArith Bool List String Arith.
From PP Require Import Prelude.Base Prelude.Val Prelude.Pred Prelude.Sem Gen.Negate Gen.Implies Gen.Optimize
  Lemmas.PeqFacts Lemmas.PeqSep.
Import ListNotations.

(* equal predicates answer alike, and are defined alike, on every input, in every world.
   (this_p / root_p nodes are compared by identity: equal means the same node, so the exception the
   property makes for them is not even needed) *)
Theorem C06_equal_predicates_agree_everywhere :
  forall (W : world) (p q : pred), peq p q = true ->
    forall x, beval W p x = beval W q x /\ defined W p x = defined W q x.
Proof. exact peq_sound. Qed.
Print Assumptions C06_equal_predicates_agree_everywhere.

Theorem C06_equality_reflexive_symmetric :
  (forall p, peq p p = true) /\ (forall p q, peq p q = peq q p).
Proof. split; [exact peq_refl|exact peq_sym]. Qed.
Print Assumptions C06_equality_reflexive_symmetric.

(* the operands of & | ^ are unordered *)
Theorem C06_connectives_commutative :
  forall l r, peq (PAnd l r) (PAnd r l) = true /\ peq (POr l r) (POr r l) = true /\ peq (PXor l r) (PXor r l) = true.
Proof. exact peq_comm. Qed.
Print Assumptions C06_connectives_commutative.

(* equality distinguishes every parameter that affects the result *)
Theorem C06_equality_separates_parameters : separation_statement.
Proof. exact separation. Qed.
Print Assumptions C06_equality_separates_parameters.

(* can_optimize(p) is True exactly when optimize(p) is not equal to p *)
Theorem C06_can_optimize_iff_changed :
  forall W fuel p q tr, optimize W fuel p = Ok q tr ->
    can_optimize W fuel p = Ok (negb (peq q p)) tr.
Proof. exact can_optimize_spec. Qed.
Print Assumptions C06_can_optimize_iff_changed.
