(* C19 — construct() only yields predicates that separate the two example sets.
   Statements only; the model of predicate/constructor/construct.py (`initial`, `mutations`, `round`,
   `yielded`, `stream_upto`) and the proofs live in Lemmas/Construct.v.  The model is hand-written; it is tied to
   the implementation on every run by tools/props/c19.py (source fingerprint + the real generator executed next to
   `yielded` for rounds 0 and 1 on seeded pairs of mixed-type example sets).
   `round k` = the candidate list of the k-th iteration of `while True` (k is unbounded: the stream is the
   concatenation of `yielded .. k` over k = 0, 1, 2, ...); fs/ts = false_set/true_set as lists of model values;
   W = the world (isinstance table etc.); `beval W p x` = the Boolean p(x). *)
From Coq Require Import QArith Bool List Arith.
From PP Require Import Prelude.Base Prelude.Val Prelude.Pred Prelude.Sem Lemmas.Fragments Lemmas.Construct.
Import ListNotations.
Close Scope Q_scope.

(* for every world, any two example sets (any length, any values, also empty or overlapping), every round k and
   every predicate p yielded in that round (every position): p is True on every element of true_set and False
   on every element of false_set *)
Theorem C19_every_yielded_predicate_separates :
  forall (W : world) (fs ts : list val) (k : nat) (p : pred),
    In p (yielded W fs ts k) ->
    forallb (beval W p) ts = true /\ forallb (fun x => negb (beval W p x)) fs = true.
Proof. exact yielded_separates. Qed.
Print Assumptions C19_every_yielded_predicate_separates.

(* the same for every prefix of the stream (the first n rounds, any n), and element by element, also in terms of
   Python's own evaluation (no exception, the right answer) *)
Theorem C19_every_stream_prefix_separates :
  forall (W : world) (fs ts : list val) (n : nat) (p : pred),
    In p (stream_upto W fs ts n) -> separates W p fs ts.
Proof. exact stream_separates. Qed.
Print Assumptions C19_every_stream_prefix_separates.

Theorem C19_yielded_pointwise :
  forall (W : world) (fs ts : list val) (k : nat) (p : pred),
    In p (yielded W fs ts k) ->
    (forall x, In x ts -> beval W p x = true /\ ev W p x = Some true) /\
    (forall x, In x fs -> beval W p x = false /\ ev W p x = Some false).
Proof. exact yielded_separates_pointwise. Qed.
Print Assumptions C19_yielded_pointwise.

(* the test `all_p(p)(true_set) and all_p(~p)(false_set)` never raises on a candidate of any round, for any
   elements, and computes exactly the property's condition *)
Theorem C19_test_total :
  forall (W : world) (fs ts : list val) (k : nat) (p : pred),
    In p (round k) ->
    sep_ev W fs ts p = Some (forallb (beval W p) ts && forallb (fun x => negb (beval W p x)) fs).
Proof. exact test_total. Qed.
Print Assumptions C19_test_total.

(* first round: every one of the 14 initial candidates that separates the sets is yielded in round 0 *)
Theorem C19_first_round :
  forall (W : world) (fs ts : list val) (t : pred),
    In t initial ->
    (forallb (beval W t) ts = true /\ forallb (fun x => negb (beval W t x)) fs = true) ->
    In t (yielded W fs ts 0).
Proof. exact first_round. Qed.
Print Assumptions C19_first_round.

(* in particular when a built-in type test separates the sets: round 0 yields it, is not empty, and the head
   of every non-empty prefix of the stream is a predicate of round 0 *)
Theorem C19_type_test_found_in_first_round :
  forall (W : world) (fs ts : list val) (t : pred),
    In t type_tests -> separates W t fs ts ->
    In t (yielded W fs ts 0) /\ yielded W fs ts 0 <> [] /\
    forall n, exists q rest, stream_upto W fs ts (S n) = q :: rest /\ In q (yielded W fs ts 0).
Proof. exact first_round_type_test. Qed.
Print Assumptions C19_type_test_found_in_first_round.

(* more generally no separating candidate of any round is skipped *)
Theorem C19_no_separating_candidate_skipped :
  forall (W : world) (fs ts : list val) (k : nat) (p : pred),
    In p (round k) ->
    forallb (beval W p) ts = true /\ forallb (fun x => negb (beval W p x)) fs = true ->
    In p (yielded W fs ts k).
Proof. exact candidate_yielded. Qed.
Print Assumptions C19_no_separating_candidate_skipped.

(* shape of the stream: nothing is yielded outside the candidate rounds; the candidates of round k+1 are exactly
   a | b and a & b for the ordered pairs of unequal (`!=`) candidates a, b of round k; no round is empty *)
Theorem C19_stream_within_rounds :
  (forall W fs ts k p, In p (yielded W fs ts k) -> In p (round k)) /\
  (forall W fs ts n p, In p (stream_upto W fs ts n) -> exists k, k < n /\ In p (round k)).
Proof. split; [exact yielded_in_round|exact stream_in_rounds]. Qed.
Print Assumptions C19_stream_within_rounds.

Theorem C19_round_successor :
  forall (k : nat) (p : pred),
    In p (round (S k)) <->
    exists a b, In a (round k) /\ In b (round k) /\ peq a b = false /\ (p = POr a b \/ p = PAnd a b).
Proof. exact round_succ. Qed.
Print Assumptions C19_round_successor.

Theorem C19_rounds_nonempty : forall k, round k <> [].
Proof. exact round_nonempty. Qed.
Print Assumptions C19_rounds_nonempty.

(* non-vacuity: concrete mixed-type sets in the concrete world W_ex *)
Example C19_nonvacuous_first_round :
  yielded (W_ex []) ex_fs1 ex_ts1 0 = [is_int_p] /\ separates (W_ex []) is_int_p ex_fs1 ex_ts1 /\ In is_int_p type_tests.
Proof. exact ex_first_round. Qed.

Print Assumptions C19_nonvacuous_first_round.
Example C19_nonvacuous_second_round :
  yielded (W_ex []) ex_fs2 ex_ts2 0 = [] /\
  In (POr is_int_p is_str_p) (yielded (W_ex []) ex_fs2 ex_ts2 1) /\
  List.length (yielded (W_ex []) ex_fs2 ex_ts2 1) = 2 /\
  forallb (fun p => forallb (beval (W_ex []) p) ex_ts2 && forallb (fun x => negb (beval (W_ex []) p x)) ex_fs2)
          (yielded (W_ex []) ex_fs2 ex_ts2 1) = true.
Proof. exact ex_second_round. Qed.

Print Assumptions C19_nonvacuous_second_round.
Example C19_nonvacuous_bool_is_int :
  beval (W_ex []) is_int_p (VQ KBool 1%Q true) = true /\
  stream_upto (W_ex []) [VQ KBool 1%Q true] [vint 3] 2 = [].
Proof. exact ex_bool_is_int. Qed.

Print Assumptions C19_nonvacuous_bool_is_int.
Example C19_nonvacuous_round1 :
  List.length (round 0) = 14 /\ List.length (round 1) = 364 /\
  existsb (peq (POr is_int_p is_str_p)) (round 1) = true.
Proof. split; [apply round_sizes|]. split; [apply round_sizes|apply ex_round1]. Qed.

Print Assumptions C19_nonvacuous_round1.