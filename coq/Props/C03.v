(* C03 — optimize() preserves quantified, emptiness and set-inclusion predicates.
   `optimize` is Gen/Optimize.v, regenerated from predicate/optimizer/*.py on every run. *)
From Coq Require Import QArith Bool List String.
From PP Require Import Prelude.Base Prelude.Val Prelude.Pred Prelude.Sem Gen.Negate Gen.Implies Gen.Optimize
  Lemmas.Fragments Lemmas.OptSound.
From PP Require Import Refuted.KnownFindings.  (* the refutation witnesses of the listed known findings *)
Import ListNotations.
Open Scope Q_scope.

(* For every tree over all_p / any_p (nested to any depth over C01/C02 terms), is_empty / is_not_empty, the
   subset family and &,|,^,~; every finite re-iterable collection x (VColl k items, items of any length
   including [], sets included) on which the original's atoms are defined: a result with an empty trace is
   defined on x and gives the same answer. *)
Theorem C03_optimize_preserves_collection_predicates :
  forall (W : world) (fuel : nat) (p q : pred),
    Fcoll p = true -> optimize W fuel p = Ok q [] ->
    forall x, defined W p x = true ->
      defined W q x = true /\ beval W q x = beval W p x /\ ev W q x = ev W p x.
Proof.
  intros W fuel p q _ E x D. destruct (optimize_sound W fuel p q E x D) as [Dq B].
  repeat split; [exact Dq|exact B|exact (optimize_sound_ev W fuel p q E x D)].
Qed.
Print Assumptions C03_optimize_preserves_collection_predicates.

(* the same statement for every predicate class of the model (regex, has_key, comp, lazy references, ... as
   opaque operands): the optimizer's soundness does not depend on the term space *)
Theorem C03_optimize_sound_for_every_predicate :
  forall (W : world) (fuel : nat) (p q : pred),
    optimize W fuel p = Ok q [] ->
    forall x, defined W p x = true -> defined W q x = true /\ beval W q x = beval W p x.
Proof. exact optimize_sound. Qed.
Print Assumptions C03_optimize_sound_for_every_predicate.

(* non-vacuity: not-all -> any-not, all & all -> all(&), on the empty collection and on a non-empty one *)
Example C03_nonvacuous :
  let p := PAnd (PNot (PAll (PGe 2))) (PAnd (PAll (PGe 0)) (PAll (PLe 9))) in
  Fcoll p = true /\ exists q, optimize (W_ex []) 100 p = Ok q [] /\ peq q p = false
    /\ beval (W_ex []) q (VColl KList []) = beval (W_ex []) p (VColl KList [])
    /\ beval (W_ex []) q (VColl KList [VQ KInt 1 true; VQ KInt 5 true]) = true.
Proof. cbv zeta. split; [reflexivity|]. eexists. split; [vm_compute; reflexivity|]. vm_compute. auto. Qed.

Print Assumptions C03_nonvacuous.