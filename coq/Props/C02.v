(* C02 — optimize() preserves scalar atoms: comparisons, ranges, membership, types.
   `optimize` is Gen/Optimize.v, regenerated from predicate/optimizer/*.py on every run. *)
From Coq Require Import QArith Bool List String.
From PP Require Import Prelude.Base Prelude.Val Prelude.Pred Prelude.Sem Gen.Negate Gen.Implies Gen.Optimize
  Lemmas.Fragments Lemmas.OptSound.
From PP Require Import Refuted.KnownFindings.  (* the refutation witnesses of the listed known findings *)
Import ListNotations.
Open Scope Q_scope.

(* For every tree over &,|,^,~ and comparison / range / membership / none / truthy / type-test / function atoms,
   with constants anywhere in the ordered domain Q (every relative order, equal bounds, empty and singleton sets
   are instances of the universal quantifier), every world (isinstance table, function atoms) and every value x
   on which all atoms of the original are defined: when the optimizer returns q without passing through a rule
   listed in known_findings.json, q is defined on x and Python's evaluation of q(x) gives p(x)'s answer. *)
Theorem C02_optimize_preserves_scalar_predicates :
  forall (W : world) (fuel : nat) (p q : pred),
    Fscalar p = true -> optimize W fuel p = Ok q [] ->
    forall x, defined W p x = true ->
      defined W q x = true /\ beval W q x = beval W p x /\ ev W q x = ev W p x.
Proof.
  intros W fuel p q _ E x D. destruct (optimize_sound W fuel p q E x D) as [Dq B].
  repeat split; [exact Dq|exact B|exact (optimize_sound_ev W fuel p q E x D)].
Qed.
Print Assumptions C02_optimize_preserves_scalar_predicates.

(* non-vacuity: range merging, membership merging and a type test, optimised with an empty trace to another term,
   and the boundary value 3 lies in both (inclusive end kept) *)
Example C02_nonvacuous :
  let p := PAnd (PAnd (PGe 1) (PLe 3)) (POr (PIn [1; 2]) (PEq 3)) in
  Fscalar p = true /\ exists q, optimize (W_ex []) 100 p = Ok q [] /\ peq q p = false
    /\ beval (W_ex []) q (VQ KInt 3 true) = true /\ beval (W_ex []) p (VQ KInt 3 true) = true.
Proof. cbv zeta. split; [reflexivity|]. eexists. split; [vm_compute; reflexivity|]. vm_compute. auto. Qed.

Print Assumptions C02_nonvacuous.