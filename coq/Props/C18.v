(* C18 — to_json mirrors the predicate tree and never fails.
   `to_json_with fname cj` is the hand-written model (Lemmas/ToJson.v) of predicate/formatter/format_json.py:
   `fname f` = the name of function number f (what getattr(fn, "__name__", type(fn).__name__) returns),
   `cj c`    = the constant of ne_p as it sits in the dictionary (the code stores the constant itself);
   `to_json fname = to_json_with fname JNum` (numeric constants).  Both are ordinary arguments: every theorem
   below is quantified over every naming of the functions and every rendering of the constants, and over
   EVERY predicate term (all 43 constructors of Prelude/Pred.v, any size and depth; induction, no bound).
   The model is tied to the implementation by tools/props/c18.py (source fingerprint + executing the model
   next to the real to_json with a Coq-side equality test). *)
From Coq Require Import QArith Bool List String Arith.
From PP Require Import Prelude.Base Prelude.Pred Lemmas.ToJson.
Import ListNotations.
Close Scope Q_scope.
Open Scope string_scope.

(* (1) for every predicate the result is a dictionary with exactly ONE key, the name of the root's kind *)
Theorem C18_one_key_naming_the_root_kind :
  forall (fname : nat -> string) (cj : Q -> json) (p : pred),
    exists k v, to_json_with fname cj p = JObj [(k, v)] /\ k = kind_key p.
Proof. exact to_json_single_key. Qed.
Print Assumptions C18_one_key_naming_the_root_kind.

(* (2) structural mirror: & | ^ carry "left" then "right" = the operands' own renderings in operand order;
   ~, all_p, any_p carry "predicate"; a variable carries its name; ne_p its constant; a function atom its
   function's name; every kind without a rendering is the placeholder {"unknown": {}} *)
Theorem C18_structural_mirror : mirror_statement.
Proof. exact to_json_mirror. Qed.
Print Assumptions C18_structural_mirror.

Theorem C18_operand_order_is_kept :
  forall fname cj l r,
    to_json_with fname cj (PAnd l r) = to_json_with fname cj (PAnd r l) ->
    to_json_with fname cj l = to_json_with fname cj r.
Proof. exact to_json_operand_order. Qed.
Print Assumptions C18_operand_order_is_kept.

(* (3) the nesting of the JSON equals the nesting of the predicate: `shape` decodes a dictionary (it is defined
   on JSON values only and rejects anything not of the documented form) and gives back exactly the connective
   skeleton of the predicate: same connectives, same operand order, same leaf kinds; hence equal depth, and
   predicates with different connective structure never render alike *)
Theorem C18_json_nesting_equals_predicate_nesting :
  forall fname cj p, shape (to_json_with fname cj p) = Some (skeleton p).
Proof. exact shape_to_json. Qed.
Print Assumptions C18_json_nesting_equals_predicate_nesting.

Theorem C18_nesting_depth :
  forall fname cj p, jnest (to_json_with fname cj p) = pdepth p.
Proof. exact jnest_to_json. Qed.
Print Assumptions C18_nesting_depth.

Theorem C18_different_structure_different_json :
  forall fname cj p q, to_json_with fname cj p = to_json_with fname cj q -> skeleton p = skeleton q.
Proof. exact to_json_separates_structure. Qed.
Print Assumptions C18_different_structure_different_json.

(* (4) never raises: to_json is a total function, every constructor is covered, and the single key is one of
   the 15 documented ones; function atoms are rendered by name for every function *)
Theorem C18_total_with_a_known_key :
  forall fname cj p, exists k v, to_json_with fname cj p = JObj [(k, v)] /\ In k known_keys.
Proof. exact to_json_total_known_key. Qed.
Print Assumptions C18_total_with_a_known_key.

Theorem C18_function_atoms_rendered_by_name :
  forall fname cj f, to_json_with fname cj (PFn f) = JObj [("fn", JObj [("name", JStr (fname f))])].
Proof. exact to_json_fn_by_name. Qed.
Print Assumptions C18_function_atoms_rendered_by_name.

(* (5) json.dumps accepts the result whenever it accepts the constants *)
Theorem C18_serialisable_whenever_the_constants_are :
  forall fname cj, (forall c, serialisable (cj c) = true) ->
    forall p, serialisable (to_json_with fname cj p) = true.
Proof. exact to_json_serialisable_with. Qed.
Print Assumptions C18_serialisable_whenever_the_constants_are.

Theorem C18_serialisable_numeric_constants :
  forall fname p, serialisable (to_json fname p) = true.
Proof. exact to_json_serialisable. Qed.
Print Assumptions C18_serialisable_numeric_constants.

(* the equality test used by the correspondence run decides equality of JSON values (member order included) *)
Theorem C18_json_eqb_decides_equality : forall a b, json_eqb a b = true <-> a = b.
Proof. exact json_eqb_eq. Qed.
Print Assumptions C18_json_eqb_decides_equality.

(* non-vacuity *)
Example C18_nonvacuous :
  to_json (fun f => if Nat.eqb f 0 then "isfinite" else "<lambda>")
          (PXor (PAll (PNe (1#2))) (PNot (POr (PFn 0) (PComp 0 (PNot PTrue)))))
  = JObj [("xor", JObj [("left", JObj [("all", JObj [("predicate", JObj [("ne", JObj [("v", JNum (1#2))])])])]);
                        ("right", JObj [("not", JObj [("predicate",
                            JObj [("or", JObj [("left", JObj [("fn", JObj [("name", JStr "isfinite")])]);
                                               ("right", JObj [("unknown", JObj [])])])])])])])].
Proof. vm_compute. reflexivity. Qed.

Print Assumptions C18_nonvacuous.