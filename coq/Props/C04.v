(* C04 — negate(p) is the exact complement of p.  Statement only; proofs live in Lemmas/NegImp.v.
   `negate` is Gen/Negate.v, regenerated from predicate/negate.py on every run. *)
From Coq Require Import Bool.
From PP Require Import Prelude.Base Prelude.Val Prelude.Pred Prelude.Sem Gen.Negate Lemmas.NegImp.

(* for every world (variable assignment, isinstance table, user functions, regex engine, references),
   every predicate p of every class and every value x on which all atoms of p are defined:
   negate(p) is defined on x and is true exactly when p is false *)
Theorem C04_negate_is_exact_complement :
  forall (W : world) (p : pred) (x : val),
    defined W p x = true ->
    defined W (negate p) x = true /\ beval W (negate p) x = negb (beval W p x).
Proof. exact negate_complement. Qed.
Print Assumptions C04_negate_is_exact_complement.

(* the same in terms of Python's own evaluation order (short-circuit, exceptions): no exception, opposite answer *)
Theorem C04_negate_complement_python_evaluation :
  forall (W : world) (p : pred) (x : val),
    defined W p x = true -> ev W (negate p) x = option_map negb (ev W p x).
Proof. exact negate_complement_ev. Qed.
Print Assumptions C04_negate_complement_python_evaluation.

(* negate is an involution on meanings: negate(negate(p)) is defined wherever p is and agrees with p *)
Theorem C04_negate_twice_is_identity_on_meanings :
  forall (W : world) (p : pred) (x : val),
    defined W p x = true ->
    defined W (negate (negate p)) x = true /\ beval W (negate (negate p)) x = beval W p x.
Proof. exact negate_negate. Qed.
Print Assumptions C04_negate_twice_is_identity_on_meanings.

(* p and negate(p) partition the domain of p: exactly one of them accepts x *)
Theorem C04_negate_partitions_the_domain :
  forall (W : world) (p : pred) (x : val),
    defined W p x = true -> xorb (beval W p x) (beval W (negate p) x) = true.
Proof. exact negate_partition. Qed.
Print Assumptions C04_negate_partitions_the_domain.
