(* Base.v — hand-written prelude: rationals as the constant domain, finite sets of
   constants read modulo Qeq, and the reflection lemmas the leaf solvers use.
   Nothing here comes from /repo; it is the model of Python's total orders and of
   `set` (`&`, `|`, `-`, `^`, `in`, `len`, `<=`, `one`) used by the generated files. *)
From Coq Require Import QArith Lqa Bool List Arith Lia.
Import ListNotations.
Open Scope Q_scope.

Definition Qlt_bool (a b : Q) : bool := negb (Qle_bool b a).
Definition Qne_bool (a b : Q) : bool := negb (Qeq_bool a b).

Lemma Qle_bool_reflect a b : reflect (a <= b) (Qle_bool a b).
Proof. apply iff_reflect. symmetry. apply Qle_bool_iff. Qed.
Lemma Qeq_bool_reflect a b : reflect (a == b) (Qeq_bool a b).
Proof. apply iff_reflect. symmetry. apply Qeq_bool_iff. Qed.
Lemma Qlt_bool_reflect a b : reflect (a < b) (Qlt_bool a b).
Proof.
  unfold Qlt_bool. destruct (Qle_bool_reflect b a); constructor; lra.
Qed.

(* turn every boolean comparison in sight into a Prop fact and call lra *)
Ltac qreflect :=
  unfold Qne_bool, Qlt_bool in *;
  repeat match goal with
  | H : context [Qle_bool ?a ?b] |- _ => destruct (Qle_bool_reflect a b)
  | |- context [Qle_bool ?a ?b] => destruct (Qle_bool_reflect a b)
  | H : context [Qeq_bool ?a ?b] |- _ => destruct (Qeq_bool_reflect a b)
  | |- context [Qeq_bool ?a ?b] => destruct (Qeq_bool_reflect a b)
  end; cbn in *; try reflexivity; try discriminate; try tauto;
  repeat match goal with
  | n : ~ (?a == ?b) |- _ => destruct (Q_dec a b) as [[?|?]|?]; [ | | contradiction]; clear n
  end; try (exfalso; lra); try lra.

Lemma Qeq_bool_refl' a : Qeq_bool a a = true.
Proof. destruct (Qeq_bool_reflect a a) as [|n]; [reflexivity|]. exfalso; apply n; reflexivity. Qed.
Lemma Qeq_bool_sym' a b : Qeq_bool a b = Qeq_bool b a.
Proof. destruct (Qeq_bool_reflect a b), (Qeq_bool_reflect b a); try reflexivity; exfalso; [apply n|apply n]; lra. Qed.
Lemma Qeq_bool_trans' a b c : Qeq_bool a b = true -> Qeq_bool b c = Qeq_bool a c.
Proof. intros H. apply Qeq_bool_iff in H.
  destruct (Qeq_bool_reflect b c), (Qeq_bool_reflect a c); try reflexivity; exfalso; [apply n|apply n]; lra. Qed.

(* ---------- finite sets of constants: lists read modulo Qeq ---------- *)
Definition qset := list Q.
Definition mem (x : Q) (s : qset) : bool := existsb (Qeq_bool x) s.
Definition inter (s t : qset) : qset := filter (fun a => mem a t) s.
Definition diff (s t : qset) : qset := filter (fun a => negb (mem a t)) s.
Definition union (s t : qset) : qset := s ++ t.
Definition symdiff (s t : qset) : qset := diff s t ++ diff t s.
Definition subseteq (s t : qset) : bool := forallb (fun a => mem a t) s.
Definition set_eq (s t : qset) : bool := subseteq s t && subseteq t s.
Fixpoint dedup (s : qset) : qset :=
  match s with [] => [] | a :: r => if mem a r then dedup r else a :: dedup r end.
Definition card (s : qset) : nat := length (dedup s).
Definition nonempty (s : qset) : bool := match s with [] => false | _ => true end.
Definition the_one (s : qset) : Q := match dedup s with a :: _ => a | [] => 0 end.
Definition add1 (s : qset) (x : Q) : qset := s ++ [x].

Lemma mem_eq x y s : x == y -> mem x s = mem y s.
Proof. intros E. unfold mem. induction s as [|a s IH]; cbn; [reflexivity|]. rewrite IH. f_equal.
  destruct (Qeq_bool_reflect x a), (Qeq_bool_reflect y a); try reflexivity; exfalso; [apply n|apply n]; lra. Qed.
Lemma mem_eqb x y s : Qeq_bool x y = true -> mem x s = mem y s.
Proof. intros H. apply mem_eq. apply Qeq_bool_iff. exact H. Qed.
Lemma mem_cons x a s : mem x (a :: s) = Qeq_bool x a || mem x s.
Proof. reflexivity. Qed.
Lemma mem_app x s t : mem x (s ++ t) = mem x s || mem x t.
Proof. unfold mem. apply existsb_app. Qed.
Lemma mem_union x s t : mem x (union s t) = mem x s || mem x t.
Proof. apply mem_app. Qed.
Lemma mem_add1 x s y : mem x (add1 s y) = mem x s || Qeq_bool x y.
Proof. unfold add1. rewrite mem_app. cbn. now rewrite orb_false_r. Qed.
Lemma mem_filter x s (f : Q -> bool) :
  (forall a b, a == b -> f a = f b) -> mem x (filter f s) = mem x s && f x.
Proof.
  intros Hf. induction s as [|a s IH]; [reflexivity|].
  cbn [filter]. destruct (f a) eqn:Ea.
  - rewrite !mem_cons, IH. destruct (Qeq_bool_reflect x a) as [E|E]; cbn; [|reflexivity].
    rewrite (Hf x a E), Ea. reflexivity.
  - rewrite mem_cons, IH. destruct (Qeq_bool_reflect x a) as [E|E]; cbn; [|reflexivity].
    rewrite (Hf x a E), Ea. now rewrite andb_false_r.
Qed.
Lemma mem_inter x s t : mem x (inter s t) = mem x s && mem x t.
Proof. unfold inter. apply mem_filter. intros a b E. apply mem_eq; exact E. Qed.
Lemma mem_diff x s t : mem x (diff s t) = mem x s && negb (mem x t).
Proof. unfold diff. apply mem_filter. intros a b E. f_equal. apply mem_eq; exact E. Qed.
Lemma mem_symdiff x s t : mem x (symdiff s t) = xorb (mem x s) (mem x t).
Proof. unfold symdiff. rewrite mem_app, !mem_diff. destruct (mem x s), (mem x t); reflexivity. Qed.
Lemma mem_dedup x s : mem x (dedup s) = mem x s.
Proof.
  induction s as [|a s IH]; [reflexivity|]. cbn [dedup]. destruct (mem a s) eqn:Ea.
  - rewrite IH, mem_cons. destruct (Qeq_bool_reflect x a) as [E|E]; cbn; [|reflexivity].
    now rewrite (mem_eq x a s E).
  - now rewrite !mem_cons, IH.
Qed.
Lemma nonempty_false s : nonempty s = false -> s = [].
Proof. destruct s; [reflexivity|discriminate]. Qed.
Lemma nonempty_true_mem s : nonempty s = true -> exists a, mem a s = true.
Proof. destruct s as [|a s]; [discriminate|]. intros _. exists a. rewrite mem_cons, Qeq_bool_refl'. reflexivity. Qed.
Lemma mem_nil x : mem x [] = false. Proof. reflexivity. Qed.
Lemma dedup_nil s : dedup s = [] -> s = [].
Proof. induction s as [|a s IH]; [reflexivity|]. cbn. destruct (mem a s) eqn:E; [|discriminate].
  intros H. rewrite (IH H) in E. discriminate. Qed.
Lemma card_0 s : card s = 0%nat -> s = [].
Proof. unfold card. intros H. apply dedup_nil. destruct (dedup s); [reflexivity|discriminate]. Qed.
Lemma card_1 s x : card s = 1%nat -> mem x s = Qeq_bool x (the_one s).
Proof.
  unfold card, the_one. intros H. rewrite <- (mem_dedup x s).
  destruct (dedup s) as [|a [|b r]]; try discriminate. cbn. now rewrite orb_false_r.
Qed.
Lemma subseteq_spec s t : subseteq s t = true <-> (forall x, mem x s = true -> mem x t = true).
Proof.
  unfold subseteq. rewrite forallb_forall. split.
  - intros H x Hx. unfold mem in Hx. apply existsb_exists in Hx as (a & Ha & E).
    rewrite (mem_eqb x a t E). apply H; exact Ha.
  - intros H a Ha. apply H. unfold mem. apply existsb_exists. exists a. split; [exact Ha|apply Qeq_bool_refl'].
Qed.
Lemma subseteq_refl s : subseteq s s = true.
Proof. apply subseteq_spec. auto. Qed.
Lemma set_eq_spec s t : set_eq s t = true <-> (forall x, mem x s = mem x t).
Proof.
  unfold set_eq. rewrite andb_true_iff, !subseteq_spec. split.
  - intros [H1 H2] x. destruct (mem x s) eqn:Es.
    + symmetry; apply H1; exact Es.
    + destruct (mem x t) eqn:Et; [|reflexivity]. rewrite (H2 x Et) in Es. discriminate.
  - intros H. split; intros x Hx; [rewrite <- H|rewrite H]; exact Hx.
Qed.
Lemma set_eq_refl s : set_eq s s = true.
Proof. apply set_eq_spec. reflexivity. Qed.
Lemma set_eq_sym s t : set_eq s t = set_eq t s.
Proof. unfold set_eq. apply andb_comm. Qed.
Lemma subseteq_mem s t x : subseteq s t = true -> mem x s = true -> mem x t = true.
Proof. intros H. apply subseteq_spec. exact H. Qed.
Lemma set_eq_mem s t x : set_eq s t = true -> mem x s = mem x t.
Proof. intros H. apply set_eq_spec. exact H. Qed.
