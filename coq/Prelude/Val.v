(* Val.v — hand-written model of the Python values predicates are applied to.
   Validated against CPython by the C08 correspondence run (tools/corr), not proved. *)
From Coq Require Import QArith Bool List Arith.
From PP Require Import Prelude.Base.
Import ListNotations.

(* the concrete type of a value, as far as isinstance() can tell *)
Inductive kind :=
| KBool | KInt | KFloat | KComplex | KStr | KNone | KList | KTuple | KSet | KDict
| KDatetime | KUuid | KRange | KFunction | KPredicate | KObject.

Definition kind_eqb (a b : kind) : bool :=
  match a, b with
  | KBool, KBool | KInt, KInt | KFloat, KFloat | KComplex, KComplex | KStr, KStr | KNone, KNone
  | KList, KList | KTuple, KTuple | KSet, KSet | KDict, KDict | KDatetime, KDatetime | KUuid, KUuid
  | KRange, KRange | KFunction, KFunction | KPredicate, KPredicate | KObject, KObject => true
  | _, _ => false
  end.

Definition all_kinds : list kind :=
  [KBool; KInt; KFloat; KComplex; KStr; KNone; KList; KTuple; KSet; KDict;
   KDatetime; KUuid; KRange; KFunction; KPredicate; KObject].

Lemma all_kinds_complete k : In k all_kinds.
Proof. destruct k; cbn; tauto. Qed.

(* Values.
   VQ k q t    : a scalar of the sort the tree's constants are drawn from (one total order, embedded
                 in Q; for numbers k is KBool/KInt/KFloat and 1 == 1.0 == True as in Python).
                 t is bool(x): for numbers the harness passes q<>0, for str/datetime/... whatever
                 CPython says; no rule of the library relates truthiness to the order.
   VNone       : None.
   VOther k i t: any other scalar object (not comparable with the constants, equal to none of them).
   VColl k xs  : a finite re-iterable collection (list/tuple/set/dict keys/range, and a str that is not of the
                 constants' sort: iterable, its characters being opaque scalars) and its elements in
                 iteration order. *)
Inductive val :=
| VQ (k : kind) (q : Q) (truthy : bool)
| VNone
| VOther (k : kind) (id : nat) (truthy : bool)
| VColl (k : kind) (items : list val).

Definition type_of (x : val) : kind :=
  match x with VQ k _ _ => k | VNone => KNone | VOther k _ _ => k | VColl k _ => k end.

Definition truthy (x : val) : bool :=
  match x with
  | VQ _ _ t => t | VNone => false | VOther _ _ t => t
  | VColl _ items => match items with [] => false | _ => true end
  end.

(* x == c for a constant c *)
Definition veq (x : val) (c : Q) : bool := match x with VQ _ q _ => Qeq_bool q c | _ => false end.
(* x in s for a set of constants; requires x hashable *)
Definition vmem (x : val) (s : qset) : bool := match x with VQ _ q _ => mem q s | _ => false end.

(* x is acceptable as the left operand of `x in <set>`: lists and dicts are not (TypeError: unhashable);
   a tuple is iff its elements are; a set is (CPython looks it up as a temporary frozenset) *)
Fixpoint hashable (x : val) : bool :=
  match x with
  | VColl KTuple items => forallb hashable items
  | VColl KRange _ => true
  | VColl KSet _ => true
  | VColl KStr _ => true
  | VColl _ _ => false
  | _ => true
  end.

Definition is_scalarQ (x : val) : bool := match x with VQ _ _ _ => true | _ => false end.
Definition is_coll (x : val) : bool := match x with VColl _ _ => true | _ => false end.
Definition is_setv (x : val) : bool := match x with VColl KSet _ => true | _ => false end.
Definition is_dictv (x : val) : bool := match x with VColl KDict _ => true | _ => false end.
Definition items_of (x : val) : list val := match x with VColl _ items => items | _ => [] end.

(* the constant c seen as a value (used when the optimizer calls a function atom on a constant) *)
Definition cval (c : Q) : val := VQ KInt c (negb (Qeq_bool c 0)).

(* set-valued inputs against a set of constants *)
Definition vsubset (items : list val) (s : qset) : bool := forallb (fun i => vmem i s) items.
Definition vsuperset (items : list val) (s : qset) : bool := forallb (fun c => existsb (fun i => veq i c) items) s.
