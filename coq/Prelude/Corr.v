(* Corr.v — helpers for the correspondence runs: strict structural comparison of two predicate
   terms (operand order matters, constants modulo Qeq, sets modulo set_eq), so that the harness can ask
   "is the model's output the term the implementation produced?" inside vm_compute. *)
From Coq Require Import QArith Bool List Arith String.
From PP Require Import Prelude.Base Prelude.Val Prelude.Pred Prelude.Sem.
Import ListNotations.

Fixpoint same (a b : pred) {struct a} : bool :=
  match a with
  | PAnd l r => match as_And b with Some (l', r') => same l l' && same r r' | None => false end
  | POr l r => match as_Or b with Some (l', r') => same l l' && same r r' | None => false end
  | PXor l r => match as_Xor b with Some (l', r') => same l l' && same r r' | None => false end
  | PNot q => match as_Not b with Some q' => same q q' | None => false end
  | PAll q => match as_All b with Some q' => same q q' | None => false end
  | PAny q => match as_Any b with Some q' => same q q' | None => false end
  | PSetOf q => match as_SetOf b with Some q' => same q q' | None => false end
  | PComp f q => match as_Comp b with Some (g, q') => Nat.eqb f g && same q q' | None => false end
  | _ => peq a b
  end.

(* result codes printed by the case files *)
Definition code_of {A} (r : res A) (okc : A -> list site -> nat) : nat :=
  match r with Ok a tr => okc a tr | OutOfFuel => 2 | Crash => 3 end.

Definition opt_bool_code (o : option bool) : nat := match o with Some true => 1 | Some false => 0 | None => 2 end.

(* structural equality of values, for comparing recorded call arguments *)
Fixpoint val_eqb (a b : val) {struct a} : bool :=
  match a, b with
  | VQ k q t, VQ k' q' t' => kind_eqb k k' && Qeq_bool q q' && Bool.eqb t t'
  | VNone, VNone => true
  | VOther k i t, VOther k' i' t' => kind_eqb k k' && Nat.eqb i i' && Bool.eqb t t'
  | VColl k l, VColl k' l' =>
      kind_eqb k k' &&
      (fix go (l l' : list val) {struct l} : bool :=
         match l, l' with
         | [], [] => true
         | x :: r, y :: r' => val_eqb x y && go r r'
         | _, _ => false
         end) l l'
  | _, _ => false
  end.
