(* Sem.v — hand-written model of what calling a predicate means (`__call__` of every class) and of
   predicate equality (dataclass `__eq__`, commutative for And/Or/Xor).
   This file is the *modelled* part of the class definitions; it is tied to /repo by the
   correspondence runs of C06 (peq vs ==) and C08 (ev vs p(x)), which execute these very
   definitions next to the implementation.  The rule tables (optimizer, negate, implies) are not
   here: they are regenerated from source into Gen/. *)
From Coq Require Import QArith Bool List Arith String.
From PP Require Import Prelude.Base Prelude.Val Prelude.Pred.
Import ListNotations.

(* Everything opaque to the library: variable assignment, isinstance table, user functions,
   the regex engine, and what a lazy/this/root reference resolves to.  Theorems quantify over
   all worlds; executions instantiate it with finite tables recorded from CPython. *)
Record world := {
  env : string -> bool;
  isinst : kind -> nat -> bool;
  fn_sem : nat -> val -> option bool;      (* FnPredicate / PropertyPredicate / tee function; None = raises *)
  comp_sem : nat -> val -> option val;     (* CompPredicate.fn *)
  regex_sem : nat -> nat -> val -> option bool;
  lazy_sem : string -> val -> option bool;
  self_sem : nat -> val -> option bool;    (* this_p / root_p nodes *)
}.

Definition ob (o : option bool) : bool := match o with Some b => b | None => false end.
Definition isS {A} (o : option A) : bool := match o with Some _ => true | None => false end.

Definition isinstance (W : world) (x : val) (ks : list nat) : bool := existsb (isinst W (type_of x)) ks.
(* no value can be an instance of a class in a and of a class in b *)
Definition kdisjoint (W : world) (a b : list nat) : bool :=
  forallb (fun k => negb (existsb (isinst W k) a && existsb (isinst W k) b)) all_kinds.
Definition scalar_cmp (x : val) (f : Q -> bool) : bool := match x with VQ _ q _ => f q | _ => false end.
Definition Zlen (l : list val) : Q := inject_Z (Z.of_nat (List.length l)).

(* total Boolean value of p(x); meaningful where `defined` holds *)
Fixpoint beval (W : world) (p : pred) (x : val) {struct p} : bool :=
  match p with
  | PTrue => true
  | PFalse => false
  | PNamed n => env W n
  | PFn f => ob (fn_sem W f x)
  | PAnd l r => beval W l x && beval W r x
  | POr l r => beval W l x || beval W r x
  | PXor l r => xorb (beval W l x) (beval W r x)
  | PNot q => negb (beval W q x)
  | PEq v => veq x v
  | PNe v => negb (veq x v)
  | PGe v => scalar_cmp x (fun q => Qle_bool v q)
  | PGt v => scalar_cmp x (fun q => Qlt_bool v q)
  | PLe v => scalar_cmp x (fun q => Qle_bool q v)
  | PLt v => scalar_cmp x (fun q => Qlt_bool q v)
  | PGeLe lo hi => scalar_cmp x (fun q => Qle_bool lo q && Qle_bool q hi)
  | PGeLt lo hi => scalar_cmp x (fun q => Qle_bool lo q && Qlt_bool q hi)
  | PGtLe lo hi => scalar_cmp x (fun q => Qlt_bool lo q && Qle_bool q hi)
  | PGtLt lo hi => scalar_cmp x (fun q => Qlt_bool lo q && Qlt_bool q hi)
  | PIn s => vmem x s
  | PNotIn s => negb (vmem x s)
  | PIsInstance ks => isinstance W x ks
  | PIsNone => match x with VNone => true | _ => false end
  | PIsNotNone => match x with VNone => false | _ => true end
  | PIsFalsy => negb (truthy x)
  | PIsTruthy => truthy x
  | PIsEmpty => match items_of x with [] => true | _ => false end
  | PIsNotEmpty => match items_of x with [] => false | _ => true end
  | PAll q => forallb (beval W q) (items_of x)
  | PAny q => existsb (beval W q) (items_of x)
  | PSubset s => vsubset (items_of x) s
  | PRealSubset s => vsubset (items_of x) s && negb (vsuperset (items_of x) s)
  | PSuperset s => vsuperset (items_of x) s
  | PRealSuperset s => vsuperset (items_of x) s && negb (vsubset (items_of x) s)
  | PHasKey k => existsb (fun i => veq i k) (items_of x)
  | PHasLength n => Qeq_bool (Zlen (items_of x)) n
  | PRegex pat fl => ob (regex_sem W pat fl x)
  | PTee _ => true
  | PProperty g => ob (fn_sem W g x)
  | PComp f q => match comp_sem W f x with Some y => beval W q y | None => false end
  | PSetOf q => forallb (beval W q) (items_of x)
  | PLazy r => ob (lazy_sem W r x)
  | PThis i => ob (self_sem W i x)
  | PRoot i => ob (self_sem W i x)
  end.

(* every atom of p is defined on x (no TypeError/AttributeError anywhere in the tree) *)
Fixpoint defined (W : world) (p : pred) (x : val) {struct p} : bool :=
  match p with
  | PTrue | PFalse | PNamed _ => true
  | PFn f => isS (fn_sem W f x)
  | PAnd l r | POr l r | PXor l r => defined W l x && defined W r x
  | PNot q => defined W q x
  | PEq _ | PNe _ => true
  | PGe _ | PGt _ | PLe _ | PLt _ | PGeLe _ _ | PGeLt _ _ | PGtLe _ _ | PGtLt _ _ => is_scalarQ x
  | PIn _ | PNotIn _ => hashable x
  | PIsInstance _ | PIsNone | PIsNotNone | PIsFalsy | PIsTruthy => true
  | PIsEmpty | PIsNotEmpty => is_coll x
  | PAll q | PAny q | PSetOf q => is_coll x && forallb (defined W q) (items_of x)
  | PSubset _ | PRealSubset _ | PSuperset _ | PRealSuperset _ => is_setv x
  | PHasKey _ => is_dictv x
  | PHasLength _ => is_coll x
  | PRegex pat fl => isS (regex_sem W pat fl x)
  | PTee f => isS (fn_sem W f x)
  | PProperty g => isS (fn_sem W g x)
  | PComp f q => match comp_sem W f x with Some y => defined W q y | None => false end
  | PLazy r => isS (lazy_sem W r x)
  | PThis i | PRoot i => isS (self_sem W i x)
  end.

(* Python's own evaluation order: short-circuit and/or, lazy all()/any(); None = an exception *)
Fixpoint ev_all (f : val -> option bool) (items : list val) : option bool :=
  match items with
  | [] => Some true
  | i :: r => match f i with Some true => ev_all f r | Some false => Some false | None => None end
  end.
Fixpoint ev_any (f : val -> option bool) (items : list val) : option bool :=
  match items with
  | [] => Some false
  | i :: r => match f i with Some false => ev_any f r | Some true => Some true | None => None end
  end.
Definition on_scalar (x : val) (f : Q -> bool) : option bool := match x with VQ _ q _ => Some (f q) | _ => None end.
Definition on_coll (x : val) (f : list val -> option bool) : option bool := match x with VColl _ items => f items | _ => None end.
Definition on_set (x : val) (f : list val -> bool) : option bool := match x with VColl KSet items => Some (f items) | _ => None end.

Fixpoint ev (W : world) (p : pred) (x : val) {struct p} : option bool :=
  match p with
  | PTrue => Some true
  | PFalse => Some false
  | PNamed n => Some (env W n)
  | PFn f => fn_sem W f x
  | PAnd l r => match ev W l x with Some true => ev W r x | o => o end
  | POr l r => match ev W l x with Some false => ev W r x | o => o end
  | PXor l r => match ev W l x, ev W r x with Some a, Some b => Some (xorb a b) | _, _ => None end
  | PNot q => option_map negb (ev W q x)
  | PEq v => Some (veq x v)
  | PNe v => Some (negb (veq x v))
  | PGe v => on_scalar x (fun q => Qle_bool v q)
  | PGt v => on_scalar x (fun q => Qlt_bool v q)
  | PLe v => on_scalar x (fun q => Qle_bool q v)
  | PLt v => on_scalar x (fun q => Qlt_bool q v)
  | PGeLe lo hi => on_scalar x (fun q => Qle_bool lo q && Qle_bool q hi)
  | PGeLt lo hi => on_scalar x (fun q => Qle_bool lo q && Qlt_bool q hi)
  | PGtLe lo hi => on_scalar x (fun q => Qlt_bool lo q && Qle_bool q hi)
  | PGtLt lo hi => on_scalar x (fun q => Qlt_bool lo q && Qlt_bool q hi)
  | PIn s => if hashable x then Some (vmem x s) else None
  | PNotIn s => if hashable x then Some (negb (vmem x s)) else None
  | PIsInstance ks => Some (isinstance W x ks)
  | PIsNone => Some (match x with VNone => true | _ => false end)
  | PIsNotNone => Some (match x with VNone => false | _ => true end)
  | PIsFalsy => Some (negb (truthy x))
  | PIsTruthy => Some (truthy x)
  | PIsEmpty => on_coll x (fun items => Some (match items with [] => true | _ => false end))
  | PIsNotEmpty => on_coll x (fun items => Some (match items with [] => false | _ => true end))
  | PAll q => on_coll x (ev_all (ev W q))
  | PAny q => on_coll x (ev_any (ev W q))
  | PSubset s => on_set x (fun items => vsubset items s)
  | PRealSubset s => on_set x (fun items => vsubset items s && negb (vsuperset items s))
  | PSuperset s => on_set x (fun items => vsuperset items s)
  | PRealSuperset s => on_set x (fun items => vsuperset items s && negb (vsubset items s))
  | PHasKey k => match x with VColl KDict items => Some (existsb (fun i => veq i k) items) | _ => None end
  | PHasLength n => on_coll x (fun items => Some (Qeq_bool (Zlen items) n))
  | PRegex pat fl => regex_sem W pat fl x
  | PTee f => match fn_sem W f x with Some _ => Some true | None => None end
  | PProperty g => fn_sem W g x
  | PComp f q => match comp_sem W f x with Some y => ev W q y | None => None end
  | PSetOf q => on_coll x (ev_all (ev W q))
  | PLazy r => lazy_sem W r x
  | PThis i => self_sem W i x
  | PRoot i => self_sem W i x
  end.

(* ---------- equality of predicates: p == q ---------- *)
Fixpoint list_eqb {A} (eqb : A -> A -> bool) (a b : list A) : bool :=
  match a, b with
  | [], [] => true
  | x :: a', y :: b' => eqb x y && list_eqb eqb a' b'
  | _, _ => false
  end.

Fixpoint peq (a b : pred) {struct a} : bool :=
  match a with
  | PTrue => is_True b
  | PFalse => is_False b
  | PNamed n => match as_Named b with Some m => String.eqb n m | None => false end
  | PFn f => match as_Fn b with Some g => Nat.eqb f g | None => false end
  | PAnd l r => match as_And b with Some (l', r') => (peq l l' && peq r r') || (peq l r' && peq r l') | None => false end
  | POr l r => match as_Or b with Some (l', r') => (peq l l' && peq r r') || (peq l r' && peq r l') | None => false end
  | PXor l r => match as_Xor b with Some (l', r') => (peq l l' && peq r r') || (peq l r' && peq r l') | None => false end
  | PNot q => match as_Not b with Some q' => peq q q' | None => false end
  | PEq v => match as_Eq b with Some v' => Qeq_bool v v' | None => false end
  | PNe v => match as_Ne b with Some v' => Qeq_bool v v' | None => false end
  | PGe v => match as_Ge b with Some v' => Qeq_bool v v' | None => false end
  | PGt v => match as_Gt b with Some v' => Qeq_bool v v' | None => false end
  | PLe v => match as_Le b with Some v' => Qeq_bool v v' | None => false end
  | PLt v => match as_Lt b with Some v' => Qeq_bool v v' | None => false end
  | PGeLe lo hi => match as_GeLe b with Some (lo', hi') => Qeq_bool lo lo' && Qeq_bool hi hi' | None => false end
  | PGeLt lo hi => match as_GeLt b with Some (lo', hi') => Qeq_bool lo lo' && Qeq_bool hi hi' | None => false end
  | PGtLe lo hi => match as_GtLe b with Some (lo', hi') => Qeq_bool lo lo' && Qeq_bool hi hi' | None => false end
  | PGtLt lo hi => match as_GtLt b with Some (lo', hi') => Qeq_bool lo lo' && Qeq_bool hi hi' | None => false end
  | PIn s => match as_In b with Some s' => set_eq s s' | None => false end
  | PNotIn s => match as_NotIn b with Some s' => set_eq s s' | None => false end
  | PIsInstance ks => match as_IsInstance b with Some ks' => list_eqb Nat.eqb ks ks' | None => false end
  | PIsNone => is_IsNone b
  | PIsNotNone => is_IsNotNone b
  | PIsFalsy => is_IsFalsy b
  | PIsTruthy => is_IsTruthy b
  | PIsEmpty => is_IsEmpty b
  | PIsNotEmpty => is_IsNotEmpty b
  | PAll q => match as_All b with Some q' => peq q q' | None => false end
  | PAny q => match as_Any b with Some q' => peq q q' | None => false end
  | PSubset s => match as_Subset b with Some s' => set_eq s s' | None => false end
  | PRealSubset s => match as_RealSubset b with Some s' => set_eq s s' | None => false end
  | PSuperset s => match as_Superset b with Some s' => set_eq s s' | None => false end
  | PRealSuperset s => match as_RealSuperset b with Some s' => set_eq s s' | None => false end
  | PHasKey k => match as_HasKey b with Some k' => Qeq_bool k k' | None => false end
  | PHasLength n => match as_HasLength b with Some n' => Qeq_bool n n' | None => false end
  | PRegex pat fl => match as_Regex b with Some (pat', fl') => Nat.eqb pat pat' && Nat.eqb fl fl' | None => false end
  | PTee f => match as_Tee b with Some g => Nat.eqb f g | None => false end
  | PProperty f => match as_Property b with Some g => Nat.eqb f g | None => false end
  | PComp f q => match as_Comp b with Some (g, q') => Nat.eqb f g && peq q q' | None => false end
  | PSetOf q => match as_SetOf b with Some q' => peq q q' | None => false end
  | PLazy r => match as_Lazy b with Some r' => String.eqb r r' | None => false end
  | PThis i => match as_This b with Some j => Nat.eqb i j | None => false end
  | PRoot i => match as_Root b with Some j => Nat.eqb i j | None => false end
  end.

(* ---------- the result monad of the translated optimizer ---------- *)
Definition site := nat.
Inductive res (A : Type) : Type :=
| Ok (a : A) (tr : list site)     (* value, and the known-finding rule sites that fired on the way *)
| OutOfFuel                       (* the model's recursion budget ran out (excluded by the termination theorem) *)
| Crash.                          (* Python would raise here *)
Arguments Ok {A} a tr.
Arguments OutOfFuel {A}.
Arguments Crash {A}.

Definition ret {A} (a : A) : res A := Ok a [].
Definition bind {A B} (m : res A) (f : A -> res B) : res B :=
  match m with
  | Ok a t1 => match f a with Ok b t2 => Ok b (t1 ++ t2) | OutOfFuel => OutOfFuel | Crash => Crash end
  | OutOfFuel => OutOfFuel
  | Crash => Crash
  end.
Definition taint {A} (s : site) (m : res A) : res A :=
  match m with Ok a t => Ok a (s :: t) | o => o end.
(* statement sequencing: a block yields Some r when it executed `return r`, None when it fell through *)
Definition seq {A} (s1 s2 : res (option A)) : res (option A) :=
  bind s1 (fun r => match r with Some v => ret (Some v) | None => s2 end).
(* end of a function body: falling off the end returns None in Python, which is not a predicate *)
Definition finish {A} (m : res (option A)) : res A :=
  bind m (fun r => match r with Some v => ret v | None => Crash end).
Notation "x <- m ;; f" := (bind m (fun x => f)) (at level 61, m at next level, right associativity).
