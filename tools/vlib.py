"""Shared machinery of ./check: regeneration of the model, Coq builds under a lock and a timeout,
evaluation of case files with vm_compute, evidence and replay files."""
from __future__ import annotations

import fcntl
import hashlib
import json
import os
import re
import subprocess
import sys
import time

VERIF = os.path.abspath(os.path.join(os.path.dirname(__file__), ".."))
COQ = os.path.join(VERIF, "coq")
REPO = os.environ.get("VERIF_REPO", "/repo")
PY = "/venv/bin/python"
ENV = dict(os.environ, PYTHONPATH=REPO, PYTHONHASHSEED="0", PY_PREDICATE_VERIF="1", PYTHONDONTWRITEBYTECODE="1")

ALLOWED_AXIOMS: set[str] = set()   # no axiom is expected for C01-C08, C12-C20 (DESIGN.md section 5)


class Broken(Exception):
    """The tie or a proof no longer checks: (kind, what, detail)"""

    def __init__(self, kind, what, detail=""):
        super().__init__(f"{kind}: {what}")
        self.kind, self.what, self.detail = kind, what, detail


def sh(cmd, timeout=600, cwd=None, env=None):
    try:
        r = subprocess.run(cmd, shell=isinstance(cmd, str), cwd=cwd, env=env or ENV, timeout=timeout,
                           stdout=subprocess.PIPE, stderr=subprocess.STDOUT, text=True)
        return r.returncode, r.stdout
    except subprocess.TimeoutExpired as e:
        out = e.stdout.decode() if isinstance(e.stdout, bytes) else (e.stdout or "")
        return 124, out + f"\n[timeout after {timeout}s]"


class Lock:
    def __enter__(self):
        self.fh = open(os.path.join(COQ, ".lock"), "w")
        fcntl.flock(self.fh, fcntl.LOCK_EX)
        return self

    def __exit__(self, *a):
        fcntl.flock(self.fh, fcntl.LOCK_UN)
        self.fh.close()


def all_v_files():
    out = []
    for d in ("Prelude", "Gen", "Lemmas", "Props", "Refuted"):
        dd = os.path.join(COQ, d)
        if os.path.isdir(dd):
            for f in sorted(os.listdir(dd)):
                if f.endswith(".v"):
                    out.append(f"{d}/{f}")
    return out


def regen():
    """Regenerate coq/Gen from /repo's working tree. Raises Broken on translator failure."""
    os.makedirs(os.path.join(COQ, "Gen"), exist_ok=True)
    rc, out = sh([PY, os.path.join(VERIF, "tools/py2coq/translate.py"), os.path.join(COQ, "Gen")], timeout=120)
    if rc != 0:
        raise Broken("translator", "py2coq refused the current source", out.strip()[-2000:])
    rc2, out2 = sh([PY, os.path.join(VERIF, "tools/py2coq/gen_extra.py"), os.path.join(COQ, "Gen")], timeout=120)
    if rc2 != 0:
        raise Broken("translator", "py2coq (extra models) refused the current source", out2.strip()[-2000:])
    with open(os.path.join(COQ, "Gen", "translate_info.json")) as fh:
        info = json.load(fh)
    # refresh _CoqProject / Makefile
    files = all_v_files()
    proj = "-Q . PP\n" + "\n".join(files) + "\n"
    pp = os.path.join(COQ, "_CoqProject")
    old = open(pp).read() if os.path.exists(pp) else None
    if old != proj or not os.path.exists(os.path.join(COQ, "Makefile")):
        open(pp, "w").write(proj)
        rc, out = sh("coq_makefile -f _CoqProject -o Makefile", cwd=COQ, timeout=60)
        if rc != 0:
            raise Broken("build", "coq_makefile failed", out[-2000:])
    return info


def build(targets: list[str], timeout=1500, jobs=16):
    """make the given .vo targets (and their dependencies). Raises Broken with the coqc error."""
    t0 = time.time()
    rc, out = sh(f"make -j{jobs} {' '.join(targets)}", cwd=COQ, timeout=timeout)
    if rc != 0:
        m = re.findall(r'File "\./([^"]+)", line (\d+)[^\n]*\n(?:.*\n){0,12}', out)
        first = re.search(r'File "\./([^"]+)", line (\d+), characters[^\n]*\nError:[\s\S]{0,1500}', out)
        what = f"{first.group(1)} line {first.group(2)}" if first else "make failed"
        raise Broken("proof", what, (first.group(0) if first else out[-3000:]))
    return time.time() - t0, out


def closure(vfile: str) -> list[str]:
    """transitive PP-imports of a .v file (paths relative to coq/)"""
    seen, todo = [], [vfile]
    while todo:
        f = todo.pop()
        if f in seen or not os.path.exists(os.path.join(COQ, f)):
            continue
        seen.append(f)
        src = open(os.path.join(COQ, f), encoding="utf-8").read()
        for m in re.finditer(r"From PP Require (?:Import|Export)\s+([\w.\s]+?)\.\s*\n", src):
            for mod in m.group(1).split():
                todo.append(mod.replace(".", "/") + ".v")
    return seen


STMT_RE = re.compile(r"^\s*(Theorem|Lemma|Corollary|Example|Fact|Proposition|Goal)\b", re.M)
FORBIDDEN_RE = re.compile(r"\b(Admitted|admit|Axiom|Axioms|Parameter|Parameters|Conjecture|Hypothesis|Variable|"
                          r"Unset\s+Guard|bypass_check|Admit\s+Obligations|native_compute)\b")


def audit_sources(files: list[str]):
    """count statements; refuse forbidden vernacular outside comments"""
    n = 0
    for f in files:
        src = open(os.path.join(COQ, f), encoding="utf-8").read()
        src_nc = strip_comments(src)
        n += len(STMT_RE.findall(src_nc))
        bad = FORBIDDEN_RE.search(src_nc)
        if bad:
            raise Broken("audit", f"{f} contains forbidden vernacular `{bad.group(0)}`")
    return n


def strip_comments(src: str) -> str:
    out, depth, i = [], 0, 0
    while i < len(src):
        if src.startswith("(*", i):
            depth += 1
            i += 2
        elif src.startswith("*)", i) and depth:
            depth -= 1
            i += 2
        else:
            if depth == 0:
                out.append(src[i])
            i += 1
    return "".join(out)


def check_props_file(prop_v: str):
    """compile Props/Cxx.v on its own (dependencies are built) and parse Print Assumptions output"""
    rc, out = sh(f"coqc -Q . PP {prop_v}", cwd=COQ, timeout=900)
    if rc != 0:
        raise Broken("proof", f"{prop_v} does not check", out[-3000:])
    closed = len(re.findall(r"Closed under the global context", out))
    axioms = []
    for blk in re.findall(r"Axioms:\n((?:.+\n?)+?)(?=\n\S|\Z)", out):
        for line in blk.splitlines():
            m = re.match(r"^(\S+)\s*:", line)
            if m:
                axioms.append(m.group(1))
    bad = [a for a in axioms if a not in ALLOWED_AXIOMS]
    if bad:
        raise Broken("audit", f"{prop_v} depends on axioms not in the trusted base: {bad}", out[-3000:])
    # every theorem of the property file is followed by its own `Print Assumptions`, and each one was answered
    src = strip_comments(open(os.path.join(COQ, prop_v), encoding="utf-8").read())
    names = re.findall(r"^\s*(?:Theorem|Lemma|Example|Corollary|Fact|Proposition)\s+(\w+)", src, flags=re.M)
    missing = [n for n in names if not re.search(rf"^\s*Print Assumptions {n}\.", src, flags=re.M)]
    if missing:
        raise Broken("audit", f"{prop_v}: no `Print Assumptions` under {missing}", "")
    answered = closed + len(re.findall(r"^Axioms:", out, flags=re.M))
    if answered != len(names):
        raise Broken("audit", f"{prop_v}: {len(names)} theorems but {answered} Print Assumptions answers", out[-2000:])
    return {"closed_theorems": closed, "theorem_names": names, "axioms": axioms, "output": out[-4000:]}


def coq_eval(name: str, text: str, timeout=600) -> str:
    """compile a throw-away case file against the built model and return coqc's output"""
    d = os.path.join(COQ, "cases")
    os.makedirs(d, exist_ok=True)
    base = f"{name}_{os.getpid()}"
    path = os.path.join(d, base + ".v")
    open(path, "w", encoding="utf-8").write(text)
    try:
        rc, out = sh(f"bash -c 'ulimit -s unlimited 2>/dev/null; coqc -Q . PP cases/{base}.v'", cwd=COQ, timeout=timeout)
    finally:
        for ext in (".v", ".vo", ".vok", ".vos", ".glob"):
            try:
                os.remove(os.path.join(d, base + ext))
            except OSError:
                pass
        try:
            os.remove(os.path.join(d, "." + base + ".aux"))
        except OSError:
            pass
    if rc != 0:
        raise Broken("correspondence", f"case file {name} does not evaluate", out[-3000:])
    return out


def parse_nat_list(out: str) -> list[int]:
    m = re.search(r"=\s*\[([\s\S]*?)\]\s*:\s*list nat", out)
    if not m:
        if re.search(r"=\s*\[\s*\]", out):
            return []
        raise Broken("correspondence", "could not parse vm_compute output", out[-1000:])
    body = m.group(1).strip()
    if not body:
        return []
    return [int(x.replace("%nat", "")) for x in re.split(r"[;\s]+", body) if x]


def replay_path(pid: str, payload: dict) -> str:
    d = os.path.join(VERIF, "evidence", "replays")
    os.makedirs(d, exist_ok=True)
    h = hashlib.sha256(json.dumps(payload, sort_keys=True, default=str).encode()).hexdigest()[:12]
    path = os.path.join(d, f"{pid}-{h}.json")
    json.dump(payload, open(path, "w"), indent=1, default=str)
    return path


def load_known():
    p = os.path.join(VERIF, "known_findings.json")
    if not os.path.exists(p):
        return {"findings": [], "fixed": []}
    return json.load(open(p))


def write_evidence(pid: str, tier: str, seed: int, coverage: dict, wall: float, violations: int, assumptions: list[str],
                   level="proof"):
    ev = {"property_id": pid, "tier": tier, "seed": seed, "level": level, "coverage": coverage,
          "assumptions": assumptions, "wall_s": round(wall, 2), "violations": violations}
    os.makedirs(os.path.join(VERIF, "evidence"), exist_ok=True)
    json.dump(ev, open(os.path.join(VERIF, "evidence", f"{pid}.json"), "w"), indent=1, default=str)
    return ev
