#!/usr/bin/env python3
"""Assemble /verif/DESIGN.md from notes/design_parts/*.md, tools/props/meta.json (section 3) and seeded/RESULTS.json (section 6 table)."""
import io
import json
import os
import subprocess
import sys

V = os.path.abspath(os.path.join(os.path.dirname(__file__), ".."))
P = os.path.join(V, "notes", "design_parts")


def part(n):
    return open(os.path.join(P, n), encoding="utf-8").read()


MODEL = {
 "C01": "GENERATED `Gen/Optimize.v` (+ `Gen/Negate.v`, `Gen/Implies.v` which the rules call) over `Prelude/Sem.v`; proofs `Lemmas/Opt*.v`, `OptProp.v`",
 "C02": "as C01; leaves closed by `lra` over Q and the set lemmas of `Prelude/Base.v`",
 "C03": "as C01; quantifier lemmas in `Lemmas/OptAll.v` (induction on the item list)",
 "C04": "GENERATED `Gen/Negate.v`; proofs `Lemmas/NegImp.v`",
 "C05": "GENERATED `Gen/Implies.v`; proofs `Lemmas/NegImp.v`",
 "C06": "HAND-WRITTEN `peq` in `Prelude/Sem.v` (+ generated optimizer for `can_optimize`); proofs `Lemmas/PeqFacts.v`, `PeqSep.v`",
 "C07": "HAND-WRITTEN instrumented evaluator `Lemmas/Trace.v` (call traces, short-circuit, all()/any())",
 "C08": "HAND-WRITTEN `Prelude/Sem.v` (`beval`/`defined`/`ev`) and `Lemmas/Std.v` (factories of standard_predicates.py); specs `Lemmas/AtomsSpec.v`",
 "C09": "HAND-WRITTEN generator model `Lemmas/GenDSL.v`, `GenModel.v`; proofs `GenSafe.v`; refutations `Refuted/GenFindings.v`",
 "C10": "as C09 (`generate_false` tables of `GenModel.v`)",
 "C11": "as C09; proofs `GenProd.v` (bounds), `GenYield.v` + `GenSat.v` (first value arrives)",
 "C12": "GENERATED `Gen/Optimize.v`; proofs `Lemmas/Term.v`, `TermMain.v`",
 "C13": "GENERATED `Gen/Optimize.v`; proofs `Lemmas/Laws*.v` (symbolic execution per atom constructor)",
 "C14": "HAND-WRITTEN grammar/transformer model `Lemmas/ParserLang.v`; proofs `ParserGroups.v`, `ParserValid.v`, `ParserC14.v`",
 "C15": "HAND-WRITTEN `Lemmas/TTModel.v` (store of `.v`, generator states); proofs `TTProofs.v`, `TTSem.v`",
 "C16": "HAND-WRITTEN `Lemmas/Scope.v` (frames, finders, caches), `ScopeEval.v` (evaluator with library frames)",
 "C17": "HAND-WRITTEN `Lemmas/DotGraph.v`, `DotTree.v`; `DotOpt.v` instantiates the second cluster with the GENERATED optimizer",
 "C18": "HAND-WRITTEN `Lemmas/ToJson.v`",
 "C19": "HAND-WRITTEN `Lemmas/Construct.v` over `Prelude/Sem.v`",
 "C20": "composition `Lemmas/Cli.v`: parser result -> GENERATED optimizer -> `TTModel` -> `ToJson` -> HAND-WRITTEN main.py formatting; `OptEnv.v` (optimizer ignores `env`)",
}


def sec3():
    m = json.load(open(os.path.join(V, "tools", "props", "meta.json")))
    props = {json.loads(l)["id"]: json.loads(l) for l in open(os.path.join(V, "properties.jsonl"))}
    out = ["## 3. Per-property: what is proved, about which model, tied how\n",
           "(Generated from `tools/props/meta.json`, which the checks also copy into the evidence; plugin docstrings in `tools/props/cXX.py` give the exact input spaces.)\n"]
    for k in sorted(m):
        v = m[k]
        out.append(f"### {k} — {props[k]['title']}\n")
        out.append(f"* **Model:** {MODEL[k]}.")
        out.append(f"* **Theorems** (`{v['props_file']}`, {len(v['theorems'])}): " + ", ".join(f"`{t}`" for t in v["theorems"]) + ".")
        out.append(f"* **What they say:** {v['level_text']}")
        out.append("* **Tie / trusted for this property:**")
        out += [f"  - {t}" for t in v["trusted_base"]]
        if v.get("assumptions"):
            out.append("* **Assumptions / partial:**")
            out += [f"  - {t}" for t in v["assumptions"]]
        out.append("")
    return "\n".join(out) + "\n---------------------------------------------------------------------------------------------\n\n", sum(len(v["theorems"]) for v in m.values())


def table():
    if not os.path.exists(os.path.join(V, "seeded", "RESULTS.json")):
        return "(no campaign results yet)\n"
    return subprocess.run([sys.executable, os.path.join(V, "tools", "seedreport.py")], capture_output=True, text=True, check=True).stdout


s3, nthm = sec3()
nlem = len([f for f in os.listdir(os.path.join(V, "coq", "Lemmas")) if f.endswith(".v")])
head = part("design_head.md").replace("{NTHM}", str(nthm)).replace("{NLEM}", str(nlem))
sec45 = part("design_sec45.md").replace("{NTHM}", str(nthm))
doc = head + part("design_sec1_keep.md") + part("design_sec13.md") + part("design_sec2.md") + s3 + sec45 + part("design_sec67_head.md") + table() + part("design_sec7.md")
open(os.path.join(V, "DESIGN.md"), "w", encoding="utf-8").write(doc)
print("DESIGN.md", len(doc), "bytes;", nthm, "theorems;", nlem, "lemma files")
