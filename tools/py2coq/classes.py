"""The predicate class table: the *model side* view of /repo's predicate classes.

For each class: the Coq constructor and the list of (field name, model type) in
dataclass field order (= __match_args__ order = positional-constructor order).
`check_against_repo` compares this table with the class definitions found in the
repo's working tree and raises TranslationError when they differ, so a change of
fields (added, removed, reordered, a field dropped from equality) breaks the tie
instead of silently producing a model of some other code.

Model types:  pred | Q | set | klass | fn | str | bool | int
"""
from __future__ import annotations

import ast
import os

REPO = os.environ.get("VERIF_REPO", "/repo")


class TranslationError(Exception):
    pass


# class name -> (coq constructor, [(field, type)], source file)
CLASSES: dict[str, tuple[str, list[tuple[str, str]], str]] = {
    "AlwaysTruePredicate": ("PTrue", [], "predicate/predicate.py"),
    "AlwaysFalsePredicate": ("PFalse", [], "predicate/predicate.py"),
    "NamedPredicate": ("PNamed", [("name", "str")], "predicate/named_predicate.py"),  # field v: see DESIGN 1.2
    "FnPredicate": ("PFn", [("predicate_fn", "fn")], "predicate/predicate.py"),
    "AndPredicate": ("PAnd", [("left", "pred"), ("right", "pred")], "predicate/predicate.py"),
    "OrPredicate": ("POr", [("left", "pred"), ("right", "pred")], "predicate/predicate.py"),
    "XorPredicate": ("PXor", [("left", "pred"), ("right", "pred")], "predicate/predicate.py"),
    "NotPredicate": ("PNot", [("predicate", "pred")], "predicate/predicate.py"),
    "EqPredicate": ("PEq", [("v", "Q")], "predicate/predicate.py"),
    "NePredicate": ("PNe", [("v", "Q")], "predicate/predicate.py"),
    "GePredicate": ("PGe", [("v", "Q")], "predicate/predicate.py"),
    "GtPredicate": ("PGt", [("v", "Q")], "predicate/predicate.py"),
    "LePredicate": ("PLe", [("v", "Q")], "predicate/predicate.py"),
    "LtPredicate": ("PLt", [("v", "Q")], "predicate/predicate.py"),
    "GeLePredicate": ("PGeLe", [("lower", "Q"), ("upper", "Q")], "predicate/range_predicate.py"),
    "GeLtPredicate": ("PGeLt", [("lower", "Q"), ("upper", "Q")], "predicate/range_predicate.py"),
    "GtLePredicate": ("PGtLe", [("lower", "Q"), ("upper", "Q")], "predicate/range_predicate.py"),
    "GtLtPredicate": ("PGtLt", [("lower", "Q"), ("upper", "Q")], "predicate/range_predicate.py"),
    "InPredicate": ("PIn", [("v", "set")], "predicate/set_predicates.py"),
    "NotInPredicate": ("PNotIn", [("v", "set")], "predicate/set_predicates.py"),
    "IsInstancePredicate": ("PIsInstance", [("klass", "klass")], "predicate/is_instance_predicate.py"),
    "IsNonePredicate": ("PIsNone", [], "predicate/predicate.py"),
    "IsNotNonePredicate": ("PIsNotNone", [], "predicate/predicate.py"),
    "IsFalsyPredicate": ("PIsFalsy", [], "predicate/predicate.py"),
    "IsTruthyPredicate": ("PIsTruthy", [], "predicate/predicate.py"),
    "IsEmptyPredicate": ("PIsEmpty", [], "predicate/predicate.py"),
    "IsNotEmptyPredicate": ("PIsNotEmpty", [], "predicate/predicate.py"),
    "AllPredicate": ("PAll", [("predicate", "pred")], "predicate/all_predicate.py"),
    "AnyPredicate": ("PAny", [("predicate", "pred")], "predicate/any_predicate.py"),
    "IsSubsetPredicate": ("PSubset", [("v", "set")], "predicate/set_predicates.py"),
    "IsRealSubsetPredicate": ("PRealSubset", [("v", "set")], "predicate/set_predicates.py"),
    "IsSupersetPredicate": ("PSuperset", [("v", "set")], "predicate/set_predicates.py"),
    "IsRealSupersetPredicate": ("PRealSuperset", [("v", "set")], "predicate/set_predicates.py"),
    "HasKeyPredicate": ("PHasKey", [("key", "Q")], "predicate/has_key_predicate.py"),
    "HasLengthPredicate": ("PHasLength", [("length", "Q")], "predicate/has_length_predicate.py"),
    "RegexPredicate": ("PRegex", [("pattern", "int"), ("flags", "int")], "predicate/regex_predicate.py"),
    "TeePredicate": ("PTee", [("fn", "fn")], "predicate/tee_predicate.py"),
    "PropertyPredicate": ("PProperty", [("getter", "fn")], "predicate/property_predicate.py"),
    "CompPredicate": ("PComp", [("fn", "fn"), ("predicate", "pred")], "predicate/comp_predicate.py"),
    "SetOfPredicate": ("PSetOf", [("predicate", "pred")], "predicate/set_of_predicate.py"),
    "LazyPredicate": ("PLazy", [("ref", "str")], "predicate/lazy_predicate.py"),
    "ThisPredicate": ("PThis", [("ident", "int")], "predicate/this_predicate.py"),
    "RootPredicate": ("PRoot", [("ident", "int")], "predicate/root_predicate.py"),
}

# Fields present in the model but deliberately different from the dataclass fields, with the reason.
# (class, model fields) -> what the repo must declare for the model to be a faithful reading.
EXPECTED_REPO_FIELDS_OVERRIDE: dict[str, list[str]] = {
    # NamedPredicate.v is the variable's current value; the analysis models read it from an environment.
    "NamedPredicate": ["name", "v"],
    # identity of the node: the repo compares these by identity (after fix D9) and has no dataclass fields
    "ThisPredicate": [],
    "RootPredicate": [],
}

# module-level singleton constants of the repo -> class
CONSTANTS: dict[str, str] = {
    "always_true_p": "AlwaysTruePredicate",
    "always_false_p": "AlwaysFalsePredicate",
    "is_empty_p": "IsEmptyPredicate",
    "is_not_empty_p": "IsNotEmptyPredicate",
    "is_none_p": "IsNonePredicate",
    "is_not_none_p": "IsNotNonePredicate",
    "is_falsy_p": "IsFalsyPredicate",
    "is_truthy_p": "IsTruthyPredicate",
}

COQ_TYPE = {"pred": "pred", "Q": "Q", "set": "qset", "klass": "list nat", "fn": "nat", "str": "string",
            "bool": "bool", "int": "nat"}


def repo_dataclass_fields(path: str, cls: str) -> list[str] | None:
    """Annotated class-level fields of `cls` in `path` (dataclass field order), or None if the class is absent."""
    with open(os.path.join(REPO, path), encoding="utf-8") as fh:
        tree = ast.parse(fh.read(), path)
    for node in tree.body:
        if isinstance(node, ast.ClassDef) and node.name == cls:
            is_dc = any((isinstance(d, ast.Name) and d.id == "dataclass")
                        or (isinstance(d, ast.Call) and getattr(d.func, "id", "") == "dataclass")
                        for d in node.decorator_list)
            if not is_dc:
                raise TranslationError(f"{path}: class {cls} is no longer a @dataclass")
            for d in node.decorator_list:
                if isinstance(d, ast.Call) and d.keywords:
                    raise TranslationError(f"{path}: class {cls}: dataclass options {ast.unparse(d)} not modelled")
            out = []
            for st in node.body:
                if isinstance(st, ast.AnnAssign) and isinstance(st.target, ast.Name):
                    if isinstance(st.value, ast.Call) and getattr(st.value.func, "id", "") == "field":
                        raise TranslationError(f"{path}: {cls}.{st.target.id}: dataclasses.field(...) not modelled")
                    out.append(st.target.id)
            return out
    return None


def custom_eq_source(path: str, cls: str) -> str | None:
    with open(os.path.join(REPO, path), encoding="utf-8") as fh:
        tree = ast.parse(fh.read(), path)
    for node in tree.body:
        if isinstance(node, ast.ClassDef) and node.name == cls:
            for st in node.body:
                if isinstance(st, ast.FunctionDef) and st.name == "__eq__":
                    return ast.unparse(st)
    return None


def check_against_repo() -> dict[str, list[str]]:
    """Fail closed when the repo's class definitions no longer have the shape the model assumes."""
    seen = {}
    for cls, (_ctor, fields, path) in CLASSES.items():
        got = repo_dataclass_fields(path, cls)
        if got is None:
            raise TranslationError(f"{path}: class {cls} not found")
        want = EXPECTED_REPO_FIELDS_OVERRIDE.get(cls, [f for f, _ in fields])
        if got != want:
            raise TranslationError(f"{path}: class {cls} has dataclass fields {got}, the model assumes {want}")
        seen[cls] = got
    return seen
