#!/venv/bin/python
"""py2coq — fail-closed translator from the rule tables of /repo (Python `match` tables) to Gallina.

Translated on every run from the working tree:
    predicate/negate.py                      -> Gen/Negate.v     (negate : pred -> pred)
    predicate/implies.py                     -> Gen/Implies.v    (implies : pred -> pred -> bool)
    predicate/optimizer/*.py                 -> Gen/Optimize.v   (mutual Fixpoint on fuel, result monad `res`)

Anything outside the supported subset raises TranslationError (file, line, construct): that is a
broken tie, reported by ./check, never papered over.

Shape of the output (DESIGN.md 2.3): every Python `case` becomes
    match <pure test : option bindings> with Some bindings => <body> | None => <next case> end
built from projectors as_X (Prelude/Pred.v); blocks of monadic functions have type res (option T)
(Some r = executed `return r`, None = fell through) and are sequenced with `seq`; every call of a
monadic function consumes one unit of fuel; known-finding sites wrap their body in `taint`.
"""
from __future__ import annotations

import ast
import hashlib
import json
import os
import sys
from dataclasses import dataclass, field

sys.path.insert(0, os.path.dirname(__file__))
from classes import CLASSES, CONSTANTS, COQ_TYPE, REPO, TranslationError, check_against_repo  # noqa: E402

VERIF = os.path.abspath(os.path.join(os.path.dirname(__file__), "..", ".."))

OPT_FILES = [
    "predicate/optimizer/in_optimizer.py",
    "predicate/optimizer/all_optimizer.py",
    "predicate/optimizer/any_optimizer.py",
    "predicate/optimizer/not_optimizer.py",
    "predicate/optimizer/and_optimizer.py",
    "predicate/optimizer/or_optimizer.py",
    "predicate/optimizer/xor_optimizer.py",
    "predicate/optimizer/predicate_optimizer.py",
]

MUTATING = (ast.AugAssign, ast.Delete, ast.Global, ast.Nonlocal, ast.With, ast.Try, ast.While, ast.For,
            ast.AsyncFor, ast.AsyncWith, ast.Raise, ast.Yield, ast.YieldFrom, ast.Lambda, ast.ListComp,
            ast.SetComp, ast.DictComp, ast.GeneratorExp, ast.Await, ast.Starred)


def err(path, node, msg):
    raise TranslationError(f"{path}:{getattr(node, 'lineno', '?')}: {msg}")


@dataclass
class Var:
    coq: str
    ty: str                      # pred | Q | set | klass | fn | str | bool | int | optpred
    cls: str | None = None       # known predicate class
    fields: dict | None = None   # field name -> Var, when the object was destructured


@dataclass
class Fn:
    name: str
    path: str
    node: ast.FunctionDef
    params: list                 # [(pyname, ty, cls)]
    ret: str                     # pred | bool | optpred
    monadic: bool = False
    recursive: bool = False
    calls: set = field(default_factory=set)


def ann_to_type(path, ann) -> tuple[str, str | None]:
    """type and class of a parameter from its annotation"""
    if ann is None:
        return "pred", None
    s = ast.unparse(ann)
    base = s.split("[")[0]
    if base in CLASSES:
        return "pred", base
    if base == "Predicate":
        return "pred", None
    if s == "bool":
        return "bool", None
    raise TranslationError(f"{path}: unsupported parameter annotation {s}")


def ret_type(path, fn: ast.FunctionDef) -> str:
    s = ast.unparse(fn.returns) if fn.returns else "Predicate"
    if s == "bool":
        return "bool"
    if s.replace(" ", "") in ("Predicate[T]|None", "Predicate|None"):
        return "optpred"
    if s.split("[")[0] == "Predicate":
        return "pred"
    raise TranslationError(f"{path}:{fn.lineno}: unsupported return annotation {s}")


class Ctx:
    """translation context for one function"""

    def __init__(self, tr: "Translator", fn: Fn):
        self.tr = tr
        self.fn = fn
        self.path = fn.path
        self.monadic = fn.monadic
        self.tmp = 0

    def fresh(self, base="t"):
        self.tmp += 1
        return f"{base}{self.tmp}"


class Translator:
    def __init__(self, known_sites: list[dict] | None = None):
        self.fns: dict[str, Fn] = {}
        self.known_sites = known_sites or []
        self.sites_seen: list[dict] = []     # every case of every function, with its label
        self.used_known: set[int] = set()

    # ------------------------------------------------------------------ loading
    def load(self, path: str, only: set[str] | None = None):
        with open(os.path.join(REPO, path), encoding="utf-8") as fh:
            src = fh.read()
        tree = ast.parse(src, path)
        for node in tree.body:
            if isinstance(node, ast.FunctionDef):
                self.add_function(path, node)
            elif isinstance(node, (ast.Import, ast.ImportFrom)):
                continue
            elif isinstance(node, ast.Expr) and isinstance(node.value, ast.Constant):
                continue
            else:
                err(path, node, f"unsupported top-level statement {type(node).__name__}")

    def add_function(self, path, node: ast.FunctionDef):
        decos = [ast.unparse(d) for d in node.decorator_list]
        name = node.name
        if node.args.vararg or node.args.kwarg or node.args.kwonlyargs or node.args.defaults:
            err(path, node, "unsupported parameter form")
        params = []
        for a in node.args.args:
            ty, cls = ann_to_type(path, a.annotation)
            params.append((a.arg, ty, cls))
        if decos == ["singledispatch"]:
            self.dispatch_default = getattr(self, "dispatch_default", {})
            self.dispatch_default[name] = Fn(name, path, node, params, ret_type(path, node))
            self.dispatch_cases = getattr(self, "dispatch_cases", {})
            self.dispatch_cases.setdefault(name, [])
            return
        if len(decos) == 1 and decos[0].endswith(".register"):
            base = decos[0][: -len(".register")]
            if params[0][2] is None:
                err(path, node, "registered handler without a class annotation on its first parameter")
            self.dispatch_cases[base].append(Fn(name, path, node, params, ret_type(path, node)))
            return
        if decos:
            err(path, node, f"unsupported decorator {decos}")
        if name in self.fns:
            err(path, node, f"duplicate function {name}")
        self.fns[name] = Fn(name, path, node, params, ret_type(path, node))

    # ------------------------------------------------------------------ call graph
    def analyse(self, monadic_root: str | None):
        names = set(self.fns)
        for f in self.fns.values():
            for n in ast.walk(f.node):
                if isinstance(n, ast.Call) and isinstance(n.func, ast.Name) and n.func.id in names:
                    f.calls.add(n.func.id)
        # reaches(f, g)
        reach = {f: set(self.fns[f].calls) for f in names}
        changed = True
        while changed:
            changed = False
            for f in names:
                new = set(reach[f])
                for g in list(reach[f]):
                    new |= reach[g]
                if new != reach[f]:
                    reach[f] = new
                    changed = True
        for f in names:
            self.fns[f].recursive = f in reach[f]
            self.fns[f].monadic = monadic_root is not None and (f == monadic_root or monadic_root in reach[f])
        self.reach = reach

    # ------------------------------------------------------------------ expressions
    def coq_ctor(self, cx: Ctx, node, cls: str, args: list[ast.expr], kwargs: list[ast.keyword], env, binds):
        ctor, fields, _ = CLASSES[cls]
        vals: dict[str, ast.expr] = {}
        if len(args) > len(fields):
            err(cx.path, node, f"too many arguments for {cls}")
        for (fname, _), a in zip(fields, args):
            vals[fname] = a
        for kw in kwargs:
            if kw.arg is None or kw.arg not in dict(fields):
                err(cx.path, node, f"unknown keyword {kw.arg} for {cls}")
            if kw.arg in vals:
                err(cx.path, node, f"duplicate argument {kw.arg}")
            vals[kw.arg] = kw.value
        out = []
        for fname, fty in fields:
            if fname not in vals:
                err(cx.path, node, f"missing argument {fname} for {cls}")
            a = vals[fname]
            if cls in ("InPredicate", "NotInPredicate"):
                out.append(self.as_set_arg(cx, a, env, binds))
            else:
                t, ty, _ = self.expr(cx, a, env, binds)
                if ty != fty:
                    err(cx.path, a, f"argument {fname} of {cls} has model type {ty}, expected {fty}")
                out.append(t)
        return ("(" + " ".join([ctor] + out) + ")") if out else ctor

    def as_set_arg(self, cx, a, env, binds):
        """InPredicate.__init__ does set(v): accept a set, a tuple of constants, or (*set, constant)"""
        if isinstance(a, ast.Tuple):
            if a.elts and isinstance(a.elts[0], ast.Starred):
                if len(a.elts) != 2:
                    err(cx.path, a, "unsupported starred tuple")
                s, sty, _ = self.expr(cx, a.elts[0].value, env, binds)
                x, xty, _ = self.expr(cx, a.elts[1], env, binds)
                if sty != "set" or xty != "Q":
                    err(cx.path, a, "unsupported starred tuple types")
                return f"(add1 {s} {x})"
            items = []
            for e in a.elts:
                t, ty, _ = self.expr(cx, e, env, binds)
                if ty != "Q":
                    err(cx.path, e, "tuple element is not a constant")
                items.append(t)
            return "[" + "; ".join(items) + "]"
        t, ty, _ = self.expr(cx, a, env, binds)
        if ty != "set":
            err(cx.path, a, f"InPredicate argument of model type {ty}")
        return t

    def truth(self, cx, node, t, ty):
        if ty == "bool":
            return t
        if ty == "set":
            return f"(nonempty {t})"
        err(cx.path, node, f"truth value of model type {ty} not supported here")

    def expr(self, cx: Ctx, node, env: dict, binds: list):
        """-> (coq text, type, cls). `binds` collects ('let'|'bind', coqname, text) prefixes (walrus, monadic calls)."""
        p = cx.path
        if isinstance(node, MUTATING):
            err(p, node, f"construct {type(node).__name__} not in the translated subset")
        if isinstance(node, ast.Name):
            if node.id in env:
                v = env[node.id]
                return v.coq, v.ty, v.cls
            if node.id in CONSTANTS:
                return CLASSES[CONSTANTS[node.id]][0], "pred", CONSTANTS[node.id]
            err(p, node, f"unknown name {node.id}")
        if isinstance(node, ast.Constant):
            if node.value is True:
                return "true", "bool", None
            if node.value is False:
                return "false", "bool", None
            if node.value is None:
                return "None", "optpred", None
            err(p, node, f"unsupported constant {node.value!r}")
        if isinstance(node, ast.Attribute):
            if isinstance(node.value, ast.Name) and node.value.id in env:
                v = env[node.value.id]
                if v.fields and node.attr in v.fields:
                    f = v.fields[node.attr]
                    return f.coq, f.ty, f.cls
            err(p, node, f"attribute {ast.unparse(node)} of an object whose class is not known here")
        if isinstance(node, ast.NamedExpr):
            t, ty, cls = self.expr(cx, node.value, env, binds)
            name = "v_" + node.target.id
            binds.append(("let", name, t))
            env[node.target.id] = Var(name, ty, cls)
            return name, ty, cls
        if isinstance(node, ast.Call):
            return self.call(cx, node, env, binds)
        if isinstance(node, ast.Compare):
            return self.compare(cx, node, env, binds)
        if isinstance(node, ast.BoolOp):
            parts = []
            for v in node.values:
                nb: list = []
                t, ty, _ = self.expr(cx, v, env, nb)
                if nb:
                    err(p, v, "binding inside a short-circuit operand")
                parts.append(self.truth(cx, v, t, ty))
            op = " && " if isinstance(node.op, ast.And) else " || "
            return "(" + op.join(parts) + ")", "bool", None
        if isinstance(node, ast.UnaryOp) and isinstance(node.op, ast.Not):
            t, ty, _ = self.expr(cx, node.operand, env, binds)
            return f"(negb {self.truth(cx, node, t, ty)})", "bool", None
        if isinstance(node, ast.BinOp):
            a, aty, _ = self.expr(cx, node.left, env, binds)
            b, bty, _ = self.expr(cx, node.right, env, binds)
            if aty == bty == "set":
                op = {ast.BitAnd: "inter", ast.BitOr: "union", ast.Sub: "diff", ast.BitXor: "symdiff"}.get(type(node.op))
                if op:
                    return f"({op} {a} {b})", "set", None
            if aty == bty == "pred":
                op = {ast.BitAnd: "PAnd", ast.BitOr: "POr", ast.BitXor: "PXor"}.get(type(node.op))
                if op:
                    return f"({op} {a} {b})", "pred", {"PAnd": "AndPredicate", "POr": "OrPredicate", "PXor": "XorPredicate"}[op]
            err(p, node, f"unsupported binary operator {type(node.op).__name__} on {aty}/{bty} "
                         "(no arithmetic on constants is allowed in the rule tables)")
        if isinstance(node, ast.Set):
            items = []
            for e in node.elts:
                t, ty, _ = self.expr(cx, e, env, binds)
                if ty != "Q":
                    err(p, e, "set element is not a constant")
                items.append(t)
            return "[" + "; ".join(items) + "]", "set", None
        if isinstance(node, ast.IfExp):
            nb: list = []
            c, cty, _ = self.expr(cx, node.test, env, nb)
            a, aty, acls = self.expr(cx, node.body, env, binds)
            b, bty, bcls = self.expr(cx, node.orelse, env, binds)
            if aty != bty:
                err(p, node, "conditional expression with branches of different model types")
            t = f"(if {self.truth(cx, node.test, c, cty)} then {a} else {b})"
            for kind, name, text in reversed(nb):
                if kind != "let":
                    err(p, node, "monadic call inside a condition")
                t = f"(let {name} := {text} in {t})"
            return t, aty, (acls if acls == bcls else None)
        err(p, node, f"unsupported expression {type(node).__name__}: {ast.unparse(node)}")

    def call(self, cx: Ctx, node: ast.Call, env, binds):
        p = cx.path
        f = node.func
        if isinstance(f, ast.Attribute):
            if f.attr == "issubset" and len(node.args) == 1 and not node.keywords:
                a, aty, _ = self.expr(cx, f.value, env, binds)
                b, bty, _ = self.expr(cx, node.args[0], env, binds)
                if aty == bty == "set":
                    return f"(subseteq {a} {b})", "bool", None
            err(p, node, f"unsupported method call {ast.unparse(node)}")
        if not isinstance(f, ast.Name):
            err(p, node, f"unsupported call target {ast.unparse(f)}")
        name = f.id
        if name in env:
            v = env[name]
            if v.ty == "fn" and len(node.args) == 1 and not node.keywords:
                a, aty, _ = self.expr(cx, node.args[0], env, binds)
                if aty != "Q":
                    err(p, node, "function atom applied to something that is not a constant")
                return f"(fn_const W {v.coq} {a})", "bool", None
            err(p, node, f"call of local {name}")
        if name in CLASSES:
            return self.coq_ctor(cx, node, name, node.args, node.keywords, env, binds), "pred", name
        if name == "len" and len(node.args) == 1:
            a, aty, _ = self.expr(cx, node.args[0], env, binds)
            if aty != "set":
                err(p, node, "len() of a non-set")
            return f"(card {a})", "int", None
        if name == "one" and len(node.args) == 1:
            a, aty, _ = self.expr(cx, node.args[0], env, binds)
            if aty != "set":
                err(p, node, "one() of a non-set")
            return f"(the_one {a})", "Q", None
        if name == "negate" and len(node.args) == 1 and not node.keywords:
            a, aty, _ = self.expr(cx, node.args[0], env, binds)
            if aty != "pred":
                err(p, node, "negate() of a non-predicate")
            return f"(negate {a})", "pred", None
        if name == "implies" and len(node.args) == 2 and not node.keywords:
            a, aty, _ = self.expr(cx, node.args[0], env, binds)
            b, bty, _ = self.expr(cx, node.args[1], env, binds)
            if aty != "pred" or bty != "pred":
                err(p, node, "implies() of non-predicates")
            return f"(implies {a} {b})", "pred" if False else "bool", None
        if name in self.fns:
            g = self.fns[name]
            vals: dict[str, ast.expr] = {}
            for (pn, _, _), a in zip(g.params, node.args):
                vals[pn] = a
            for kw in node.keywords:
                vals[kw.arg] = kw.value
            if len(node.args) > len(g.params) or set(vals) != {pn for pn, _, _ in g.params}:
                err(p, node, f"bad arguments for {name}")
            args = []
            for pn, pty, pcls in g.params:
                t, ty, cls = self.expr(cx, vals[pn], env, binds)
                if ty != pty:
                    err(p, node, f"argument {pn} of {name}: model type {ty}, expected {pty}")
                if pcls is not None and cls != pcls:
                    err(p, node, f"argument {pn} of {name} is not statically known to be a {pcls}")
                args.append(t)
            if g.monadic:
                if not cx.monadic:
                    err(p, node, f"call of optimizer function {name} from a pure function")
                tmp = cx.fresh("r")
                binds.append(("bind", tmp, f"{name} W fuel " + " ".join(args)))
                return tmp, g.ret, None
            if g.recursive:
                return "(" + " ".join([name] + args) + ")", g.ret, None
            return "(" + " ".join([name] + args) + ")", g.ret, None
        err(p, node, f"call of unknown function {name}")

    def compare(self, cx, node: ast.Compare, env, binds):
        p = cx.path
        if len(node.ops) != 1:
            err(p, node, "chained comparison")
        op = node.ops[0]
        rhs = node.comparators[0]
        a, aty, _ = self.expr(cx, node.left, env, binds)
        if isinstance(op, (ast.In, ast.NotIn)) and isinstance(rhs, ast.Tuple):
            if aty != "pred":
                err(p, node, "membership in a tuple of non-predicates")
            parts = []
            for e in rhs.elts:
                t, ty, _ = self.expr(cx, e, env, binds)
                if ty != "pred":
                    err(p, e, "tuple element is not a predicate")
                parts.append(f"peq {a} {t}")
            r = "(" + " || ".join(parts) + ")"
            return (r if isinstance(op, ast.In) else f"(negb {r})"), "bool", None
        b, bty, _ = self.expr(cx, rhs, env, binds)
        if isinstance(op, (ast.In, ast.NotIn)):
            if aty == "Q" and bty == "set":
                r = f"(mem {a} {b})"
                return (r if isinstance(op, ast.In) else f"(negb {r})"), "bool", None
            err(p, node, f"membership test on {aty}/{bty}")
        if aty != bty:
            err(p, node, f"comparison between model types {aty} and {bty}")
        if isinstance(op, (ast.Eq, ast.NotEq)):
            eq = {"pred": "peq", "Q": "Qeq_bool", "set": "set_eq", "klass": "list_eqb Nat.eqb", "fn": "Nat.eqb",
                  "str": "String.eqb", "int": "Nat.eqb", "bool": "Bool.eqb"}.get(aty)
            if eq is None:
                err(p, node, f"== on model type {aty}")
            r = f"({eq} {a} {b})"
            return (r if isinstance(op, ast.Eq) else f"(negb {r})"), "bool", None
        if aty == "Q":
            if isinstance(op, ast.Lt):
                return f"(Qlt_bool {a} {b})", "bool", None
            if isinstance(op, ast.LtE):
                return f"(Qle_bool {a} {b})", "bool", None
            if isinstance(op, ast.Gt):
                return f"(Qlt_bool {b} {a})", "bool", None
            if isinstance(op, ast.GtE):
                return f"(Qle_bool {b} {a})", "bool", None
        err(p, node, f"unsupported comparison {ast.unparse(node)} on {aty}")

    # ------------------------------------------------------------------ patterns
    def pattern(self, cx: Ctx, pat, subj: Var, env: dict):
        """-> (tests, exported, refined) where tests = [(projector_text, binder_text)] (each is
        `match projector with Some binder => ... | None => fail`), exported = [(pyname, Var)] and
        refined = (cls, fields) known about the subject when the pattern matched."""
        p = cx.path
        if isinstance(pat, ast.MatchAs):
            if pat.pattern is None:
                if pat.name is None:
                    return [], [], (subj.cls, subj.fields)
                return [], [(pat.name, Var(subj.coq, subj.ty, subj.cls, subj.fields))], (subj.cls, subj.fields)
            tests, exp, (cls, flds) = self.pattern(cx, pat.pattern, subj, env)
            exp = exp + [(pat.name, Var(subj.coq, subj.ty, cls, flds))]
            return tests, exp, (cls, flds)
        if isinstance(pat, ast.MatchClass):
            if not isinstance(pat.cls, ast.Name):
                err(p, pat, "unsupported class pattern")
            cname = pat.cls.id
            if subj.ty != "pred":
                err(p, pat, "class pattern on a non-predicate subject")
            if cname == "Predicate":
                if pat.patterns or pat.kwd_patterns:
                    err(p, pat, "Predicate(...) with sub-patterns")
                return [], [], (subj.cls, subj.fields)
            if cname not in CLASSES:
                err(p, pat, f"class pattern on unknown class {cname}")
            ctor, fields, _ = CLASSES[cname]
            short = ctor[1:]
            if len(pat.patterns) > len(fields):
                err(p, pat, f"too many positional sub-patterns for {cname}")
            subpats: dict[str, ast.pattern] = {}
            for (fname, _), sp in zip(fields, pat.patterns):
                subpats[fname] = sp
            for k, sp in zip(pat.kwd_attrs, pat.kwd_patterns):
                if k not in dict(fields) or k in subpats:
                    err(p, pat, f"bad keyword sub-pattern {k}")
                subpats[k] = sp
            base = cx.fresh("f")
            fvars = {fname: Var(f"{base}_{fname}", fty) for fname, fty in fields}
            if not fields:
                binder = "_"
            elif len(fields) == 1:
                binder = fvars[fields[0][0]].coq
            else:
                binder = "(" + ", ".join(fvars[f].coq for f, _ in fields) + ")"
            tests = [(f"as_{short} {subj.coq}", binder)]
            exp = []
            for fname, _ in fields:
                if fname in subpats:
                    t2, e2, (c2, f2) = self.pattern(cx, subpats[fname], fvars[fname], env)
                    fvars[fname] = Var(fvars[fname].coq, fvars[fname].ty, c2, f2)
                    tests += t2
                    exp += e2
            return tests, exp, (cname, fvars)
        if isinstance(pat, ast.MatchValue):
            if subj.ty == "int" and isinstance(pat.value, ast.Constant) and type(pat.value.value) is int \
                    and 0 <= pat.value.value < 100:
                return [(f"(if Nat.eqb {subj.coq} {pat.value.value} then Some tt else None)", "_")], [], (None, None)
            err(p, pat, "unsupported literal pattern")
        err(p, pat, f"unsupported pattern {type(pat).__name__}")

    def case_test(self, cx: Ctx, case: ast.match_case, subjects: list[Var], env: dict):
        """-> (tests, guard_lets, guard_text|None, exported vars list)"""
        p = cx.path
        pat = case.pattern
        if len(subjects) > 1:
            if isinstance(pat, ast.MatchAs) and pat.pattern is None and pat.name is None:
                pats = [pat] * len(subjects)
            elif isinstance(pat, ast.MatchSequence) and len(pat.patterns) == len(subjects):
                pats = pat.patterns
            else:
                err(p, pat, "pattern does not fit the tuple subject")
        else:
            pats = [pat]
        tests, exported = [], []
        for sp, sv in zip(pats, subjects):
            if isinstance(sp, (ast.MatchStar, ast.MatchOr, ast.MatchMapping, ast.MatchSingleton, ast.MatchSequence)):
                err(p, sp, f"unsupported pattern {type(sp).__name__}")
            t, e, _ = self.pattern(cx, sp, sv, env)
            tests += t
            exported += e
        names = [n for n, _ in exported]
        if len(set(names)) != len(names):
            err(p, case, "a name is bound twice in one pattern")
        return tests, exported

    # ------------------------------------------------------------------ statements (monadic blocks)
    def wrap_binds(self, binds, body):
        for kind, name, text in reversed(binds):
            if kind == "let":
                body = f"(let {name} := {text} in {body})"
            else:
                body = f"({name} <- {text} ;; {body})"
        return body

    def site_label(self, fn: Fn, case_or_stmt) -> str:
        return fn.name + " :: " + " ".join(ast.unparse(case_or_stmt).split())

    def known(self, fn: Fn, case) -> dict | None:
        label = self.site_label(fn, case)
        self.sites_seen.append({"function": fn.name, "label": label, "line": case.pattern.lineno if hasattr(case, "pattern") else case.lineno,
                                "file": fn.path})
        for i, k in enumerate(self.known_sites):
            if k["site"] == label:
                self.used_known.add(i)
                return {"id": k["id"], "when": k.get("when", "true")}
        return None

    def block(self, cx: Ctx, stmts: list, env: dict) -> str:
        """monadic block : res (option T)"""
        p = cx.path
        if not stmts:
            return "ret None"
        st, rest = stmts[0], stmts[1:]
        if isinstance(st, MUTATING):
            err(p, st, f"statement {type(st).__name__} not in the translated subset (analysis functions must not mutate)")
        if isinstance(st, (ast.Import, ast.ImportFrom)):
            return self.block(cx, rest, env)
        if isinstance(st, ast.Pass):
            return self.block(cx, rest, env)
        if isinstance(st, ast.Expr) and isinstance(st.value, ast.Constant):
            return self.block(cx, rest, env)
        if isinstance(st, ast.Return):
            if st.value is None:
                err(p, st, "bare return")
            binds: list = []
            env2 = dict(env)
            t, ty, _ = self.expr(cx, st.value, env2, binds)
            want = cx.fn.ret
            if ty != want:
                err(p, st, f"return of model type {ty}, function returns {want}")
            return self.wrap_binds(binds, f"ret (Some {t})")
        if isinstance(st, ast.Assign):
            if len(st.targets) != 1 or not isinstance(st.targets[0], ast.Name):
                err(p, st, "assignment target is not a plain local name (attribute/subscript stores are mutation)")
            binds = []
            env2 = dict(env)
            t, ty, cls = self.expr(cx, st.value, env2, binds)
            name = "v_" + st.targets[0].id
            binds.append(("let", name, t))
            env2[st.targets[0].id] = Var(name, ty, cls)
            return self.wrap_binds(binds, self.block(cx, rest, env2))
        if isinstance(st, ast.If):
            return self.seq(self.if_block(cx, st, env), cx, rest, env)
        if isinstance(st, ast.Match):
            # names bound by walrus expressions in the subject stay bound after the match (Python scoping)
            binds, chain, env2 = self.match_block(cx, st, env)
            return self.wrap_binds(binds, self.seq(chain, cx, rest, env2))
        err(p, st, f"unsupported statement {type(st).__name__}")

    def seq(self, first: str, cx, rest, env):
        if not rest:
            return first
        return f"(seq ({first})\n ({self.block(cx, rest, env)}))"

    def if_block(self, cx, st: ast.If, env):
        p = cx.path
        binds: list = []
        env2 = dict(env)
        c, cty, _ = self.expr(cx, st.test, env2, binds)
        if any(k == "bind" for k, _, _ in binds):
            err(p, st, "optimizer call inside an if-condition")
        if cty == "optpred":
            # `if x := f(...)`: a predicate object is truthy, None is not
            if not isinstance(st.test, ast.NamedExpr):
                err(p, st, "truth value of an optional predicate")
            name = "v_" + st.test.target.id
            kind, nm, text = binds.pop()
            assert nm == name
            env3 = dict(env2)
            env3[st.test.target.id] = Var(name, "pred", None)
            body = self.block(cx, st.body, env3)
            orelse = self.block(cx, st.orelse, env2) if st.orelse else "ret None"
            return self.wrap_binds(binds, f"(match {text} with Some {name} => {body} | None => {orelse} end)")
        body = self.block(cx, st.body, env2)
        orelse = self.block(cx, st.orelse, env2) if st.orelse else "ret None"
        return self.wrap_binds(binds, f"(if {self.truth(cx, st.test, c, cty)} then {body} else {orelse})")

    def subjects(self, cx, subject, env, binds) -> list[Var]:
        elts = subject.elts if isinstance(subject, ast.Tuple) else [subject]
        out = []
        for e in elts:
            t, ty, cls = self.expr(cx, e, env, binds)
            flds = None
            if isinstance(e, ast.Name) and e.id in env:
                flds = env[e.id].fields
            if isinstance(e, ast.NamedExpr) and e.target.id in env:
                out.append(env[e.target.id])
                continue
            # name complex subjects so that the tests do not duplicate them
            if not (isinstance(e, ast.Name) or isinstance(e, ast.Attribute)):
                nm = cx.fresh("s")
                binds.append(("let", nm, t))
                t = nm
            out.append(Var(t, ty, cls, flds))
        return out

    def match_block(self, cx: Ctx, st: ast.Match, env, pure_k=None):
        """monadic (pure_k is None) or pure (pure_k = continuation text) translation of a match statement"""
        binds: list = []
        env2 = dict(env)
        subj = self.subjects(cx, st.subject, env2, binds)
        chain = "ret None" if pure_k is None else pure_k
        for case in reversed(st.cases):
            chain = self.case(cx, case, subj, env2, chain, pure_k)
        return binds, chain, env2

    def case(self, cx: Ctx, case: ast.match_case, subj, env, nxt: str, pure_k):
        p = cx.path
        env2 = dict(env)
        tests, exported = self.case_test(cx, case, subj, env2)
        for n, v in exported:
            env2[n] = v
        gbinds: list = []
        guard = None
        if case.guard is not None:
            g, gty, _ = self.expr(cx, case.guard, env2, gbinds)
            if any(k == "bind" for k, _, _ in gbinds):
                err(p, case, "optimizer call inside a guard")
            guard = self.truth(cx, case.guard, g, gty)
        known = self.known(cx.fn, case)
        if pure_k is None:
            body = self.block(cx, case.body, env2)
            if known:
                try:
                    known["when"] = known["when"].format(**{n: v.coq for n, v in env2.items()})
                except (KeyError, IndexError) as e:
                    err(p, case, f"known-finding condition refers to a name the case does not bind: {e}")
                if known["when"] == "true":
                    body = f"(taint {known['id']}%nat ({body}))"
                else:
                    body = f"(if {known['when']} then taint {known['id']}%nat ({body}) else {body})"
        else:
            if known:
                err(p, case, "known-finding site inside a pure function is not supported")
            body = self.pure(cx, case.body, env2, pure_k)
        if not tests and guard is None:
            return body      # irrefutable: later cases are unreachable, exactly as in Python
        # everything the guard/body may use: projector binders and guard-walrus variables
        needed = []
        for _proj, binder in tests:
            for nm in binder.strip("()").split(","):
                nm = nm.strip()
                if nm and nm != "_":
                    needed.append(nm)
        outs = needed + [n for _, n, _ in gbinds]
        tup = self.tuple_of(outs)
        core = f"Some {tup}"
        if guard is not None:
            core = f"if {guard} then Some {tup} else None"
        for _kind, name, text in reversed(gbinds):
            core = f"let {name} := {text} in {core}"
        for proj, binder in reversed(tests):
            core = f"match {proj} with Some {binder} => {core} | None => None end"
        pat = self.tuple_of(outs) if outs else "_"
        if len(tests) == 1 and guard is None and not gbinds:
            return f"match {tests[0][0]} with\n | Some {tests[0][1]} => {body}\n | None => {nxt}\n end"
        return f"match ({core}) with\n | Some {pat} => {body}\n | None => {nxt}\n end"

    def tuple_of(self, names):
        if not names:
            return "tt"
        if len(names) == 1:
            return names[0]
        return "(" + ", ".join(names) + ")"

    # ------------------------------------------------------------------ statements (pure functions)
    def pure(self, cx: Ctx, stmts: list, env: dict, k: str | None) -> str:
        """pure function body: text of the function's result type; k = what happens when falling through"""
        p = cx.path
        if not stmts:
            if k is None:
                err(p, cx.fn.node, "a path falls off the end of a pure function")
            return k
        st, rest = stmts[0], stmts[1:]
        if isinstance(st, MUTATING):
            err(p, st, f"statement {type(st).__name__} not in the translated subset (analysis functions must not mutate)")
        if isinstance(st, (ast.Import, ast.ImportFrom, ast.Pass)):
            return self.pure(cx, rest, env, k)
        if isinstance(st, ast.Expr) and isinstance(st.value, ast.Constant):
            return self.pure(cx, rest, env, k)
        if isinstance(st, ast.Return):
            binds: list = []
            env2 = dict(env)
            t, ty, _ = self.expr(cx, st.value, env2, binds)
            want = cx.fn.ret
            if want == "optpred" and ty == "pred":
                t = f"(Some {t})"
                ty = "optpred"
            if ty != want:
                err(p, st, f"return of model type {ty}, function returns {want}")
            return self.wrap_binds(binds, t)
        if isinstance(st, ast.Assign):
            if len(st.targets) != 1 or not isinstance(st.targets[0], ast.Name):
                err(p, st, "assignment target is not a plain local name (attribute/subscript stores are mutation)")
            binds = []
            env2 = dict(env)
            t, ty, cls = self.expr(cx, st.value, env2, binds)
            name = "v_" + st.targets[0].id
            binds.append(("let", name, t))
            env2[st.targets[0].id] = Var(name, ty, cls)
            return self.wrap_binds(binds, self.pure(cx, rest, env2, k))
        if isinstance(st, ast.Match):
            k2 = self.pure(cx, rest, env, k) if (rest or k is not None) else None
            if k2 is None:
                # the match must be exhaustive: last case irrefutable
                last = st.cases[-1]
                if not (isinstance(last.pattern, ast.MatchAs) and last.pattern.pattern is None and last.guard is None):
                    err(p, st, "non-exhaustive match at the end of a pure function")
                k2 = "__unreachable__"
            binds, out, _env2 = self.match_block(cx, st, env, pure_k=k2)
            if "__unreachable__" in out:
                err(p, st, "a case body falls through at the end of a pure function")
            return self.wrap_binds(binds, out)
        if isinstance(st, ast.If):
            binds = []
            env2 = dict(env)
            c, cty, _ = self.expr(cx, st.test, env2, binds)
            k2 = self.pure(cx, rest, env, k) if (rest or k is not None) else None
            body = self.pure(cx, st.body, env2, k2)
            orelse = self.pure(cx, st.orelse, env2, k2) if st.orelse else k2
            if orelse is None:
                err(p, st, "if without else at the end of a pure function")
            return self.wrap_binds(binds, f"(if {self.truth(cx, st.test, c, cty)} then {body} else {orelse})")
        err(p, st, f"unsupported statement {type(st).__name__}")

    # ------------------------------------------------------------------ functions
    def open_param(self, cx, pname, pty, pcls, env, recursive_struct=False):
        """bind a class-typed parameter's fields. returns (prefix, suffix) around the body"""
        coq = "v_" + pname
        if pcls is None:
            env[pname] = Var(coq, pty, None)
            return None
        ctor, fields, _ = CLASSES[pcls]
        fvars = {fname: Var(f"{coq}__{fname}", fty) for fname, fty in fields}
        env[pname] = Var(coq, pty, pcls, fvars)
        return ctor, [fvars[f].coq for f, _ in fields]

    def emit_pure_fn(self, g: Fn) -> str:
        cx = Ctx(self, g)
        env: dict = {}
        opens = []
        for pn, pty, pcls in g.params:
            o = self.open_param(cx, pn, pty, pcls, env)
            if o:
                opens.append(("v_" + pn, o))
        body = self.pure(cx, g.node.body, env, None)
        rty = {"pred": "pred", "bool": "bool", "optpred": "option pred"}[g.ret]
        # unreachable default when a class-typed parameter is not of its class (callers are checked statically)
        default = {"pred": None, "bool": "false", "optpred": "None"}[g.ret]
        for var, (ctor, fnames) in reversed(opens):
            d = default if default is not None else var
            body = f"match {var} with\n  | {' '.join([ctor] + fnames)} => {body}\n  | _ => {d}\n  end"
        params = " ".join(f"(v_{pn} : {COQ_TYPE[pty]})" for pn, pty, _ in g.params)
        if g.recursive:
            struct = opens[0][0] if opens else None
            if struct is None:
                raise TranslationError(f"{g.path}:{g.node.lineno}: recursive pure function {g.name} without a class-typed parameter to recurse on")
            return f"Fixpoint {g.name} {params} {{struct {struct}}} : {rty} :=\n  {body}.\n"
        return f"Definition {g.name} {params} : {rty} :=\n  {body}.\n"

    def emit_monadic_fn(self, g: Fn) -> str:
        cx = Ctx(self, g)
        env: dict = {}
        opens = []
        for pn, pty, pcls in g.params:
            o = self.open_param(cx, pn, pty, pcls, env)
            if o:
                opens.append(("v_" + pn, pcls, o))
        if g.ret != "pred":
            raise TranslationError(f"{g.path}:{g.node.lineno}: optimizer function {g.name} does not return a predicate")
        body = f"finish ({self.block(cx, g.node.body, env)})"
        for var, pcls, (ctor, fnames) in reversed(opens):
            short = ctor[1:]
            binder = "_" if not fnames else (fnames[0] if len(fnames) == 1 else "(" + ", ".join(fnames) + ")")
            body = f"match as_{short} {var} with\n  | Some {binder} => {body}\n  | None => Crash\n  end"
        params = " ".join(f"(v_{pn} : {COQ_TYPE[pty]})" for pn, pty, _ in g.params)
        return (f"{g.name} (W : world) (fuel : nat) {params} {{struct fuel}} : res pred :=\n"
                f"  match fuel with O => OutOfFuel | S fuel =>\n  {body}\n  end")

    def emit_dispatch(self, name: str) -> str:
        """singledispatch function -> one Definition: handlers tried by class of the first argument"""
        dflt = self.dispatch_default[name]
        handlers = self.dispatch_cases[name]
        seen = set()
        p0 = dflt.params[0][0]
        rty = {"pred": "pred", "bool": "bool"}[dflt.ret]
        # default body
        cx = Ctx(self, dflt)
        env: dict = {}
        for pn, pty, pcls in dflt.params:
            env[pn] = Var("v_" + pn, pty, pcls)
        chain = self.pure(cx, dflt.node.body, env, None)
        for h in reversed(handlers):
            if [t for _, t, _ in h.params] != [t for _, t, _ in dflt.params] or h.ret != dflt.ret:
                raise TranslationError(f"{h.path}:{h.node.lineno}: handler signature differs from {name}")
            cls = h.params[0][2]
            if cls in seen:
                raise TranslationError(f"{h.path}:{h.node.lineno}: two handlers registered for {cls}")
            seen.add(cls)
            cx = Ctx(self, h)
            env = {}
            ctor, fields, _ = CLASSES[cls]
            fvars = {fname: Var(f"h_{fname}", fty) for fname, fty in fields}
            env[h.params[0][0]] = Var("v_" + p0, "pred", cls, fvars)
            for (pn, pty, pcls), (dn, _, _) in list(zip(h.params, dflt.params))[1:]:
                env[pn] = Var("v_" + dn, pty, pcls)
            body = self.pure(cx, h.node.body, env, None)
            short = ctor[1:]
            fn = [fvars[f].coq for f, _ in fields]
            binder = "_" if not fn else (fn[0] if len(fn) == 1 else "(" + ", ".join(fn) + ")")
            chain = f"match as_{short} v_{p0} with\n  | Some {binder} => {body}\n  | None => {chain}\n  end"
        params = " ".join(f"(v_{pn} : {COQ_TYPE[pty]})" for pn, pty, _ in dflt.params)
        return f"Definition {name} {params} : {rty} :=\n  {chain}.\n"


HEADER = """(* GENERATED by tools/py2coq/translate.py from {src} — do not edit. source sha256: {sha} *)
From Coq Require Import QArith Bool List Arith String.
From PP Require Import Prelude.Base Prelude.Val Prelude.Pred Prelude.Sem{extra}.
Import ListNotations.
"""


def sha_of(paths):
    h = hashlib.sha256()
    for p in paths:
        with open(os.path.join(REPO, p), "rb") as fh:
            h.update(fh.read())
    return h.hexdigest()[:16]


def write_if_changed(path, text):
    old = None
    if os.path.exists(path):
        with open(path, encoding="utf-8") as fh:
            old = fh.read()
    if old != text:
        with open(path, "w", encoding="utf-8") as fh:
            fh.write(text)
        return True
    return False


def load_known():
    path = os.path.join(VERIF, "known_findings.json")
    if not os.path.exists(path):
        return []
    with open(path, encoding="utf-8") as fh:
        data = json.load(fh)
    return [k for k in data.get("findings", []) if k.get("site")]


def translate_all(outdir: str) -> dict:
    check_against_repo()
    info: dict = {"files": {}, "sites": [], "known_used": []}
    # negate
    t = Translator()
    t.load("predicate/negate.py")
    t.analyse(None)
    text = HEADER.format(src="predicate/negate.py", sha=sha_of(["predicate/negate.py"]), extra="") + "\n" + t.emit_dispatch("negate")
    info["files"]["Negate.v"] = write_if_changed(os.path.join(outdir, "Negate.v"), text)
    # implies
    t = Translator()
    t.load("predicate/implies.py")
    t.analyse(None)
    text = HEADER.format(src="predicate/implies.py", sha=sha_of(["predicate/implies.py"]), extra="") + "\n" + t.emit_dispatch("implies")
    info["files"]["Implies.v"] = write_if_changed(os.path.join(outdir, "Implies.v"), text)
    # optimizer
    known = load_known()
    t = Translator(known)
    for f in OPT_FILES:
        t.load(f)
    t.analyse("optimize")
    order = []
    pure = [g for g in t.fns.values() if not g.monadic]
    # emit pure functions in dependency order
    done: set = set()

    def visit(g):
        if g.name in done:
            return
        done.add(g.name)
        for c in sorted(g.calls):
            if c != g.name and not t.fns[c].monadic:
                visit(t.fns[c])
        order.append(g)
    for g in pure:
        visit(g)
    parts = [HEADER.format(src=", ".join(OPT_FILES), sha=sha_of(OPT_FILES), extra=" Gen.Negate Gen.Implies")]
    parts.append("Definition fn_const (W : world) (f : nat) (c : Q) : bool := ob (fn_sem W f (cval c)).\n")
    for g in order:
        parts.append(t.emit_pure_fn(g))
    mon = [g for g in t.fns.values() if g.monadic]
    if "can_optimize" in [g.name for g in mon]:
        mon = [g for g in mon if g.name != "can_optimize"]
    bodies = [t.emit_monadic_fn(g) for g in mon]
    parts.append("Fixpoint " + "\nwith ".join(bodies) + ".\n")
    # can_optimize(p) = optimize(p) != p
    co = t.fns.get("can_optimize")
    if co is None:
        raise TranslationError("predicate_optimizer.py: can_optimize not found")
    src = " ".join(ast.unparse(co.node.body[-1]).split())
    if src != "return optimize(predicate) != predicate":
        raise TranslationError(f"predicate_optimizer.py: can_optimize body changed: {src}")
    parts.append("Definition can_optimize (W : world) (fuel : nat) (v_predicate : pred) : res bool :=\n"
                 "  r <- optimize W fuel v_predicate ;; ret (negb (peq r v_predicate)).\n")
    text = "\n".join(parts)
    info["files"]["Optimize.v"] = write_if_changed(os.path.join(outdir, "Optimize.v"), text)
    info["sites"] = t.sites_seen
    info["known_used"] = sorted(known[i]["id"] for i in t.used_known)
    info["known_missing"] = sorted(k["id"] for i, k in enumerate(known) if i not in t.used_known)
    info["monadic"] = [g.name for g in mon]
    info["pure"] = [g.name for g in order]
    return info


if __name__ == "__main__":
    out = sys.argv[1] if len(sys.argv) > 1 else os.path.join(VERIF, "coq", "Gen")
    os.makedirs(out, exist_ok=True)
    try:
        info = translate_all(out)
    except TranslationError as e:
        print("TRANSLATION-ERROR:", e)
        sys.exit(2)
    json.dump(info, open(os.path.join(out, "translate_info.json"), "w"), indent=1)
    print("translated:", {k: ("changed" if v else "same") for k, v in info["files"].items()},
          "known sites used:", info["known_used"], "missing:", info["known_missing"])
