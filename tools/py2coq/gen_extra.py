#!/venv/bin/python
"""Source fingerprints for the HAND-WRITTEN parts of the model (Prelude/Sem.v: __call__/__eq__/__init__ of every
predicate class; Lemmas/Std.v: the factories and constants of standard_predicates.py / set_predicates.py).
Writes Gen/call_tie.json: which classes / definitions no longer have the source text the model was written against.
./check treats a mismatch that concerns a property's classes as a broken tie for that property.

    gen_extra.py <Gen dir>            compare with tools/py2coq/call_table.json
    gen_extra.py --update             rewrite the table from the current /repo (done by hand, reviewed, committed)
"""
import ast
import json
import os
import sys

sys.path.insert(0, os.path.dirname(__file__))
from classes import CLASSES, REPO  # noqa: E402

HERE = os.path.dirname(os.path.abspath(__file__))
TABLE = os.path.join(HERE, "call_table.json")
STD_FILES = ["predicate/standard_predicates.py", "predicate/set_predicates.py", "predicate/str_predicates.py"]


def norm(node) -> str:
    return " ".join(ast.unparse(node).split())


def class_sources():
    out = {}
    for cls, (_c, _f, path) in CLASSES.items():
        tree = ast.parse(open(os.path.join(REPO, path), encoding="utf-8").read())
        for node in tree.body:
            if isinstance(node, ast.ClassDef) and node.name == cls:
                d = {"bases": [norm(b) for b in node.bases], "decorators": [norm(x) for x in node.decorator_list]}
                for st in node.body:
                    if isinstance(st, ast.FunctionDef) and st.name in ("__call__", "__eq__", "__init__", "__hash__", "__bool__",
                                                                        "__len__", "__ne__", "__getattr__", "__post_init__"):
                        d[st.name] = norm(st)
                    elif isinstance(st, ast.FunctionDef) and st.name not in ("__repr__",):
                        d["other:" + st.name] = norm(st)
                out[cls] = d
    # the operator overloads of the base class build the connective nodes
    tree = ast.parse(open(os.path.join(REPO, "predicate/predicate.py"), encoding="utf-8").read())
    for node in tree.body:
        if isinstance(node, ast.ClassDef) and node.name == "Predicate":
            out["Predicate"] = {st.name: norm(st) for st in node.body if isinstance(st, ast.FunctionDef)}
        if isinstance(node, ast.FunctionDef) and node.name == "resolve_predicate":
            out["resolve_predicate"] = {"def": norm(node)}
    return out


def std_sources():
    out = {}
    for path in STD_FILES:
        tree = ast.parse(open(os.path.join(REPO, path), encoding="utf-8").read())
        for node in tree.body:
            if isinstance(node, ast.FunctionDef):
                body = [s for s in node.body if not (isinstance(s, ast.Expr) and isinstance(s.value, ast.Constant))]
                out[f"{path}:{node.name}"] = " ; ".join(norm(s) for s in body) + " | args: " + norm(node.args)
            elif isinstance(node, (ast.Assign, ast.AnnAssign)):
                out[f"{path}:{norm(node.targets[0] if isinstance(node, ast.Assign) else node.target)}"] = norm(node)
    return out


def api_sources():
    """the package's public wiring: a wrapper around an exported entry point changes what every user call means"""
    path = "predicate/__init__.py"
    return {path: norm(ast.parse(open(os.path.join(REPO, path), encoding="utf-8").read()))}


def main():
    cur = {"classes": class_sources(), "std": std_sources(), "api": api_sources()}
    if len(sys.argv) > 1 and sys.argv[1] == "--update":
        json.dump(cur, open(TABLE, "w"), indent=1, sort_keys=True)
        print("call_table.json updated:", len(cur["classes"]), "classes,", len(cur["std"]), "definitions")
        return
    outdir = sys.argv[1]
    want = json.load(open(TABLE))
    bad_cls = sorted(c for c in set(want["classes"]) | set(cur["classes"]) if want["classes"].get(c) != cur["classes"].get(c))
    bad_std = sorted(c for c in set(want["std"]) | set(cur["std"]) if want["std"].get(c) != cur["std"].get(c))
    bad_api = sorted(c for c in set(want.get("api", {})) | set(cur["api"]) if want.get("api", {}).get(c) != cur["api"].get(c))
    detail = {}
    for c in bad_api:
        detail[c] = {"model_written_against": (want.get("api", {}).get(c) or "")[:1500], "source_now": (cur["api"].get(c) or "")[:1500]}
    for c in bad_cls:
        w, g = want["classes"].get(c, {}), cur["classes"].get(c, {})
        detail[c] = {k: {"model_written_against": w.get(k), "source_now": g.get(k)} for k in set(w) | set(g) if w.get(k) != g.get(k)}
    for c in bad_std:
        detail[c] = {"model_written_against": want["std"].get(c), "source_now": cur["std"].get(c)}
    json.dump({"changed_classes": bad_cls, "changed_std": bad_std, "changed_api": bad_api, "detail": detail},
              open(os.path.join(outdir, "call_tie.json"), "w"), indent=1)
    print("call tie: changed classes", bad_cls, "changed std", bad_std)


if __name__ == "__main__":
    main()
