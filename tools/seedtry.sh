#!/bin/sh
# seedtry.sh <seed-id|clean> <Cxx> [search|correspondence] [deep]   : run one plugin function against a scratch copy of /repo with the seeded patch
seed=$1; pid=$2; fn=${3:-search}; deep=${4:-false}
d=/tmp/seedtry_$$; rm -rf $d; mkdir -p $d
git -C /repo archive HEAD | tar -x -C $d
if [ "$seed" != "clean" ]; then (cd $d && git apply /verif/seeded/$seed/patch.diff) || exit 2; fi
lc=$(echo $pid | tr 'A-Z' 'a-z')
echo "{\"tier\":\"quick\",\"seed\":1,\"deep\":$deep,\"model_ok\":true,\"pid\":\"$pid\"}" | VERIF_REPO=$d PYTHONPATH=$d PYTHONHASHSEED=0 /venv/bin/python /verif/tools/props/$lc.py $fn | python3 -c "
import json,sys
d=json.load(sys.stdin)
print('evaluations', d.get('evaluations'), 'failures', len(d.get('failures',[])), 'mismatches', len(d.get('mismatches',[])), 'known', len(d.get('known_hits',[])))
for f in (d.get('failures') or d.get('mismatches') or [])[:3]: print(json.dumps(f,default=str)[:700])
"
rm -rf $d
