#!/usr/bin/env python3
"""Print the markdown table of /verif/seeded/RESULTS.json (which checks catch which seeded changes)."""
import json
import os
import sys

COMPACT = "--compact" in sys.argv

ROOT = os.path.join(os.path.dirname(os.path.abspath(__file__)), "..", "seeded")
res = json.load(open(os.path.join(ROOT, "RESULTS.json")))
if COMPACT:
    print("| seed | change (file: what) | owner check | also caught by |")
    print("|---|---|---|---|")
else:
    print("| seed | change (file: what) | needs | owner check | failing input reported by the owner check | also caught by |")
    print("|---|---|---|---|---|---|")
for sid in sorted(res):
    r = res[sid]
    meta = json.load(open(os.path.join(ROOT, sid, "meta.json"))) if os.path.exists(os.path.join(ROOT, sid, "meta.json")) else {}
    owner = r.get("property")
    oc = r.get("checks", {}).get(owner, {})
    kind = oc.get("kind") or ("not caught" if oc.get("exit") == 0 else "?")
    if meta.get("retired"):
        kind += " (before repair 11e54a8; since then this change no longer breaks the property: retired)"
    inp = ""
    if oc.get("replay"):
        i = oc["replay"].get("input") or oc["replay"].get("what_no_longer_checks") or oc["replay"].get("truncated") or ""
        if isinstance(i, dict):
            i = "; ".join(f"{k}={str(v)[:70]}" for k, v in list(i.items())[:4])
        inp = str(i).replace("|", "\\|").replace("\n", " ")[:230]
    others = [p for p in r.get("caught_by", []) if p != owner]
    title = (meta.get("title") or "")[:90].replace("|", "\\|")
    needs = (meta.get("needs") or "")[:110].replace("|", "\\|").replace("\n", " ")
    files = ",".join(os.path.basename(f) for f in r.get("files", []))
    if COMPACT:
        print(f"| {sid} | {files}: {title[:80]} | {kind} | {' '.join(others)} |")
    else:
        print(f"| {sid} | {files}: {title} | {needs} | {kind} | {inp} | {' '.join(others)} |")
