"""Encoding of implementation objects (predicates, input values) as terms of the Coq model, plus the
concrete `world` used when the model is executed next to the implementation.

Runs under /venv/bin/python with PYTHONPATH=/repo."""
from __future__ import annotations

import collections.abc
import datetime
import math
import uuid
from fractions import Fraction

import predicate as P
from predicate import predicate as PP
from predicate.all_predicate import AllPredicate
from predicate.any_predicate import AnyPredicate
from predicate.comp_predicate import CompPredicate
from predicate.has_key_predicate import HasKeyPredicate
from predicate.has_length_predicate import HasLengthPredicate
from predicate.is_instance_predicate import IsInstancePredicate
from predicate.lazy_predicate import LazyPredicate
from predicate.named_predicate import NamedPredicate
from predicate.property_predicate import PropertyPredicate
from predicate.range_predicate import GeLePredicate, GeLtPredicate, GtLePredicate, GtLtPredicate
from predicate.regex_predicate import RegexPredicate
from predicate.root_predicate import RootPredicate
from predicate.set_of_predicate import SetOfPredicate
from predicate.set_predicates import (InPredicate, IsRealSubsetPredicate, IsRealSupersetPredicate, IsSubsetPredicate,
                                      IsSupersetPredicate, NotInPredicate)
from predicate.tee_predicate import TeePredicate
from predicate.this_predicate import ThisPredicate


class Unencodable(Exception):
    pass


# class ids of the isinstance table (must match the order used in world_text)
CLASS_LIST = [bool, int, float, complex, str, type(None), list, tuple, set, dict, datetime.datetime, uuid.UUID, range,
              collections.abc.Callable, collections.abc.Container, collections.abc.Iterable, collections.abc.Hashable,
              PP.Predicate, object]
KINDS = ["KBool", "KInt", "KFloat", "KComplex", "KStr", "KNone", "KList", "KTuple", "KSet", "KDict", "KDatetime", "KUuid",
         "KRange", "KFunction", "KPredicate", "KObject"]
KIND_SAMPLES = {"KBool": True, "KInt": 3, "KFloat": 2.5, "KComplex": 1j, "KStr": "s", "KNone": None, "KList": [1],
                "KTuple": (1,), "KSet": {1}, "KDict": {1: 2}, "KDatetime": datetime.datetime(2020, 1, 1),
                "KUuid": uuid.UUID(int=5), "KRange": range(3), "KFunction": (lambda x: x), "KPredicate": PP.always_true_p,
                "KObject": object()}


def kind_of(x) -> str:
    t = type(x)
    for k, s in KIND_SAMPLES.items():
        if t is type(s):
            return k
    if isinstance(x, PP.Predicate):
        return "KPredicate"
    if callable(x):
        return "KFunction"
    return "KObject"


# model-definable test functions for fn_p atoms: python callable and its Gallina text over `x : val`
def _num(x):
    return isinstance(x, (int, float)) and not isinstance(x, complex)


FN_LIB = [
    (lambda x: _num(x) and x > 2,
     "match x with VQ (KBool|KInt|KFloat) q _ => Some (Qlt_bool (2#1) q) | _ => Some false end"),
    (lambda x: x < 0,
     "match x with VQ _ q _ => Some (Qlt_bool q 0) | _ => None end"),
    (lambda x: True, "Some true"),
    (lambda x: isinstance(x, bool),
     "Some (match x with VQ KBool _ _ => true | VOther KBool _ _ => true | _ => false end)"),
    (lambda x: x is None or x == 1,
     "Some (match x with VNone => true | VQ _ q _ => Qeq_bool q 1 | _ => false end)"),
]
for _i, (_f, _t) in enumerate(FN_LIB):
    _f.__name__ = f"fnlib{_i}"
# comp_p functions
COMP_LIB = [
    (lambda x: len(x), "match x with VColl _ items => Some (VQ KInt (inject_Z (Z.of_nat (List.length items))) (match items with [] => false | _ => true end)) | _ => None end"),
    (lambda x: x, "Some x"),
]
for _i, (_f, _t) in enumerate(COMP_LIB):
    _f.__name__ = f"complib{_i}"


class Ctx:
    """one encoding context: maps constants to Q, names/functions/patterns to ids"""

    def __init__(self, strings: list[str] | None = None):
        # strings, when the tree's constant sort is str: order-preserving embedding by rank
        self.strrank = {s: i for i, s in enumerate(sorted(set(strings)))} if strings else None
        self.fn_ids = {id(f): i for i, (f, _) in enumerate(FN_LIB)}
        self.comp_ids = {id(f): i for i, (f, _) in enumerate(COMP_LIB)}
        self.other_ids: dict = {}
        self.regex_ids: dict = {}
        self.self_ids: dict = {}

    def q(self, v) -> str:
        if isinstance(v, bool):
            v = int(v)
        if isinstance(v, int):
            return f"({v}#1)" if v >= 0 else f"(-{-v}#1)"
        if isinstance(v, float):
            if not math.isfinite(v):
                raise Unencodable(f"non-finite constant {v}")
            fr = Fraction(v)
            n, d = fr.numerator, fr.denominator
            return f"({n}#{d})" if n >= 0 else f"(-{-n}#{d})"
        if self.strrank is not None and not isinstance(v, (bool, int, float)) and _hashable(v) and v in self.strrank:
            return f"({self.strrank[v]}#1)"
        raise Unencodable(f"constant {v!r} is not of the tree's ordered sort")

    def is_const(self, v) -> bool:
        try:
            self.q(v)
            return True
        except Unencodable:
            return False

    def qset(self, s) -> str:
        for v in s:
            if not self.is_const(v):
                raise Unencodable(f"set element {v!r} is not of the tree's ordered sort")
        items = sorted(s, key=lambda v: (Fraction(v) if isinstance(v, (bool, int, float)) else self.strrank[v]))
        return "[" + "; ".join(self.q(v) for v in items) + "]"

    def other(self, x) -> int:
        key = (type(x).__name__, repr(x))
        return self.other_ids.setdefault(key, len(self.other_ids))

    def fn(self, f) -> int:
        if id(f) not in self.fn_ids:
            raise Unencodable(f"function {f!r} is not in the model's function library")
        return self.fn_ids[id(f)]

    def val(self, x) -> str:
        t = "true" if _truthy(x) else "false"
        if x is None:
            return "VNone"
        k = kind_of(x)
        if k in ("KBool", "KInt", "KFloat") and self.strrank is None:
            if isinstance(x, float) and not math.isfinite(x):
                return f"(VOther KFloat {self.other(x)}%nat {t})"
            return f"(VQ {k} {self.q(x)} {t})"
        if self.strrank is not None and k in ("KStr", "KDatetime", "KUuid") and x in self.strrank:
            return f"(VQ {k} {self.q(x)} {t})"
        if k == "KStr":
            return "(VColl KStr [" + "; ".join(f"(VOther KStr {self.other(c)}%nat true)" for c in x) + "])"
        if k in ("KList", "KTuple", "KSet", "KDict", "KRange"):
            items = list(x)
            if k in ("KSet",):
                items = sorted(items, key=repr)
            return f"(VColl {k} [" + "; ".join(self.val(i) for i in items) + "])"
        return f"(VOther {k} {self.other(x)}%nat {t})"

    def pred(self, p) -> str:
        T = type(p)
        if T is PP.AlwaysTruePredicate:
            return "PTrue"
        if T is PP.AlwaysFalsePredicate:
            return "PFalse"
        if T is NamedPredicate:
            return f'(PNamed "{p.name}"%string)'
        if T is PP.FnPredicate:
            return f"(PFn {self.fn(p.predicate_fn)}%nat)"
        if T in (PP.AndPredicate, PP.OrPredicate, PP.XorPredicate):
            c = {PP.AndPredicate: "PAnd", PP.OrPredicate: "POr", PP.XorPredicate: "PXor"}[T]
            return f"({c} {self.pred(p.left)} {self.pred(p.right)})"
        if T is PP.NotPredicate:
            return f"(PNot {self.pred(p.predicate)})"
        one = {PP.EqPredicate: "PEq", PP.NePredicate: "PNe", PP.GePredicate: "PGe", PP.GtPredicate: "PGt",
               PP.LePredicate: "PLe", PP.LtPredicate: "PLt"}
        if T in one:
            return f"({one[T]} {self.q(p.v)})"
        rng = {GeLePredicate: "PGeLe", GeLtPredicate: "PGeLt", GtLePredicate: "PGtLe", GtLtPredicate: "PGtLt"}
        if T in rng:
            return f"({rng[T]} {self.q(p.lower)} {self.q(p.upper)})"
        sets = {InPredicate: "PIn", NotInPredicate: "PNotIn", IsSubsetPredicate: "PSubset",
                IsRealSubsetPredicate: "PRealSubset", IsSupersetPredicate: "PSuperset",
                IsRealSupersetPredicate: "PRealSuperset"}
        if T in sets:
            return f"({sets[T]} {self.qset(p.v)})"
        if T is IsInstancePredicate:
            ks = p.klass if isinstance(p.klass, tuple) else (p.klass,)
            ids = []
            for k in ks:
                k = getattr(k, "__origin__", k)      # typing.Hashable -> collections.abc.Hashable
                if k not in CLASS_LIST:
                    raise Unencodable(f"class {k} not in the class table")
                ids.append(str(CLASS_LIST.index(k)) + "%nat")
            return f"(PIsInstance [{'; '.join(ids)}])"
        zero = {PP.IsNonePredicate: "PIsNone", PP.IsNotNonePredicate: "PIsNotNone", PP.IsFalsyPredicate: "PIsFalsy",
                PP.IsTruthyPredicate: "PIsTruthy", PP.IsEmptyPredicate: "PIsEmpty", PP.IsNotEmptyPredicate: "PIsNotEmpty"}
        if T in zero:
            return zero[T]
        if T is AllPredicate:
            return f"(PAll {self.pred(p.predicate)})"
        if T is AnyPredicate:
            return f"(PAny {self.pred(p.predicate)})"
        if T is SetOfPredicate:
            return f"(PSetOf {self.pred(p.predicate)})"
        if T is HasKeyPredicate:
            return f"(PHasKey {self.q(p.key)})"
        if T is HasLengthPredicate:
            return f"(PHasLength {self.q(p.length)})"
        if T is RegexPredicate:
            i = self.regex_ids.setdefault(p.pattern, len(self.regex_ids))
            return f"(PRegex {i}%nat {p.flags}%nat)"
        if T is TeePredicate:
            return f"(PTee {self.fn(p.fn)}%nat)"
        if T is PropertyPredicate:
            return f"(PProperty {self.fn(p.getter)}%nat)"
        if T is CompPredicate:
            if id(p.fn) not in self.comp_ids:
                raise Unencodable("comp function not in library")
            return f"(PComp {self.comp_ids[id(p.fn)]}%nat {self.pred(p.predicate)})"
        if T is LazyPredicate:
            return f'(PLazy "{p.ref}"%string)'
        if T is ThisPredicate:
            return f"(PThis {self.self_ids.setdefault(id(p), len(self.self_ids))}%nat)"
        if T is RootPredicate:
            return f"(PRoot {self.self_ids.setdefault(id(p), len(self.self_ids))}%nat)"
        raise Unencodable(f"predicate class {T.__name__} is not in the model")


def _hashable(x) -> bool:
    try:
        hash(x)
        return True
    except TypeError:
        return False


def _truthy(x) -> bool:
    try:
        return bool(x)
    except Exception:  # noqa: BLE001
        return True


def isinst_table_text() -> str:
    rows = []
    for k in KINDS:
        s = KIND_SAMPLES[k]
        rows.append("[" + "; ".join("true" if isinstance(s, c) else "false" for c in CLASS_LIST) + "]")
    return "[" + ";\n   ".join(rows) + "]"


def world_text(env_true: list[str] | None = None) -> str:
    """Gallina text defining W0 : world (isinstance table recorded from CPython, the function library)"""
    env_true = env_true or []
    env_body = " || ".join(f'String.eqb n "{n}"' for n in env_true) or "false"
    fn_cases = "\n".join(f"    | {i}%nat => {t}" for i, (_, t) in enumerate(FN_LIB))
    comp_cases = "\n".join(f"    | {i}%nat => {t}" for i, (_, t) in enumerate(COMP_LIB))
    kidx = "\n".join(f"    | {k} => {i}%nat" for i, k in enumerate(KINDS))
    return f"""
Definition kind_idx (k : kind) : nat :=
  match k with
{kidx}
  end.
Definition isinst_tbl : list (list bool) :=
  {isinst_table_text()}.
Definition W0 : world := {{|
  env := fun n => {env_body};
  isinst := fun k c => nth c (nth (kind_idx k) isinst_tbl []) false;
  fn_sem := fun f x => match f with
{fn_cases}
    | _ => None end;
  comp_sem := fun f x => match f with
{comp_cases}
    | _ => None end;
  regex_sem := fun _ _ _ => None;
  lazy_sem := fun _ _ => None;
  self_sem := fun _ _ => None |}}.
"""


CASE_HEADER = """From Coq Require Import QArith Bool List Arith String ZArith.
From PP Require Import Prelude.Base Prelude.Val Prelude.Pred Prelude.Sem Prelude.Corr Gen.Negate Gen.Implies Gen.Optimize.
Import ListNotations.
Open Scope Q_scope.
"""
