"""Term generators shared by the correspondence runs and the failing-input searches."""
from __future__ import annotations

import itertools
import random

import predicate as P
from predicate import predicate as PP
from predicate.named_predicate import NamedPredicate
from predicate.set_predicates import (in_p, is_real_subset_p, is_real_superset_p, is_subset_p, is_superset_p, not_in_p)
from predicate.standard_predicates import (all_p, any_p, eq_p, fn_p, ge_le_p, ge_lt_p, ge_p, gt_le_p, gt_lt_p, gt_p,
                                           has_length_p, is_bool_p, is_falsy_p, is_float_p, is_instance_p, is_int_p,
                                           is_none_p, is_not_none_p, is_str_p, is_truthy_p, le_p, lt_p, ne_p)

from enc import FN_LIB

always_true_p, always_false_p = PP.always_true_p, PP.always_false_p


def mk(op, *args):
    if op == "and":
        return PP.AndPredicate(left=args[0], right=args[1])
    if op == "or":
        return PP.OrPredicate(left=args[0], right=args[1])
    if op == "xor":
        return PP.XorPredicate(left=args[0], right=args[1])
    if op == "not":
        return PP.NotPredicate(predicate=args[0])
    raise ValueError(op)


def trees(leaves: list, n: int, memo=None):
    """all trees with exactly n nodes over the given leaves and &,|,^,~ (fresh objects each time)"""
    if memo is None:
        memo = {}
    if n in memo:
        return memo[n]
    out = []
    if n == 1:
        out = [("leaf", i) for i in range(len(leaves))]
    else:
        for t in trees(leaves, n - 1, memo):
            out.append(("not", t))
        for k in range(1, n - 1):
            for a in trees(leaves, k, memo):
                for b in trees(leaves, n - 1 - k, memo):
                    for op in ("and", "or", "xor"):
                        out.append((op, a, b))
    memo[n] = out
    return out


def build(shape, leaves):
    if shape[0] == "leaf":
        return leaves[shape[1]]()
    if shape[0] == "not":
        return mk("not", build(shape[1], leaves))
    return mk(shape[0], build(shape[1], leaves), build(shape[2], leaves))


def prop_leaves(names):
    return [lambda n=n: NamedPredicate(name=n) for n in names] + [lambda: always_true_p, lambda: always_false_p]


def all_prop_trees(max_nodes: int, names):
    leaves = prop_leaves(names)
    memo: dict = {}
    for n in range(1, max_nodes + 1):
        for shape in trees(leaves, n, memo):
            yield shape, build(shape, leaves)


def random_shape(rng: random.Random, nleaves: int, depth: int):
    if depth == 0 or rng.random() < 0.25:
        return ("leaf", rng.randrange(nleaves))
    r = rng.random()
    if r < 0.2:
        return ("not", random_shape(rng, nleaves, depth - 1))
    op = rng.choice(("and", "or", "xor"))
    return (op, random_shape(rng, nleaves, depth - 1), random_shape(rng, nleaves, depth - 1))


CONSTS = [0, 1, 2, 3, 5]


def scalar_atom_makers(consts=CONSTS, with_fn=True):
    mk_ = []
    for c in consts:
        for f in (eq_p, ne_p, ge_p, gt_p, le_p, lt_p):
            mk_.append(lambda f=f, c=c: f(c))
    for a, b in itertools.combinations_with_replacement(consts[:4], 2):
        for f in (ge_le_p, ge_lt_p, gt_le_p, gt_lt_p):
            mk_.append(lambda f=f, a=a, b=b: f(a, b))
    for s in ((), (1,), (1, 2), (2, 3), (0, 1, 2, 3)):
        mk_.append(lambda s=s: in_p(*s))
        mk_.append(lambda s=s: not_in_p(*s))
    for p in (is_none_p, is_not_none_p, is_falsy_p, is_truthy_p, is_int_p, is_bool_p, is_float_p, is_str_p,
              always_true_p, always_false_p):
        mk_.append(lambda p=p: p)
    mk_.append(lambda: is_instance_p(int, str))
    mk_.append(lambda: is_instance_p(str, int))
    if with_fn:
        for f, _ in FN_LIB:
            mk_.append(lambda f=f: fn_p(f))
    return mk_


SCALAR_VALUES = [None, True, False, 0, 1, 2, 3, 4, 5, 6, -1, 0.5, 1.5, 2.0, 2.5, 3.0, 4.5, 7.25, "a", "", (1,), 1j]


def coll_atom_makers(elem_makers):
    out = []
    for m in elem_makers:
        out.append(lambda m=m: all_p(m()))
        out.append(lambda m=m: any_p(m()))
    for p in (PP.is_empty_p, PP.is_not_empty_p, always_true_p, always_false_p):
        out.append(lambda p=p: p)
    for n in (0, 1, 2):
        out.append(lambda n=n: has_length_p(n))
    return out


def set_atom_makers():
    out = []
    for s in (set(), {1}, {1, 2}, {2, 3}, {3}, {1, 2, 3}):
        for f in (is_subset_p, is_real_subset_p, is_superset_p, is_real_superset_p):
            out.append(lambda f=f, s=s: f(set(s)))
    return out

# re-exported for plugins
all_p = all_p
any_p = any_p


# ---------------------------------------------------------------------------------------------------------------
# "twins": predicates that PRINT alike but mean different things (repr hides the constant's type, all but the first class,
# the function).  Anything keyed on repr() - a cache, a dedupe, a lookup - confuses them; the searches run their
# operations on both members of a twin in sequence, in both orders, in one process.
# ---------------------------------------------------------------------------------------------------------------
def _closure(n):
    return lambda x: isinstance(x, (int, float)) and not isinstance(x, bool) and x > n


def _default(n):
    def above(x, n=n):
        return isinstance(x, (int, float)) and not isinstance(x, bool) and x > n
    return above


def twin_makers():
    """[(make_a, make_b)]: repr(make_a()) == repr(make_b()) for the constant/class/function twins, a() != b() semantically"""
    from predicate.standard_predicates import comp_p, is_instance_p
    out = []
    for f in (eq_p, ne_p, ge_p, gt_p, le_p, lt_p):
        out.append((lambda f=f: f(2), lambda f=f: f("2")))
    out.append((lambda: in_p(7), lambda: in_p("7")))
    out.append((lambda: not_in_p(7), lambda: not_in_p("7")))
    out.append((lambda: in_p(2, 3), lambda: in_p("2", "3")))
    out.append((lambda: eq_p(None), lambda: eq_p("None")))
    out.append((lambda: ne_p(None), lambda: ne_p("None")))
    out.append((lambda: eq_p(1), lambda: eq_p("1")))
    out.append((lambda: is_instance_p(int), lambda: is_instance_p(int, str)))
    out.append((lambda: comp_p(len, eq_p(2)), lambda: comp_p(sum, eq_p(2))))
    out.append((lambda: fn_p(_closure(2)), lambda: fn_p(_closure(100))))
    out.append((lambda: fn_p(_default(2)), lambda: fn_p(_default(100))))
    return out


TWIN_VALUES = [None, True, False, 0, 1, 2, 3, 7, 50, 101, 2.0, 2.5, "1", "2", "3", "7", "None", "a", "", [2], [1, 1], (2, 0), [], (),
               [7], ["2", "2"]]


# ---------------------------------------------------------------------------------------------------------------
# LARGE / PRECISE parameters (beyond the small grids): sets of 30-100 consecutive ints, ints beyond 2**64 and the float range,
# floats one ulp apart, sets that share only a boundary element.  Search only (outside the model's small rational grid).
# ---------------------------------------------------------------------------------------------------------------
def big_atom_makers():
    from predicate.standard_predicates import ge_le_p, gt_lt_p
    from predicate.set_predicates import is_subset_p, is_superset_p
    mk_ = [lambda: in_p(*range(3, 41)), lambda: not_in_p(*range(1900, 2000)), lambda: in_p(*range(64)), lambda: in_p(*range(40)), lambda: in_p(*range(32)),
           lambda: not_in_p(*range(40)), lambda: in_p(*range(65)), lambda: in_p(*range(0, 12)), lambda: in_p(*range(10, 25)), lambda: in_p(*range(1024, 1100)),
           lambda: ge_le_p(0, 2 ** 70), lambda: ge_p(5), lambda: gt_p(1.5), lambda: ge_le_p(0.0, 1e30), lambda: gt_lt_p(-2 ** 70, 0), lambda: le_p(-3),
           lambda: eq_p(0.1 + 0.2), lambda: eq_p(0.3), lambda: ne_p(0.3), lambda: eq_p(1e16), lambda: eq_p(1e16 + 2.0), lambda: eq_p(10 ** 16 + 1),
           lambda: eq_p(10 ** 309), lambda: ne_p(10 ** 309), lambda: ne_p(2.0 ** 64), lambda: eq_p(3e9), lambda: eq_p(3000000001), lambda: ge_p(2 ** 64),
           lambda: lt_p(2 ** 64 + 1), lambda: ge_le_p(2 ** 53 + 1, 1e17)]
    sets_ = [lambda: is_subset_p(set(range(0, 41))), lambda: is_subset_p(set(range(40, 81))), lambda: is_superset_p(set(range(0, 33))),
             lambda: is_subset_p(set(range(0, 35)))]
    return mk_, sets_


BIG_VALUES = [3.5, 3, 40, 41, 32, 31, 63, 64, 65, 39, 2000, 1999, 1899, 2 ** 64, 1e19, -(2 ** 64), 0.1 + 0.2, 0.3, 1e16, 1e16 + 2.0, 10 ** 16 + 1, 2.0 ** 64 + 4096,
              10 ** 309, 2 ** 53, 2 ** 53 + 1, 3e9, 3000000001, 0, 5, -3, 11, 24, 1100, 1024, 1e30, 2 ** 70]
BIG_SETS = [{40}, set(), {0, 40}, {41}, set(range(0, 41)), set(range(40, 81)), {39, 40}, set(range(0, 33)), set(range(0, 34))]
