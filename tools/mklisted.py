#!/usr/bin/env python3
"""tools/mklisted.py Cxx  (run under /venv/bin/python with PYTHONPATH=/repo, on the REVIEWED tree only)

Enumerates the property's full deterministic input family on the current implementation, finds the members on which
optimize() changes the answer, attributes each through the model's taint trace, and - only if every one of them is
explained by findings listed in known_findings.json for that property - writes tools/props/listed/Cxx.json.
The checks read that file and never write it: a family member that fails and is not listed is reported as a violation."""
import importlib
import itertools
import json
import os
import sys

HERE = os.path.dirname(os.path.abspath(__file__))
sys.path.insert(0, os.path.join(HERE, "props"))
pid = sys.argv[1]
sys.argv = [sys.argv[0], "none"]
from common import call, vlib  # noqa: E402
import optcommon as oc  # noqa: E402

mod = importlib.import_module(pid.lower())
trees, points, assignments = mod.full_family()
known_ids = {k["id"] for k in vlib.load_known().get("findings", []) if pid in k.get("properties", [])}
fails = []
for p in trees:
    try:
        q = oc.optimize(p)
    except Exception:  # noqa: BLE001
        continue
    if assignments:
        ns = oc.names_of(p)
        pts = [dict(zip(ns, bits)) for bits in itertools.product([False, True], repeat=len(ns))]
    else:
        pts = points
    for x in pts:
        if assignments:
            oc.set_names(p, x)
            oc.set_names(q, x)
            kp, rp = call(p, False)
            kq, rq = call(q, False)
        else:
            if not oc.atoms_defined(p, x):
                continue
            kp, rp = call(p, x)
            if kp != "ok":
                continue
            kq, rq = call(q, x)
        if kq != "ok" or bool(rq) != bool(rp):
            fails.append((p, q, x))
            break
print(f"{pid}: family {len(trees)} members, {len(fails)} failing")
out, bad = {}, []
enc_ok = [(p, q, x) for p, q, x in fails if oc.encodable(p) and oc.encodable(q) and oc.skey(p) is not None]
for p, q, x in fails:
    if (p, q, x) not in enc_ok:
        bad.append((repr(p), "not encodable / no stable key"))
rows = oc.model_run([p for p, _, _ in enc_ok], [q for _, q, _ in enc_ok], pid.lower() + "l") if enc_ok else []
for (p, q, x), r in zip(enc_ok, rows):
    tr = sorted(set(r[1:]))
    if r[0] != 0 or not tr or not set(tr) <= known_ids:
        bad.append((repr(p), f"x={x!r} model status {r[0]} trace {tr}: NOT explained by the listed findings"))
    else:
        out[oc.skey(p)] = tr
if bad:
    print("REFUSING to write: failing family members that the listed findings do not explain:")
    for b in bad[:20]:
        print("  ", b)
    sys.exit(1)
os.makedirs(oc.LISTED_DIR, exist_ok=True)
path = os.path.join(oc.LISTED_DIR, pid + ".json")
json.dump({"property": pid, "family": mod.full_family.__doc__.strip(), "members": len(trees),
           "failing": dict(sorted(out.items()))}, open(path, "w"), indent=0)
print("wrote", path, len(out))
