#!/bin/sh
# seedintake.sh Cxx : copy /tmp/seed_out/Cxx/{1,2,3} to /verif/seeded/Cxx-k/ (patch.diff, demo.py, meta.json)
pid=$1
for k in 1 2 3 4 5; do
  src=/tmp/seed_out/$pid/$k
  [ -f $src/patch.diff ] || continue
  dst=/verif/seeded/$pid-$k
  mkdir -p $dst
  cp $src/patch.diff $src/demo.py $src/meta.json $dst/ 2>/dev/null
done
ls /verif/seeded | grep "^$pid-"
