#!/bin/sh
# seedintake.sh Cxx [srcroot=/tmp/seed_out] [offset=0] : copy <srcroot>/Cxx/{1..5} to /verif/seeded/Cxx-(k+offset)/ (patch.diff, demo.py, meta.json)
pid=$1; root=${2:-/tmp/seed_out}; off=${3:-0}
for k in 1 2 3 4 5; do
  src=$root/$pid/$k
  [ -f $src/patch.diff ] || continue
  dst=/verif/seeded/$pid-$((k+off))
  mkdir -p $dst
  cp $src/patch.diff $src/demo.py $src/meta.json $dst/ 2>/dev/null
done
ls /verif/seeded | grep "^$pid-" | tr '\n' ' '
