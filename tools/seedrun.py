#!/usr/bin/env python3
"""Run the checks against a seeded change WITHOUT touching /repo or /verif.

  tools/seedrun.py <dir with patch.diff [demo.py meta.json]> [--checks C01,C05 | --checks related | --checks all]
  tools/seedrun.py --all [--jobs 4] [--checks related]      (every /verif/seeded/*/, results in /verif/seeded/RESULTS.json)

For every seeded change: a scratch copy of /repo at HEAD gets the patch; the unedited test suite must pass on it; demo.py must
exit 0 on the clean copy and 1 on the patched one; then the chosen checks run from a scratch COPY of /verif (so evidence and
Gen/ of the real /verif are left alone) with VERIF_REPO pointing at the patched copy.  Everything lives under a fresh
temporary directory that is removed afterwards.  The sanctioned in-place procedure (git -C /repo apply ...; ./check ...;
git -C /repo checkout -- .) gives the same verdicts; this runner exists so that several changes can be tried in parallel."""
import argparse
import concurrent.futures as cf
import json
import os
import re
import shutil
import subprocess
import sys
import tempfile
import time

VERIF = os.path.abspath(os.path.join(os.path.dirname(__file__), ".."))
REPO = "/repo"
PY = "/venv/bin/python"


def sh(cmd, cwd=None, env=None, timeout=3600):
    r = subprocess.run(cmd, shell=True, cwd=cwd, env=env, capture_output=True, text=True, timeout=timeout, check=False)
    return r.returncode, r.stdout + r.stderr


def anchors():
    out = {}
    for line in open(os.path.join(VERIF, "properties.jsonl")):
        d = json.loads(line)
        out[d["id"]] = set(d.get("anchors", {}).get("files", []))
    return out


def related_checks(patch_text, owner):
    files = set(re.findall(r"^\+\+\+ b/(\S+)", patch_text, flags=re.M))
    rel = {owner} if owner else set()
    anchored = set()
    for pid, fs in anchors().items():
        if files & fs:
            rel.add(pid)
            anchored |= files & fs
    if files - anchored:            # a touched file that no property is anchored in (e.g. dict_of_predicate.py): any check may be the one that notices
        return sorted(anchors())
    return sorted(rel)


def run_one(sdir, checks_arg, keep=False):
    sdir = os.path.abspath(sdir)
    meta = json.load(open(os.path.join(sdir, "meta.json"))) if os.path.exists(os.path.join(sdir, "meta.json")) else {}
    owner = meta.get("property")
    patch = os.path.join(sdir, "patch.diff")
    patch_text = open(patch).read()
    if meta.get("retired"):        # the change no longer breaks the property on the current tree (see meta.json): keep the recorded result
        return None
    tmp = tempfile.mkdtemp(prefix="seedrun_")
    res = {"seed": os.path.basename(sdir), "property": owner, "files": sorted(set(re.findall(r"^\+\+\+ b/(\S+)", patch_text, flags=re.M)))}
    try:
        clean, mut, vcopy = os.path.join(tmp, "clean"), os.path.join(tmp, "repo"), os.path.join(tmp, "verif")
        for d in (clean, mut):
            rc, out = sh(f"git -C {REPO} archive HEAD | (mkdir -p {d} && tar -x -C {d})")
            if rc:
                raise RuntimeError(out)
        sh("git init -q . && git add -A && git -c user.email=x@x -c user.name=x commit -qm base", cwd=mut)
        rc, out = sh(f"git apply {patch}", cwd=mut)
        res["applies"] = rc == 0
        if rc:
            res["apply_error"] = out[-500:]
            return res
        env = dict(os.environ, PYTHONPATH=mut, PYTHONHASHSEED="0")
        rc, out = sh(f"{PY} -m pytest -q -p no:cacheprovider -x --timeout=900 2>&1 | tail -3", cwd=mut, env=env)
        m = re.search(r"(\d+) passed", out)
        res["tests"] = out.strip().splitlines()[-1] if out.strip() else ""
        res["tests_pass"] = bool(m) and "failed" not in out and "error" not in out.lower() and int(m.group(1)) >= 582
        demo = os.path.join(sdir, "demo.py")
        if os.path.exists(demo):
            rc0, _ = sh(f"{PY} {demo}", cwd=tmp, env=dict(os.environ, PYTHONPATH=clean, PYTHONHASHSEED="0"), timeout=900)
            rc1, o1 = sh(f"{PY} {demo}", cwd=tmp, env=env, timeout=900)
            res["demo_clean_exit"], res["demo_patched_exit"] = rc0, rc1
            res["demo_output_tail"] = o1[-600:]
        shutil.copytree(VERIF, vcopy, ignore=shutil.ignore_patterns(".git", "replays", "seeded"))
        if checks_arg == "all":
            checks = sorted(anchors())
        elif checks_arg == "related":
            checks = related_checks(patch_text, owner)
        else:
            checks = checks_arg.split(",")
        res["checks"] = {}
        for pid in checks:
            t0 = time.time()
            try:
                rc, out = sh(f"./check {pid}", cwd=vcopy, env=dict(os.environ, VERIF_REPO=mut, PYTHONHASHSEED="0"), timeout=3600)
            except subprocess.TimeoutExpired:
                rc, out = 124, "timeout"
            vio = [l for l in out.splitlines() if l.startswith("VIOLATION")]
            entry = {"exit": rc, "wall_s": round(time.time() - t0, 1), "violation": vio[0] if vio else None,
                     "summary": (out.strip().splitlines() or [""])[-1][:300]}
            if vio:
                m = re.search(r"replay=(\S+)", vio[0])
                if m and os.path.exists(m.group(1)):
                    rp = json.load(open(m.group(1)))
                    entry["kind"] = rp.get("kind")
                    entry["replay"] = {k: rp[k] for k in ("input", "what_no_longer_checks", "broken_kind", "broken") if k in rp}
                    entry["replay"] = json.loads(json.dumps(entry["replay"], default=str)[:3000]) if len(json.dumps(entry["replay"], default=str)) <= 3000 else {"truncated": json.dumps(entry["replay"], default=str)[:1500]}
            res["checks"][pid] = entry
        if owner in res["checks"]:
            res["caught_by_owner"] = res["checks"][owner]["exit"] == 1 and res["checks"][owner]["violation"] is not None
        res["caught_by"] = [p for p, e in res["checks"].items() if e["exit"] == 1 and e["violation"]]
        return res
    finally:
        if not keep:
            shutil.rmtree(tmp, ignore_errors=True)


def main():
    ap = argparse.ArgumentParser()
    ap.add_argument("dir", nargs="?")
    ap.add_argument("--all", action="store_true")
    ap.add_argument("--only", default="")
    ap.add_argument("--checks", default="related")
    ap.add_argument("--jobs", type=int, default=3)
    ap.add_argument("--keep", action="store_true")
    a = ap.parse_args()
    if not a.all:
        print(json.dumps(run_one(a.dir, a.checks, a.keep), indent=1))
        return
    root = os.path.join(VERIF, "seeded")
    dirs = sorted(os.path.join(root, d) for d in os.listdir(root) if os.path.exists(os.path.join(root, d, "patch.diff")))
    if a.only:
        dirs = [d for d in dirs if re.search(a.only, os.path.basename(d))]
    rpath = os.path.join(root, "RESULTS.json")
    results = json.load(open(rpath)) if os.path.exists(rpath) else {}
    with cf.ThreadPoolExecutor(a.jobs) as ex:
        futs = {ex.submit(run_one, d, a.checks): d for d in dirs}
        for f in cf.as_completed(futs):
            d = futs[f]
            try:
                r = f.result()
            except Exception as e:  # noqa: BLE001
                r = {"seed": os.path.basename(d), "error": repr(e)}
            if r is None:            # retired seed: the recorded result stays
                print(os.path.basename(d), "retired (kept as recorded)", flush=True)
                continue
            results[os.path.basename(d)] = r
            print(os.path.basename(d), "caught_by", r.get("caught_by"), "tests_pass", r.get("tests_pass"),
                  "demo", r.get("demo_clean_exit"), r.get("demo_patched_exit"), flush=True)
            json.dump(dict(sorted(results.items())), open(rpath, "w"), indent=1)


if __name__ == "__main__":
    main()
