#!/usr/bin/env python3
"""Writes /verif/MANIFEST.json from tools/props/meta.json (claimed checks) and properties.jsonl."""
import json
import os

HERE = os.path.dirname(os.path.abspath(__file__))
ROOT = os.path.join(HERE, "..")
meta = json.load(open(os.path.join(HERE, "props", "meta.json")))
props = [json.loads(line)["id"] for line in open(os.path.join(ROOT, "properties.jsonl"))]
kf = json.load(open(os.path.join(ROOT, "known_findings.json"))) if os.path.exists(os.path.join(ROOT, "known_findings.json")) else {}

checks = []
for pid in props:
    if pid not in meta or meta[pid].get("disabled"):
        continue
    m = meta[pid]
    checks.append({
        "property_id": pid,
        "quick_cmd": f"./check {pid} --tier quick",
        "thorough_cmd": f"./check {pid} --tier thorough",
        "evidence_file": f"/verif/evidence/{pid}.json",
        "replay_cmd_template": f"./check {pid} --replay {{path}}",
        "engine": "coq-model",
        "level_claimed": {"category": "proof", "text": m["level_text"], "design_ref": m.get("design_ref", f"DESIGN.md section 3 ({pid})")},
        "level_note": m["level_note"],
        "technique": m.get("technique", "Coq theorem over a model regenerated from source + differential correspondence run"),
    })
na = [{"property_id": pid, "reason": (meta.get(pid, {}).get("na_reason") or "check not built yet (work in progress; see DESIGN.md section 3)")}
      for pid in props if pid not in meta or meta[pid].get("disabled")]
man = {
    "version": 1,
    "setup_cmd": "cd /verif && ./setup.sh",
    "hooks": {"guard": "PY_PREDICATE_VERIF",
              "enable": "no source hooks are needed: checks import /repo's working tree with PYTHONPATH=/repo (PY_PREDICATE_VERIF=1 is set but nothing in /repo reads it)",
              "baseline_off_cmd": "cd /repo && /venv/bin/python -m pytest -q -p no:cacheprovider --timeout=900",
              "source_commits": [f["commit"] for f in kf.get("fixed", [])],
              "add_only": True},
    "engines": [{"name": "coq-model", "path": "/verif/coq",
                 "serves_properties": [c["property_id"] for c in checks],
                 "kind_free_text": "Coq 8.16.1 development: Gen/ regenerated from /repo by tools/py2coq on every run, hand-written Prelude model and specifications, theorems in Props/, correspondence by vm_compute case files"}],
    "checks": checks,
    "not_applicable": na,
    "notes": "Every check regenerates the model from /repo's working tree, rebuilds the property's theorems, audits Print Assumptions, runs the model next to the implementation, and searches for a failing input. See DESIGN.md.",
}
json.dump(man, open(os.path.join(ROOT, "MANIFEST.json"), "w"), indent=1)
print("MANIFEST: checks", [c["property_id"] for c in checks], "not_applicable", len(na))
