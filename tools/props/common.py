"""Helpers for the per-property plugins (run under /venv/bin/python with PYTHONPATH=/repo)."""
from __future__ import annotations

import json
import os
import random
import sys

HERE = os.path.dirname(os.path.abspath(__file__))
sys.path.insert(0, os.path.join(HERE, ".."))
sys.path.insert(0, os.path.join(HERE, "..", "corr"))

import vlib  # noqa: E402
import enc  # noqa: E402
import gen  # noqa: E402


def main(handlers: dict):
    fn = sys.argv[1]
    payload = json.loads(sys.stdin.read() or "{}")
    try:
        out = handlers[fn](payload)
    except vlib.Broken as b:
        sys.stderr.write(f"{b.kind}: {b.what}\n{b.detail}\n")
        sys.exit(4)
    print(json.dumps(out, default=repr))


def call(p, x):
    """('ok', bool) or ('raise', exception class name)"""
    try:
        r = p(x)
    except Exception as e:  # noqa: BLE001
        return ("raise", type(e).__name__)
    return ("ok", r)


def code_of_call(p, x) -> int:
    k, r = call(p, x)
    if k == "raise":
        return 2
    return 1 if r else 0


def chunks(lst, n):
    for i in range(0, len(lst), n):
        yield lst[i:i + n]


def eval_codes(name: str, defs: str, items: list[str], run_def: str, chunk=400) -> list[int]:
    """Evaluate `run` over Coq terms `items` (texts of the case type) in chunks; returns the nat codes."""
    out: list[int] = []
    for part in chunks(items, chunk):
        text = (enc.CASE_HEADER + enc.world_text() + defs + "\n" + run_def
                + "\nDefinition cases := [\n" + ";\n".join(part) + "].\nEval vm_compute in map run cases.\n")
        res = vlib.parse_nat_list(vlib.coq_eval(name, text))
        if len(res) != len(part):
            raise vlib.Broken("correspondence", f"{name}: expected {len(part)} results, got {len(res)}")
        out += res
    return out


def rng_of(payload) -> random.Random:
    return random.Random(int(payload.get("seed", 0)) * 7919 + 17)
