"""C15 — truth_table(p) is the complete, ordered, history-independent evaluation of p.

correspondence: the hand-written model coq/Lemmas/TTModel.v (get_named_predicates, set_named_values, call, next,
                truth_table_list over an explicit store) is executed (vm_compute) next to predicate.truth_table on
                  (a) every propositional tree up to N nodes over 4 variable OBJECTS + the two constants, under two
                      object->name maps (one with two distinct objects carrying the same name; one whose names are
                      not in sorted order and contain an upper-case name and a prefix pair), the same object allowed at
                      several leaves, each from a seeded "dirty" initial value of every `.v`; compared: exception,
                      rows, get_named_predicates' result and the FINAL `.v` of every object;
                  (b) trees containing a foreign node (ValueError) at every position;
                  (c) two generators over trees sharing objects, pulled in a seeded interleaving with writes to `.v`
                      in between; compared pull by pull;
                  (d) all_rows n vs sorted(gray_product(*repeat((False, True), n))) for n <= 8, and sorted_set vs
                      sorted(set(.)) on name lists;
                plus a fingerprint of the modelled source (ast.unparse without docstrings) against
                tools/props/fingerprints/c15.json.
search:         the property's text on the implementation alone, with an oracle that never touches predicate objects:
                the expression is evaluated by plain recursion over its shape under every assignment produced by
                itertools.product((False, True), repeat=n) of sorted(set(names)).  Scenarios: fresh objects, dirty
                objects, earlier (complete and abandoned) truth_table calls of other predicates over the same
                objects, several interleaved generators with random writes in between, foreign nodes -> ValueError
                at the first pull and no row before it."""
import ast
import difflib
import hashlib
import itertools
import json
import os
import re

from common import HERE, main, rng_of, vlib

from more_itertools import gray_product

import predicate.named_predicate as NP_MOD
import predicate.predicate as PP
import predicate.truth_table as TT_MOD
from predicate.named_predicate import NamedPredicate
from predicate.standard_predicates import all_p, any_p, comp_p, eq_p, fn_p, ge_p, is_int_p, is_none_p
from predicate.set_predicates import in_p, is_subset_p, not_in_p
from predicate.truth_table import get_named_predicates, truth_table

NAMES = ["p", "q", "r", "s", "pq", "B", "a1", "t", "Z", "qa", "a", "b"]
MAP_DUP = [0, 1, 0, 2]        # objects 0 and 2 are different objects, both named "p"
MAP_UNSORTED = [1, 0, 5, 4]   # "q", "p", "B", "pq": declaration order is not the sorted order
FOREIGN = [lambda: ge_p(1), lambda: all_p(is_int_p), lambda: fn_p(lambda x: True), lambda: is_none_p,
           # foreign nodes that themselves CONTAIN variables / connectives (fields named like the connectives' own)
           lambda: comp_p(str, NamedPredicate(name="p")), lambda: all_p(NamedPredicate(name="q")),
           lambda: comp_p(bool, NamedPredicate(name="p") ^ NamedPredicate(name="q")), lambda: any_p(~NamedPredicate(name="p")),
           # foreign leaves whose parameters are awkward to print / compare (the rejection must still be a ValueError)
           lambda: in_p(1, "a"), lambda: not_in_p(None, 0), lambda: eq_p(float("nan")), lambda: is_subset_p({1, "a"})]

# ------------------------------------------------------------------ shapes
# ["var", i] | ["true"] | ["false"] | ["other", k] | ["not", a] | ["and"|"or"|"xor", a, b]


def shapes_exact(leaves, n, memo):
    if n in memo:
        return memo[n]
    out = []
    if n == 1:
        out = list(leaves)
    else:
        out += [["not", t] for t in shapes_exact(leaves, n - 1, memo)]
        for k in range(1, n - 1):
            for a in shapes_exact(leaves, k, memo):
                for b in shapes_exact(leaves, n - 1 - k, memo):
                    for op in ("and", "or", "xor"):
                        out.append([op, a, b])
    memo[n] = out
    return out


def random_shape(rng, nobj, depth, p_other=0.0):
    if depth == 0 or rng.random() < 0.2:
        r = rng.random()
        if r < p_other:
            return ["other", rng.randrange(len(FOREIGN))]
        if r < 0.12 + p_other:
            return [rng.choice(["true", "false"])]
        return ["var", rng.randrange(nobj)]
    if rng.random() < 0.2:
        return ["not", random_shape(rng, nobj, depth - 1, p_other)]
    return [rng.choice(["and", "or", "xor"]), random_shape(rng, nobj, depth - 1, p_other), random_shape(rng, nobj, depth - 1, p_other)]


def build(shape, objs):
    k = shape[0]
    if k == "var":
        return objs[shape[1]]
    if k == "true":
        return PP.always_true_p
    if k == "false":
        return PP.always_false_p
    if k == "other":
        return FOREIGN[shape[1]]()
    if k == "not":
        return PP.NotPredicate(predicate=build(shape[1], objs))
    cls = {"and": PP.AndPredicate, "or": PP.OrPredicate, "xor": PP.XorPredicate}[k]
    return cls(left=build(shape[1], objs), right=build(shape[2], objs))


def coq_tree(shape):
    k = shape[0]
    if k == "var":
        return f"(TVar {shape[1]})"
    if k in ("true", "false", "other"):
        return {"true": "TTrue", "false": "TFalse", "other": "TOther"}[k]
    if k == "not":
        return f"(TNot {coq_tree(shape[1])})"
    return f"({ {'and': 'TAnd', 'or': 'TOr', 'xor': 'TXor'}[k] } {coq_tree(shape[1])} {coq_tree(shape[2])})"


def show(shape, names):
    """readable text; variable objects are written name#object"""
    k = shape[0]
    if k == "var":
        return f"{names[shape[1]]}#{shape[1]}"
    if k in ("true", "false"):
        return k
    if k == "other":
        return ["ge_p(1)", "all_p(is_int_p)", "fn_p(<lambda>)", "is_none_p", "comp_p(str, p)", "all_p(q)", "comp_p(bool, p ^ q)", "any_p(~p)", "in_p(1, 'a')", "not_in_p(None, 0)", "eq_p(nan)", "is_subset_p({1, 'a'})"][shape[1]]
    if k == "not":
        return f"~{show(shape[1], names)}"
    return f"({show(shape[1], names)} { {'and': '&', 'or': '|', 'xor': '^'}[k] } {show(shape[2], names)})"


def vars_of(shape):
    if shape[0] == "var":
        return [shape[1]]
    return [v for c in shape[1:] if isinstance(c, list) for v in vars_of(c)]


def has_other(shape):
    return shape[0] == "other" or any(has_other(c) for c in shape[1:] if isinstance(c, list))


def coq_list(xs):
    return "[" + "; ".join(str(x) for x in xs) + "]"


def coq_bools(bs):
    return "[" + "; ".join("true" if b else "false" for b in bs) + "]"


def row_code(combo, value):
    acc = 1
    for b in tuple(combo) + (value,):
        acc = 2 * acc + (1 if b else 0)
    return acc


EXN = {"ValueError": 1, "KeyError": 2}


def pull(g):
    """one next(): model's `pulled` code"""
    try:
        combo, value = next(g)
    except StopIteration:
        return 0
    except Exception as e:  # noqa: BLE001
        return EXN.get(type(e).__name__, 3)
    return 4 + row_code(combo, value)


# ------------------------------------------------------------------ Coq side
HEADER = """From Coq Require Import Bool String Arith List.
From PP Require Import Lemmas.TTModel Lemmas.TTProofs.
Import ListNotations.
Open Scope string_scope.
Definition NAMES : list string := [%s].
Definition nm_of (m : list nat) (l : nat) : string := nth (nth l m 0) NAMES "".
Fixpoint index_of (x : string) (l : list string) : nat :=
  match l with [] => 0 | y :: r => if String.eqb x y then 0 else S (index_of x r) end.
Definition st_of (bits : list bool) : store := fun l => nth l bits false.
Definition row_code (r : row) : nat := fold_left (fun acc (b : bool) => 2 * acc + (if b then 1 else 0)) (fst r ++ [snd r]) 1.
Definition exn_code (e : option exn) : nat :=
  match e with None => 0 | Some ValueError => 1 | Some KeyError => 2 | Some OtherError => 3 end.
Definition pulled_code (p : pulled) : nat :=
  match p with Stop => 0 | Throw e => exn_code (Some e) | Yield r => 4 + row_code r end.
Definition run1 (c : list nat * ptree * list bool) : list nat :=
  let '(m, t, bits) := c in
  let nm := nm_of m in
  let '(rows, e, s1) := truth_table_list nm t (st_of bits) in
  exn_code e :: List.length rows :: map row_code rows
  ++ (match get_named_predicates nm t with
      | Ok ns => List.length ns :: map (fun x => index_of x NAMES) ns
      | Raise _ => [999] end)
  ++ map (fun l => if s1 l then 1 else 0) (seq 0 (List.length m)).
Definition ev_of (k : nat) : event :=
  match k with 0 => EPull 0 | 1 => EPull 1 | S (S w) => EMutate (fun _ l => Nat.testbit w l) end.
Definition run2 (c : list nat * ptree * ptree * list bool * list nat) : list nat :=
  let '(m, t1, t2, bits, sched) := c in
  flat_map (fun ip => [fst ip; pulled_code (snd ip)])
    (run_sched (nm_of m) (fun k => match k with 0 => (t1, GStart) | _ => (t2, GStart) end) (st_of bits) (map ev_of sched)).
Definition run3 (n : nat) : list nat := map (fun r => row_code (r, false)) (all_rows n).
Definition run4 (idx : list nat) : list nat :=
  map (fun x => index_of x NAMES) (sorted_set (map (fun i => nth i NAMES "") idx)).
""" % "; ".join(f'"{n}"' for n in NAMES)


def coq_run(name, fn, items, chunk=2500):
    out = []
    for i in range(0, len(items), chunk):
        part = items[i:i + chunk]
        text = HEADER + "Definition cases := [\n" + ";\n".join(part) + "].\nEval vm_compute in map " + fn + " cases.\n"
        res = vlib.coq_eval(name, text)
        m = re.search(r"=\s*(\[[\s\S]*\])\s*:\s*list \(list nat\)", res)
        if not m:
            raise vlib.Broken("correspondence", f"{name}: could not parse vm_compute output", res[-1500:])
        got = json.loads(m.group(1).replace(";", ",").replace("%nat", ""))
        if len(got) != len(part):
            raise vlib.Broken("correspondence", f"{name}: expected {len(part)} results, got {len(got)}")
        out += got
    return out


# ------------------------------------------------------------------ implementation side of the correspondence
def impl_run1(m, shape, bits):
    objs = [NamedPredicate(name=NAMES[i], v=bits[j]) for j, i in enumerate(m)]
    p = build(shape, objs)
    rows, exc = [], 0
    g = truth_table(p)
    while True:
        c = pull(g)
        if c >= 4:
            rows.append(c - 4)
            continue
        exc = c
        break
    try:
        ns = get_named_predicates(p)
        names_part = [len(ns)] + [NAMES.index(x) for x in ns]
    except ValueError:
        names_part = [999]
    return [exc, len(rows)] + rows + names_part + [1 if o.v else 0 for o in objs]


def impl_run2(m, s1, s2, bits, sched):
    objs = [NamedPredicate(name=NAMES[i], v=bits[j]) for j, i in enumerate(m)]
    gens = [truth_table(build(s1, objs)), truth_table(build(s2, objs))]
    out = []
    for k in sched:
        if k < 2:
            out += [k, pull(gens[k])]
        else:
            for j, o in enumerate(objs):
                o.v = bool(((k - 2) >> j) & 1)
    return out


# ------------------------------------------------------------------ fingerprint
def strip_doc(node):
    for n in ast.walk(node):
        if isinstance(n, (ast.FunctionDef, ast.ClassDef, ast.Module, ast.AsyncFunctionDef)) and n.body:
            b0 = n.body[0]
            if isinstance(b0, ast.Expr) and isinstance(getattr(b0, "value", None), ast.Constant) and isinstance(b0.value.value, str):
                n.body = n.body[1:] or [ast.Pass()]
    return node


def source_items():
    """normalised source of everything the model describes"""
    items = {}
    tt = strip_doc(ast.parse(open(TT_MOD.__file__, encoding="utf-8").read()))
    items["truth_table.py"] = ast.unparse(tt)
    npm = strip_doc(ast.parse(open(NP_MOD.__file__, encoding="utf-8").read()))
    for n in npm.body:
        if isinstance(n, ast.ClassDef) and n.name == "NamedPredicate":
            items["named_predicate.py:NamedPredicate"] = ast.unparse(n)
    pm = strip_doc(ast.parse(open(PP.__file__, encoding="utf-8").read()))
    for n in pm.body:
        if isinstance(n, ast.ClassDef) and n.name in ("AndPredicate", "OrPredicate", "XorPredicate", "NotPredicate",
                                                      "AlwaysTruePredicate", "AlwaysFalsePredicate"):
            fields = [ast.unparse(b) for b in n.body if isinstance(b, ast.AnnAssign)]
            calls = [ast.unparse(b) for b in n.body if isinstance(b, ast.FunctionDef) and b.name == "__call__"]
            items[f"predicate.py:{n.name}"] = "\n".join([f"class {n.name}({', '.join(ast.unparse(b) for b in n.bases)}):"] + fields + calls)
    return items


FP_PATH = os.path.join(HERE, "fingerprints", "c15.json")


def fingerprint_mismatches():
    cur = source_items()
    try:
        ref = json.load(open(FP_PATH))["items"]
    except Exception as e:  # noqa: BLE001
        return [{"case": "fingerprint", "error": f"cannot read {FP_PATH}: {e}"}]
    out = []
    for k in sorted(set(cur) | set(ref)):
        a, b = ref.get(k, {}).get("text", ""), cur.get(k, "")
        if a != b:
            diff = "\n".join(list(difflib.unified_diff(a.splitlines(), b.splitlines(), "modelled", "current", lineterm="", n=1))[:30])
            out.append({"case": "fingerprint", "item": k, "what": "the source the hand-written model describes has changed",
                        "modelled_sha": ref.get(k, {}).get("sha256"), "current_sha": hashlib.sha256(b.encode()).hexdigest(), "diff": diff})
    return out


def write_fingerprint():
    cur = source_items()
    os.makedirs(os.path.dirname(FP_PATH), exist_ok=True)
    json.dump({"note": "ast.unparse (docstrings removed) of the code modelled by coq/Lemmas/TTModel.v; regenerate with "
                       "`PYTHONPATH=/repo /venv/bin/python tools/props/c15.py write_fingerprint </dev/null` after re-checking the model",
               "items": {k: {"sha256": hashlib.sha256(v.encode()).hexdigest(), "text": v} for k, v in cur.items()}},
              open(FP_PATH, "w"), indent=1)
    return {"written": FP_PATH, "items": sorted(cur)}


# ------------------------------------------------------------------ correspondence
def corr_cases(payload):
    rng = rng_of(payload)
    quick = payload["tier"] == "quick"
    leaves = [["var", i] for i in range(4)] + [["true"], ["false"]]
    memo = {}
    shapes = []
    for n in range(1, 6):
        shapes += shapes_exact(leaves, n, memo)
    six = shapes_exact(leaves, 6, memo)
    shapes += rng.sample(six, 1500) if quick else six
    cases1 = []
    for sh in shapes:
        for m in (MAP_DUP, MAP_UNSORTED):
            cases1.append((m, sh, [rng.random() < 0.5 for _ in m]))
    # larger random trees over up to 6 objects / 5 names
    for _ in range(300 if quick else 3000):
        nobj = rng.randrange(1, 7)
        m = [rng.randrange(0, 5) if rng.random() < 0.5 else rng.randrange(len(NAMES)) for _ in range(nobj)]
        while len({NAMES[i] for i in m}) > 5:
            m[rng.randrange(nobj)] = m[0]
        cases1.append((m, random_shape(rng, nobj, rng.randrange(2, 6)), [rng.random() < 0.5 for _ in m]))
    # foreign nodes at every position of small trees
    leaves_o = leaves[:2] + [["true"], ["other", 0]]
    memo_o = {}
    for n in range(1, 5):
        for sh in shapes_exact(leaves_o, n, memo_o):
            if has_other(sh):
                cases1.append((MAP_DUP, sh, [rng.random() < 0.5 for _ in MAP_DUP]))
    # interleavings
    cases2 = []
    small = [s for n in range(1, 5) for s in shapes_exact(leaves, n, memo)]
    for _ in range(600 if quick else 6000):
        m = rng.choice((MAP_DUP, MAP_UNSORTED))
        s1, s2 = rng.choice(small), rng.choice(small)
        if rng.random() < 0.1:
            s2 = ["and", s2, ["other", 0]]
        sched = [rng.choice((0, 1, 0, 1, 2 + rng.randrange(16))) for _ in range(rng.randrange(4, 30))]
        cases2.append((m, s1, s2, [rng.random() < 0.5 for _ in m], sched))
    return cases1, cases2


def correspondence(payload):
    rng = rng_of(payload)
    mism = fingerprint_mismatches()
    cases1, cases2 = corr_cases(payload)
    items1 = [f"({coq_list(m)}, {coq_tree(sh)}, {coq_bools(bits)})" for m, sh, bits in cases1]
    got1 = coq_run("c15a", "run1", items1)
    nontrivial = set()
    for (m, sh, bits), g, it in zip(cases1, got1, items1):
        e = impl_run1(m, sh, bits)
        if len({NAMES[m[v]] for v in vars_of(sh)}) >= 1 and not has_other(sh):
            nontrivial.add(it)
        if e != g:
            mism.append({"case": "list(truth_table(p)) / get_named_predicates / final .v", "p": show(sh, [NAMES[i] for i in m]),
                         "initial_v": bits, "impl": e, "model": g,
                         "format": "[exception(0 none,1 ValueError,2 KeyError), #rows, rows as binary 1<bits><value>..., #names, name indices..., final v of each object]"})
    items2 = [f"({coq_list(m)}, {coq_tree(a)}, {coq_tree(b)}, {coq_bools(bits)}, {coq_list(sched)})" for m, a, b, bits, sched in cases2]
    got2 = coq_run("c15b", "run2", items2, chunk=1500)
    for (m, a, b, bits, sched), g in zip(cases2, got2):
        e = impl_run2(m, a, b, bits, sched)
        if e != g:
            nm = [NAMES[i] for i in m]
            mism.append({"case": "two interleaved generators", "p1": show(a, nm), "p2": show(b, nm), "initial_v": bits,
                         "schedule": sched, "impl": e, "model": g})
    # the enumeration and the sort
    got3 = coq_run("c15c", "run3", [str(n) for n in range(0, 9)])
    for n, g in enumerate(got3):
        e = [row_code(c, False) for c in sorted(gray_product(*itertools.repeat((False, True), n)))]
        if e != g:
            mism.append({"case": "sorted(gray_product(*repeat((False, True), n))) vs all_rows n", "n": n, "impl": e[:20], "model": g[:20]})
    lists4 = [[rng.randrange(len(NAMES)) for _ in range(rng.randrange(0, 9))] for _ in range(300)] + [list(range(len(NAMES)))]
    got4 = coq_run("c15d", "run4", [coq_list(ix) for ix in lists4])
    for ix, g in zip(lists4, got4):
        e = [NAMES.index(x) for x in sorted({NAMES[i] for i in ix})]
        if e != g:
            mism.append({"case": "sorted(set(names)) vs sorted_set", "names": [NAMES[i] for i in ix], "impl": e, "model": g})
    n_eval = len(items1) + len(items2) + len(got3) + len(lists4)
    k = max(1, len(cases1) // 4)
    return {"evaluations": n_eval, "distinct_nontrivial": len(nontrivial),
            "tables": len(items1), "interleavings": len(items2),
            "rule": "every propositional tree with <= 5 nodes (quick: + 1500 sampled of 6 nodes; thorough: all 6-node trees) over 4 variable "
                    "objects and the two constants, same object allowed at several leaves, under two object->name maps (two objects named "
                    "'p'; names q,p,B,pq out of order), seeded dirty initial .v; + random trees up to depth 5 over <= 6 objects / <= 5 "
                    "names; + every tree <= 4 nodes with a foreign node; + seeded interleavings of two generators over shared objects with "
                    "writes to .v in between; + all_rows n for n <= 8; + sorted(set()) on 300 name lists. Compared: exception, rows, names, "
                    "final .v of every object, every pull. distinct_nontrivial = distinct table cases with at least one variable",
            "samples": [{"p": show(sh, [NAMES[i] for i in m]), "initial_v": bits, "model_output": got1[j]}
                        for j, (m, sh, bits) in list(enumerate(cases1))[k // 2::k][:4]],
            "mismatches": mism[:20]}


# ------------------------------------------------------------------ search: the property's text on the implementation
def oracle_eval(shape, env, names):
    """plain Python evaluation of the expression; env: name -> bool"""
    k = shape[0]
    if k == "var":
        return env[names[shape[1]]]
    if k == "true":
        return True
    if k == "false":
        return False
    if k == "not":
        return not oracle_eval(shape[1], env, names)
    a, b = oracle_eval(shape[1], env, names), oracle_eval(shape[2], env, names)
    return (a and b) if k == "and" else (a or b) if k == "or" else (a != b)


def oracle_table(shape, names):
    ns = sorted({names[v] for v in vars_of(shape)})
    return [(combo, oracle_eval(shape, dict(zip(ns, combo)), names)) for combo in itertools.product((False, True), repeat=len(ns))]


def run_scenario(sc):
    """sc: {"names": [...], "initial_v": [...], "trees": [shape...], "schedule": [int | ["w", obj, bool]]}.
    Fresh objects are created, generator i = truth_table(tree i) is created up front; schedule item i pulls generator i once
    ("*i" drains it), ["w", j, b] writes objs[j].v = b.  Returns the first violation of the property's text or None."""
    names = sc["names"]
    objs = [NamedPredicate(name=n, v=v) for n, v in zip(names, sc["initial_v"])]
    preds = [build(sh, objs) for sh in sc["trees"]]
    gens = [truth_table(p) for p in preds]
    got = [[] for _ in preds]
    state = ["run"] * len(preds)
    for ev in sc["schedule"]:
        if isinstance(ev, list):
            objs[ev[1]].v = ev[2]
            continue
        drain_all = isinstance(ev, str)
        i = int(ev[1:]) if drain_all else ev
        while state[i] == "run":
            try:
                got[i].append(next(gens[i]))
            except StopIteration:
                state[i] = "stop"
            except Exception as e:  # noqa: BLE001
                state[i] = type(e).__name__
            if not drain_all:
                break
    for i, sh in enumerate(sc["trees"]):
        txt = show(sh, names)
        if has_other(sh):
            pulled_i = any(e == i or e == f"*{i}" for e in sc["schedule"] if not isinstance(e, list))
            if pulled_i and (got[i] or state[i] != "ValueError"):
                return {"kind": "a predicate with a non-propositional node is not rejected with ValueError before any row",
                        "p": txt, "rows_before": repr(got[i]), "outcome": state[i]}
            continue
        exp = oracle_table(sh, names)
        if state[i] not in ("run", "stop"):
            return {"kind": f"truth_table raised {state[i]} on a propositional tree", "p": txt, "rows_before": repr(got[i])}
        want = exp if state[i] == "stop" else exp[:len(got[i])]
        if got[i] != want:
            j = next((j for j, (a, b) in enumerate(zip(got[i], want)) if a != b), min(len(got[i]), len(want)))
            return {"kind": "rows differ from plain evaluation under itertools.product assignments of the sorted names",
                    "p": txt, "generator": i, "names_sorted": sorted({names[v] for v in vars_of(sh)}), "first_bad_row": j,
                    "got_row": repr(got[i][j]) if j < len(got[i]) else "(missing)", "expected_row": repr(want[j]) if j < len(want) else "(none: too many rows)",
                    "got_rows": len(got[i]), "expected_rows": len(want), "completed": state[i] == "stop"}
    return None


def search(payload):
    rng = rng_of(payload)
    deep = bool(payload.get("deep")) or payload["tier"] != "quick"
    fails, n, samples = [], 0, []

    def check(sc):
        nonlocal n
        n += 1
        f = run_scenario(sc)
        if f is not None and len(fails) < 5:
            fails.append({**f, "scenario": sc})
        return f

    leaves = [["var", i] for i in range(4)] + [["true"], ["false"]]
    memo = {}
    small = [s for k in range(1, 6) for s in shapes_exact(leaves, k, memo)]
    nm_maps = [[NAMES[i] for i in MAP_DUP], [NAMES[i] for i in MAP_UNSORTED], ["r", "q", "p", "a1"]]
    # 1. exhaustive small trees, alone, from clean and dirty objects
    for sh in small:
        for names in nm_maps[:2] if not deep else nm_maps:
            check({"names": names, "initial_v": [rng.random() < 0.5 for _ in names], "trees": [sh], "schedule": ["*0"]})
        if len(fails) >= 5:
            break
    # 1b. every small tree with a foreign node somewhere (smallest failing input first)
    leaves_o = [["var", 0], ["var", 1], ["true"]] + [["other", k] for k in range(len(FOREIGN))]
    memo_o = {}
    for k in range(1, 5 if deep else 4):
        for sh in shapes_exact(leaves_o, k, memo_o):
            if has_other(sh) and len(fails) < 5:
                check({"names": ["p", "q"], "initial_v": [False, True], "trees": [sh], "schedule": ["*0"]})
    # 1c. beyond the small bounds: 9-12 distinct names, names with digit runs / prefixes / upper case, chains of 40-100 operands
    def chain(op, idxs):
        t = ["var", idxs[0]]
        for i in idxs[1:]:
            t = [op, t, ["var", i]]
        return t
    wide = ["va", "vb", "vc", "vd", "ve", "vf", "vg", "vh", "vi", "vj", "vk", "vl"]
    for k in (9, 11, 12):
        for sh in (["xor", ["and", ["var", 0], ["var", 1]], chain("xor", list(range(2, k)))], chain("or", list(range(k))), ["and", ["var", k - 1], ["not", ["var", 0]]]):
            check({"names": wide[:k], "initial_v": [False] * k, "trees": [sh], "schedule": ["*0"]})
    for names in (["x2", "x10"], ["x10", "x2", "x1"], ["a", "ab", "abc", "b"], ["B", "a", "A", "b"], ["p1", "p02", "p002"], ["x9", "x10", "x11", "x100"]):
        k = len(names)
        check({"names": names, "initial_v": [True] * k, "trees": [["and", ["var", 0], ["not", ["var", k - 1]]]], "schedule": ["*0"]})
        check({"names": names, "initial_v": [False] * k, "trees": [chain("xor", list(range(k)))], "schedule": ["*0"]})
    for length in (40, 80, 100):
        for op in ("xor", "and", "or"):
            check({"names": ["p", "q", "r"], "initial_v": [False, True, False], "trees": [chain(op, [i % 3 for i in range(length)])], "schedule": ["*0"]})
    # 2. histories: other predicates over the same objects are tabulated (fully, partly) first; interleavings; writes
    for _ in range(4000 if not deep else 30000):
        nobj = rng.randrange(1, 8)
        pool = rng.sample(NAMES, min(5, rng.randrange(1, 6)))
        names = [rng.choice(pool) for _ in range(nobj)]
        k = rng.randrange(1, 4)
        trees = [random_shape(rng, nobj, rng.randrange(1, 6)) for _ in range(k)]
        mode = rng.randrange(3)
        if mode == 0:      # one after the other (earlier calls leave their values behind)
            sched = [f"*{i}" for i in range(k)]
        elif mode == 1:    # abandoned generators, then the last one in full
            sched = [i for i in range(k - 1) for _ in range(rng.randrange(0, 5))] + [f"*{k - 1}"]
        else:              # random interleaving with writes, everything drained at the end
            sched = []
            for _ in range(rng.randrange(3, 40)):
                sched.append(rng.randrange(k) if rng.random() < 0.75 else ["w", rng.randrange(nobj), rng.random() < 0.5])
            sched += [f"*{i}" for i in range(k)]
        sc = {"names": names, "initial_v": [rng.random() < 0.5 for _ in names], "trees": trees, "schedule": sched}
        check(sc)
        if len(samples) < 3 and mode == 2:
            samples.append({"trees": [show(t, names) for t in trees], "schedule": sched[:12], "result": "as the oracle"})
        if len(fails) >= 5:
            break
    # 3. rejection
    for _ in range(1500 if not deep else 8000):
        nobj = rng.randrange(1, 5)
        names = [rng.choice(NAMES[:5]) for _ in range(nobj)]
        sh = random_shape(rng, nobj, rng.randrange(0, 5), p_other=0.3)
        other = random_shape(rng, nobj, 2)
        sc = {"names": names, "initial_v": [False] * nobj, "trees": [sh, other], "schedule": [1, 0, 1, "*0", "*1"]}
        check(sc)
        if len(fails) >= 5:
            break
    # 4. connectives and variables of a USER's subclass (they ARE connectives / variables; their own __call__ is what "p evaluated" means)
    import itertools as _it15
    from predicate import predicate as _PP15

    class Implies(_PP15.OrPredicate):
        def __call__(self, x):
            return (not self.left(x)) or self.right(x)

    class Nand(_PP15.AndPredicate):
        def __call__(self, x):
            return not (self.left(x) and self.right(x))

    class Inverted(NamedPredicate):
        def __call__(self, *args, **kwargs):
            return not self.v

    def direct_rows(tree, names_):
        rows = []
        for bits in _it15.product((False, True), repeat=len(names_)):
            env = dict(zip(names_, bits))
            todo = [tree]
            while todo:
                t = todo.pop()
                if isinstance(t, NamedPredicate):
                    t.v = env[t.name]
                todo += [c for c in (getattr(t, "left", None), getattr(t, "right", None), getattr(t, "predicate", None)) if isinstance(c, _PP15.Predicate)]
            rows.append((bits, bool(tree(False))))
        return rows
    a_, b_, c_ = NamedPredicate(name="a"), NamedPredicate(name="b"), NamedPredicate(name="c")
    for label, tree, names_ in (("Implies(a, b)  [class Implies(OrPredicate): __call__ = (not left) or right]", Implies(a_, b_), ["a", "b"]),
                                ("Nand(a, b) & c  [class Nand(AndPredicate)]", Nand(a_, b_) & c_, ["a", "b", "c"]),
                                ("~Implies(a, Nand(b, c))", ~Implies(a_, Nand(b_, c_)), ["a", "b", "c"]),
                                ("Inverted('a') | b  [class Inverted(NamedPredicate): __call__ = not v]", Inverted(name="a") | b_, ["a", "b"])):
        n += 1
        want = direct_rows(tree, names_)
        try:
            got = [(tuple(r[0]), bool(r[1])) for r in truth_table(tree)]
        except Exception as e_:  # noqa: BLE001
            got = f"raised {type(e_).__name__}: {e_}"
        if got != want:
            fails.append({"kind": "rows differ from p evaluated under each assignment (a connective / variable of a user's subclass)", "p": label, "names_sorted": names_,
                          "got": repr(got)[:300], "expected": repr(want)[:300]})
    return {"evaluations": n, "failures": fails, "known_hits": [],
            "samples": samples + [{"oracle": "plain recursive evaluation under itertools.product((False, True), repeat=n) over sorted(set(names))"}]}


def replay(payload):
    inp = payload["replay"].get("input") or {}
    sc = inp.get("scenario")
    if not sc:
        return {"fails": True, "input": inp, "note": "no scenario recorded (the proof or the tie is broken, see the replay file)"}
    f = run_scenario(sc)
    return {"fails": f is not None, "input": sc, "violation": f}


main({"correspondence": correspondence, "search": search, "replay": replay, "write_fingerprint": lambda _p: write_fingerprint()})
