"""C18 — to_json mirrors the predicate tree and never fails.

correspondence: (a) source fingerprint of predicate/formatter/format_json.py and of the field order of the 14 matched
                classes against tools/props/fingerprints/c18.json; (b) the hand-written model Lemmas/ToJson.v executed
                next to the real to_json: the implementation's dict is written as a Coq `json` term and Coq decides
                `json_eqb (to_json fname0 p) expected` (member order included), plus serialisable / nesting depth.
search:         the property's statement tested on the implementation alone with an oracle written in plain Python, on
                trees over every exported constructor (also those the model does not have).
replay:         rebuilds the predicate of a stored failing input from its constructor spec and re-checks it.
fingerprint:    (maintenance) `python c18.py fingerprint < /dev/null` rewrites the committed fingerprint."""
from __future__ import annotations

import ast
import dataclasses
import datetime
import decimal
import difflib
import functools
import importlib
import ipaddress
import json
import math
import operator
import os
import uuid

from common import enc, gen, main, rng_of, vlib

import predicate as P
from predicate import predicate as PP
from predicate import standard_predicates as SP
from predicate import set_predicates as SETP
from predicate import str_predicates as STRP
from predicate import ip_address_predicates as IPP
from predicate import to_json
from predicate.all_predicate import AllPredicate
from predicate.any_predicate import AnyPredicate
from predicate.comp_predicate import CompPredicate
from predicate.lazy_predicate import LazyPredicate
from predicate.named_predicate import NamedPredicate
from predicate.tee_predicate import TeePredicate

HERE = os.path.dirname(os.path.abspath(__file__))
FP_PATH = os.path.join(HERE, "fingerprints", "c18.json")
SRC_REL = "predicate/formatter/format_json.py"
MATCHED = [AllPredicate, PP.AlwaysFalsePredicate, PP.AlwaysTruePredicate, PP.AndPredicate, AnyPredicate, PP.FnPredicate,
           PP.IsFalsyPredicate, NamedPredicate, PP.IsTruthyPredicate, PP.NePredicate, PP.NotPredicate, PP.OrPredicate,
           TeePredicate, PP.XorPredicate]


def safe_repr(x, limit=300):
    try:
        r = repr(x)
    except Exception as e:  # noqa: BLE001
        r = f"<{type(x).__name__}: repr raised {type(e).__name__}>"
    return r if len(r) <= limit else r[:limit] + "..."


# ------------------------------------------------------------------------------------------------------------------
# fingerprint
# ------------------------------------------------------------------------------------------------------------------
def current_fingerprint():
    src = open(os.path.join(vlib.REPO, SRC_REL), encoding="utf-8").read()
    return {
        "file": SRC_REL,
        "source": ast.unparse(ast.parse(src)),
        "match_args": {c.__name__: list(getattr(c, "__match_args__", ())) for c in MATCHED},
        "bases": {c.__name__: [b.__name__ for b in c.__mro__[1:]] for c in MATCHED},
    }


def fingerprint_mismatches():
    cur = current_fingerprint()
    if not os.path.exists(FP_PATH):
        return [{"fingerprint": "tools/props/fingerprints/c18.json is missing"}]
    old = json.load(open(FP_PATH))
    out = []
    if old.get("source") != cur["source"]:
        diff = list(difflib.unified_diff(old.get("source", "").splitlines(), cur["source"].splitlines(), "modelled", "current", lineterm="", n=1))
        out.append({"fingerprint": f"{SRC_REL} changed since Lemmas/ToJson.v was written: the hand-written model may no longer describe it",
                    "diff": "\n".join(diff[:40])})
    for k in ("match_args", "bases"):
        if old.get(k) != cur[k]:
            ch = {n: {"modelled": old.get(k, {}).get(n), "current": v} for n, v in cur[k].items() if old.get(k, {}).get(n) != v}
            out.append({"fingerprint": f"{k} of the classes matched by to_json changed (positional patterns bind other fields / other classes match)", "changed": ch})
    return out


def write_fingerprint(_payload):
    os.makedirs(os.path.dirname(FP_PATH), exist_ok=True)
    json.dump(current_fingerprint(), open(FP_PATH, "w"), indent=1)
    return {"written": FP_PATH}


# ------------------------------------------------------------------------------------------------------------------
# functions used inside fn_p / tee_p / comp_p, with the name each of them HAS (written down by hand, not computed)
# ------------------------------------------------------------------------------------------------------------------
def is_even(x):
    return x % 2 == 0


class Threshold:
    """a callable object: it has no __name__, its name is the name of its class"""

    def __init__(self, n):
        self.n = n

    def __call__(self, x):
        return x > self.n


def _deco(f):
    @functools.wraps(f)
    def wrapper(x):
        return f(x)
    return wrapper


FUNCS = {
    "lambda": (lambda x: x > 2, "<lambda>"),
    "lambda2": (lambda x: True, "<lambda>"),
    "def": (is_even, "is_even"),
    "wrapped_def": (_deco(is_even), "is_even"),
    "len": (len, "len"),
    "callable": (callable, "callable"),
    "math.isfinite": (math.isfinite, "isfinite"),
    "math.isnan": (math.isnan, "isnan"),
    "str.isalpha": (str.isalpha, "isalpha"),
    "str.startswith_bound": ("abc".startswith, "startswith"),
    "partial": (functools.partial(operator.lt, 0), "partial"),
    "partial_of_def": (functools.partial(is_even), "partial"),
    "callable_object": (Threshold(3), "Threshold"),
    "class_bool": (bool, "bool"),
    "class_threshold": (Threshold, "Threshold"),
    "itemgetter": (operator.itemgetter(0), "itemgetter"),
    "attrgetter": (operator.attrgetter("real"), "attrgetter"),
    "methodcaller": (operator.methodcaller("isdigit"), "methodcaller"),
    "operator.not_": (operator.not_, "not_"),
    "bound_method": (Threshold(1).__call__, "__call__"),
    "set.__contains__": ({1, 2}.__contains__, "__contains__"),
    "predicate_as_function": (PP.GePredicate(v=1), "GePredicate"),
    "print": (print, "print"),
}
FUNC_NAME_BY_ID = {id(f): n for f, n in FUNCS.values()}
for _f, _ in enc.FN_LIB:
    FUNC_NAME_BY_ID[id(_f)] = _f.__name__          # fnlib0 .. fnlib4, set by enc.py
# exported function atoms and the built-in each of them wraps
EXPORTED_FN_ATOMS = {"is_finite_p": "isfinite", "is_inf_p": "isinf", "is_nan_p": "isnan", "is_alnum_p": "isalnum",
                     "is_alpha_p": "isalpha", "is_ascii_p": "isascii", "is_decimal_p": "isdecimal", "is_digit_p": "isdigit",
                     "is_identifier_p": "isidentifier", "is_lower_p": "islower", "is_numeric_p": "isnumeric",
                     "is_printable_p": "isprintable", "is_space_p": "isspace", "is_title_p": "istitle", "is_upper_p": "isupper"}


def function_name(f) -> str:
    """the function's name: from the hand-written table when the function is one of ours, else __name__, else its type's name"""
    if id(f) in FUNC_NAME_BY_ID:
        return FUNC_NAME_BY_ID[id(f)]
    try:
        n = f.__name__
    except AttributeError:
        n = type(f).__name__
    return n


# ------------------------------------------------------------------------------------------------------------------
# correspondence: model vs implementation
# ------------------------------------------------------------------------------------------------------------------
def cstr(s: str) -> str:
    if not isinstance(s, str):
        raise enc.Unencodable(f"not a string: {s!r}")
    if any(ord(ch) < 32 and ch not in "\n\t" for ch in s) or any(ord(ch) > 126 for ch in s):
        raise enc.Unencodable(f"string {s!r} outside printable ASCII")
    return '"' + s.replace('"', '""') + '"%string'


class Cx(enc.Ctx):
    """enc.Ctx with fresh nat ids for ARBITRARY functions (fn_p / tee_p / property getters / comp_p) and the
    `fname` table emitted as a Coq function; strings are escaped"""

    def __init__(self, strings=None):
        super().__init__(strings)
        self.fn_ids = {}
        self.fns = []          # keeps the objects alive: id() stays unique
        self.comp_ids = {}
        self.comps = []

    def fn(self, f) -> int:
        if id(f) not in self.fn_ids:
            self.fn_ids[id(f)] = len(self.fns)
            self.fns.append(f)
        return self.fn_ids[id(f)]

    def pred(self, p) -> str:
        T = type(p)
        if T is NamedPredicate:
            return f"(PNamed {cstr(p.name)})"
        if T is LazyPredicate:
            return f"(PLazy {cstr(p.ref)})"
        if T is CompPredicate:
            if id(p.fn) not in self.comp_ids:
                self.comp_ids[id(p.fn)] = len(self.comps)
                self.comps.append(p.fn)
            return f"(PComp {self.comp_ids[id(p.fn)]}%nat {self.pred(p.predicate)})"
        return super().pred(p)

    def fname_text(self) -> str:
        rows = "\n".join(f"  | {i}%nat => {cstr(function_name(f))}" for i, f in enumerate(self.fns))
        return f"Definition fname0 (f : nat) : string :=\n  match f with\n{rows}\n  | _ => \"\"%string\n  end.\n"


def jterm(v, cx: Cx, under=()) -> str:
    """the implementation's result as a term of the Coq type `json` (anything json cannot hold becomes JOpaque, which
    never equals a value produced by the model)"""
    if under[-2:] == ("ne", "v"):
        return f"(JNum {cx.q(v)})"            # the constant of ne_p: the same Q as in the predicate term
    if v is None:
        return "JNull"
    if v is True:
        return "(JBool true)"
    if v is False:
        return "(JBool false)"
    if isinstance(v, str):
        return f"(JStr {cstr(v)})"
    if isinstance(v, (int, float)):
        return f"(JNum {cx.q(v)})"
    if type(v) is dict:
        return "(JObj [" + "; ".join(f"({cstr(k)}, {jterm(x, cx, under + (k,))})" for k, x in v.items()) + "])"
    return "(JOpaque 0%nat)"


def jnest_py(j) -> int:
    """nesting depth read off the dictionary alone (0 = not of the documented form)"""
    if type(j) is not dict or len(j) != 1:
        return 0
    (k, v), = j.items()
    if k in ("and", "or", "xor"):
        if type(v) is not dict or list(v) != ["left", "right"]:
            return 0
        a, b = jnest_py(v["left"]), jnest_py(v["right"])
        return 1 + max(a, b) if a and b else 0
    if k in ("not", "all", "any"):
        if type(v) is not dict or list(v) != ["predicate"]:
            return 0
        a = jnest_py(v["predicate"])
        return 1 + a if a else 0
    return 1 if k in ("false", "true", "fn", "is_falsy", "variable", "is_truthy", "ne", "tee", "unknown") else 0


CASE_HEADER = """From Coq Require Import QArith Bool List Arith String ZArith.
From PP Require Import Prelude.Base Prelude.Pred Lemmas.ToJson.
Import ListNotations.
Open Scope Q_scope.
"""
RUN_DEF = """
Definition run (c : pred * json * nat) : nat :=
  let '(p, expected, depth) := c in
  let j := to_json fname0 p in
  ((if json_eqb j expected then 1 else 0)
   + (if serialisable j then 2 else 0)
   + (if Nat.eqb (jnest j) depth then 4 else 0))%nat.
"""

UNARY = ("not", "all", "any", "set_of", "comp")
BINARY = ("and", "or", "xor")


def shapes(n, memo):
    """all tree shapes with exactly n nodes over the 5 unary and 3 binary constructors; leaves are holes"""
    if n in memo:
        return memo[n]
    out = []
    if n == 1:
        out = [("leaf",)]
    else:
        for t in shapes(n - 1, memo):
            out += [(u, t) for u in UNARY]
        for k in range(1, n - 1):
            for a in shapes(k, memo):
                for b in shapes(n - 1 - k, memo):
                    out += [(op, a, b) for op in BINARY]
    memo[n] = out
    return out


def fill(shape, next_leaf):
    op = shape[0]
    if op == "leaf":
        return next_leaf()
    if op == "not":
        return PP.NotPredicate(predicate=fill(shape[1], next_leaf))
    if op == "all":
        return AllPredicate(predicate=fill(shape[1], next_leaf))
    if op == "any":
        return AnyPredicate(predicate=fill(shape[1], next_leaf))
    if op == "set_of":
        return SP.is_set_of_p(fill(shape[1], next_leaf))
    if op == "comp":
        return SP.comp_p(enc.COMP_LIB[0][0], fill(shape[1], next_leaf))
    return gen.mk(op, fill(shape[1], next_leaf), fill(shape[2], next_leaf))


def corr_atoms():
    """atoms of every class of the model (makers: fresh object on every call)"""
    mk = gen.scalar_atom_makers(with_fn=True) + gen.set_atom_makers()
    mk += [lambda: PP.is_empty_p, lambda: PP.is_not_empty_p, lambda: SP.is_none_p, lambda: SP.is_not_none_p]
    mk += [lambda n=n: SP.has_length_p(n) for n in (0, 2)] + [lambda k=k: SP.has_key_p(k) for k in (1, "a")]
    mk += [lambda: SP.regex_p("^a+$"), lambda: SP.regex_p("b"), lambda: SP.lazy_p("is_json_p"), lambda: SP.lazy_p('q"uote')]
    mk += [lambda: SP.this_p.predicate, lambda: SP.root_p.predicate]
    mk += [lambda: IPP.is_ipv4_address_private_p, lambda: IPP.is_ipv6_network_global_p]
    mk += [lambda: SP.comp_p(enc.COMP_LIB[1][0], SP.ge_p(1)), lambda: SP.is_set_of_p(SP.is_int_p)]
    mk += [lambda n=n: NamedPredicate(name=n) for n in ("p", "q", "left", "unknown", "a b", 'say "hi"', "x_1", "")]
    mk += [lambda c=c: SP.ne_p(c) for c in (0, -3, 2.5, -0.125, True, False, 10 ** 20, "a", "zz", "")]
    mk += [lambda c=c: SP.eq_p(c) for c in ("a", 2.5)]
    mk += [lambda f=f: SP.fn_p(f) for f, _ in FUNCS.values()]
    mk += [lambda f=f: SP.tee_p(f) for f in (FUNCS["print"][0], FUNCS["lambda"][0], enc.FN_LIB[2][0])]
    for name in EXPORTED_FN_ATOMS:
        for mod in (SP, STRP):
            if hasattr(mod, name):
                mk.append(lambda mod=mod, name=name: getattr(mod, name))
    mk += [lambda: STRP.starts_with_p("a"), lambda: IPP.subnet_of_p(ipaddress.ip_network("10.0.0.0/8"))]
    mk += [lambda: SP.is_falsy_p, lambda: SP.is_truthy_p, lambda: PP.always_true_p, lambda: PP.always_false_p]
    return mk


def correspondence(payload):
    rng = rng_of(payload)
    quick = payload.get("tier", "quick") == "quick"
    mism = fingerprint_mismatches()

    makers = corr_atoms()
    preds = [m() for m in makers]                                   # every atom alone
    other = [lambda: NamedPredicate(name="o"), lambda: SP.ne_p(7), lambda: SP.ge_p(1)]
    for i, m in enumerate(makers):                                  # every atom under every connective, both sides
        o = other[i % 3]
        preds += [fill((u, ("leaf",)), m) for u in UNARY]
        for op in BINARY:
            preds += [gen.mk(op, m(), o()), gen.mk(op, o(), m())]
    memo: dict = {}
    order = list(range(len(makers)))
    pos = [0]

    rendered = [m for m in makers if type(m()).__name__ in KIND_OF_CLASS]

    def next_leaf():
        if rng.random() < 0.5:                                      # half of the leaves: kinds with a rendering
            return rng.choice(rendered)()
        if pos[0] % len(order) == 0:
            rng.shuffle(order)
        m = makers[order[pos[0] % len(order)]]
        pos[0] += 1
        return m()

    fills = 2 if quick else 12
    for n in range(2, 6):                                           # every shape with <= 5 nodes, leaves rotating over all atoms
        for sh in shapes(n, memo):
            for _ in range(fills if n > 2 else 1):
                preds.append(fill(sh, next_leaf))
    for _ in range(150 if quick else 1500):                         # some larger random trees (<= 9 nodes)
        n = rng.randrange(6, 10)
        sh = ("leaf",)
        while count_nodes(sh) < n:
            sh = grow(rng, sh)
        preds.append(fill(sh, next_leaf))

    cx = Cx(strings=["", "a", "zz"])
    items, kept, exp_codes, skipped = [], [], [], 0
    for p in preds:
        try:
            pt = cx.pred(p)
        except enc.Unencodable:
            skipped += 1
            continue
        try:
            j = to_json(p)
        except Exception as e:  # noqa: BLE001   (the model is total: raising is a disagreement)
            mism.append({"p": safe_repr(p), "impl": f"raised {type(e).__name__}: {e}", "model_term": pt[:400]})
            continue
        try:
            jt = jterm(j, cx)
        except enc.Unencodable as e:
            mism.append({"p": safe_repr(p), "impl_json": safe_repr(j), "note": f"result cannot be written as a json term: {e}"})
            continue
        try:
            json.dumps(j)
            ser = 2
        except Exception:  # noqa: BLE001
            ser = 0
        items.append(f"({pt}, {jt}, {jnest_py(j)}%nat)")
        kept.append((p, j, pt))
        exp_codes.append(1 + ser + 4)
    codes: list[int] = []
    for lo in range(0, len(items), 1200):
        part = items[lo:lo + 1200]
        text = (CASE_HEADER + cx.fname_text() + RUN_DEF + "\nDefinition cases : list (pred * json * nat) := [\n"
                + ";\n".join(part) + "].\nEval vm_compute in map run cases.\n")
        res = vlib.parse_nat_list(vlib.coq_eval("c18", text))
        if len(res) != len(part):
            raise vlib.Broken("correspondence", f"c18: expected {len(part)} results, got {len(res)}")
        codes += res
    for k, c in enumerate(codes):
        if c != exp_codes[k]:
            p, j, pt = kept[k]
            what = []
            if (c & 1) != (exp_codes[k] & 1):
                what.append("model's to_json differs from the implementation's dict")
            if (c & 2) != (exp_codes[k] & 2):
                what.append("serialisable(model) differs from json.dumps succeeding")
            if (c & 4) != (exp_codes[k] & 4):
                what.append("nesting depth of the model's JSON differs from the implementation's")
            mism.append({"p": safe_repr(p), "impl_json": safe_repr(j, 600), "model_term": pt[:600], "disagreement": what})
    deep = {json.dumps(j, sort_keys=False, default=repr) for p, j, _ in kept if jnest_py(j) >= 2}
    step = max(1, len(kept) // 4)
    return {"evaluations": len(items), "distinct_nontrivial": len(deep), "skipped_not_in_model": skipped,
            "functions_named": len(cx.fns),
            "rule": "fingerprint of format_json.py + field order of the 14 matched classes; then ~200 atoms covering every class of the model "
                    "(every parameter kind; fn_p/tee_p over lambdas, defs, wrapped defs, built-ins, str methods, bound methods, partial, callable "
                    "objects, classes, operator getters, the exported is_*_p function atoms; names with quotes/spaces/empty) each alone and under "
                    "every connective on both sides, every tree shape with <= 5 nodes over ~,all,any,set_of,comp,&,|,^ with leaves rotating "
                    "through all atoms, and random trees of 6-9 nodes; the implementation's dict is written as a Coq json term and Coq evaluates "
                    "json_eqb (to_json fname0 p) expected (member order included), serialisable vs json.dumps, jnest vs the dict's nesting depth; "
                    "distinct_nontrivial = distinct implementation results of nesting depth >= 2",
            "samples": [{"p": safe_repr(kept[k][0]), "to_json": kept[k][1]} for k in range(step // 2, len(kept), step)][:4],
            "mismatches": mism[:20]}


def count_nodes(sh):
    return 1 + sum(count_nodes(c) for c in sh[1:])


def grow(rng, sh):
    """replace one random leaf by a unary or binary node"""
    if sh[0] == "leaf":
        if rng.random() < 0.45:
            return (rng.choice(UNARY), ("leaf",))
        return (rng.choice(BINARY), ("leaf",), ("leaf",))
    i = rng.randrange(1, len(sh))
    return sh[:i] + (grow(rng, sh[i]),) + sh[i + 1:]


# ------------------------------------------------------------------------------------------------------------------
# search: the property's text checked on the implementation, oracle in plain Python
# ------------------------------------------------------------------------------------------------------------------
KIND_OF_CLASS = {"AllPredicate": "all", "AlwaysFalsePredicate": "false", "AlwaysTruePredicate": "true", "AndPredicate": "and",
                 "AnyPredicate": "any", "FnPredicate": "fn", "IsFalsyPredicate": "is_falsy", "NamedPredicate": "variable",
                 "IsTruthyPredicate": "is_truthy", "NePredicate": "ne", "NotPredicate": "not", "OrPredicate": "or",
                 "TeePredicate": "tee", "XorPredicate": "xor"}
RENDERED_KEYS = set(KIND_OF_CLASS.values())

CONST_NS = {"datetime": datetime.datetime, "UUID": uuid.UUID, "Decimal": decimal.Decimal, "nan": float("nan"), "inf": float("inf"),
            "is_int_p": SP.is_int_p, "len": len, "OBJ": object(), "LOCK": __import__("threading").Lock()}
# (python source of the constant, json.dumps accepts it, it survives a dumps/loads round trip)
CONSTS = [("0", 1, 1), ("1", 1, 1), ("-7", 1, 1), ("2.5", 1, 1), ("10**30", 1, 1), ("True", 1, 1), ("False", 1, 1), ("None", 1, 1),
          ("'a'", 1, 1), ("''", 1, 1), ("'left'", 1, 1), ("'caf\\u00e9 \"q\"'", 1, 1), ("[1, 'a', None]", 1, 1), ("{'k': [1, 2]}", 1, 1),
          ("{'left': 1, 'right': 2}", 1, 1), ("[]", 1, 1), ("{}", 1, 1), ("(1, 2)", 1, 0), ("{1: 'x'}", 1, 0), ("nan", 1, 0), ("inf", 1, 0),
          ("{1, 2}", 0, 0), ("frozenset()", 0, 0), ("1j", 0, 0), ("b'x'", 0, 0), ("datetime(2020, 1, 1)", 0, 0), ("UUID(int=5)", 0, 0),
          ("Decimal('1.5')", 0, 0), ("OBJ", 0, 0), ("[OBJ]", 0, 0), ("{'k': [OBJ, 1]}", 0, 0), ("[LOCK]", 0, 0), ("{'lock': LOCK}", 0, 0), ("is_int_p", 0, 0), ("len", 0, 0), ("[1, {2}]", 0, 0), ("range(3)", 0, 0)]
CONST_FLAGS = {s: (d, r) for s, d, r in CONSTS}
ORDERED = ["0", "1", "-7", "2.5", "'a'", "''", "datetime(2020, 1, 1)", "UUID(int=5)"]
HASHABLE = ["0", "1", "2.5", "True", "None", "'a'", "(1, 2)", "1j", "frozenset()"]
CLASSES = {"int": int, "str": str, "bool": bool, "float": float, "list": list, "dict": dict, "tuple": tuple, "set": set,
           "NoneType": type(None), "object": object, "Predicate": PP.Predicate}
NETS = ["10.0.0.0/8", "2001:db8::/32"]
NAMES = ["p", "q", "x1", "left", "unknown", "a b", 'say "hi"', "", "café", "true"]

C1 = {"eq_p": SP.eq_p, "ne_p": SP.ne_p, "ge_p": SP.ge_p, "gt_p": SP.gt_p, "le_p": SP.le_p, "lt_p": SP.lt_p, "has_key_p": SP.has_key_p,
      "has_length_p": SP.has_length_p, "EqPredicate": lambda v: PP.EqPredicate(v=v), "NePredicate": lambda v: PP.NePredicate(v=v),
      "GePredicate": lambda v: PP.GePredicate(v=v), "GtPredicate": lambda v: PP.GtPredicate(v=v),
      "LePredicate": lambda v: PP.LePredicate(v=v), "LtPredicate": lambda v: PP.LtPredicate(v=v)}
C1_INT = {n: getattr(SP, n) for n in ("depth_eq_p", "depth_ne_p", "depth_le_p", "depth_lt_p", "depth_ge_p", "depth_gt_p")}
C1_STR = {"regex_p": SP.regex_p, "lazy_p": SP.lazy_p, "starts_with_p": STRP.starts_with_p, "ends_with_p": STRP.ends_with_p}
C2 = {"ge_le_p": SP.ge_le_p, "ge_lt_p": SP.ge_lt_p, "gt_le_p": SP.gt_le_p, "gt_lt_p": SP.gt_lt_p}
CSET_VAR = {"in_p": SETP.in_p, "not_in_p": SETP.not_in_p}
CSET = {"is_subset_p": SETP.is_subset_p, "is_real_subset_p": SETP.is_real_subset_p, "is_superset_p": SETP.is_superset_p,
        "is_real_superset_p": SETP.is_real_superset_p, "InPredicate": lambda s: P.InPredicate(s), "NotInPredicate": lambda s: P.NotInPredicate(s)}
CNET = {"subnet_of_p": IPP.subnet_of_p, "supernet_of_p": IPP.supernet_of_p}
UN = {"all_p": SP.all_p, "any_p": SP.any_p, "is_set_of_p": SP.is_set_of_p, "is_list_of_p": SP.is_list_of_p,
      "is_iterable_of_p": SP.is_iterable_of_p, "is_single_or_list_of_p": SP.is_single_or_list_of_p,
      "is_single_or_iterable_of_p": SP.is_single_or_iterable_of_p, "~": operator.invert,
      "AllPredicate": lambda p: AllPredicate(predicate=p), "AnyPredicate": lambda p: AnyPredicate(predicate=p),
      "NotPredicate": lambda p: PP.NotPredicate(predicate=p)}
BIN = {"&": operator.and_, "|": operator.or_, "^": operator.xor,
       "AndPredicate": lambda a, b: PP.AndPredicate(left=a, right=b), "OrPredicate": lambda a, b: PP.OrPredicate(left=a, right=b),
       "XorPredicate": lambda a, b: PP.XorPredicate(left=a, right=b)}


def exported_atoms():
    """every module-level Predicate instance of the library's public modules, by qualified name"""
    out = {}
    for mod in (P, PP, SP, SETP, STRP, IPP):
        for name, val in sorted(vars(mod).items()):
            if isinstance(val, PP.Predicate) and not name.startswith("__"):
                out.setdefault(name, val)
    return out


ATOMS = exported_atoms()
# what the property says about some of them, written by hand (None = no rendering: the placeholder)
ATOM_EXPECT = {"always_true_p": {"true": True}, "always_false_p": {"false": False}, "is_falsy_p": {"is_falsy": None},
               "is_truthy_p": {"is_truthy": None}}
ATOM_EXPECT.update({n: {"fn": {"name": f}} for n, f in EXPORTED_FN_ATOMS.items()})


def build(spec):
    """constructor spec (nested lists, JSON-able) -> predicate, through the exported constructors"""
    op = spec[0]
    if op == "atom":
        return ATOMS[spec[1]]
    if op == "var":
        return NamedPredicate(name=spec[1])
    if op == "c1":
        return {**C1, **C1_INT, **C1_STR}[spec[1]](eval(spec[2], dict(CONST_NS)))  # noqa: S307  (our own literals)
    if op == "c2":
        return C2[spec[1]](eval(spec[2], dict(CONST_NS)), eval(spec[3], dict(CONST_NS)))  # noqa: S307
    if op == "setv":
        return CSET_VAR[spec[1]](*[eval(c, dict(CONST_NS)) for c in spec[2]])  # noqa: S307
    if op == "set":
        return CSET[spec[1]]({eval(c, dict(CONST_NS)) for c in spec[2]})  # noqa: S307
    if op == "inst":
        return SP.is_instance_p(*[CLASSES[c] for c in spec[1]])
    if op == "net":
        return CNET[spec[1]](ipaddress.ip_network(spec[2]))
    if op == "fn":
        return (SP.fn_p if spec[1] == "fn_p" else lambda f: PP.FnPredicate(predicate_fn=f))(FUNCS[spec[2]][0])
    if op == "tee":
        return SP.tee_p(FUNCS[spec[1]][0])
    if op == "comp":
        return SP.comp_p(FUNCS[spec[1]][0], build(spec[2]))
    if op == "un":
        return UN[spec[1]](build(spec[2]))
    if op == "bin":
        return BIN[spec[1]](build(spec[2]), build(spec[3]))
    if op == "tuple_of":
        return SP.is_tuple_of_p(*[build(s) for s in spec[1]])
    if op == "dict_of":
        return SP.is_dict_of_p(*[(k if isinstance(k, str) else build(k), build(v)) for k, v in spec[1]])
    raise ValueError(spec)


def ref_from_spec(spec):
    """reference rendering of the constructor expression, from the property's text alone.  Returns ("exact", dict) when the
    text fixes the whole result, ("open", None) when part of it is a kind without rendering or a derived constructor."""
    op = spec[0]
    if op == "atom":
        return ("exact", ATOM_EXPECT[spec[1]]) if spec[1] in ATOM_EXPECT else ("open", None)
    if op == "var":
        return "exact", {"variable": spec[1]}
    if op == "c1" and spec[1] in ("ne_p", "NePredicate"):
        return "exact", {"ne": {"v": eval(spec[2], dict(CONST_NS))}}  # noqa: S307
    if op == "fn":
        return "exact", {"fn": {"name": FUNCS[spec[2]][1]}}
    if op == "tee":
        return "exact", {"tee": None}
    if op == "un" and spec[1] in ("all_p", "any_p", "~", "AllPredicate", "AnyPredicate", "NotPredicate"):
        k, sub = ref_from_spec(spec[2])
        key = {"all_p": "all", "AllPredicate": "all", "any_p": "any", "AnyPredicate": "any", "~": "not", "NotPredicate": "not"}[spec[1]]
        return (k, {key: {"predicate": sub}}) if k == "exact" else ("open", None)
    if op == "bin":
        ka, a = ref_from_spec(spec[2])
        kb, b = ref_from_spec(spec[3])
        key = {"&": "and", "AndPredicate": "and", "|": "or", "OrPredicate": "or", "^": "xor", "XorPredicate": "xor"}[spec[1]]
        return ("exact", {key: {"left": a, "right": b}}) if ka == kb == "exact" else ("open", None)
    return "open", None


def same_json(a, b) -> bool:
    """equality of two renderings: same types, same keys, same leaves (NaN equals NaN; True is not 1).  The ORDER of the entries of a
    dictionary is not compared here: the property does not speak about it (the correspondence run does compare it)"""
    if type(a) is dict or type(b) is dict:
        return (type(a) is dict and type(b) is dict and set(a) == set(b) and all(same_json(a[k], b[k]) for k in a))
    if isinstance(a, float) and isinstance(b, float) and a != a and b != b:
        return True
    if type(a) is not type(b):
        return False
    if isinstance(a, (list, tuple)):
        return len(a) == len(b) and all(same_json(x, y) for x, y in zip(a, b))
    try:
        return bool(a == b)
    except Exception:  # noqa: BLE001
        return a is b


def verify(p, j, where="root"):
    """the property's clauses on one node and, recursively, on the operands; returns a list of violated clauses"""
    if type(j) is not dict:
        return [f"{where}: result is {type(j).__name__}, not a dictionary"]
    if len(j) != 1:
        return [f"{where}: dictionary has {len(j)} keys {list(j)!r}, not exactly one"]
    (key, val), = j.items()
    cls = type(p).__name__
    kind = KIND_OF_CLASS.get(cls)
    if kind is None:
        # a kind without rendering: the placeholder (or, should a rendering be added later, a key that is not another kind's name)
        if key == "unknown":
            return [] if (type(val) is dict and not val) else [f"{where}: 'unknown' placeholder carries {val!r} instead of {{}}"]
        if not isinstance(key, str) or key in RENDERED_KEYS:
            return [f"{where}: a {cls} is rendered under the key {key!r}, which names another kind"]
        return []
    if key != kind:
        return [f"{where}: key {key!r} does not name the root's kind ({cls} -> {kind!r})"]
    if kind in ("and", "or", "xor"):
        if type(val) is not dict or set(val) != {"left", "right"}:
            return [f"{where}: value of {kind!r} must have exactly the entries 'left' and 'right', got {safe_repr(val)}"]
        return verify(p.left, val["left"], where + "." + kind + ".left") + verify(p.right, val["right"], where + "." + kind + ".right")
    if kind in ("not", "all", "any"):
        if type(val) is not dict or list(val) != ["predicate"]:
            return [f"{where}: value of {kind!r} must have exactly the entry 'predicate', got {safe_repr(val)}"]
        return verify(p.predicate, val["predicate"], where + "." + kind)
    if kind == "variable":
        return [] if (type(val) is str and val == p.name) else [f"{where}: variable rendered as {val!r}, its name is {p.name!r}"]
    if kind == "ne":
        if type(val) is not dict or list(val) != ["v"] or not (val["v"] is p.v or same_json(val["v"], p.v)):
            return [f"{where}: ne_p must carry its constant {safe_repr(p.v)}, got {safe_repr(val)}"]
        return []
    if kind == "fn":
        want = {"name": function_name(p.predicate_fn)}
        return [] if (type(val) is dict and list(val) == ["name"] and type(val["name"]) is str and val == want) \
            else [f"{where}: function atom must be rendered by its function's name {want!r}, got {safe_repr(val)}"]
    want = {"true": True, "false": False, "is_falsy": None, "is_truthy": None, "tee": None}[kind]
    return [] if val is want else [f"{where}: value of {kind!r} is {val!r}, expected {want!r}"]


def pdepth(p) -> int:
    cls = type(p).__name__
    if cls in ("AndPredicate", "OrPredicate", "XorPredicate"):
        return 1 + max(pdepth(p.left), pdepth(p.right))
    if cls in ("NotPredicate", "AllPredicate", "AnyPredicate"):
        return 1 + pdepth(p.predicate)
    return 1


def jdepth_lenient(j) -> int:
    """nesting depth of a rendering where keys outside the 14 rendered kinds count as leaves"""
    if type(j) is not dict or len(j) != 1:
        return 0
    (k, v), = j.items()
    if k in ("and", "or", "xor") and type(v) is dict and set(v) == {"left", "right"}:
        return 1 + max(jdepth_lenient(v["left"]), jdepth_lenient(v["right"]))
    if k in ("not", "all", "any") and type(v) is dict and set(v) == {"predicate"}:
        return 1 + jdepth_lenient(v["predicate"])
    return 1


def rendered_constants(p, j):
    """the constants that sit in the rendering: ne_p's constant and, should a kind get a rendering of its own later, every
    parameter of such a node (walks predicate and verified rendering in parallel)"""
    cls = type(p).__name__
    (key, val), = j.items()
    if cls in ("AndPredicate", "OrPredicate", "XorPredicate"):
        return rendered_constants(p.left, val["left"]) + rendered_constants(p.right, val["right"])
    if cls in ("NotPredicate", "AllPredicate", "AnyPredicate"):
        return rendered_constants(p.predicate, val["predicate"])
    if cls == "NePredicate":
        return [p.v]
    if key == "unknown" or cls in KIND_OF_CLASS:
        return []
    try:
        return [getattr(p, f.name) for f in dataclasses.fields(p)]
    except Exception:  # noqa: BLE001
        return [val]


def dumps_ok(v) -> bool:
    try:
        json.dumps(v)
        return True
    except Exception:  # noqa: BLE001
        return False


def const_srcs(spec):
    op = spec[0]
    if op == "c1" and spec[1] in ("ne_p", "NePredicate"):
        return [spec[2]]
    if op in ("un", "comp"):
        return const_srcs(spec[2])
    if op == "bin":
        return const_srcs(spec[2]) + const_srcs(spec[3])
    return []


def check_spec(spec, p=None):
    """None when to_json behaves as the property says on build(spec), else a description of the violation"""
    if p is None:
        p = build(spec)
    try:
        j = to_json(p)
    except RecursionError:
        return None            # Python's own stack limit: the property does not speak about it (see NOTES)
    except Exception as e:  # noqa: BLE001
        return {"violates": "to_json raised", "error": f"{type(e).__name__}: {e}"}
    v = verify(p, j)
    if v:
        return {"violates": "shape of the result", "clauses": v[:3], "to_json": safe_repr(j, 500)}
    kind, want = ref_from_spec(spec)
    if kind == "exact" and not same_json(j, want):
        return {"violates": "result differs from the reference rendering of the constructor expression",
                "to_json": safe_repr(j, 500), "expected": safe_repr(want, 500)}
    if jdepth_lenient(j) != pdepth(p):
        return {"violates": "nesting depth of the JSON differs from the nesting depth of the predicate",
                "json_depth": jdepth_lenient(j), "predicate_depth": pdepth(p), "to_json": safe_repr(j, 500)}
    consts = rendered_constants(p, j)
    if all(dumps_ok(c) for c in consts):
        try:
            s = json.dumps(j)
        except Exception as e:  # noqa: BLE001
            return {"violates": "json.dumps(to_json(p)) raised although every constant is serialisable", "error": f"{type(e).__name__}: {e}",
                    "to_json": safe_repr(j, 500)}
        if all(CONST_FLAGS.get(c, (0, 0))[1] for c in const_srcs(spec)) and kind == "exact":
            back = json.loads(s)
            if not same_json(back, j):
                return {"violates": "json.loads(json.dumps(to_json(p))) differs from to_json(p)", "dumped": s[:500]}
    return None


def leaf_specs():
    out = [["atom", n] for n in ATOMS]
    out += [["var", n] for n in NAMES]
    out += [["c1", f, c] for f in C1 for c, _, _ in CONSTS]
    out += [["c1", f, c] for f in C1_INT for c in ("0", "2")] + [["c1", f, c] for f in C1_STR for c in ("'a'", "'^x+$'", "''")]
    out += [["c2", f, a, b] for f in C2 for a in ORDERED[:4] for b in ORDERED[:4]] + [["c2", f, "'a'", "''"] for f in C2]
    out += [[k, f, s] for k, tbl in (("setv", CSET_VAR), ("set", CSET)) for f in tbl for s in ([], ["1"], HASHABLE[:4], HASHABLE)]
    out += [["inst", cs] for cs in ([], ["int"], ["int", "str"], ["Predicate"], list(CLASSES))]
    out += [["net", f, n] for f in CNET for n in NETS]
    out += [["fn", how, k] for how in ("fn_p", "FnPredicate") for k in FUNCS] + [["tee", k] for k in FUNCS]
    return out


def random_spec(rng, leaves, size):
    """random constructor expression with about `size` nodes"""
    if size <= 1:
        return rng.choice(leaves)
    r = rng.random()
    if r < 0.30:
        return ["un", rng.choice(list(UN)), random_spec(rng, leaves, size - 1)]
    if r < 0.36:
        return ["comp", rng.choice(list(FUNCS)), random_spec(rng, leaves, size - 1)]
    if r < 0.42:
        n = rng.randrange(0, 4)
        return ["tuple_of", [random_spec(rng, leaves, max(1, (size - 1) // max(1, n))) for _ in range(n)]]
    if r < 0.48:
        n = rng.randrange(0, 3)
        return ["dict_of", [[rng.choice(["k", "left"]) if rng.random() < 0.5 else random_spec(rng, leaves, 1),
                             random_spec(rng, leaves, max(1, (size - 1) // max(1, n)))] for _ in range(n)]]
    k = rng.randrange(1, size - 1) if size > 2 else 1
    return ["bin", rng.choice(list(BIN)), random_spec(rng, leaves, k), random_spec(rng, leaves, max(1, size - 1 - k))]


def search(payload):
    rng = rng_of(payload)
    deep = bool(payload.get("deep")) or payload.get("tier") == "thorough"
    leaves = leaf_specs()
    specs = list(leaves)
    probe = [["var", "o"], ["c1", "ne_p", "7"], ["c1", "ge_p", "1"]]
    for i, lf in enumerate(leaves):                       # every leaf under every unary/binary constructor, both sides
        o = probe[i % 3]
        specs += [["un", u, lf] for u in UN] + [["comp", "len", lf], ["tuple_of", [lf, o]], ["dict_of", [["k", lf], [o, lf]]]]
        specs += [["bin", b, lf, o] for b in BIN] + [["bin", b, o, lf] for b in BIN]
    # every shape with <= 5 nodes over the rendered connectives, leaves drawn at random from all leaves
    memo: dict = {}
    for n in range(2, 6):
        for sh in shapes(n, memo):
            specs.append(spec_of_shape(sh, rng, leaves))
    n_random = 200000 if deep else 40000
    for _ in range(n_random):
        specs.append(random_spec(rng, leaves, rng.randrange(2, 9 if deep else 7)))
    # operands that are == but not the same: commuted connectives, constants equal across types (1 == True == 1.0)
    eqs = [(["var", "a"], ["var", "b"]), (["c1", "ne_p", "1"], ["var", "a"]), (["c1", "ne_p", "2"], ["c1", "ne_p", "3"])]
    for a_, b_ in eqs:
        for o1 in BIN:
            for o2 in BIN:
                specs += [["bin", o1, ["bin", o2, a_, b_], ["bin", o2, b_, a_]], ["bin", o1, ["un", "~", ["bin", o2, a_, b_]], ["bin", o2, b_, a_]]]
    for c1_, c2_ in (("1", "True"), ("True", "1"), ("1", "1.0"), ("0", "False"), ("0.0", "0"), ("2", "2.0")):
        for o1 in BIN:
            specs += [["bin", o1, ["c1", "ne_p", c1_], ["c1", "ne_p", c2_]], ["bin", o1, ["un", "all_p", ["c1", "ne_p", c1_]], ["un", "all_p", ["c1", "ne_p", c2_]]]]
    # beyond the small bounds: 40-deep chains with DISTINCT leaves on both spines, constants beyond 2**53, names outside ASCII / not NFKC-normal
    for d in (33, 40, 70):
        sl, sr = ["var", "x0"], ["var", f"x{d}"]
        for i in range(1, d):
            sl = ["bin", "&|^"[i % 3], sl, ["var", f"x{i}"]]
            sr = ["bin", "&|^"[i % 3], ["var", f"x{d - i}"], sr]
        specs += [sl, sr, ["un", "~", sl]]
    for c_ in ("2**53 + 1", "2**64", "-(2**64)", "10**30", "2**53 - 1", "1e300", "-1e-300"):
        specs += [["c1", "ne_p", c_], ["bin", "&", ["c1", "ne_p", c_], ["var", "a"]], ["un", "all_p", ["c1", "ne_p", c_]]]
    for nm in ("x\u00b2", "\u00b5", "\ufb01le", "\uff50", "\u2160", "A\u030a", "\u212b", "caf\u00e9", "\u03bc", "x2", "\u540d\u524d", "a b", ""):
        specs += [["var", nm], ["bin", "|", ["var", nm], ["var", "x2"]], ["un", "~", ["var", nm]]]
    # long chains and deep nests (depth only limited by Python's own recursion limit, which the property does not speak about)
    for d in (20, 60, 120):
        s = ["var", "p"]
        for i in range(d):
            s = ["bin", "&|^"[i % 3], s, ["c1", "ne_p", str(i)]] if i % 2 else ["un", ("~", "all_p", "any_p")[i % 3], s]
        specs.append(s)
    fails, n, refused = [], 0, 0
    for s in specs:
        try:
            p = build(s)
        except Exception:  # noqa: BLE001   a constructor refused its arguments: not an input of to_json
            refused += 1
            continue
        n += 1
        bad = check_spec(s, p)
        if bad:
            fails.append({"spec": s, "p": safe_repr(p), **bad})
            if len(fails) >= 200:
                break
    fails.sort(key=lambda f: (len(f["p"]), len(json.dumps(f["spec"]))))      # smallest failing predicate first
    # HISTORY (history.py): the same renderings again and again on temporaries; the caller annotates the dictionaries it was handed (adds a key
    # to every nested dict) and renders something else; a rendering that failed with RecursionError is repeated after the limit was raised
    import history
    import sys as _sys

    def annotate(j, depth=0):
        if isinstance(j, dict) and depth < 50:
            for v in list(j.values()):
                annotate(v, depth + 1)
            j["note"] = "seen by the caller"

    def render_call(s_):
        def th():
            bad_ = check_spec(s_, build(s_))
            if bad_:
                return {"spec": s_, "p": safe_repr(build(s_)), **bad_}
            annotate(to_json(build(s_)))               # what a caller may do with the result it was handed
            return None
        return th
    hspecs = [s_ for s_ in specs[: len(leaves) + 400: 9]]
    hcalls = []
    for i, s_ in enumerate(hspecs):
        try:
            build(s_)
        except Exception:  # noqa: BLE001
            continue
        hcalls.append((f"to_json(<{json.dumps(s_)[:120]}>), the result then annotated by the caller", render_call(s_)))

    def deep_not(k):
        return ["un", "~", deep_not(k - 1)] if k else ["c1", "ne_p", "13"]

    def retry_after_recursion_error():
        p = build(["c1", "ne_p", "13"])
        for _ in range(700):
            p = ~p
        try:
            to_json(p)
            return None                                  # (deep enough for the default limit on every interpreter this runs on; if not, nothing to retry)
        except RecursionError:
            pass
        old = _sys.getrecursionlimit()
        _sys.setrecursionlimit(20000)
        try:
            j = to_json(p)
        finally:
            _sys.setrecursionlimit(old)
        depth, cur = 0, j
        while isinstance(cur, dict) and "not" in cur:
            cur = cur["not"].get("predicate")
            depth += 1
        if depth != 700:
            return {"spec": "~ applied 700 times to ne_p(13)", "p": "~~...~ne_p(13)", "violates": "nesting of the JSON differs from the nesting of the predicate",
                    "to_json": safe_repr(j, 200), "nesting_found": depth, "note": "the first to_json(p) raised RecursionError (the interpreter's limit); the same call after sys.setrecursionlimit(20000)"}
        return None
    _old = _sys.getrecursionlimit()
    _sys.setrecursionlimit(1000)
    try:
        hn, hfails = history.run(hcalls, passes=3, seed=int(payload.get("seed", 0)), vetted=False)
        r_ = retry_after_recursion_error()              # a history of its own (self-contained: judged at its first execution)
        hn += 1
        if r_:
            hfails.append(r_)
    finally:
        _sys.setrecursionlimit(_old)
    n += hn
    fails = fails + hfails
    samples = [{"spec": s, "to_json": safe_repr(to_json_or_error(s), 300)} for s in (specs[len(leaves) + 7], specs[-5])]
    return {"evaluations": n, "failures": fails[:5], "known_hits": [], "constructors_refused": refused,
            "leaf_kinds": len(leaves), "exported_atoms": len(ATOMS), "samples": samples}


def to_json_or_error(spec):
    try:
        return to_json(build(spec))
    except Exception as e:  # noqa: BLE001
        return f"raised {type(e).__name__}: {e}"


def spec_of_shape(sh, rng, leaves):
    op = sh[0]
    if op == "leaf":
        return rng.choice(leaves)
    if op in ("not", "all", "any"):
        return ["un", {"not": "~", "all": "all_p", "any": "any_p"}[op], spec_of_shape(sh[1], rng, leaves)]
    if op == "set_of":
        return ["un", "is_set_of_p", spec_of_shape(sh[1], rng, leaves)]
    if op == "comp":
        return ["comp", rng.choice(list(FUNCS)), spec_of_shape(sh[1], rng, leaves)]
    return ["bin", {"and": "&", "or": "|", "xor": "^"}[op], spec_of_shape(sh[1], rng, leaves), spec_of_shape(sh[2], rng, leaves)]


def replay(payload):
    inp = payload["replay"].get("input") or {}
    spec = inp.get("spec")
    if spec is None:
        return {"fails": True, "note": "no constructor spec stored (tie/proof breakage): re-run ./check C18", "input": inp}
    if inp.get("history") or inp.get("note") or not isinstance(spec, list):
        return {"fails": True, "note": "this failure depends on the calls made before it in one process (see `history` / `calls_before` / `note` in the input): "
                                       "re-run ./check C18, which replays the whole history", "input": inp}
    bad = check_spec(spec)
    return {"fails": bad is not None, "spec": spec, "p": safe_repr(build(spec)), "to_json": safe_repr(to_json_or_error(spec), 600), "violation": bad}


if __name__ == "__main__":
    main({"correspondence": correspondence, "search": search, "replay": replay, "fingerprint": write_fingerprint})
