"""C02 — optimize() preserves scalar atoms.
correspondence: Gen/Optimize.v vs predicate.optimize, structurally, on every (atom op atom) pair sample and seeded
                depth<=3 trees over a ~110-atom grid (constants in every relative order, empty/singleton sets, types, fn atoms).
search:         p(x) vs optimize(p)(x) on the implementation for x in a mixed-type domain (each constant, points between,
                beyond both ends, None/bool/str/tuple), wherever all atoms of p are defined on x."""
from common import gen, main, rng_of
import optcommon as oc


def full_family():
    """the deterministic input family of C02: every atom, its negation, and every (atom op atom) pair of the grid"""
    mk = gen.scalar_atom_makers()
    trees = [gen.mk(op, mk[a](), mk[b]()) for a in range(len(mk)) for b in range(len(mk)) for op in ("and", "or", "xor")]
    for m in mk:
        trees += [gen.mk("not", m()), m()]
    return trees, gen.SCALAR_VALUES, False


def trees_for(payload, for_search=False, flags=False):
    rng = rng_of(payload)
    thorough = payload["tier"] == "thorough" or (for_search and payload.get("deep"))
    mk = gen.scalar_atom_makers()
    trees = []
    pairs = [(a, b, op) for a in range(len(mk)) for b in range(len(mk)) for op in ("and", "or", "xor")]
    for a, b, op in (pairs if thorough else rng.sample(pairs, 2500)):
        trees.append(gen.mk(op, mk[a](), mk[b]()))
    for m in mk:
        trees.append(gen.mk("not", m()))
        trees.append(m())
    n_family = len(trees)
    for _ in range(12000 if thorough else 1500):
        trees.append(gen.build(gen.random_shape(rng, len(mk), rng.choice([2, 3, 3, 4])), mk))
    if flags:
        return trees, [i < n_family for i in range(len(trees))]
    return trees


def correspondence(payload):
    return oc.correspondence(trees_for(payload), "c02",
                             "atom-op-atom pairs (sampled quick, all ~38k thorough), every atom and its negation, and seeded random "
                             "trees of depth 2-4 over a grid of comparison/range/membership/none/truthy/type/function atoms with constants "
                             "{0,1,2,3,5}; optimize(p) compared structurally with the generated model; distinct = distinct reprs")


def big_trees():
    mk_, _sets = gen.big_atom_makers()
    small = gen.scalar_atom_makers(consts=[0, 3, 5], with_fn=False)[:12]
    out = []
    for i, a in enumerate(mk_):
        out += [a(), gen.mk("not", a())]
        for b in mk_[i + 1:]:
            for op in ("and", "or", "xor"):
                out += [gen.mk(op, a(), b()), gen.mk(op, b(), a())]
        for b in small[::3]:
            for op in ("and", "or"):
                out.append(gen.mk(op, a(), b()))
    return out


def search(payload):
    trees, family = trees_for(payload, for_search=True, flags=True)
    res = oc.search(trees, gen.SCALAR_VALUES, "C02", payload, family=family)
    # large / precise parameters, judged at large / precise probe values (no listed family: every failure here is new)
    big = oc.search(big_trees(), gen.BIG_VALUES + [None, "a", True], "C02", payload)
    res["evaluations"] += big["evaluations"]
    res["failures"] = (res["failures"] + big["failures"])[:10]
    res["known_hits"] += [h for h in big["known_hits"] if not h.get("witness")]
    # bounds at the edge of the floats (+-inf, -0.0, the smallest positive float) and the exported type tests next to the none-tests
    import predicate.standard_predicates as _SP2
    from predicate.standard_predicates import ge_p as _g2, gt_p as _gt2, le_p as _l2, lt_p as _lt2, eq_p as _e2, ne_p as _n2, is_none_p as _none2, is_not_none_p as _nn2
    inf_ = float("inf")
    edge = [_gt2(-inf_), _lt2(inf_), _g2(-inf_), _l2(inf_), _gt2(inf_), _lt2(-inf_), _e2(inf_), _n2(-inf_), _g2(-0.0), _gt2(0.0), _l2(5e-324), _gt2(-5e-324), _g2(1), _l2(3)]
    et = []
    for a in edge:
        for b in edge:
            if a is not b:
                et += [a & b, a | b]
    types_ = [getattr(_SP2, nm_) for nm_ in ("is_hashable_p", "is_callable_p", "is_iterable_p", "is_container_p", "is_int_p", "is_str_p", "is_list_p", "is_bool_p", "is_float_p", "is_dict_p") if hasattr(_SP2, nm_)]
    for t_ in types_:
        et += [t_ & _nn2, _nn2 & t_, t_ | _none2, t_ & _none2, ~t_ | _nn2, t_ ^ _nn2]
    eb = oc.search(et, [-inf_, inf_, 0.0, -0.0, 5e-324, -5e-324, 1, 2, 3, 4, -1, 1e308, -1e308, None, "a", [], (), {}, len, True, 2.5], "C02", payload)
    res["evaluations"] += eb["evaluations"]
    res["failures"] = (res["failures"] + eb["failures"])[:10]
    res["known_hits"] += [h for h in eb["known_hits"] if not h.get("witness")]
    res["big_parameter_evaluations"] = big["evaluations"]
    # HISTORY: the same small trees again and again in this process, same-shaped trees that differ in one constant one after the other
    # (-1 / -2 hash alike), atoms SHARED between successive calls (an optimizer that edits a set in place changes the next tree)
    from predicate.standard_predicates import eq_p, ge_p, gt_p, le_p, lt_p, ne_p
    from predicate.set_predicates import in_p, not_in_p
    listed = oc.load_listed("C02") or {}
    fam = [t for t, f in zip(trees, family) if f]
    tpl = [t for t in fam[:: max(1, len(fam) // 170)] if oc.skey(t) not in listed]         # (the listed failing members are left to the family search)
    for c in (-2, -1, 0, 1, 2, 3):
        tpl += [ge_p(c) & le_p(3), in_p(c, 5) | eq_p(7), lt_p(c) | ge_p(3), gt_p(c) & ne_p(3), not_in_p(c, 4) & ge_p(-3), eq_p(c) | eq_p(c + 10)]
    pts = gen.SCALAR_VALUES + [-1.5, -2, -1, -3, 7, 11, 12]
    shared = {"blocked": not_in_p(1, 2, 3), "allowed": in_p(1, 2, 3, 4), "low": le_p(3)}
    fresh = {"blocked": lambda: not_in_p(1, 2, 3), "allowed": lambda: in_p(1, 2, 3, 4), "low": lambda: le_p(3)}

    def shared_call(build):
        def th():
            q = oc.optimize(build(shared))
            ref = build({k: f() for k, f in fresh.items()})          # the same expression over fresh atoms: what the user wrote
            d = oc.first_difference_pair(ref, q, pts, False)
            if d is None:
                return None
            return {"p": repr(ref), "p_structure": oc.skey(ref), "optimized": repr(q), "x": repr(d[0]), "original_answer": repr(d[1]), "optimized_answer": repr(d[2]),
                    "note": "the atoms of this tree are objects that earlier optimize() calls of this process have also seen (shared by the caller)"}
        return th
    builds = [("in_p(1, 5) | blocked", lambda a: in_p(1, 5) | a["blocked"]), ("blocked & ge_p(0)", lambda a: a["blocked"] & ge_p(0)), ("allowed & not_in_p(3, 4, 5)", lambda a: a["allowed"] & not_in_p(3, 4, 5)),
              ("allowed | eq_p(7)", lambda a: a["allowed"] | eq_p(7)), ("in_p(3, 9) & allowed", lambda a: in_p(3, 9) & a["allowed"]), ("blocked | in_p(2, 8)", lambda a: a["blocked"] | in_p(2, 8)),
              ("low & ge_p(0)", lambda a: a["low"] & ge_p(0)), ("low | gt_p(10)", lambda a: a["low"] | gt_p(10)), ("~blocked | allowed", lambda a: ~a["blocked"] | a["allowed"])]
    extra = [(f"optimize({lb})  [blocked = not_in_p(1, 2, 3), allowed = in_p(1, 2, 3, 4), low = le_p(3): the caller's own objects, used in every such call]", shared_call(b)) for lb, b in builds]
    n, hfails = oc.history_search("C02", payload, tpl, pts, assignments=False, extra_calls=extra, vetted=True)
    res["evaluations"] += n
    res["history_calls"] = n
    res["failures"] = (res["failures"] + hfails)[:10]
    return res


def replay(payload):
    return oc.replay(payload)


if __name__ == "__main__":
    main({"correspondence": correspondence, "search": search, "replay": replay})
