"""C12 — optimize() always terminates, and analysis functions never mutate their input.
correspondence: the generated optimizer run with EXACTLY the budget of the theorem (4*w(p)+3) on the C01-C03 term spaces: it
                must return Ok and the implementation's result (never OutOfFuel / Crash).
search:         (a) optimize() call counts on adversarial families against a quadratic envelope, no exception / RecursionError;
                (b) deep snapshots of the argument before/after every analysis function over call histories of length <= 4."""
import itertools
import re
import signal
import sys

from common import call, chunks, enc, gen, main, rng_of, vlib
import optcommon as oc

import predicate.optimizer.predicate_optimizer as PO
from predicate import can_optimize, optimize, to_dot, to_json
from predicate import predicate as PP
from predicate import generate_false         # the PUBLIC entry point (what users import)
from predicate import generate_true          # the PUBLIC entry point (what users import)
from predicate.implies import implies
from predicate.named_predicate import NamedPredicate
from predicate.negate import negate
from predicate.standard_predicates import all_p, any_p, eq_p, ge_p, le_p, ne_p
from predicate.set_predicates import in_p, not_in_p, is_subset_p


def term_space(payload, n_each):
    rng = rng_of(payload)
    leaves = gen.prop_leaves(["p", "q", "r"])
    sc = gen.scalar_atom_makers()
    el = gen.scalar_atom_makers(consts=[1, 2], with_fn=False)
    co = gen.coll_atom_makers(el[:14]) + gen.set_atom_makers()[:8]
    trees = []
    for mk, depths in ((leaves, [3, 4, 5, 6, 7]), (sc, [2, 3, 4]), (co, [2, 3])):
        for _ in range(n_each):
            trees.append(gen.build(gen.random_shape(rng, len(mk), rng.choice(depths)), mk))
    return trees


def correspondence(payload):
    trees = term_space(payload, 1500 if payload["tier"] == "thorough" else 350)
    kept, results = [], []
    for p in trees:
        try:
            q = optimize(p)
        except Exception:  # noqa: BLE001
            continue
        if oc.encodable(p) and oc.encodable(q):
            kept.append(p)
            results.append(q)
    cx = enc.Ctx()
    items = [f"({cx.pred(p)}, {cx.pred(q)})" for p, q in zip(kept, results)]
    codes = []
    for part in chunks(items, 400):
        text = (enc.CASE_HEADER + "From PP Require Import Lemmas.Term.\nOpen Scope Q_scope.\n" + enc.world_text()
                + "\nDefinition run (c : pred*pred) : nat := match optimize W0 (4 * w (fst c) + 3)%nat (fst c) with\n"
                  " | Ok q tr => if same q (snd c) then (if Nat.leb (w q) (w (fst c)) then 0%nat else 4%nat) else 1%nat | OutOfFuel => 2%nat | Crash => 3%nat end.\n"
                + "Definition cases := [\n" + ";\n".join(part) + "].\nEval vm_compute in map run cases.\n")
        codes += vlib.parse_nat_list(vlib.coq_eval("c12", text))
    mism = [{"p": repr(kept[i]), "impl": repr(results[i]), "model_status": c,
             "meaning": {1: "different result", 2: "out of budget 4*w+3", 3: "crash", 4: "result heavier than input"}.get(c)}
            for i, c in enumerate(codes) if c != 0]
    return {"evaluations": len(items), "distinct_nontrivial": len({repr(p) for p in kept}),
            "rule": "seeded random trees from the C01 (depth 3-7), C02 (depth 2-4) and C03 (depth 2-3) term spaces; the generated optimizer is run "
                    "with exactly the budget 4*w(p)+3 of theorem C12 and must return the implementation's result with weight <= w(p)",
            "samples": [{"p": repr(kept[i]), "w_budget": "4*w+3"} for i in range(0, len(kept), max(1, len(kept) // 4))][:4],
            "mismatches": mism[:20]}


# ---------------------------------------------------------------- call counts
class BudgetExceeded(BaseException):
    """raised from inside the counted optimize() when the call budget is used up (BaseException: no rule's `except` swallows it)"""


class Counter:
    def __init__(self, limit=None):
        self.n = 0
        self.limit = limit
        self.orig = PO.optimize

    def __enter__(self):
        c = self

        def counted(p):
            c.n += 1
            if c.limit is not None and c.n > c.limit:
                raise BudgetExceeded()
            return c.orig(p)
        PO.optimize = counted
        return self

    def __exit__(self, *a):
        PO.optimize = self.orig


def size(p):
    return sum(1 for _ in oc.subterms(p))


def families(n):
    """adversarial families of roughly n nodes"""
    names = [NamedPredicate(name=f"v{i}") for i in range(n)]

    def balanced(ops, lo, hi, d=0):
        if hi - lo == 1:
            return names[lo]
        mid = (lo + hi) // 2
        return gen.mk(ops[d % len(ops)], balanced(ops, lo, mid, d + 1), balanced(ops, mid, hi, d + 1))
    k = max(2, n // 2)
    out = {
        "balanced and/or": balanced(["and", "or"], 0, k),
        "balanced xor/and": balanced(["xor", "and"], 0, k),
        "balanced or/xor/and": balanced(["or", "xor", "and"], 0, k),
    }
    t = names[0]
    for i in range(1, k):
        t = gen.mk("xor", gen.mk("and", t, names[i]), PP.always_true_p) if i % 2 else gen.mk("not", gen.mk("or", t, names[i]))
    out["left spine xor-true / not-or"] = t
    t = all_p(ge_p(0))
    for i in range(1, n // 3):
        t = gen.mk("and", t, all_p(le_p(i)))
    out["all & all chain"] = t
    t = any_p(eq_p(0))
    for i in range(1, n // 3):
        t = gen.mk("or", t, any_p(eq_p(i)))
    out["any | any chain"] = t
    t = names[0]
    for i in range(n // 2):
        t = gen.mk("not", t)
    out["nested not"] = t
    t = ge_p(0)
    for i in range(1, max(2, n // 4)):      # right-nested xor chain whose left operands are conjunctions that survive optimisation
        t = gen.mk("xor", gen.mk("and", ge_p(10 * i), ne_p(10 * i + 5)), t)
    out["right-nested xor over surviving and"] = t
    k2 = min(max(6, n // 6), 22)            # an implication ~v0 | v1 | ... | vk over many DISTINCT variables (and its conjunctive dual)
    t = gen.mk("not", names[0])
    t2 = names[0]
    for i in range(1, k2):
        t = gen.mk("or", t, names[i])
        t2 = gen.mk("and", t2, gen.mk("not", names[i]) if i % 2 else names[i])
    out["wide implication over distinct variables"] = t
    out["wide conjunction of literals"] = t2
    t = names[0]
    for i in range(1, max(2, n // 4)):      # the mirrored spine
        t = gen.mk("xor", t, gen.mk("and", names[i], ne_p(i)))
    out["left-nested xor over and"] = t
    t = in_p(0, 1)
    for i in range(1, n // 2):
        t = gen.mk("or" if i % 2 else "and", t, in_p(i, i + 1) if i % 3 else not_in_p(i))
    out["in/not_in chain"] = t
    return out


class SlowOptimize(BaseException):
    pass


def run_limited(fn, t, seconds=400):
    """fn(t) under a limit on the CPU time of THIS process (ITIMER_VIRTUAL: a loaded machine does not count against it; the unchanged tree
    needs ~85 CPU-seconds for the largest family member of the thorough tier, ~3 for the largest of the quick tier).  The decisive
    measure of the property is the number of optimize() calls (Counter budget); the clock only ends a run that neither returns nor
    calls optimize any more."""
    def on_alarm(*_a):
        raise SlowOptimize(seconds)
    old = signal.signal(signal.SIGVTALRM, on_alarm)
    signal.setitimer(signal.ITIMER_VIRTUAL, seconds)
    try:
        return fn(t)
    finally:
        signal.setitimer(signal.ITIMER_VIRTUAL, 0)
        signal.signal(signal.SIGVTALRM, old)


def count_search(payload, fails):
    sizes = [30, 120, 400] if payload["tier"] == "quick" and not payload.get("deep") else [30, 120, 400, 1200]
    sys.setrecursionlimit(20000)
    rows = []
    for n in sizes:
        for name, t in families(n).items():
            sz = size(t)
            over = False
            with Counter(limit=4 * sz * sz + 400) as c:      # stop counting at twice the envelope: an exponential blow-up never returns
                try:
                    run_limited(optimize, t)
                    err = None
                except SlowOptimize as e:
                    err = f"did not return within {e.args[0]} CPU-seconds of this process (the unchanged tree needs at most ~85 for the largest family member)"
                except BudgetExceeded:
                    err, over = None, True
                except RecursionError:
                    err = "RecursionError"
                except Exception as e:  # noqa: BLE001
                    err = f"{type(e).__name__}: {e}"
            rows.append({"family": name, "nodes": sz, "optimize_calls": c.n, "error": err, "aborted_over_budget": over})
            if err:
                fails.append({"kind": "optimize raised", "family": name, "nodes": sz, "error": err})
            elif over or c.n > 2 * sz * sz + 200:
                fails.append({"kind": "optimize() call count exceeds the quadratic envelope 2*n^2+200" + (" (counting stopped at twice the envelope)" if over else ""),
                              "family": name, "nodes": sz, "calls": c.n, "smallest_member_of_family": repr(families(12)[name])[:300]})
                if over:
                    break       # larger members of an exponential family are not attempted
        else:
            continue
        break
    return rows


# ---------------------------------------------------------------- non-mutation
def snapshot(p):
    """structure, constants (set contents sorted), and identities of every sub-object and every set"""
    out = []
    for t in oc.subterms(p):
        d = {}
        for k, v in sorted(vars(t).items()):
            if k in ("frame", "this_predicate", "root_predicate", "predicate") and not isinstance(v, PP.Predicate):
                continue
            if isinstance(v, PP.Predicate):
                d[k] = ("pred", id(v))
            elif isinstance(v, (set, frozenset)):
                d[k] = ("set", id(v), tuple(sorted(map(repr, v))))
            elif isinstance(v, (list, tuple)):
                d[k] = (type(v).__name__, id(v), repr(v))
            else:
                d[k] = ("val", repr(v))
        out.append((type(t).__name__, id(t), tuple(sorted(d.items()))))
    return (repr(p), tuple(out))


class Timeout(Exception):
    pass


def _alarm(*a):
    raise Timeout()


def take(gen_, k):
    out = []
    signal.signal(signal.SIGALRM, _alarm)
    signal.setitimer(signal.ITIMER_REAL, 1.0)
    try:
        for v in gen_:
            out.append(v)
            if len(out) >= k:
                break
    except (Timeout, Exception):  # noqa: BLE001
        pass
    finally:
        signal.setitimer(signal.ITIMER_REAL, 0)
    return out


def analysis_calls(other):
    return {
        "optimize": lambda p: optimize(p),
        "can_optimize": lambda p: can_optimize(p),
        "negate": lambda p: negate(p),
        "implies(p,q)": lambda p: implies(p, other),
        "implies(q,p)": lambda p: implies(other, p),
        "to_json": lambda p: to_json(p),
        "to_dot": lambda p: to_dot(p, show_optimized=True),
        "generate_true": lambda p: take(generate_true(p), 3),
        "generate_false": lambda p: take(generate_false(p), 3),
    }


PROBES = [None, True, 0, 1, 2, 3, 2.5, "a", [], [1, 2], {1}, {1, 2, 3}, set()]


def mutation_search(payload, fails):
    rng = rng_of(payload)
    trees = term_space(payload, 120 if payload["tier"] == "quick" and not payload.get("deep") else 500)
    blocked = not_in_p(*range(40))
    trees += [ge_p(0) & in_p(*range(100, 120)), gen.mk("not", not_in_p(*range(100, 125))), is_subset_p(set(range(20))) | is_subset_p(set(range(10, 40))),
              blocked & not_in_p(1000, 1001), gen.mk("xor", gen.mk("and", blocked, not_in_p(1000, 1001)), blocked), in_p(*range(50)) | in_p(*range(40, 90)),
              in_p(*range(33)) & not_in_p(*range(20, 60)), in_p(*range(64)) ^ in_p(*range(32, 96))]
    trees += [in_p(1, 2) & in_p(2, 3), not_in_p(1) & not_in_p(2), in_p(1, 2) | in_p(3), in_p(1, 2) ^ in_p(2, 3),
              is_subset_p({1, 2}) & is_subset_p({2, 3}), in_p(1, 2) | eq_p(3), eq_p(1) | not_in_p(1, 2), in_p(1, 2) & not_in_p(2)]
    n = 0
    for p in trees:
        other = rng.choice(trees)
        calls = analysis_calls(other)
        seq = [rng.choice(list(calls)) for _ in range(rng.choice([1, 2, 3, 4]))]
        before = snapshot(p)
        answers = [call(p, x) for x in PROBES]
        for name in seq:
            try:
                calls[name](p)
            except Exception:  # noqa: BLE001   (unsupported kinds raise ValueError etc.: not this property's concern)
                pass
            n += 1
            after = snapshot(p)
            if after != before:
                fails.append({"kind": "analysis function modified its argument", "function": name, "history": seq,
                              "before": before[0], "after": after[0]})
                break
            if [call(p, x) for x in PROBES] != answers:
                fails.append({"kind": "argument answers differently after the call", "function": name, "history": seq, "p": before[0]})
                break
        if len(fails) >= 5:
            break
    # tuple / dict / set / list 'of' forms with several components, not in any sorted order: EVERY analysis function, one after the other
    from predicate.standard_predicates import is_dict_of_p, is_tuple_of_p, is_set_of_p, is_list_of_p, is_str_p, is_int_p, is_bool_p
    comps = [is_dict_of_p(("id", is_int_p), (is_str_p, is_str_p), ("age", is_int_p)), is_dict_of_p((is_str_p, is_int_p), ("zz", is_int_p), (is_int_p, is_str_p), ("aa", is_str_p)),
             is_dict_of_p(("name", is_str_p), ("age", is_int_p)), is_dict_of_p(("z", is_int_p), ("m", is_str_p), ("a", is_bool_p)),
             is_dict_of_p((is_str_p, is_int_p), ("age", ge_p(0))), is_tuple_of_p(is_str_p, is_int_p, is_bool_p), is_tuple_of_p(ge_p(3), in_p(3, 1, 2), eq_p(0)),
             is_tuple_of_p(is_dict_of_p(("b", is_int_p), ("a", is_str_p)), is_list_of_p(in_p(9, 8, 7))), is_set_of_p(in_p(5, 4, 3)) | is_list_of_p(not_in_p(2, 1)),
             is_dict_of_p(("k", is_tuple_of_p(is_int_p, is_str_p)), ("j", is_dict_of_p(("y", is_int_p), ("x", is_str_p))))]
    probes2 = PROBES + [{"name": "n", "age": 3}, {"age": 3, "name": "n"}, {"z": 1, "m": "s", "a": True}, ("a", 1, True), (3, 1, 0), {"k": (1, "a"), "j": {"y": 1, "x": "s"}}]
    for p in comps:
        calls = analysis_calls(p)

        def deep_snapshot(q):
            parts = [snapshot(q)]
            for t in oc.subterms(q):
                for attr in ("predicates", "key_value_predicates"):
                    for item in getattr(t, attr, []) or []:
                        for c in (item if isinstance(item, tuple) else (item,)):
                            if isinstance(c, PP.Predicate):
                                parts.append(deep_snapshot(c))
            return tuple(parts)
        before = deep_snapshot(p)
        answers = [call(p, x) for x in probes2]
        for name in calls:
            try:
                calls[name](p)
            except Exception:  # noqa: BLE001
                pass
            n += 1
            after = deep_snapshot(p)
            if after != before or [call(p, x) for x in probes2] != answers:
                fails.append({"kind": "analysis function modified its argument" if after != before else "argument answers differently after the call", "function": name,
                              "before": str(before[0][1][0][2])[:300], "after": str(after[0][1][0][2])[:300], "p": type(p).__name__})
                break
    return n


def _lazy_probe(fn_name, fn):
    """build P = is_str_p | (is_list_p & all_p(lazy_p(NAME))), run the analysis function while NAME is still unbound, then bind it and call P"""
    from predicate.standard_predicates import is_list_p, is_str_p, lazy_p
    P = is_str_p | (is_list_p & all_p(lazy_p("c12_nested_strings")))
    if fn is not None:
        try:
            fn(P)
        except Exception:  # noqa: BLE001
            pass
    c12_nested_strings = P  # noqa: F841  (found by lazy_p through this frame)
    return call(P, ["a", ["b"]]), call(P, ["a", [1]])


def _ref_probe(kind, fn):
    """branch = is_list_p & all_p(<root_p|this_p>); whole = is_str_p | branch; the analysis function sees `branch` first"""
    from predicate.standard_predicates import is_int_p, is_list_p, is_str_p, root_p, this_p
    ref = root_p if kind == "root_p" else this_p
    if kind == "root_p":
        branch = is_list_p & all_p(ref)
        whole = is_str_p | branch
        target = whole
    else:
        whole = is_str_p | (is_list_p & all_p(ref))
        branch = whole | is_int_p           # a LARGER predicate containing `whole`, analysed before `whole` is first called
        target = whole
    if fn is not None:
        try:
            fn(branch)
        except Exception:  # noqa: BLE001
            pass
    return call(target, ["foo"]), call(target, ["foo", [1]]), call(target, [13])


def no_raise_search(fails):
    """optimize() must return a predicate for mutually comparable constants of mixed numeric types (int / float / bool)"""
    from predicate.standard_predicates import gt_p, lt_p
    consts = [0, 1, 2.5, True, 3, 0.5, False, 2]
    lows = [f(c) for c in consts for f in (ge_p, gt_p)]
    highs = [f(c) for c in consts for f in (le_p, lt_p)]
    n = 0
    for a in lows + [eq_p(1), eq_p(1.0), in_p(1, 2.5), not_in_p(True, 3.5)]:
        for b in highs + [eq_p(True), ne_p(0.5), in_p(0, 1.5)]:
            for op in ("and", "or", "xor"):
                for t in (gen.mk(op, a, b), gen.mk(op, b, a), gen.mk("not", gen.mk(op, a, b))):
                    n += 1
                    try:
                        optimize(t)
                    except Exception as e:  # noqa: BLE001
                        fails.append({"kind": "optimize raised", "p": repr(t), "error": f"{type(e).__name__}: {e}",
                                      "note": "constants are mutually comparable numbers (int / float / bool)"})
                        return n
    return n


def compound_no_raise(fails):
    """optimize() on connectives whose BOTH operands are connectives of the same / another kind (operand-swap rules must be one-shot)"""
    from predicate.standard_predicates import is_float_p, is_int_p, is_none_p, is_str_p
    leaves = [is_int_p, is_str_p, is_none_p, is_float_p, ge_p(1), le_p(5), eq_p(0), NamedPredicate(name="a"), NamedPredicate(name="b")]
    n = 0
    sys.setrecursionlimit(3000)
    for i1, o1 in enumerate(("and", "or", "xor")):
        for o2 in ("and", "or", "xor"):
            for top in ("and", "or", "xor"):
                l_ = gen.mk(o1, leaves[i1], leaves[i1 + 1])
                r_ = gen.mk(o2, leaves[i1 + 2], leaves[i1 + 3])
                for t in (gen.mk(top, l_, r_), gen.mk("not", gen.mk(top, l_, r_)), gen.mk(top, gen.mk("not", l_), r_), gen.mk("or", leaves[7], gen.mk(top, l_, r_))):
                    n += 1
                    try:
                        optimize(t)
                    except Exception as e:  # noqa: BLE001
                        fails.append({"kind": "optimize raised", "p": repr(t), "p_structure": oc.skey(t), "error": f"{type(e).__name__}: {str(e)[:80]}"})
                        return n
    return n


def lazy_search(fails):
    n = compound_no_raise(fails)
    for kind in ("root_p", "this_p"):
        want = _ref_probe(kind, None)
        for name, fn in analysis_calls(ge_p(1)).items():
            n += 1
            got = _ref_probe(kind, fn)
            if got != want:
                fails.append({"kind": "argument answers differently after the call", "function": name,
                              "p": ("branch = is_list_p & all_p(root_p); whole = is_str_p | branch: `branch` analysed, then `whole` called" if kind == "root_p" else
                                    "P = is_str_p | (is_list_p & all_p(this_p)); Q = P | is_int_p: `Q` analysed before `P` is first called"),
                              "answers_on_['foo'],['foo',[1]],[13]": repr(got), "answers_without_the_analysis_call": repr(want)})
    want = _lazy_probe("none", None)
    for name, fn in analysis_calls(ge_p(1)).items():
        n += 1
        got = _lazy_probe(name, fn)
        if got != want:
            fails.append({"kind": "argument answers differently after the call", "function": name,
                          "p": 'P = is_str_p | (is_list_p & all_p(lazy_p("c12_nested_strings"))), analysed before the name is bound, then bound and called',
                          "answers_on_['a',['b']]_and_['a',[1]]": repr(got), "answers_of_a_never_analysed_copy": repr(want)})
    return n


def search(payload):
    fails = []
    rows = count_search(payload, fails)
    n = mutation_search(payload, fails) + lazy_search(fails) + no_raise_search(fails)
    # HISTORY (history.py): optimize() must keep returning (and returning the same function) after calls that raised: a tree beyond
    # the recursion limit, constants that cannot be compared
    small = [t for _, t in gen.all_prop_trees(4, ["a", "b"])][:: 5]
    _lim = sys.getrecursionlimit()
    sys.setrecursionlimit(1000)                 # the interpreter's default: what a user's process runs with
    try:
        hn, hfails = oc.history_search("C12", payload, small[:90], [], assignments=True)
    finally:
        sys.setrecursionlimit(_lim)
    for f in hfails:
        f["kind"] = "optimize() raised / answered differently later in the same process"
    n += hn
    fails += hfails
    worst = max(rows, key=lambda r: r["optimize_calls"] / max(1, r["nodes"]) ** 2)
    return {"evaluations": n + len(rows), "failures": fails[:5], "known_hits": [],
            "call_counts": rows, "worst_ratio_calls_over_n2": round(worst["optimize_calls"] / worst["nodes"] ** 2, 4),
            "samples": [rows[-1]]}


def replay(payload):
    return {"fails": True, "input": payload["replay"].get("input")}


if __name__ == "__main__":
    main({"correspondence": correspondence, "search": search, "replay": replay})
