"""C16 — self-referential predicates (this_p / root_p / lazy_p(name)) denote their own recursive definition in any scope.

The Coq model (Lemmas/Scope.v, Lemmas/ScopeEval.v) is HAND-WRITTEN; CPython's frame chain is MODELLED as a scope stack.
correspondence: (1) source fingerprints of everything the model was written from; (2) 87 scope configurations are
                executed for real; at every call site and at every real resolution the REAL frame chain is dumped
                (ordered local names; for predicate-valued locals the tree with the identities of its reference nodes)
                and the three real finders are run on it; the model's find_this / find_root / find_by_ref are run on the
                dump (vm_compute) and must choose the same binding; (3) every call P(x) of every configuration is
                replayed on the model's evaluator (`run_calls`: library frames pushed by the model, cached_property
                threaded through the history) from the dumped caller stack and must give the same outcome
                (False / True / ValueError / other exception); (4) the frames the library really pushed must have the
                shapes the model pushes.
search:         implementation only, oracle = plain recursive Python functions: P(x) == base(x) or (x is a list and all
                P(i)); unresolvable references must raise ValueError; is_json_p must accept exactly JSON-shaped data
                from every kind of caller (each is_json_p scenario starts from never-resolved lazy nodes; should the
                repaired D10 come back, its witness is re-run literally in a fresh interpreter)."""
import ast
import hashlib
import itertools
import json
import os
import subprocess
import sys
import types

from common import chunks, enc, main, rng_of, vlib

import predicate as _lib
from predicate import lazy_predicate as _LP
from predicate import predicate as _PP
from predicate import root_predicate as _RP
from predicate import standard_predicates as _SP
from predicate import this_predicate as _TP
from predicate.all_predicate import AllPredicate as _All
from predicate.comp_predicate import CompPredicate as _Comp

HERE = os.path.dirname(os.path.abspath(__file__))
FP_FILE = os.path.join(HERE, "fingerprints", "c16.json")

# ------------------------------------------------------------------------------------------------------------------
# 1. source fingerprints
# ------------------------------------------------------------------------------------------------------------------
UNITS = {
    "predicate/this_predicate.py": ["ThisPredicate", "find_this_predicate", "is_library_frame", "predicate_in_predicate_tree"],
    "predicate/root_predicate.py": ["RootPredicate", "find_root_predicate", "get_frames"],
    "predicate/lazy_predicate.py": ["LazyPredicate", "find_predicate_by_ref"],
    "predicate/all_predicate.py": ["AllPredicate"],
    "predicate/comp_predicate.py": ["CompPredicate"],
    "predicate/predicate.py": ["Predicate", "resolve_predicate", "AndPredicate", "OrPredicate", "NotPredicate"],
    "predicate/standard_predicates.py": ["PredicateFactory", "lazy_p", "all_p", "is_list_of_p", "root_p", "this_p",
                                         "_valid_json_p", "json_list_p", "json_keys_p", "json_values", "json_values_p",
                                         "is_json_p"],
}


def _strip_doc(node):
    for n in ast.walk(node):
        if isinstance(n, (ast.ClassDef, ast.FunctionDef)) and n.body and isinstance(n.body[0], ast.Expr) \
                and isinstance(getattr(n.body[0], "value", None), ast.Constant) and isinstance(n.body[0].value.value, str):
            n.body = n.body[1:] or [ast.Pass()]
    return node


def current_sources() -> dict:
    out = {}
    for rel, names in UNITS.items():
        path = os.path.join(vlib.REPO, rel)
        tree = ast.parse(open(path, encoding="utf-8").read())
        found = {}
        for node in tree.body:
            nm = None
            if isinstance(node, (ast.ClassDef, ast.FunctionDef)):
                nm = node.name
            elif isinstance(node, ast.Assign) and len(node.targets) == 1 and isinstance(node.targets[0], ast.Name):
                nm = node.targets[0].id
            elif isinstance(node, ast.AnnAssign) and isinstance(node.target, ast.Name):
                nm = node.target.id
            if nm in names:
                found[nm] = ast.unparse(_strip_doc(node))
        for nm in names:
            out[f"{rel}::{nm}"] = found.get(nm, "<missing>")
    return out


def _sha(s: str) -> str:
    return hashlib.sha256(s.encode()).hexdigest()[:16]


def fingerprint_mismatches() -> list:
    if not os.path.exists(FP_FILE):
        return [{"fingerprint": "tools/props/fingerprints/c16.json is missing"}]
    fp = json.load(open(FP_FILE))["units"]
    out = []
    for key, src in current_sources().items():
        ent = fp.get(key)
        if ent is None or ent["sha"] != _sha(src):
            out.append({"fingerprint": key, "what": "the source the hand-written model (Lemmas/Scope.v, ScopeEval.v) was written from changed; "
                        "the model may no longer describe it", "current": src[:600],
                        "model_was_written_from": (ent["source"][:600] if ent else None)})
    return out


def write_fingerprints():
    data = {"_comment": "normalised (ast.unparse, docstrings stripped) source of everything Lemmas/Scope.v and Lemmas/ScopeEval.v were written "
                        "from; rewrite with `python tools/props/c16.py fingerprint` ONLY after re-reading the model against the new text",
            "units": {key: {"sha": _sha(src), "source": src} for key, src in current_sources().items()}}
    os.makedirs(os.path.dirname(FP_FILE), exist_ok=True)
    json.dump(data, open(FP_FILE, "w"), indent=1)


# ------------------------------------------------------------------------------------------------------------------
# 2. scope configurations (source text, executed in fresh modules)
# ------------------------------------------------------------------------------------------------------------------
def expand(src: str) -> str:
    """`@CALL tag ;; <predicate expr> ;; <value expr>` -> snapshot of the caller stack + the call, outcome recorded"""
    out = []
    for line in src.splitlines():
        s = line.lstrip()
        if s.startswith("@CALL "):
            ind = line[: len(line) - len(s)]
            tag, pe, xe = [t.strip() for t in s[6:].split(";;")]
            out += [f"{ind}SNAP({tag!r}, {pe}, {xe})",
                    f"{ind}try: OUT({tag!r}, {xe}, ('ok', {pe}({xe})))",
                    f"{ind}except Exception as _e: OUT({tag!r}, {xe}, ('raise', type(_e).__name__))"]
        else:
            out.append(line)
    return "\n".join(out) + "\n"


HDR = "from predicate import *\n"
REF = {"T": lambda n: "this_p", "R": lambda n: "root_p", "L": lambda n: f'lazy_p("{n}")'}
KIND_NAME = {"T": "this_p", "R": "root_p", "L": "lazy_p"}


def dfn(kind, name="P", base="is_str_p"):
    return f"{name} = {base} | is_list_of_p({REF[kind](name)})"


def C(name, mods, oracles, note=""):
    return {"name": name, "mods": mods, "oracles": oracles, "note": note}


HELPERS = """
def d1(p, v):
    @CALL P ;; p ;; v
def d2(p, v): d1(p, v)
def d3(p, v): d2(p, v)
def d4(p, v): d3(p, v)
def d5(p, v): d4(p, v)
def r1(t): t()
def r2(t): r1(t)
def r3(t): r2(t)
def r4(t): r3(t)
"""


def configs() -> list:
    cs = []
    S, I = "rec(is_str)", "rec(is_int)"
    for k in "TRL":
        kn = KIND_NAME[k]
        P, A = dfn(k), dfn(k, "A", "is_int_p")
        loopP = "    for x in XS:\n        @CALL P ;; P ;; x\n"
        loopPA = "    for x in XS:\n        @CALL P ;; P ;; x\n        @CALL A ;; A ;; x\n"
        loopAP = "    for x in XS:\n        @CALL A ;; A ;; x\n        @CALL P ;; P ;; x\n"
        cs.append(C(f"{kn}/alone", [("m", HDR + f"def cfg():\n    {P}\n{loopP}cfg()\n")], {"P": S}))
        cs.append(C(f"{kn}/sibling_before", [("m", HDR + f"def cfg():\n    S = is_int_p | is_none_p\n    S2 = is_list_of_p(is_int_p)\n    {P}\n{loopP}cfg()\n")], {"P": S}))
        cs.append(C(f"{kn}/sibling_after", [("m", HDR + f"def cfg():\n    {P}\n    S = is_int_p | is_none_p\n    S2 = all_p(is_str_p) & is_list_p\n{loopP}cfg()\n")], {"P": S}))
        cs.append(C(f"{kn}/other_recursive_before/P_called_first", [("m", HDR + f"def cfg():\n    {A}\n    {P}\n{loopPA}cfg()\n")], {"P": S, "A": I}))
        cs.append(C(f"{kn}/other_recursive_before/A_called_first", [("m", HDR + f"def cfg():\n    {A}\n    {P}\n{loopAP}cfg()\n")], {"P": S, "A": I}))
        cs.append(C(f"{kn}/other_recursive_after/P_called_first", [("m", HDR + f"def cfg():\n    {P}\n    {A}\n{loopPA}cfg()\n")], {"P": S, "A": I}))
        cs.append(C(f"{kn}/other_recursive_after/A_called_first", [("m", HDR + f"def cfg():\n    {P}\n    {A}\n{loopAP}cfg()\n")], {"P": S, "A": I}))
        # a LARGER predicate containing P, bound later in the same frame: this_p/lazy_p keep meaning P; root_p means Q (outside the property)
        cs.append(C(f"{kn}/larger_predicate_after", [("m", HDR + f"def cfg():\n    {P}\n    Q = P | is_int_p\n    for x in XS:\n        @CALL P ;; P ;; x\n        @CALL Q ;; Q ;; x\ncfg()\n")],
                    {"P": (None if k == "R" else S), "Q": (None if k == "R" else "lambda x: rec(is_str)(x) or is_int(x)")},
                    note="root_p: P is part of the larger Q bound later in the frame: excluded by the property's side condition (correspondence only)"))
        for d in ((1, 2, 3, 5) if k == "T" else (2, 5)):
            cs.append(C(f"{kn}/helpers_depth_{d}", [("m", HDR + HELPERS + f"def cfg():\n    {P}\n    for x in XS:\n        d{d}(P, x)\ncfg()\n")], {"P": S}))
        for d in ((2, 4) if k == "T" else (3,)):
            cs.append(C(f"{kn}/thunks_depth_{d}", [("m", HDR + HELPERS + f"def cfg():\n    {P}\n    for x in XS:\n        def thunk():\n            @CALL P ;; P ;; x\n        r{d}(thunk)\ncfg()\n")], {"P": S}))
        cs.append(C(f"{kn}/defined_in_enclosing_function/depth_1", [("m", HDR + f"def outer():\n    {P}\n    def inner():\n        for x in XS:\n            @CALL P ;; P ;; x\n    inner()\nouter()\n")], {"P": S}))
        cs.append(C(f"{kn}/defined_in_enclosing_function/depth_2", [("m", HDR + f"def outer():\n    S = is_int_p | is_none_p\n    {P}\n    def mid():\n        T = is_list_of_p(is_int_p)\n        def inner():\n            for x in XS:\n                @CALL P ;; P ;; x\n        inner()\n    mid()\nouter()\n")], {"P": S}))
        cs.append(C(f"{kn}/module_level", [("m", HDR + f"{P}\nfor x in XS:\n    @CALL P ;; P ;; x\n")], {"P": S}))
        cs.append(C(f"{kn}/module_level_called_in_function_during_import", [("m", HDR + f"{P}\ndef check(v):\n    @CALL P ;; P ;; v\nfor x in XS:\n    check(x)\n")], {"P": S}))
        cs.append(C(f"{kn}/class_body", [("m", HDR + f"class K:\n    {P}\n    for x in XS:\n        @CALL P ;; P ;; x\n")], {"P": S}))
        cs.append(C(f"{kn}/method", [("m", HDR + f"class K:\n    def run(self):\n        {P}\n        for x in XS:\n            @CALL P ;; P ;; x\nK().run()\n")], {"P": S}))
        for d in ((1, 3) if k == "T" else (2,)):
            cs.append(C(f"{kn}/helper_in_other_module_depth_{d}", [("hmod", HELPERS), ("m", HDR + f"def cfg():\n    {P}\n    for x in XS:\n        hmod.d{d}(P, x)\ncfg()\n")], {"P": S}))
        cs.append(C(f"{kn}/thunk_run_by_other_module", [("hmod", HELPERS), ("m", HDR + f"def cfg():\n    {P}\n    for x in XS:\n        def thunk():\n            @CALL P ;; P ;; x\n        hmod.r3(thunk)\ncfg()\n")], {"P": S}))
        # (c) no binding in scope
        cs.append(C(f"{kn}/escaped_never_resolved", [("m", HDR + f"def make():\n    {P}\n    return P\n"), ("main", "pred = [m.make()]\nfor x in XS:\n    @CALL P ;; pred[0] ;; x\n")], {"P": "either(is_str)"},
                    note="P leaves its defining function before its first call: on this implementation the reference cannot be resolved and must "
                         "raise ValueError when reached (never a wrong Boolean)"))
        cs.append(C(f"{kn}/escaped_after_first_call", [("m", HDR + f"def make():\n    {P}\n    @CALL P ;; P ;; ['a', ['b']]\n    return P\n"), ("main", "pred = [m.make()]\nfor x in XS:\n    @CALL P ;; pred[0] ;; x\n")], {"P": S},
                    note="resolved once inside its scope (cached_property), then used anywhere"))
        cs.append(C(f"{kn}/module_level_called_from_outside_after_import", [("m", HDR + f"{P}\ndef check(v):\n    @CALL P ;; P ;; v\n"), ("main", "for x in XS:\n    m.check(x)\n")], {"P": "either(is_str)"},
                    note="a module-level predicate first used through a function of its module after the import finished: the module frame is not on the "
                         "stack: this_p/root_p are unresolvable there (ValueError); lazy_p falls back to the module's namespace since the D10 repair"))
        # a nearer frame binds a LARGER predicate containing P (this_p/root_p pick it; lazy_p by name does not)
        cs.append(C(f"{kn}/larger_predicate_in_nearer_frame", [("m", HDR + f"def h(p, v):\n    Q = p | is_int_p\n    @CALL P ;; p ;; v\ndef cfg():\n    {P}\n    for x in XS:\n        h(P, x)\ncfg()\n")],
                    {"P": (S if k == "L" else None)}, note="this_p/root_p: a related larger predicate is found earlier in the search order (outside the property; correspondence only)"))
        # the same local NAME bound to different predicates in two functions of one module, called alternately (anything that
        # remembers a resolution per module/name instead of per node answers for the wrong one)
        r = REF[k]("P")
        cs.append(C(f"{kn}/same_name_in_two_functions", [("m", HDR + f"def chk_s(v):\n    P = is_str_p | is_list_of_p({r})\n    @CALL PS ;; P ;; v\n"
                                                           f"def chk_i(v):\n    P = is_int_p | is_list_of_p({r})\n    @CALL PI ;; P ;; v\n"
                                                           "for x in XS:\n    chk_s(x)\n    chk_i(x)\n")], {"PS": S, "PI": I}))
        cs.append(C(f"{kn}/helper_rebuilds_predicate_with_other_leaf", [("m", HDR + f"def build_s(v):\n    P = is_str_p | is_list_of_p({r})\n    @CALL PS ;; P ;; v\n"
                                                                          f"def build_i(v):\n    P = is_int_p | is_list_of_p({r})\n    @CALL PI ;; P ;; v\n"),
                                                                   ("main", "for x in XS:\n    m.build_s(x)\nfor x in XS:\n    m.build_i(x)\n")], {"PS": S, "PI": I}))
        # an analysis function (to_dot / to_json / optimize) sees a LARGER predicate containing P before P is first called
        if k != "R":
            for fn_ in ("to_dot(Q)", "to_json(Q)", "optimize(Q)", "to_dot(Q, show_optimized=True)"):
                cs.append(C(f"{kn}/larger_predicate_analysed_before_first_call/{fn_.split('(')[0]}{'_opt' if 'show' in fn_ else ''}",
                            [("m", HDR + f"def cfg():\n    {P}\n    Q = P | is_int_p\n    try:\n        {fn_}\n    except Exception:\n        pass\n"
                                         "    for x in XS:\n        @CALL P ;; P ;; x\ncfg()\n")], {"P": S}))
        # a USER module whose name merely starts like the library's package name
        cs.append(C(f"{kn}/user_module_named_predicates_common", [("predicates_common", HDR + f"def cfg():\n    {P}\n{loopP}cfg()\n")], {"P": S}))
        cs.append(C(f"{kn}/user_module_named_predicate_utils_helper", [("predicate_utils", HELPERS), ("m", HDR + f"def cfg():\n    {P}\n    for x in XS:\n        predicate_utils.d2(P, x)\ncfg()\n")], {"P": S}))
    # an unresolvable reference stays a ValueError wherever it sits (also below comp_p / tee_p / a dict-values view)
    for k in "TRL":
        kn = KIND_NAME[k]
        ref = REF[k]("no_such_name_c16") if k == "L" else REF[k]("P")
        cs.append(C(f"{kn}/unresolved_under_comp_p", [("m", HDR + f"def make():\n    P = is_dict_p & comp_p(lambda d: list(d.values()), all_p(is_int_p | is_list_of_p({ref})))\n    return P\n"),
                                                      ("main", "pred = [m.make()]\nfor x in XS:\n    @CALL P ;; pred[0] ;; {'k': x}\n")],
                    {"P": "lambda d: (_ for _ in ()).throw(_Unresolved()) if isinstance(d['k'], list) and d['k'] else (isinstance(d['k'], int) or d['k'] == [])"},
                    note="the reference can never be resolved (escaped / misspelt): reaching it must raise ValueError, not answer False"))
    # a module-level predicate with the SAME name as a function-local recursive one: the local definition is its own meaning
    cs.append(C("lazy_p/module_level_name_shadows_local", [("m", HDR + 'tree = is_int_p | is_list_of_p(lazy_p("tree"))\ndef cfg():\n    tree = is_str_p | is_list_of_p(lazy_p("tree"))\n'
                                                                '    for x in XS:\n        @CALL P ;; tree ;; x\ncfg()\nfor x in XS:\n    @CALL G ;; tree ;; x\n')],
                {"P": S, "G": I}))
    # beyond the small bounds (search only): first call far below the definition, names of every spelling, values nested 65-90 deep
    for k in "TRL":
        kn = KIND_NAME[k]
        for depth in (30, 80, 200):
            cs.append(C(f"{kn}/beyond_small_bounds/first_call_{depth}_frames_below_the_definition",
                        [("m", HDR + "def down(n, p, v):\n    if n > 0:\n        return down(n - 1, p, v)\n    @CALL P ;; p ;; v\n"
                                     f"def cfg():\n    {dfn(k)}\n    for x in XS:\n        down({depth}, P, x)\ncfg()\n")], {"P": S}))
        for nm in ("_str_tree_p", "__p", "p_", "_", "P1", "a_rather_long_name_for_a_recursive_predicate_of_strings", "\u03c0"):
            cs.append(C(f"{kn}/beyond_small_bounds/bound_to_the_name_{nm}",
                        [("m", HDR + f"def cfg():\n    {dfn(k, nm)}\n    for x in XS:\n        @CALL P ;; {nm} ;; x\ncfg()\n")], {"P": S}))
            cs.append(C(f"{kn}/beyond_small_bounds/module_level_name_{nm}",
                        [("m", HDR + f"{dfn(k, nm)}\nfor x in XS:\n    @CALL P ;; {nm} ;; x\n")], {"P": S}))
        cs.append(C(f"{kn}/beyond_small_bounds/deeply_nested_values", [("m", HDR + f"def cfg():\n    {dfn(k)}\n    for x in XS:\n        @CALL P ;; P ;; x\ncfg()\n")], {"P": S}))
    # the reference is first reached from inside the library's tuple_of / dict_of frames, whose loop variables (p, key_p, value_p) are
    # predicate-valued and contain it (D27, repaired): the meaning of P must not depend on that (search only: not terms of the model)
    I_ = "rec(is_int)"
    for k in "TRL":
        kn = KIND_NAME[k]
        for nm in ("P", "p", "key_p", "value_p"):
            d_ = dfn(k, nm, base="is_int_p")
            cs.append(C(f"{kn}/library_composite_frames/first_called_below_is_tuple_of_p/{nm}",
                        [("m", HDR + f"def cfg():\n    {d_}\n    for x in XS:\n        @CALL T ;; is_tuple_of_p(is_str_p, is_list_of_p({nm})) ;; ('n', x)\n"
                                     f"        @CALL P ;; {nm} ;; x\ncfg()\n")],
                        {"T": "lambda t: is_list(t[1]) and all(rec(is_int)(i) for i in t[1])", "P": I_}))
            cs.append(C(f"{kn}/library_composite_frames/first_called_below_is_dict_of_p/{nm}",
                        [("m", HDR + f"def cfg():\n    {d_}\n    for x in XS:\n        @CALL D ;; is_dict_of_p(('k', is_list_of_p({nm}))) ;; {{'k': x}}\n"
                                     f"        @CALL P ;; {nm} ;; x\ncfg()\n")],
                        {"D": "lambda d: is_list(d['k']) and all(rec(is_int)(i) for i in d['k'])", "P": I_}))
        cs.append(C(f"{kn}/library_composite_frames/direct_component_of_is_tuple_of_p",
                    [("m", HDR + f"def cfg():\n    {dfn(k, 'P', base='is_int_p')}\n    for x in XS:\n        @CALL T ;; is_tuple_of_p(is_str_p, P) ;; ('n', x)\n"
                                 f"        @CALL P ;; P ;; x\ncfg()\n")], {"T": "lambda t: rec(is_int)(t[1])", "P": I_}))
    # HISTORIES (search only): ONE function that defines the recursive predicate, called twice with different bases (anything remembered
    # per code location gives the second run the first run's meaning); an evaluation that raised half-way (a function atom dividing by an
    # element) followed, after the caller repaired the datum, by the same evaluation
    for k in "TRL":
        kn = KIND_NAME[k]
        cs.append(C(f"{kn}/history/one_defining_function_called_with_two_bases",
                    [("m", HDR + f"def check(base, v):\n    P = base | is_list_of_p({REF[k]('P')})\n    return P(v)\n"
                                 "for x in XS:\n    @CALL PS ;; (lambda v: check(is_str_p, v)) ;; x\n    @CALL PI ;; (lambda v: check(is_int_p, v)) ;; x\n")],
                    {"PS": S, "PI": I}))
        cs.append(C(f"{kn}/history/evaluation_that_raised_then_repeated_after_the_datum_was_repaired",
                    [("m", HDR + f"def cfg():\n    P = (is_int_p & fn_p(lambda v: 100 % v == 0)) | is_list_of_p({REF[k]('P')})\n    batch = [10, 0]\n    doc = [5, [20, batch], [4]]\n"
                                 "    try:\n        P(doc)\n    except ZeroDivisionError:\n        pass\n    batch[1] = 25\n    @CALL P ;; P ;; doc\n    @CALL P ;; P ;; [batch]\n"
                                 "    for x in XS:\n        @CALL P ;; P ;; x\ncfg()\n")],
                    {"P": "rec(lambda v: isinstance(v, int) and not isinstance(v, bool) and v != 0 and 100 % v == 0)"}))
    # the library's own tests' shapes
    cs.append(C("this_p/or_inside_list", [("m", HDR + "def cfg():\n    P = is_str_p | is_list_of_p(this_p | is_int_p)\n    for x in XS:\n        @CALL P ;; P ;; x\ncfg()\n")], {"P": "rec(is_str, is_int)"}))
    cs.append(C("this_p/used_inside_larger_predicate", [("m", HDR + "def cfg():\n    P = is_str_p | is_list_of_p(this_p)\n    Q = P | is_int_p\n    for x in XS:\n        @CALL Q ;; Q ;; x\ncfg()\n")], {"Q": "lambda x: rec(is_str)(x) or is_int(x)"}))
    cs.append(C("this_p/two_levels", [("m", HDR + "def cfg():\n    P = is_str_p | is_list_of_p(is_int_p | is_list_of_p(this_p))\n    for x in XS:\n        @CALL P ;; P ;; x\ncfg()\n")],
                {"P": "two_levels()"}))
    cs.append(C("lazy_p/mutual_recursion", [("m", HDR + 'def cfg():\n    A = is_str_p | is_list_of_p(lazy_p("B"))\n    B = is_int_p | is_list_of_p(lazy_p("A"))\n    for x in XS:\n        @CALL A ;; A ;; x\n        @CALL B ;; B ;; x\ncfg()\n')],
                {"A": "mutual(is_str, is_int)[0]", "B": "mutual(is_str, is_int)[1]"}))
    cs.append(C("lazy_p/nearer_data_binding_of_the_name", [("m", HDR + 'def h(p, v):\n    P = 0\n    @CALL P ;; p ;; v\ndef cfg():\n    P = is_str_p | is_list_of_p(lazy_p("P"))\n    for x in XS:\n        h(P, x)\ncfg()\n')], {"P": "rec(is_str)"},
                note="a nearer frame binds the same name to a non-predicate: skipped since the D10b repair"))
    cs.append(C("lazy_p/nearer_predicate_binding_of_the_name", [("m", HDR + 'def h(p, v):\n    P = is_int_p\n    @CALL P ;; p ;; v\ndef cfg():\n    P = is_str_p | is_list_of_p(lazy_p("P"))\n    for x in XS:\n        h(P, x)\ncfg()\n')], {"P": None},
                note="a nearer frame binds the same name to ANOTHER predicate: excluded by the premise 'no nearer predicate binding of name' (correspondence only)"))
    # lazy_p(name) where name is a local of the library's own frames (D10b, repaired)
    for nm in ("x", "iterable"):
        cs.append(C(f"lazy_p/predicate_named_{nm}", [("m", HDR + f'def cfg():\n    {nm} = is_str_p | is_list_of_p(lazy_p("{nm}"))\n    for v in XS:\n        @CALL P ;; {nm} ;; v\ncfg()\n')], {"P": "rec(is_str)"},
                    note=f"D10b: the user's variable is called `{nm}`, which is also a local of the library's own __call__ frames"))
    return cs


# is_json_p scenarios: who calls it.  Each starts from never-resolved lazy nodes (as in a fresh interpreter).
JSON_CONFIGS = [
    C("is_json_p/star_import_module_top_level", [("m", "from predicate.standard_predicates import *\nfor x in XS:\n    @CALL J ;; is_json_p ;; x\n")], {"J": "is_json"},
      note="module-level code of a module that star-imported standard_predicates: its globals (on the stack) bind is_json_p and json_values"),
    C("is_json_p/star_import_function_during_import", [("m", "from predicate.standard_predicates import *\ndef check(v):\n    @CALL J ;; is_json_p ;; v\nfor x in XS:\n    check(x)\n")], {"J": "is_json"}),
    C("is_json_p/star_import_function_called_later", [("m", "from predicate.standard_predicates import *\ndef check(v):\n    @CALL J ;; is_json_p ;; v\n"), ("main", "for x in XS:\n    m.check(x)\n")], {"J": "is_json"},
      note="D10: a function in a module that did `from predicate.standard_predicates import *`, called after the import"),
    C("is_json_p/only_is_json_p_imported_top_level", [("m", "from predicate.standard_predicates import is_json_p\nfor x in XS:\n    @CALL J ;; is_json_p ;; x\n")], {"J": "is_json"},
      note="D10: a fresh module that only did `from predicate.standard_predicates import is_json_p`"),
    C("is_json_p/only_is_json_p_imported_function", [("m", "from predicate.standard_predicates import is_json_p\ndef check(v):\n    @CALL J ;; is_json_p ;; v\n"), ("main", "for x in XS:\n    m.check(x)\n")], {"J": "is_json"},
      note="D10: a function in a fresh module that only imported is_json_p"),
    C("is_json_p/importer_of_the_defining_module", [("m", "import predicate.standard_predicates as sp\nfor x in XS:\n    @CALL J ;; sp.is_json_p ;; x\n")], {"J": "is_json"},
      note="D10: `import predicate.standard_predicates as sp; sp.is_json_p(x)`"),
    C("is_json_p/function_with_both_names_local", [("m", "import predicate.standard_predicates as sp\ndef check(v):\n    is_json_p, json_values = sp.is_json_p, sp.json_values\n    @CALL J ;; is_json_p ;; v\n"), ("main", "for x in XS:\n    m.check(x)\n")], {"J": "is_json"},
      note="works: the caller's own locals happen to bind both names"),
]

# ------------------------------------------------------------------------------------------------------------------
# oracles (plain Python, no library code)
# ------------------------------------------------------------------------------------------------------------------
def is_str(x): return isinstance(x, str)          # noqa: E704
def is_int(x): return isinstance(x, int)          # noqa: E704
def is_list(x): return isinstance(x, list)        # noqa: E704


def rec(base, alt=None):
    def P(x):
        return bool(base(x) or (isinstance(x, list) and all(P(i) or bool(alt and alt(i)) for i in x)))
    return P


class _Unresolved(Exception):
    pass


def unres(base):
    """the reference cannot be resolved: ValueError as soon as it is reached"""
    def P(x):
        if base(x):
            return True
        if isinstance(x, list):
            for _ in x:
                raise _Unresolved()
            return True
        return False
    return P


class _Either:
    """the reference is resolvable or it is not (the implementation's choice in this configuration): the recursive meaning, or ValueError when
    the reference is reached; never another answer"""

    def __init__(self, base):
        self.alts = (rec(base), unres(base))


def either(base):
    return _Either(base)


def mutual(ba, bb):
    def A(x): return bool(ba(x) or (isinstance(x, list) and all(B(i) for i in x)))    # noqa: E704
    def B(x): return bool(bb(x) or (isinstance(x, list) and all(A(i) for i in x)))    # noqa: E704
    return A, B


def two_levels():
    def P(x):
        return bool(is_str(x) or (is_list(x) and all(is_int(i) or (is_list(i) and all(P(j) for j in i)) for i in x)))
    return P


def json_value(v):
    return isinstance(v, (str, int, float)) or v is None or (isinstance(v, (list, dict)) and is_json(v))


def is_json(x):
    if isinstance(x, dict):
        return all(isinstance(k, str) for k in x) and all(json_value(v) for v in x.values())
    if isinstance(x, list):
        return all(json_value(v) for v in x)
    return False


ORACLE_NS = {"_Unresolved": _Unresolved, "isinstance": isinstance, "int": int, "list": list, "either": either, "two_levels": two_levels, "rec": rec, "unres": unres, "mutual": mutual, "is_str": is_str, "is_int": is_int, "is_list": is_list, "is_json": is_json, "all": all}


_ORACLES = {}


def oracle_outcome(expr, x):
    f = _ORACLES.get(expr)
    if f is None:
        f = _ORACLES[expr] = eval(expr, dict(ORACLE_NS))  # noqa: S307 - our own constant strings
    if isinstance(f, _Either):
        return tuple(_outcome(g, x) for g in f.alts)
    return _outcome(f, x)


def _outcome(f, x):
    try:
        return ("ok", f(x))
    except _Unresolved:
        return ("raise", "ValueError")


def agrees(outcome, exp) -> bool:
    """exp is one outcome, or a tuple of admissible outcomes"""
    if exp and isinstance(exp[0], tuple):
        return outcome in exp
    return outcome == exp


# ------------------------------------------------------------------------------------------------------------------
# running a configuration, with or without recording
# ------------------------------------------------------------------------------------------------------------------
def _json_lazy_nodes():
    out, seen, todo = [], set(), [_SP.is_json_p]
    while todo:
        p = todo.pop()
        if id(p) in seen or not isinstance(p, _PP.Predicate):
            continue
        seen.add(id(p))
        if isinstance(p, _LP.LazyPredicate):
            out.append(p)
            cached = p.__dict__.get("predicate")
            if cached is not None:
                todo.append(cached)
            for nm in ("is_json_p", "json_values"):
                todo.append(getattr(_SP, nm))
        for f in getattr(p, "__dataclass_fields__", {}):
            todo.append(getattr(p, f, None))
    return out


def reset_library_lazy_caches():
    """put standard_predicates' own lazy nodes back in their never-resolved state (what a fresh interpreter has)"""
    for n in _json_lazy_nodes():
        n.__dict__.pop("predicate", None)
        n.__dict__.pop("frame", None)


def _h_run_config(_h_cfg, _h_xs, _h_rec=None):
    """execute the modules of one configuration; returns [(tag, x, outcome)] in call order"""
    _h_out = []
    _h_mods = {}

    def OUT(tag, x, outcome):
        _h_out.append((tag, x, outcome))

    if _h_rec is None:
        def SNAP(tag, p, x):
            return None
    else:
        def SNAP(tag, p, x):
            _h_rec.snap(tag, p, x, sys._getframe(1))
    for _h_name, _h_src in _h_cfg["mods"]:
        _h_m = types.ModuleType(_h_name)
        _h_m.__dict__.update(_h_mods)
        _h_m.__dict__.update(SNAP=SNAP, OUT=OUT, XS=list(_h_xs))
        _h_mods[_h_name] = _h_m
        exec(compile(expand(_h_src), f"<c16:{_h_cfg['name']}:{_h_name}>", "exec"), _h_m.__dict__)  # noqa: S102
    return _h_out


def code_of(outcome) -> int:
    k, r = outcome
    if k == "ok":
        return 1 if r else 0
    return 2 if r == "ValueError" else 3


# ------------------------------------------------------------------------------------------------------------------
# recording: dumps of the real frame chain, encoded as terms of the model
# ------------------------------------------------------------------------------------------------------------------
LIB_DIR = os.path.dirname(os.path.abspath(_lib.__file__))
LIB_SHAPES = {("self", "x"), ("self", "iterable"), (".0", "x", "self")}
PROBE_NAMES = ["P", "A", "B", "Q", "x", "self", "iterable", "p", "v", "is_json_p", "json_values", "no_such_name"]


def cstr(s: str) -> str:
    return '"' + s.replace('"', '""') + '"%string'


class Rec:
    """one per configuration"""

    def __init__(self, pool):
        self.pool = pool              # shared Coq definitions of frames/stacks for one case file
        self.cx = enc.Ctx()
        self.cx.comp_ids[id(_SP.json_values_p.fn)] = DICT_VALUES_COMP
        self.keep = []
        self.lazy_by_ref = {}
        self.alias = False            # two distinct lazy_p objects with one name: the model's cache would conflate them
        self.nodes = []               # reference nodes seen (ThisPredicate / RootPredicate objects)
        self.probes = {}              # (finder, node text, stack id) -> expected obj text
        self.calls = []               # (stack id, pred text, val text)
        self.unencodable = None
        self.events = 0
        self.shape_errors = []
        self.dicts = {}
        self.samples = []
        self.nontrivial = set()

    # ---- encoding ----
    def epred(self, p) -> str:
        T = type(p)
        if T is _SP.PredicateFactory:
            raise enc.Unencodable("PredicateFactory inside a tree")
        if T in (_PP.AndPredicate, _PP.OrPredicate):
            return f"({'PAnd' if T is _PP.AndPredicate else 'POr'} {self.epred(p.left)} {self.epred(p.right)})"
        if T is _PP.NotPredicate:
            return f"(PNot {self.epred(p.predicate)})"
        if T is _All:
            return f"(PAll {self.epred(p.predicate)})"
        if T is _Comp:
            return f"(PComp {self.cx.comp_ids.get(id(p.fn), 9999)}%nat {self.epred(p.predicate)})"
        if T is _LP.LazyPredicate:
            old = self.lazy_by_ref.setdefault(p.ref, p)
            if old is not p:
                self.alias = True
            self.keep.append(p)
            return f"(PLazy {cstr(p.ref)})"
        if T in (_TP.ThisPredicate, _RP.RootPredicate):
            if not any(n is p for n in self.nodes):
                self.nodes.append(p)
            return self.cx.pred(p)
        try:
            return self.cx.pred(p)
        except enc.Unencodable:
            return "(PFn 9999%nat)"      # an opaque predicate (no reference node can be reached through it by in_tree)

    def eobj(self, v) -> str:
        if isinstance(v, _SP.PredicateFactory):
            return "OFactory"
        if isinstance(v, _PP.Predicate):
            return f"(OPred {self.epred(v)})"
        try:
            t = bool(v)
        except Exception:  # noqa: BLE001
            t = True
        return f"(OData {'true' if t else 'false'})"

    def has_ref(self, v) -> bool:
        todo = [v]
        while todo:
            p = todo.pop()
            if isinstance(p, (_TP.ThisPredicate, _RP.RootPredicate, _LP.LazyPredicate)):
                return True
            if isinstance(p, _PP.Predicate) and not isinstance(p, _SP.PredicateFactory):
                todo += [getattr(p, f, None) for f in getattr(p, "__dataclass_fields__", {})]
        return False

    def stack_of(self, frame):
        """encode frame, frame.f_back, ...; returns (stack id, number of real choices in it, frame ids)"""
        ids, choices = [], 0
        while frame is not None:
            items = list(frame.f_locals.items())
            txt = "[" + "; ".join(f"({cstr(k)}, {self.eobj(v)})" for k, v in items) + "]"
            choices += sum(1 for k, v in items if k != "self" and isinstance(v, _PP.Predicate) and self.has_ref(v))
            # (runs the library's own code?, f_locals): the flag is what the finders' is_library_frame() reads
            ids.append((str(frame.f_globals.get("__name__", "")).startswith("predicate."), self.pool.frame(txt)))
            frame = frame.f_back
        return self.pool.stack(ids), choices, ids

    def home_of(self, p) -> str:
        """lazy_p nodes carry `scope` (globals of the module that wrote lazy_p(...)), consulted when the stack search fails: the model's
        `home`.  Returns the name of its encoding, or the empty frame."""
        homes, seen, todo = {}, set(), [p]
        while todo:
            q = todo.pop()
            if id(q) in seen or not isinstance(q, _PP.Predicate) or isinstance(q, _SP.PredicateFactory):
                continue
            seen.add(id(q))
            if isinstance(q, _LP.LazyPredicate):
                sc = getattr(q, "scope", None) or {}
                homes[id(sc) if sc else 0] = sc
                todo.append(sc.get(q.ref))
            todo += [getattr(q, f, None) for f in getattr(q, "__dataclass_fields__", {})]
        if not homes:
            return "(@nil binding)"
        if len(homes) > 1:
            raise enc.Unencodable("lazy_p nodes written in different modules in one predicate")
        scope = next(iter(homes.values()))
        return "fr%d" % self.pool.frame("[" + "; ".join(f"({cstr(k)}, {self.eobj(v)})" for k, v in list(scope.items())) + "]")

    def val(self, x) -> str:
        if isinstance(x, dict):
            keys = "[" + "; ".join(self.cx.val(k) for k in x) + "]"
            vals = "[" + "; ".join(self.val(v) for v in x.values()) + "]"
            if self.dicts.setdefault(keys, vals) != vals:
                raise enc.Unencodable("two dicts with the same keys and different values")
            return f"(VColl KDict {keys})"
        if isinstance(x, list):
            return "(VColl KList [" + "; ".join(self.val(i) for i in x) + "])"
        return self.cx.val(x)

    # ---- the real finders on the real frames ----
    def probe_all(self, frame, sid, choices):
        for node in list(self.nodes):
            ntxt = self.epred(node)
            for fi, finder in ((0, ORIG["this"]), (1, ORIG["root"])):
                res = finder(frame, node)
                self.add_probe(fi, ntxt, sid, res, choices)
        for nm in PROBE_NAMES + list(self.lazy_by_ref):
            res = ORIG["lazy"](frame, nm)
            self.add_probe(2, f"(PLazy {cstr(nm)})", sid, res, choices)

    def add_probe(self, fi, ntxt, sid, res, choices):
        exp = "None" if res is None else f"(Some {self.eobj(res)})"
        key = (fi, ntxt, sid)
        if key in self.probes and self.probes[key] != exp:
            self.shape_errors.append({"nondeterministic_probe": key, "first": self.probes[key], "then": exp})
        self.probes[key] = exp
        if choices >= 2 or (exp == "None" and choices >= 1):
            self.nontrivial.add(key)

    # ---- hooks ----
    def snap(self, tag, p, x, frame):
        if self.unencodable:
            return
        try:
            ptxt = self.epred(p)
            sid, choices, _ids = self.stack_of(frame)
            self.calls.append((self.home_of(p), sid, ptxt, self.val(x), tag))
            _CUR["depth"] += 1
            try:
                self.probe_all(frame, sid, choices)
            finally:
                _CUR["depth"] -= 1
        except enc.Unencodable as e:
            self.unencodable = str(e)

    def event(self, kind, node, frame, res):
        """a real resolution (first read of a cached_property): the chain starts at the reference's own __call__ frame"""
        if self.unencodable:
            return
        self.events += 1
        try:
            # shapes of the library's own frames above the user's code
            f = frame
            while f is not None and os.path.abspath(f.f_code.co_filename).startswith(LIB_DIR):
                names = tuple(f.f_locals.keys())
                if names not in LIB_SHAPES:
                    self.shape_errors.append({"library_frame": f.f_code.co_qualname, "locals": list(names),
                                              "what": "the model pushes only (self, x) / (self, iterable) / (.0, x, self)"})
                f = f.f_back
            sid, choices, _ids = self.stack_of(frame)
            if kind == "lazy":
                self.add_probe(2, f"(PLazy {cstr(node)})", sid, res, choices)
            else:
                self.add_probe(0 if kind == "this" else 1, self.epred(node), sid, res, choices)
            if len(self.samples) < 1:
                self.samples.append({"resolution": kind, "frames_innermost_first": _describe(frame)[:7], "chosen": repr(res)})
        except enc.Unencodable as e:
            self.unencodable = str(e)


def _describe(frame):
    out = []
    while frame is not None:
        out.append({"code": frame.f_code.co_name,
                    "locals": [(k if not isinstance(v, _PP.Predicate) else f"{k}={v!r}"[:70]) for k, v in list(frame.f_locals.items())[:10]]})
        frame = frame.f_back
    return out


class Pool:
    """Coq definitions shared by the configurations of one case file"""

    def __init__(self):
        self.frames, self.stacks = {}, {}

    def frame(self, txt):
        return self.frames.setdefault(txt, len(self.frames))

    def stack(self, ids):
        return self.stacks.setdefault(tuple(ids), len(self.stacks))

    def text(self):
        out = [f"Definition fr{i} : frame := {t}." for t, i in self.frames.items()]
        out += [f"Definition st{j} : stack := user_frames [{'; '.join(f'({str(lib).lower()}, fr{i})' for lib, i in ids)}]." for ids, j in self.stacks.items()]
        return "\n".join(out)


ORIG = {"this": _TP.find_this_predicate, "root": _RP.find_root_predicate, "lazy": _LP.find_predicate_by_ref}
_CUR = {"rec": None, "depth": 0}


def _wrap(kind, mod, attr):
    orig = ORIG[kind]

    def wrapper(frame, what):
        if _CUR["depth"] or _CUR["rec"] is None:
            return orig(frame, what)
        _CUR["depth"] += 1
        try:
            res = orig(frame, what)
            _CUR["rec"].event(kind, what, frame, res)
        finally:
            _CUR["depth"] -= 1
        return res
    setattr(mod, attr, wrapper)


def install_wrappers():
    _wrap("this", _TP, "find_this_predicate")
    _wrap("root", _RP, "find_root_predicate")
    _wrap("lazy", _LP, "find_predicate_by_ref")


def uninstall_wrappers():
    _TP.find_this_predicate, _RP.find_root_predicate, _LP.find_predicate_by_ref = ORIG["this"], ORIG["root"], ORIG["lazy"]


# ------------------------------------------------------------------------------------------------------------------
# inputs
# ------------------------------------------------------------------------------------------------------------------
XS_MODEL = ["a", [], ["a"], 1, [1], ["a", ["b", []]], ["a", [1]], [[], [[]]], [["a"], "b", [["c"]]], [[[1]]], None, [2, [3]]]
JSON_MODEL = [[], {}, [1], {"a": 1}, {"b": [1, "s", 2.5, None]}, {"c": {"d": 2}}, {"e": {1: 2}}, {2: "one"}, [{"f": [[]]}], [1, [2, {"g": None}]],
              {"h": (1, 2)}, [{"i": {3}}], 1, "s", None, {"j": {"k": {"l": []}}}]


def wrap(leaf, depth):
    for _ in range(depth):
        leaf = [leaf]
    return leaf


def nested_lists(leaves, depth, width):
    level = list(leaves)
    allv = list(leaves)
    for _ in range(depth):
        new = [list(t) for n in range(width + 1) for t in itertools.product(allv, repeat=n)]
        seen = {repr(v) for v in allv}
        allv += [v for v in new if repr(v) not in seen]
        level = new
    return allv


def random_nested(rng, leaves, depth, width):
    if depth == 0 or rng.random() < 0.25:
        return rng.choice(leaves)
    return [random_nested(rng, leaves, depth - 1, width) for _ in range(rng.randrange(width + 1))]


def random_json(rng, depth):
    r = rng.random()
    if depth == 0 or r < 0.3:
        return rng.choice(["s", 1, 2.5, None, True, (1,), {1}, b"b", object])
    if r < 0.65:
        return [random_json(rng, depth - 1) for _ in range(rng.randrange(3))]
    return {rng.choice(["a", "b", "c", 1, None, ("t",)]): random_json(rng, depth - 1) for _ in range(rng.randrange(3))}


# ------------------------------------------------------------------------------------------------------------------
# correspondence
# ------------------------------------------------------------------------------------------------------------------
DICT_VALUES_COMP = len(enc.COMP_LIB)      # id of `lambda x: x.values()` in the case files' world
FUEL = 80

DEFS = """
From PP Require Import Lemmas.Scope Lemmas.ScopeEval.
Open Scope list_scope.
Definition obj_same (a b : obj) : bool :=
  match a, b with
  | OPred p, OPred q => same p q
  | OFactory, OFactory => true
  | OData t, OData u => Bool.eqb t u
  | _, _ => false
  end.
Definition opt_same (a b : option obj) : bool :=
  match a, b with None, None => true | Some x, Some y => obj_same x y | _, _ => false end.
Definition probe (e : nat * pred * stack * option obj) : nat :=
  let '(k, node, stk, expected) := e in
  let got := match k with
             | 0%nat => option_map OPred (find_this stk node)
             | 1%nat => option_map OPred (find_root stk node)
             | _ => match node with PLazy r => find_by_ref stk r | _ => None end
             end in
  if opt_same got expected then 0%nat else 1%nat.
Definition rcode (r : result) : nat :=
  match r with RBool false => 0 | RBool true => 1 | RValueError => 2 | RRaise => 3 | ROutOfFuel => 4 | ROutside => 5 end%nat.
"""


def world_with_dict_values(dict_table: dict) -> str:
    rows = "; ".join(f"({k}, {v})" for k, v in dict_table.items())
    pre = ("Definition dict_table : list (list val * list val) := [" + rows + "].\n"
           "Fixpoint dict_values (t : list (list val * list val)) (keys : list val) : option val :=\n"
           "  match t with [] => None | (k, v) :: r => if list_eqb val_eqb k keys then Some (VColl KList v) else dict_values r keys end.\n")
    saved = list(enc.COMP_LIB)
    enc.COMP_LIB.append((None, "match x with VColl KDict keys => dict_values dict_table keys | _ => None end"))
    try:
        return pre + enc.world_text()
    finally:
        enc.COMP_LIB[:] = saved


def record_configs(cfgs, xs_of):
    """run the configurations with recording; returns [(cfg, Rec, outcomes)] and the shared pool"""
    pool = Pool()
    done = []
    install_wrappers()
    try:
        for cfg in cfgs:
            if cfg["name"].startswith("is_json_p/"):
                reset_library_lazy_caches()
            rec_ = Rec(pool)
            _CUR["rec"] = rec_
            try:
                outs = _h_run_config(cfg, xs_of(cfg), rec_)
            finally:
                _CUR["rec"] = None
            done.append((cfg, rec_, outs))
    finally:
        uninstall_wrappers()
        reset_library_lazy_caches()
    return done, pool


def correspondence(payload):
    mism = fingerprint_mismatches()
    cfgs = [c for c in configs() if "analysed_before_first_call" not in c["name"] and "beyond_small_bounds" not in c["name"] and "library_composite_frames" not in c["name"] and "/history/" not in c["name"]] + JSON_CONFIGS   # (those run library functions whose frames the model does not have: search only)
    rng = rng_of(payload)
    more = payload.get("tier") == "thorough" or payload.get("deep")
    xs_model = XS_MODEL + [random_nested(rng, ["a", "b", 1, None], 3, 3) for _ in range(30 if more else 4)]
    evaluations, nontrivial, samples, skipped = 0, 0, [], []
    probes_total, calls_total, events_total = 0, 0, 0
    per_kind = {}
    for part in chunks(cfgs, 30):
        done, pool = record_configs(part, lambda c: JSON_MODEL if c["name"].startswith("is_json_p/") else xs_model)
        dict_table = {}
        probe_items, probe_desc, call_lists, call_desc = [], [], [], []
        for cfg, r, outs in done:
            events_total += r.events
            for e in r.shape_errors:
                mism.append({"config": cfg["name"], **{k: repr(v) for k, v in e.items()}})
            if r.unencodable or r.alias:
                skipped.append({"config": cfg["name"], "why": r.unencodable or "two lazy_p objects with one name"})
                continue
            if len(outs) != len(r.calls):
                mism.append({"config": cfg["name"], "what": "harness: number of snapshots differs from number of recorded calls"})
                continue
            for k, v in r.dicts.items():
                if dict_table.setdefault(k, v) != v:
                    skipped.append({"config": cfg["name"], "why": "dict table conflict"})
            for (fi, ntxt, sid), exp in r.probes.items():
                probe_items.append(f"({fi}%nat, {ntxt}, st{sid}, {exp})")
                probe_desc.append((cfg["name"], ["find_this_predicate", "find_root_predicate", "find_predicate_by_ref"][fi], ntxt, sid, exp))
            nontrivial += len(r.nontrivial)
            call_lists.append("[" + "; ".join(f"({h}, st{sid}, {p}, {v})" for h, sid, p, v, _t in r.calls) + "]")
            call_desc.append((cfg, outs))
            kind = cfg["name"].split("/")[0]
            per_kind[kind] = per_kind.get(kind, 0) + 1
            samples += r.samples
        text = (enc.CASE_HEADER + world_with_dict_values(dict_table) + DEFS + pool.text()
                + "\nDefinition probes : list (nat * pred * stack * option obj) := [\n" + ";\n".join(probe_items) + "].\n"
                + "Definition histories : list (list (frame * stack * pred * val)) := [\n" + ";\n".join(call_lists) + "].\n"
                + f"Eval vm_compute in (map probe probes ++ [7%nat] ++ List.concat (map (fun h => map rcode (run_calls W0 {FUEL}%nat [] h)) histories)).\n")
        res = vlib.parse_nat_list(vlib.coq_eval("c16", text))
        cut = res.index(7)
        pc, cc = res[:cut], res[cut + 1:]
        if len(pc) != len(probe_items) or len(cc) != sum(len(o) for _c, o in call_desc):
            raise vlib.Broken("correspondence", "c16: unexpected number of results from the case file")
        for i, c in enumerate(pc):
            if c != 0:
                d = probe_desc[i]
                mism.append({"config": d[0], "finder": d[1], "node": d[2], "implementation_chose": d[4],
                             "what": "the model's resolver chooses another binding on the dumped frame chain", "stack": f"st{d[3]}"})
        j = 0
        for cfg, outs in call_desc:
            for tag, xv, outcome in outs:
                if cc[j] != code_of(outcome):
                    mism.append({"config": cfg["name"], "call": tag, "x": repr(xv), "implementation": repr(outcome),
                                 "model_code": cc[j], "codes": "0 False, 1 True, 2 ValueError, 3 other exception, 4 out of fuel, 5 outside fragment"})
                j += 1
        probes_total += len(pc)
        calls_total += len(cc)
        evaluations += len(pc) + len(cc)
    return {"evaluations": evaluations, "distinct_nontrivial": nontrivial,
            "rule": "scope configurations (sibling predicates before/after, another self-referential predicate in the same function with both "
                    "orders of first call, larger predicates, nested functions, module/class/method scope, helper and thunk chains of depth 1-5, "
                    "helpers living in another module, predicates escaping their scope, is_json_p from 7 kinds of caller) x this_p/root_p/lazy_p, "
                    "executed for real; at every call site and every real resolution the real frame chain is dumped and all three real finders "
                    "are run on it for every reference node / a list of names, and compared with the model's find_this/find_root/find_by_ref on "
                    "the dump (probes); every call is replayed on the model's evaluator from the dumped caller stack (calls). "
                    "distinct = distinct (finder, node, dumped stack); non-trivial = the stack offers at least two predicate-valued locals "
                    "containing reference nodes, or one and the finder returned None",
            "configurations": len(cfgs), "per_kind": per_kind, "probes": probes_total, "calls_replayed_on_model": calls_total,
            "real_resolutions_dumped": events_total, "skipped": skipped, "fingerprinted_units": sum(len(v) for v in UNITS.values()),
            "samples": samples[:3], "mismatches_total": len(mism),
            "mismatches": [m for m in mism if "fingerprint" in m][:4] + [m for m in mism if "fingerprint" not in m][:10]}


# ------------------------------------------------------------------------------------------------------------------
# search (implementation only)
# ------------------------------------------------------------------------------------------------------------------
D10_SCRIPT = '''import types
m = types.ModuleType("user_module")
exec("from predicate.standard_predicates import is_json_p\\ndef check(v):\\n    return is_json_p(v)\\n", m.__dict__)
for v in ([1, "two", 3.0], {"a": [1]}, {"a": {"b": 2}}):
    try:
        print(repr(v), "->", m.check(v))
    except ValueError as e:
        print(repr(v), "-> ValueError:", e)
'''

def run_script(src: str) -> str:
    p = subprocess.run([sys.executable, "-c", src], env=vlib.ENV, text=True, stdout=subprocess.PIPE, stderr=subprocess.STDOUT, timeout=600)
    return p.stdout.strip()


def search(payload):
    rng = rng_of(payload)
    deep = payload.get("deep") or payload.get("tier") == "thorough"
    leaves = ["a", 1]
    base = nested_lists(leaves, 2, 2) + [None, [None], ["a", [None]]]
    full = nested_lists(leaves, 2, 3)
    fails, n, samples = [], 0, []
    cfgs = configs()
    for ci, cfg in enumerate(cfgs):
        xs = list(full if (deep or cfg["name"].endswith("/alone") or "other_recursive" in cfg["name"]) else base)
        xs += [random_nested(rng, leaves + [None, 2.5], 3, 3) for _ in range(1500 if deep else 150)]
        if cfg["name"].endswith("evaluation_that_raised_then_repeated_after_the_datum_was_repaired"):
            xs = [[5], [10, [20]], [3], [4, [25, [50]]], 5, 3, [], [[2], [7]]]
        if "library_composite_frames" in cfg["name"]:
            xs = [[1, [2]], [1], [[1]], 1, ["a"], [1, ["a"]], [], [[], [3, [4]]]]        # NOT shuffled below would be better: the first call decides what is cached
        if "beyond_small_bounds" in cfg["name"]:
            xs = [["a"], [1], "a", ["a", ["b"]], ["a", [2]], [], [["a", []], "b"], [[1]]]
        if cfg["name"].endswith("deeply_nested_values"):
            xs = [["a"], [1]] + [wrap(leaf, d) for d in (10, 40, 64, 65, 66, 70, 80) for leaf in ("a", 1, ["a", "b"], ["a", 1])]
        # the first calls decide what is cached: shuffle them per configuration
        rng.shuffle(xs)
        outs = _h_run_config(cfg, xs)
        for tag, xv, outcome in outs:
            expr = cfg["oracles"].get(tag)
            if expr is None:
                continue
            n += 1
            exp = oracle_outcome(expr, xv)
            if not agrees(outcome, exp):
                fails.append({"config": cfg["name"], "predicate": tag, "x": repr(xv), "implementation": repr(outcome), "expected": repr(exp),
                              "source": "\n".join(s for _m, s in cfg["mods"]), "note": cfg.get("note", "")})
        if ci % 17 == 0 and outs:
            samples.append({"config": cfg["name"], "x": repr(outs[0][1]), "outcome": repr(outs[0][2])})
    # is_json_p from every kind of caller, each starting from never-resolved lazy nodes
    jx = list(JSON_MODEL) + [{"a": {"b": [1, {"c": None}]}}, [[[]]], {"k": object}, {"a": True}, {"": 0.5}] + [random_json(rng, 3) for _ in range(2000 if deep else 300)]
    json_failed = False
    for cfg in JSON_CONFIGS:
        reset_library_lazy_caches()
        outs = _h_run_config(cfg, jx)
        first = None
        for tag, xv, outcome in outs:
            n += 1
            exp = ("ok", is_json(xv))
            if outcome == exp:
                continue
            if first is None:
                first = {"config": cfg["name"], "predicate": tag, "x": repr(xv), "implementation": repr(outcome), "expected": repr(exp),
                         "note": cfg.get("note", ""), "source": "\n".join(s for _m, s in cfg["mods"]), "wrong_answers_in_this_configuration": 0}
            first["wrong_answers_in_this_configuration"] += 1
        if first:
            json_failed = json_failed or first["implementation"] == repr(("raise", "ValueError"))
            fails.append(first)
    reset_library_lazy_caches()
    fails.sort(key=lambda d: (0 if "True" in d["expected"] else 1, len(d["x"])))
    seen, uniq = set(), []
    for d in fails:
        if (d["config"], d["predicate"]) not in seen:     # one witness per configuration and predicate
            seen.add((d["config"], d["predicate"]))
            uniq.append(d)
    for d in uniq[:12]:       # the same input as the FIRST call of a fresh run of the configuration
        cfg = next(c for c in cfgs + JSON_CONFIGS if c["name"] == d["config"])
        try:
            reset_library_lazy_caches()
            alone = [o for t, _x, o in _h_run_config(cfg, [eval(d["x"], {})]) if t == d["predicate"]]  # noqa: S307
            d["as_first_call_of_a_fresh_run"] = repr(alone[-1]) if alone else None
        except Exception:  # noqa: BLE001
            d["as_first_call_of_a_fresh_run"] = "not re-runnable from its repr"
    reset_library_lazy_caches()
    if json_failed:     # the D10 witness, literally, in a fresh interpreter
        for d in uniq:
            if d["config"].startswith("is_json_p/"):
                d["fresh_interpreter_script"] = D10_SCRIPT
                d["fresh_interpreter_output"] = run_script(D10_SCRIPT)
                break
    # scripts run DIRECTLY (`python -c`): the module frame is the outermost frame of the interpreter (no harness frames below it)
    for k in "TRL":
        ref = REF[k]("P")
        src = ("from predicate import *\n"
               f"P = is_str_p | is_list_of_p({ref})\n"
               "def check(v):\n    try:\n        return P(v)\n    except Exception as e:\n        return type(e).__name__\n"
               "for v in (['a'], [1], 'a', ['a', ['b']], ['a', [2]], []):\n"
               "    try:\n        r = P(v)\n    except Exception as e:\n        r = type(e).__name__\n"
               "    print(repr(v), r, check(v))\n")
        want = "\n".join(f"{v!r} {rec(is_str)(v)} {rec(is_str)(v)}" for v in (["a"], [1], "a", ["a", ["b"]], ["a", [2]], []))
        n += 12
        got = run_script(src)
        if got != want:
            uniq.append({"config": f"{KIND_NAME[k]}/module_level_of_a_script_run_directly", "predicate": "P", "x": "['a'], [1], 'a', ['a', ['b']], ['a', [2]], []",
                         "implementation": got[-600:], "expected": want, "source": src,
                         "note": "columns: value, P(v) at module level, P(v) from a function of the script"})
    return {"evaluations": n, "failures": uniq[:12], "known_hits": [],
            "configurations": len(cfgs) + len(JSON_CONFIGS), "failing_configurations": sorted({f["config"] for f in fails}),
            "samples": samples[:4]}


def replay(payload):
    f = payload["replay"].get("input") or {}
    name = f.get("config")
    for cfg in configs() + JSON_CONFIGS:
        if cfg["name"] == name:
            try:
                x = eval(f["x"], {"object": object})  # noqa: S307 - reprs written by this plugin
            except Exception:  # noqa: BLE001
                return {"fails": True, "note": "input not re-readable from its repr; re-run ./check C16", "input": f}
            reset_library_lazy_caches()
            outs = _h_run_config(cfg, [x])
            reset_library_lazy_caches()
            res = []
            for tag, xx, outcome in outs:
                expr = cfg["oracles"].get(tag)
                if expr:
                    exp = oracle_outcome(expr, xx)
                    res.append({"predicate": tag, "implementation": repr(outcome), "expected": repr(exp), "fails": not agrees(outcome, exp)})
            return {"fails": any(r["fails"] for r in res), "config": name, "x": f["x"], "results": res}
    return {"fails": True, "note": "unknown configuration; re-run ./check C16", "input": f}


if __name__ == "__main__" and len(sys.argv) > 1 and sys.argv[1] == "fingerprint":
    write_fingerprints()
    print("written", FP_FILE)
    sys.exit(0)

main({"correspondence": correspondence, "search": search, "replay": replay})
