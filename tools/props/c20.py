"""C20 — the CLI prints the truth table / JSON of the expression it was given.

correspondence: coq/Lemmas/Cli.v (`cli_table`, `cli_json`: parse result -> regenerated optimizer -> TTModel / ToJson ->
                main.py's formatting, the last part HAND-WRITTEN) is executed (vm_compute) next to the real commands,
                run in-process through typer's CliRunner on main.py's `app`:
                  every token string up to a bound over {p, q, r, true, false, ~, &, |, ^, (, )} that is in the
                  language, a seeded sample of longer ones (up to 9 tokens, some with long / upper-case / prefix names and
                  random spacing) and a sample of strings outside the language, each x {table, json} x {-o on, off}.
                  The tree handed to the model is the implementation's own parse_expression result (text -> tree is
                  C14's business); compared: stdout line by line (table) / the decoded JSON document member by member
                  (json), "rejected" (nothing on stdout) and "error".  A few cases are also run as a subprocess
                  (python main.py ...) and compared with the in-process observation (stdout, stderr, exit status).
                plus a fingerprint of main.py's json/table/failed_to_pass/expression_to_predicate (ast-normalised)
                against tools/props/fingerprints/c20.json.
search:         the property's text on the implementation alone with an oracle that never touches the library: an
                independent recursive-descent reader of the token string (| loosest; & and ^ tighter; ~ tightest; where
                & and ^ are mixed without parentheses EVERY bracketing of that chain is admissible) evaluated by plain
                recursion under itertools.product assignments.  Checked: header = sorted distinct names, 2^n rows in
                ascending binary order, last column = an admissible value of the expression; json = same token order and
                an admissible function; with -o: the printed table / JSON is a function of the variables it mentions
                that agrees with the expression under EVERY assignment of all the expression's variables; text outside
                the language: nothing on stdout and (message on stderr, exit 0) or (a lark parse error, exit 1)."""
import ast
import difflib
import importlib.util
import itertools
import json
import os
import re
import subprocess
import sys

from common import HERE, chunks, enc, main, rng_of, vlib

import lark
from typer.testing import CliRunner

from predicate import predicate as PP
from predicate.named_predicate import NamedPredicate
from predicate.parser import parse_expression

import optcommon as oc
from c18 import Cx, cstr, jterm

FP_PATH = os.path.join(HERE, "fingerprints", "c20.json")
MAIN_PATH = os.path.join(vlib.REPO, "main.py")
MODELLED_FUNCS = ("json", "table", "failed_to_pass", "expression_to_predicate")

_spec = importlib.util.spec_from_file_location("pp_cli_main", MAIN_PATH)
MAIN = importlib.util.module_from_spec(_spec)
_spec.loader.exec_module(MAIN)
RUNNER = CliRunner()

TOKENS = ["p", "q", "r", "true", "false", "~", "&", "|", "^", "(", ")"]
BINOPS = ("&", "|", "^")


# ------------------------------------------------------------------------------------------------------------------
# fingerprint of the hand-modelled part of main.py
# ------------------------------------------------------------------------------------------------------------------
def current_fingerprint():
    tree = ast.parse(open(MAIN_PATH, encoding="utf-8").read())
    funcs = {}
    for node in tree.body:
        if isinstance(node, ast.FunctionDef) and node.name in MODELLED_FUNCS:
            funcs[node.name] = ast.unparse(node)
    imports = [ast.unparse(n) for n in tree.body if isinstance(n, (ast.Import, ast.ImportFrom))]
    return {"file": "main.py", "functions": funcs, "imports": imports}


def fingerprint_mismatches():
    cur = current_fingerprint()
    if not os.path.exists(FP_PATH):
        return [{"fingerprint": "tools/props/fingerprints/c20.json is missing"}]
    old = json.load(open(FP_PATH))
    out = []
    for name in MODELLED_FUNCS:
        a, b = old.get("functions", {}).get(name, ""), cur["functions"].get(name, "")
        if a != b:
            diff = list(difflib.unified_diff(a.splitlines(), b.splitlines(), "modelled", "current", lineterm="", n=1))
            out.append({"fingerprint": f"main.py::{name} changed since Lemmas/Cli.v was written: the hand-written model may no longer describe it",
                        "diff": "\n".join(diff[:40])})
    if old.get("imports") != cur["imports"]:
        out.append({"fingerprint": "main.py's imports changed (another optimize / truth_table / to_json may be bound)",
                    "modelled": old.get("imports"), "current": cur["imports"]})
    return out


def write_fingerprint(_payload):
    os.makedirs(os.path.dirname(FP_PATH), exist_ok=True)
    json.dump(current_fingerprint(), open(FP_PATH, "w"), indent=1)
    return {"written": FP_PATH}


# ------------------------------------------------------------------------------------------------------------------
# the oracle: an independent reader of token strings
# ------------------------------------------------------------------------------------------------------------------
class NotInLanguage(Exception):
    pass


def is_name(tok):
    return tok.isalpha() and tok.isascii() and tok not in ("true", "false")


def read(tokens):
    """tokens -> AST: ("var", n) | ("true",) | ("false",) | ("not", a) | ("or", [a..]) | ("chain", [a..], [ops..])"""
    pos = [0]

    def peek():
        return tokens[pos[0]] if pos[0] < len(tokens) else None

    def take():
        pos[0] += 1
        return tokens[pos[0] - 1]

    def atom():
        t = peek()
        if t is None:
            raise NotInLanguage
        if t == "(":
            take()
            e = disj()
            if peek() != ")":
                raise NotInLanguage
            take()
            return ("group", e)
        if t == "true":
            take()
            return ("true",)
        if t == "false":
            take()
            return ("false",)
        if is_name(t):
            take()
            return ("var", t)
        raise NotInLanguage

    def unary():
        if peek() == "~":
            take()
            return ("not", unary())
        return atom()

    def chain():
        items, ops = [unary()], []
        while peek() in ("&", "^"):
            ops.append(take())
            items.append(unary())
        return items[0] if not ops else ("chain", items, ops)

    def disj():
        items = [chain()]
        while peek() == "|":
            take()
            items.append(chain())
        return items[0] if len(items) == 1 else ("or", items)

    e = disj()
    if pos[0] != len(tokens):
        raise NotInLanguage
    return e


def names_in(tokens):
    return sorted({t for t in tokens if is_name(t)})


def functions(e, assignments):
    """the set of admissible truth functions of e: each a tuple of bools, one per assignment"""
    k = e[0]
    if k == "var":
        return {tuple(a[e[1]] for a in assignments)}
    if k == "true":
        return {tuple(True for _ in assignments)}
    if k == "false":
        return {tuple(False for _ in assignments)}
    if k == "group":
        return functions(e[1], assignments)
    if k == "not":
        return {tuple(not v for v in f) for f in functions(e[1], assignments)}
    if k == "or":
        out = functions(e[1][0], assignments)
        for item in e[1][1:]:
            out = {tuple(x or y for x, y in zip(f, g)) for f in out for g in functions(item, assignments)}
        return out
    if k == "chain":
        items = [functions(i, assignments) for i in e[1]]
        ops = e[2]

        def brackets(lo, hi):  # every bracketing of items[lo..hi]
            if lo == hi:
                return items[lo]
            out = set()
            for m in range(lo, hi):
                for f in brackets(lo, m):
                    for g in brackets(m + 1, hi):
                        out.add(tuple((x and y) if ops[m] == "&" else (x != y) for x, y in zip(f, g)))
            return out
        return brackets(0, len(items) - 1)
    raise AssertionError(k)


def all_assignments(names):
    return [dict(zip(names, bits)) for bits in itertools.product((False, True), repeat=len(names))]


def spaced(tokens, rng=None):
    """the text of a token list: a separator is needed only between two words; otherwise seeded optional spaces"""
    out = []
    for i, t in enumerate(tokens):
        if i:
            if tokens[i - 1].isalpha() and t.isalpha():
                out.append(" " * (1 if rng is None else rng.choice((1, 1, 2))))
            elif rng is None:
                out.append(" " if (t in BINOPS or tokens[i - 1] in BINOPS) else "")
            else:
                out.append(" " * rng.choice((0, 0, 1, 1, 2)))
        out.append(t)
    return "".join(out)


# ------------------------------------------------------------------------------------------------------------------
# running the real commands
# ------------------------------------------------------------------------------------------------------------------
def run_cli(cmd, text, opt):
    args = [cmd, text] + (["-o"] if opt else [])
    res = RUNNER.invoke(MAIN.app, args)
    exc = res.exception
    if isinstance(exc, SystemExit):
        exc = None
    return {"stdout": res.stdout, "stderr": res.stderr, "exit": res.exit_code,
            "exc": (type(exc).__name__ if exc is not None else None),
            "lark": isinstance(exc, lark.exceptions.LarkError)}


def run_subprocess(cmd, text, opt):
    env = dict(os.environ, PYTHONPATH=vlib.REPO, PYTHONHASHSEED="0")
    r = subprocess.run([sys.executable, MAIN_PATH, cmd, text] + (["-o"] if opt else []), capture_output=True, text=True,
                       env=env, timeout=900, check=False)
    return {"stdout": r.stdout, "stderr": r.stderr, "exit": r.returncode}


def impl_parse(text):
    try:
        p = parse_expression(text)
    except Exception as e:  # noqa: BLE001
        return ("raise", type(e).__name__)
    return ("none", None) if p is None else ("tree", p)


# ------------------------------------------------------------------------------------------------------------------
# the expression space
# ------------------------------------------------------------------------------------------------------------------
def in_language(tokens):
    try:
        read(tokens)
        return True
    except NotInLanguage:
        return False


def well_formed_upto(n, tokens=TOKENS):
    out = []
    for k in range(1, n + 1):
        for ts in itertools.product(tokens, repeat=k):
            if in_language(list(ts)):
                out.append(list(ts))
    return out


def random_expr(rng, size, names):
    """a random token list in the language with about `size` tokens"""
    if size <= 1:
        return [rng.choice(names + names + ["true", "false"])]
    r = rng.random()
    if r < 0.2:
        return ["~"] + random_expr(rng, size - 1, names)
    if r < 0.4 and size >= 3:
        return ["("] + random_expr(rng, size - 2, names) + [")"]
    k = rng.randrange(1, max(2, size - 1))
    return random_expr(rng, k, names) + [rng.choice(BINOPS)] + random_expr(rng, max(1, size - 1 - k), names)


def xor_family():
    atoms = [["p"], ["q"], ["~", "p"], ["~", "q"]]
    fam = []
    for a, b, c in itertools.product(atoms, repeat=3):
        for op in ("&", "|"):
            fam.append(a + ["^", "("] + b + [op] + c + [")"])
            fam.append(["("] + b + [op] + c + [")", "^"] + a)
    return fam


def andor_family():
    """l1 & l2 | l3 & l4 over the literals of p, q, r (no parentheses needed: & binds tighter than |)"""
    lits = [["p"], ["q"], ["r"], ["~", "p"], ["~", "q"], ["~", "r"]]
    return [a + ["&"] + b + ["|"] + c + ["&"] + d for a, b, c, d in itertools.product(lits, repeat=4)]


def xorpair_family():
    """(l1 ^ l2) op (l3 ^ l4) and ~((l1 ^ l2) op l3) over the literals of a, b (op in &, |)"""
    lits = [["a"], ["b"], ["~", "a"], ["~", "b"]]
    out = []
    for x, y, z, w in itertools.product(lits, repeat=4):
        for op in ("&", "|"):
            out.append(["("] + x + ["^"] + y + [")", op, "("] + z + ["^"] + w + [")"])
    for x, y, z in itertools.product(lits, repeat=3):
        for op in ("&", "|"):
            out.append(["~", "(", "("] + x + ["^"] + y + [")", op] + z + [")"])
    return out


def full_family():
    """the deterministic input family of C20: every in-language token string up to 5 tokens over {p,q,r,true,false,~,&,|,^,(,)},
    the 256 xor shapes x ^ (y op z) / (y op z) ^ x over p, q, ~p, ~q, the 1296 disjunctions of two conjunctions of literals of p, q, r, and the 640
    conjunctions / disjunctions of two xors of literals of a, b (and their negated forms)"""
    return well_formed_upto(5) + xor_family() + andor_family() + xorpair_family()


NAME_SETS = [["p", "q", "r"], ["foo", "Bar", "a"], ["q", "pq", "p", "Z"], ["b", "a", "ab", "B"]]
MALFORMED_EXTRA = [[], ["p", "q"], ["(", ")"], ["p", "&"], ["&", "p"], ["(", "p"], ["p", ")"], ["~"], ["p", "~", "q"], ["p", "&", "&", "q"],
                   ["1"], ["p1"], ["p", "&", "1"], ["p", "=", "q"], ["p", "&&", "q"], ["p", "and", "q"], ["!", "p"], ["p", ";"], ["_x"],
                   ["(", "(", "p", ")"], ["p", "|", ")"], ["true", "false"], ["~", "&"], ["é"]]


def expression_space(payload, for_search=False):
    rng = rng_of(payload)
    thorough = payload.get("tier") == "thorough" or (for_search and payload.get("deep"))
    bound = 5 if thorough else 4
    good = [(ts, spaced(ts)) for ts in well_formed_upto(bound)]
    n_exh = len(good)
    family_keys = {" ".join(ts) for ts, _ in good}
    if not thorough:                                       # a seeded slice of the next length as well
        five = [list(ts) for ts in itertools.product(TOKENS, repeat=5) if in_language(list(ts))]
        good += [(ts, spaced(ts, rng)) for ts in rng.sample(five, 250)]
    for _ in range(2500 if thorough else 350):
        names = rng.choice(NAME_SETS)
        ts = random_expr(rng, rng.randrange(5, 10), names)
        good.append((ts, spaced(ts, rng)))
    # the operand shapes of the xor rules (x ^ (y op z) and mirrored), where the optimizer's known findings live
    fam = xor_family()
    ao = andor_family()
    xp = xorpair_family()
    picked = (fam + ao + xp) if thorough else (rng.sample(fam, 60) + rng.sample(ao, 160) + rng.sample(xp, 90))
    good += [(ts, spaced(ts)) for ts in picked]
    family_keys |= {" ".join(ts) for ts in picked}
    # beyond the small bounds (not part of the listed family; judged by the independent reader like everything else)
    la, lb, lc = "engineTemperatureWithinNominalOperatingRange", "coolantPressureWithinNominalOperatingRange", "manualOverrideEngagedByOperator"
    big = [[la, "&", lb, "^", lc], [la, "^", lb, "&", lc], [la, "&", lb, "|", lc, "^", la], ["~", la, "&", "(", lb, "|", lc, ")"], [la, "|", lb, "&", "~", lc]]
    nine = list("abcdefghij")
    for k in (9, 10) if thorough else (9,):
        for op in ("^", "|", "&"):
            ts = []
            for i in range(k):
                ts += ([op] if i else []) + [nine[i]]
            big.append(ts)
    for k in (8, 9):
        base = []
        for i in range(k - 1):
            base += (["|"] if i else []) + [nine[i]]
        big += [base + ["|", "a", "&", nine[k - 1]], base + ["|", nine[k - 1], "&", "b"], ["~", "a", "|"] + base[2:] + ["|", nine[k - 1]]]
        conj = []
        for i in range(k - 1):
            conj += (["&"] if i else []) + [nine[i]]
        big += [conj + ["&", "(", "a", "|", nine[k - 1], ")"], ["("] + conj + [")", "&", "("] + conj + ["&", nine[k - 1], ")"]]
    good += [(ts, spaced(ts)) for ts in big]
    bad = []
    pool = [list(ts) for k in range(1, 5) for ts in itertools.product(TOKENS, repeat=k) if not in_language(list(ts))]
    bad += [ts for ts in pool if len(ts) <= 2]
    bad += rng.sample([ts for ts in pool if len(ts) > 2], 1500 if thorough else 250)
    bad += MALFORMED_EXTRA
    bad = [(ts, spaced(ts) if all(t in TOKENS for t in ts) else " ".join(ts)) for ts in bad]
    return good, bad, {"exhaustive_token_bound": bound, "exhaustive_in_language": n_exh, "family_keys": family_keys}


CONFIGS = [("table", False), ("table", True), ("json", False), ("json", True)]


# ------------------------------------------------------------------------------------------------------------------
# correspondence
# ------------------------------------------------------------------------------------------------------------------
CASE_HEADER = """From Coq Require Import QArith Bool List Arith String ZArith.
From PP Require Import Prelude.Base Prelude.Val Prelude.Pred Prelude.Sem Prelude.Corr Gen.Negate Gen.Implies Gen.Optimize
  Lemmas.TTModel Lemmas.ToJson Lemmas.Cli.
Import ListNotations.
Open Scope Q_scope.
"""
RUN_DEF = """
Inductive expect := ETable (l : list string) | EJson (j : json) | ERejected | EError.
Fixpoint lines_eqb (a b : list string) : bool :=
  match a, b with
  | [], [] => true
  | x :: a', y :: b' => String.eqb x y && lines_eqb a' b'
  | _, _ => false
  end.
Definition fname0 (f : nat) : string := ""%string.
Definition s00 : store := fun _ => false.
Definition run (c : option pred * bool * bool * expect) : list nat :=
  let '(parsed, opt, is_table, expected) := c in
  let tr := match expression_to_predicate W0 parsed opt with RPred _ tr => tr | _ => [] end in
  (if is_table then
     match cli_table W0 parsed opt s00, expected with
     | Stdout m, ETable l => if lines_eqb l m then 0 else 1
     | CouldNotParse, ERejected => 0
     | Error _, EError => 0
     | _, _ => 1
     end
   else
     match cli_json W0 fname0 parsed opt, expected with
     | JOut k, EJson j => if json_eqb k j then 0 else 1
     | JCouldNotParse, ERejected => 0
     | JError, EError => 0
     | _, _ => 1
     end)%nat :: tr.
"""


def model_rows(items, name):
    out = []
    for part in chunks(items, 500):
        text = (CASE_HEADER + enc.world_text() + RUN_DEF
                + "\nDefinition cases : list (option pred * bool * bool * expect) := [\n" + ";\n".join(part)
                + "].\nEval vm_compute in map run cases.\n")
        o = vlib.coq_eval(name, text)
        m = re.search(r"=\s*\[([\s\S]*)\]\s*:\s*list \(list nat\)", o)
        if not m:
            raise vlib.Broken("correspondence", "could not parse model output", o[-800:])
        rows = re.findall(r"\[([^\[\]]*)\]", m.group(1))
        if len(rows) != len(part):
            raise vlib.Broken("correspondence", f"expected {len(part)} rows, got {len(rows)}")
        for r in rows:
            out.append([int(t.replace("%nat", "")) for t in re.split(r"[;\s]+", r.strip()) if t])
    return out


def expect_term(cmd, obs, cx):
    """what the implementation did, as a term of `expect` (None: cannot be written down)"""
    if obs["exc"] is not None:
        return "EError" if not obs["stdout"] else None
    if obs["stdout"] == "":
        return "ERejected"
    if cmd == "table":
        return "(ETable [" + "; ".join(cstr(l) for l in obs["stdout"].splitlines(keepends=True)) + "])"
    try:
        return f"(EJson {jterm(json.loads(obs['stdout']), cx)})"
    except (ValueError, enc.Unencodable):
        return None


def correspondence(payload):
    rng = rng_of(payload)
    mism = fingerprint_mismatches()
    good, bad, info = expression_space(payload)
    info.pop("family_keys")
    cx = Cx()
    items, meta = [], []
    dist = {"in_language": 0, "rejected_by_parser": 0, "by_tokens": {}, "by_outcome": {}}
    for ts, text in good + bad:
        kind, p = impl_parse(text)
        if kind == "tree":
            try:
                pt = f"(Some {cx.pred(p)})"
            except enc.Unencodable as e:
                mism.append({"text": text, "note": f"parse result is not a propositional term: {e}"})
                continue
            dist["in_language"] += 1
        else:
            pt = "None"
            dist["rejected_by_parser"] += 1
        dist["by_tokens"][str(len(ts))] = dist["by_tokens"].get(str(len(ts)), 0) + 1
        for cmd, opt in CONFIGS:
            obs = run_cli(cmd, text, opt)
            if kind != "tree" and obs["exc"] is not None and not obs["stdout"]:
                exp = "ERejected"                    # the parser raised: rejected (the model's `parsed = None`)
            else:
                exp = expect_term(cmd, obs, cx)
            if exp is None:
                mism.append({"text": text, "cmd": cmd, "optimize": opt, "impl": obs, "note": "stdout written AND an exception / undecodable JSON"})
                continue
            oc_key = exp.split(" ")[0].strip("(")
            dist["by_outcome"][oc_key] = dist["by_outcome"].get(oc_key, 0) + 1
            items.append(f"({pt}, {'true' if opt else 'false'}, {'true' if cmd == 'table' else 'false'}, {exp})")
            meta.append((text, cmd, opt, obs))
    rows = model_rows(items, "c20")
    sites = {}
    for (text, cmd, opt, obs), r in zip(meta, rows):
        if r[0] != 0:
            mism.append({"text": text, "cmd": cmd, "optimize": opt, "impl_stdout": obs["stdout"][:400], "impl_exception": obs["exc"],
                         "note": "the model (Lemmas/Cli.v over the regenerated optimizer) prints something else"})
        for s in r[1:]:
            sites[s] = sites.get(s, 0) + 1
    # the same observation through a real process
    sub_n = 0
    picks = rng.sample(good, 24 if payload.get("tier") == "thorough" else 5) + bad[:2] + [(["p", ")"], "p )")]
    for k, (ts, text) in enumerate(picks):
        cmd, opt = CONFIGS[k % 4]
        a, b = run_cli(cmd, text, opt), run_subprocess(cmd, text, opt)
        sub_n += 1
        same = a["stdout"] == b["stdout"] and (a["exit"] == 0) == (b["exit"] == 0) and (
            a["stderr"] == b["stderr"] or a["exc"] is not None)
        if not same:
            mism.append({"text": text, "cmd": cmd, "optimize": opt, "in_process": a, "subprocess": b,
                         "note": "CliRunner and `python main.py` disagree"})
    distinct = len({(m[0], m[1], m[2]) for m in meta if m[3]["stdout"].count("\n") >= 3 or (m[1] == "json" and m[3]["stdout"].count("{") >= 3)})
    step = max(1, len(meta) // 5)
    return {"evaluations": len(items), "distinct_nontrivial": distinct, "subprocess_runs": sub_n, "distribution": dist,
            "known_site_hits": {str(k): v for k, v in sorted(sites.items())}, **info,
            "rule": "fingerprint of main.py's four modelled functions; every in-language token string up to the exhaustive bound, a seeded slice "
                    "of the next length, seeded random expressions of 5-9 tokens over four name sets (long, upper-case, prefix names; random "
                    "spacing) and strings outside the language (all of <= 2 tokens, a seeded sample of 3-4 tokens, hand-picked ones with foreign "
                    "characters), each under table/json x -o on/off through CliRunner; the model gets the implementation's parse result and "
                    "must print the same lines / the same JSON document; distinct_nontrivial = distinct (text, command, -o) whose output "
                    "has >= 3 lines (table) or >= 3 nested objects (json)",
            "samples": [{"text": meta[k][0], "cmd": meta[k][1], "optimize": meta[k][2], "stdout": meta[k][3]["stdout"][:200]}
                        for k in range(step // 2, len(meta), step)][:5],
            "mismatches": mism[:20]}


# ------------------------------------------------------------------------------------------------------------------
# search: the property's text against the implementation, with the independent oracle
# ------------------------------------------------------------------------------------------------------------------
def decode_json(j):
    """JSON document -> (token order without parentheses, evaluator)"""
    if not isinstance(j, dict) or len(j) != 1:
        raise ValueError(f"not a one-key object: {j!r}")
    (k, v), = j.items()
    if k == "variable":
        return [v], (lambda a, n=v: a[n])
    if k == "true":
        return ["true"], (lambda a: True)
    if k == "false":
        return ["false"], (lambda a: False)
    if k == "not":
        o, f = decode_json(v["predicate"])
        return ["~"] + o, (lambda a, f=f: not f(a))
    if k in ("and", "or", "xor"):
        if list(v.keys()) != ["left", "right"]:
            raise ValueError(f"members of {k}: {list(v.keys())}")
        (lo, lf), (ro, rf) = decode_json(v["left"]), decode_json(v["right"])
        sym = {"and": "&", "or": "|", "xor": "^"}[k]
        fn = {"and": lambda x, y: x and y, "or": lambda x, y: x or y, "xor": lambda x, y: x != y}[k]
        return lo + [sym] + ro, (lambda a, lf=lf, rf=rf, fn=fn: fn(lf(a), rf(a)))
    raise ValueError(f"unknown key {k!r}")


ROW_RE = re.compile(r"^((?:[01] )*[01])?:   ([01])$")


def parse_table(stdout):
    """stdout -> (names, {bits tuple: value}) or raises ValueError describing the malformation"""
    lines = stdout.split("\n")
    if lines[-1] != "":
        raise ValueError("stdout does not end with a newline")
    lines = lines[:-1]
    if not lines:
        raise ValueError("no header line")
    names = lines[0].split(" ") if lines[0] else []
    if names != sorted(set(names)):
        raise ValueError(f"header {names} is not sorted/distinct")
    rows = lines[1:]
    if len(rows) != 2 ** len(names):
        raise ValueError(f"{len(rows)} rows for {len(names)} names")
    table = {}
    for k, line in enumerate(rows):
        m = ROW_RE.match(line)
        if not m:
            raise ValueError(f"row {k} is malformed: {line!r}")
        bits = tuple(b == "1" for b in (m.group(1) or "").split(" ") if b != "")
        if len(bits) != len(names) or sum(int(b) << (len(bits) - 1 - i) for i, b in enumerate(bits)) != k:
            raise ValueError(f"row {k} is not the binary representation of {k}: {line!r}")
        table[bits] = m.group(2) == "1"
    return names, table


def check_in_language(ts, text):
    """None or a description of how the CLI's output for this in-language expression violates the property"""
    e = read(ts)
    names = names_in(ts)
    asg = all_assignments(names)
    admissible = functions(e, asg)
    order = [t for t in ts if t not in ("(", ")")]
    for cmd, opt in CONFIGS:
        obs = run_cli(cmd, text, opt)
        where = {"cmd": cmd, "optimize": opt}
        if obs["exc"] is not None or obs["exit"] != 0:
            return {**where, "what": f"the command failed: exit {obs['exit']}, exception {obs['exc']}", "stderr": obs["stderr"][:200]}
        if obs["stdout"] == "":
            return {**where, "what": "nothing printed for an expression of the language", "stderr": obs["stderr"][:200]}
        if cmd == "table":
            try:
                hdr, table = parse_table(obs["stdout"])
            except ValueError as err:
                return {**where, "what": f"malformed table: {err}", "stdout": obs["stdout"][:300]}
            if not opt and hdr != names:
                return {**where, "what": f"header {hdr}, expected the sorted distinct names {names}", "stdout": obs["stdout"][:300]}
            if not set(hdr) <= set(names):
                return {**where, "what": f"header {hdr} mentions names not in the expression", "stdout": obs["stdout"][:300]}
            printed = tuple(table[tuple(a[n] for n in hdr)] for a in asg)
        else:
            try:
                doc = json.loads(obs["stdout"])
                jorder, f = decode_json(doc)
            except (ValueError, KeyError, TypeError) as err:
                return {**where, "what": f"stdout is not the JSON rendering of a propositional tree: {err}", "stdout": obs["stdout"][:300]}
            if not opt and jorder != order:
                return {**where, "what": f"the JSON tree reads {' '.join(jorder)}, the text reads {' '.join(order)}", "stdout": obs["stdout"][:300]}
            try:
                printed = tuple(bool(f(a)) for a in asg)
            except KeyError as err:
                return {**where, "what": f"the JSON mentions a variable not in the expression: {err}", "stdout": obs["stdout"][:300]}
        if printed not in admissible:
            k = next(i for i in range(len(asg)) if all(g[i] != printed[i] for g in admissible)) if all(
                any(g[i] != printed[i] for i in range(len(asg))) for g in admissible) and any(
                all(g[i] != printed[i] for g in admissible) for i in range(len(asg))) else None
            return {**where, "what": "the printed " + ("table" if cmd == "table" else "JSON") + " is not the Boolean function of the expression",
                    "assignment": (asg[k] if k is not None else None),
                    "expression_value": (sorted({g[k] for g in admissible}) if k is not None else None),
                    "printed_value": (printed[k] if k is not None else None), "stdout": obs["stdout"][:300]}
    return None


def check_not_in_language(text):
    for cmd, opt in CONFIGS:
        obs = run_cli(cmd, text, opt)
        where = {"cmd": cmd, "optimize": opt}
        if obs["stdout"] != "":
            return {**where, "what": "a table/JSON was printed for text outside the language", "stdout": obs["stdout"][:300]}
        if obs["exc"] is None:
            if obs["exit"] != 0 or "Could not parse expression" not in obs["stderr"]:
                return {**where, "what": f"neither the message nor a parse error: exit {obs['exit']}", "stderr": obs["stderr"][:200]}
        elif not obs["lark"]:
            return {**where, "what": f"an exception that is not a parse error: {obs['exc']}"}
    return None


def model_trace(text):
    kind, p = impl_parse(text)
    if kind != "tree":
        return None
    try:
        q = oc.optimize(p)
        return oc.model_run([p], [q], "c20s")[0][1:]
    except Exception:  # noqa: BLE001
        return None


def witness_fails(k):
    w = k.get("witness", {})
    if "assignment" not in w:
        return False
    try:
        ts = re.findall(r"[A-Za-z]+|[~&|^()]", w["expr"])
        return check_in_language(ts, w["expr"]) is not None
    except Exception:  # noqa: BLE001
        return False


def search(payload):
    good, bad, info = expression_space(payload, for_search=True)
    family_keys = info.pop("family_keys")
    listed = oc.load_listed("C20") or {}
    fails, n = [], 0
    for ts, text in good:
        n += 1
        bad_out = check_in_language(ts, text)
        if bad_out is not None:
            fails.append({"text": text, "tokens": ts, **bad_out})
            # listed failing inputs do not count towards the cap (they would hide everything enumerated after them)
            if sum(1 for f in fails if not (f.get("optimize") and " ".join(f["tokens"]) in listed)) >= 60:
                break
    for ts, text in bad:
        n += 1
        bad_out = check_not_in_language(text)
        if bad_out is not None:
            fails.append({"text": text, "tokens": ts, "outside_language": True, **bad_out})
    # HISTORY in this one process: an expression, then a text OUTSIDE the language that differs from it only by blanks (or that was rejected
    # before, asked again; or a table for no variable after a table for three): nothing remembered from the first call may answer the second
    for first, second in (("pq", "p q"), ("p & qr", "p & q r"), ("foo | bar", "fo o | bar"), ("true", "tr ue"), ("~pq", "~p q"), ("p & q", "p & & q"), ("(p | q)", "(p | q"), ("pq", "p q")):
        n += 2
        for cmd, opt in CONFIGS:
            run_cli(cmd, first, opt)
        bad_out = check_not_in_language(second)
        if bad_out is not None:
            fails.append({"text": second, "tokens": second.split(), "outside_language": True, **bad_out,
                          "history": f"in one process: {first!r} (an expression of the language) was handled first, then {second!r}"})
    for first, second in (("a & b & c", "true"), ("a & b & c", "p | ~p"), ("a | b", "false"), ("x ^ y ^ z", "true & true")):
        n += 2
        for cmd, opt in CONFIGS:
            run_cli(cmd, first, opt)
        ts2 = [t for t in second.replace("(", " ( ").replace(")", " ) ").replace("~", " ~ ").split()]
        bad_out = check_in_language(ts2, second)
        if bad_out is not None and not bad_out.get("optimize"):
            fails.append({"text": second, "tokens": ts2, **bad_out, "history": f"in one process: {first!r} was handled first, then {second!r}"})
    # ENVIRONMENT: every environment variable the command line declares for an option (click's `envvar`) is set to "1" in a fresh process
    # WITHOUT the option on the command line: what is printed without -o must stay the expression's own table / rendering
    try:
        import typer as _typer
        cli = _typer.main.get_command(MAIN.app)
        envvars = set()
        for sub in getattr(cli, "commands", {}).values():
            for prm in sub.params:
                ev = getattr(prm, "envvar", None)
                for e_ in ([ev] if isinstance(ev, str) else list(ev or [])):
                    envvars.add(e_)
    except Exception:  # noqa: BLE001
        envvars = set()
    for e_ in sorted(envvars):
        for text in ("a | ~a", "p & p", "a ^ (a | b)"):
            for cmd in ("table", "json"):
                n += 1
                env_ = dict(os.environ, PYTHONPATH=vlib.REPO, PYTHONHASHSEED="0")
                plain = subprocess.run([sys.executable, MAIN_PATH, cmd, text], capture_output=True, text=True, env=env_, timeout=900, check=False).stdout
                withenv = subprocess.run([sys.executable, MAIN_PATH, cmd, text], capture_output=True, text=True, env=dict(env_, **{e_: "1"}), timeout=900, check=False).stdout
                if plain != withenv:
                    fails.append({"text": text, "tokens": text.split(), "cmd": cmd, "optimize": False, "what": f"the output without -o changes when the environment variable {e_}=1 is set",
                                  "stdout": withenv[:300], "stdout_without_the_variable": plain[:300]})
                    break
            else:
                continue
            break
    known = [k for k in vlib.load_known().get("findings", []) if "C20" in k.get("properties", [])]
    known_ids = {k["id"] for k in known}
    new, known_hits = [], []
    for f in fails:
        key = " ".join(f["tokens"])
        if key in family_keys and not f.get("outside_language"):
            # a member of the deterministic family is a known finding only when LISTED (tools/props/listed/C20.json)
            if f.get("optimize") and key in listed and set(listed[key]) <= known_ids:
                known_hits += [{"id": s, "p": f["text"], "listed": True} for s in listed[key]]
            else:
                f["note"] = ("this member of the deterministic input family fails and is not among the failing inputs listed in "
                             "tools/props/listed/C20.json")
                new.append(f)
            continue
        if f.get("optimize") and not f.get("outside_language"):
            if payload.get("model_ok", True):
                tr = model_trace(f["text"])
                f["model_trace"] = tr
                if tr and set(tr) <= known_ids:
                    known_hits += [{"id": s, "p": f["text"]} for s in set(tr)]
                    continue
            else:
                kind, p = impl_parse(f["text"])
                if kind == "tree" and oc.could_be_known(p, "C20"):
                    continue
        new.append(f)
    for k in known:
        if witness_fails(k):
            known_hits.append({"id": k["id"], "p": k["witness"]["expr"], "witness": True})
    return {"evaluations": n * len(CONFIGS), "failures": new[:10], "known_hits": known_hits, **info,
            "samples": [{"text": good[len(good) // 2][1]}, {"text": bad[len(bad) // 2][1], "outside_language": True}]}


def mklisted(_payload):
    """(reviewed tree only) write tools/props/listed/C20.json: the family members whose -o output is wrong, each explained by
    listed findings through the model's taint trace; refuses when one is not"""
    known_ids = {k["id"] for k in vlib.load_known().get("findings", []) if "C20" in k.get("properties", [])}
    out, bad = {}, []
    fam = full_family()
    for ts in fam:
        text = spaced(ts)
        b = check_in_language(ts, text)
        if b is None:
            continue
        tr = model_trace(text) if b.get("optimize") else None
        if tr and set(tr) <= known_ids:
            out[" ".join(ts)] = sorted(set(tr))
        else:
            bad.append({"text": text, **b, "trace": tr})
    if bad:
        return {"refused": True, "unexplained": bad[:10]}
    os.makedirs(oc.LISTED_DIR, exist_ok=True)
    path = os.path.join(oc.LISTED_DIR, "C20.json")
    json.dump({"property": "C20", "family": full_family.__doc__.strip(), "members": len(fam), "failing": dict(sorted(out.items()))},
              open(path, "w"), indent=0)
    return {"written": path, "members": len(fam), "failing": len(out)}


def replay(payload):
    inp = payload["replay"].get("input") or {}
    text = inp.get("text")
    if text is None:
        return {"fails": True, "note": "no expression stored (tie/proof breakage): re-run ./check C20", "input": inp}
    ts = inp.get("tokens") or re.findall(r"[A-Za-z]+|[~&|^()]", text)
    bad_out = check_not_in_language(text) if inp.get("outside_language") else check_in_language(ts, text)
    return {"fails": bad_out is not None, "text": text, "violation": bad_out,
            "note": f"PYTHONPATH={vlib.REPO} /venv/bin/python {MAIN_PATH} {inp.get('cmd', 'table')} '{text}'" + (" -o" if inp.get("optimize") else "")}


if __name__ == "__main__":
    main({"correspondence": correspondence, "search": search, "replay": replay, "fingerprint": write_fingerprint, "mklisted": mklisted})
